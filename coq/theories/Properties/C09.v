(* C09 — Walk lists every entry once, parents first, in protocol path order, true stats.
   Only the property theorems (closed by [exact]) and their [Print Assumptions]; the model is
   Model/Walk.v (fs.go Walk / mkstat / setUnixOpt / SubDirFS transcribed), proofs in Proofs/WalkP.v.

   Reading guide.  [tree] = what the kernel reports below the walked root: every node carries its
   raw lstat record [lrec]; [wf_tree] = names non-empty, without '/', not "." / "..", siblings
   distinct, only directories have children (what a kernel directory guarantees).
   [tree_at t cs r] = following the names cs from the root reaches a node with record r; its path
   is [joinc cs] (names joined with '/'), and cs <> [] excludes the root itself.
   [walk t] = the list of Stat values passed to the callback of fs.Walk(ctx, "", fn), in order. *)
From Coq Require Import List NArith Bool Sorting.Sorted Sorting.Permutation.
From FS Require Import Sx Model.Path Model.Stat Model.Tree Model.Walk Proofs.Lex Proofs.PathP Proofs.WalkP Proofs.WalkHL Proofs.WalkSD Proofs.WalkNest Proofs.WalkNestOrd.
From FS Require Glue.C09G Proofs.WalkNestGlue.
Import ListNotations.
Open Scope N_scope.

(* Strictly ascending in the order the protocol uses (fsutil.ComparePath: separator sorts before
   every other byte), every pair — so  a < a/x < a-b  although '-' < '/'. *)
Theorem walk_sorted :
  forall t, wf_tree t -> StronglySorted (fun p q => compare_path p q = Lt) (map st_path (walk t)).
Proof. exact walk_sorted_proof. Qed.

(* Exactly the paths of the nodes other than the root, each once. *)
Theorem walk_complete_once :
  forall t, wf_tree t ->
    (forall p, In p (map st_path (walk t)) <->
               exists cs r, cs <> [] /\ p = joinc cs /\ tree_at t cs r)
    /\ NoDup (map st_path (walk t)).
Proof. exact walk_complete_once_proof. Qed.

(* Never the root, and every reported path is a clean relative path that is not ".", ".." or below
   "..": exactly the lexical conditions the stream validator (C12 ok_path) demands. *)
Theorem walk_paths_clean :
  forall t, wf_tree t ->
  forall p, In p (map st_path (walk t)) ->
    p <> [] /\ p <> s_dot /\ p <> s_dotdot /\ has_prefix s_dotdotsep p = false /\
    clean p = p /\ is_abs p = false.
Proof. exact walk_paths_clean_proof. Qed.

(* Each directory before its contents: the entry of a node below a non-root directory cs is
   preceded by the entry of cs.  (Corollary of the two theorems above.) *)
Theorem walk_parent_first :
  forall t, wf_tree t ->
  forall cs n r, cs <> [] -> tree_at t (cs ++ [n]) r ->
  exists pre st post, walk t = pre ++ st :: post /\ st_path st = joinc (cs ++ [n])
                      /\ In (joinc cs) (map st_path pre).
Proof. exact walk_parent_first_proof. Qed.

(* True stats.  The Stat reported for the node at cs is a function of that node's lstat record:
   Go mode bits of st_mode with the socket type bit cleared, owner, size (0 for directories),
   mtime, xattrs (minus keys starting with com.apple.), device numbers by the repo's major()/minor() under the
   repo's bit test, Linkname = readlink for symlinks and "" for directories.  (This holds by
   construction of the model — the model's mkstat IS the transcription of stat.go; what ties it
   to lstat(2) of the real entry is the correspondence run against the independent snapshot.)
   The only field that depends on other entries, Linkname of a non-symlink non-directory, is the
   subject of walk_hardlinks. *)
Theorem walk_stat :
  forall t, wf_tree t ->
  forall st, In st (walk t) ->
  forall cs r, cs <> [] -> tree_at t cs r -> st_path st = joinc cs ->
    st_mode st = N.ldiff (go_mode (l_mode r)) ModeSocket /\
    st_uid st = l_uid r /\ st_gid st = l_gid r /\
    st_size st = (if is_dir r then 0 else l_size r) /\
    st_mtime st = l_mtime r /\
    st_xattrs st = load_xattr (l_xattrs r) /\
    st_devmajor st = (if is_dir r then 0 else
                      if negb (N.eqb (N.land (l_mode r) S_IFBLK) 0) || negb (N.eqb (N.land (l_mode r) S_IFCHR) 0)
                      then major (l_rdev r) else 0) /\
    st_devminor st = (if is_dir r then 0 else
                      if negb (N.eqb (N.land (l_mode r) S_IFBLK) 0) || negb (N.eqb (N.land (l_mode r) S_IFCHR) 0)
                      then minor (l_rdev r) else 0) /\
    (is_dir r = true -> st_linkname st = []) /\
    (is_dir r = false -> is_symlink r = true -> st_linkname st = l_target r).
Proof. exact walk_stat_proof. Qed.

(* Hard links.  For every reported non-directory at cs there is a node cs0 — a non-directory with
   the same inode, least in path order among all of those — such that the entry is reported with
   empty Linkname if it is cs0 itself and with Linkname = path of cs0 otherwise (for a symlink the
   readlink target is reported instead, as in the code).  In particular the first of a group of
   regular files sharing an inode is reported as the file, every later one as a link naming the
   first, and entries with different inodes never name each other.
   Hypotheses a faithful model forces:
   [ino_consistent]: two different non-directory names of one inode number both have st_nlink > 1
                     (st_nlink counts all names; true for a tree that does not change);
   [one_fs]:         equal inode numbers below the root mean equal devices.  The code keys its
                     seenFiles map by st_ino alone, so WITHOUT this hypothesis the statement is
                     false: walk_hardlinks_cross_device_refuted below, replayed on the real code. *)
Theorem walk_hardlinks :
  forall t, wf_tree t -> one_fs t -> ino_consistent t ->
  forall st, In st (walk t) ->
  forall cs r, cs <> [] -> tree_at t cs r -> st_path st = joinc cs -> is_dir r = false ->
  exists cs0 r0,
    cs0 <> [] /\ tree_at t cs0 r0 /\ is_dir r0 = false /\ l_ino r0 = l_ino r /\ l_dev r0 = l_dev r /\
    (forall cs1 r1, cs1 <> [] -> tree_at t cs1 r1 -> is_dir r1 = false -> l_ino r1 = l_ino r ->
                    cs1 = cs0 \/ compare_path (joinc cs0) (joinc cs1) = Lt) /\
    st_linkname st = (if is_symlink r then l_target r
                      else if bytes_eqb (joinc cs0) (joinc cs) then [] else joinc cs0).
Proof. exact walk_hardlinks_proof. Qed.

(* The full statement (no [one_fs]) is FALSE of the model: there is a well-formed tree with
   consistent link counts in which a regular file is reported as a hard link to a file on ANOTHER
   device (two devices below the root, e.g. mount points, each holding an inode number 2 with two
   names; [WalkP.t_xdev]).  Replayed on the real fs.Walk over two tmpfs mounts: m2/f is reported
   with Linkname "m1/f" (kind 0903, corpus/C09/cross-device.witness). *)
Theorem walk_hardlinks_cross_device_refuted :
  exists t, wf_tree t /\ ino_consistent t /\
    exists st cs r cs0 r0,
      In st (walk t) /\ cs <> [] /\ tree_at t cs r /\ st_path st = joinc cs /\
      is_dir r = false /\ is_symlink r = false /\
      cs0 <> [] /\ tree_at t cs0 r0 /\ st_linkname st = joinc cs0 /\ l_dev r0 <> l_dev r.
Proof. exact walk_hardlinks_cross_device_refuted_proof. Qed.

(* the well-formedness check applied by the glue to every snapshot implies wf_tree *)
Theorem wf_tree_b_reflects : forall t, wf_tree_b t = true -> wf_tree t.
Proof. exact wf_tree_b_sound. Qed.

(* Walking a sub-target (fs.Walk(ctx, target, fn) with a target that Clean reduces to the non-empty
   component list cs): nothing is reported if there is no such node; otherwise exactly the node at
   cs and everything below it, each once, strictly ascending in protocol order (hence the target
   first and every directory before its contents).  For a target that reduces to the root,
   walk_at is walk by definition. *)
Theorem walk_at_sub :
  forall t target, wf_tree t ->
  target_comps target <> [] ->
  ((forall r, ~ tree_at t (target_comps target) r) -> walk_at t target = []) /\
  (forall r0, tree_at t (target_comps target) r0 ->
     StronglySorted (fun p q => compare_path p q = Lt) (map st_path (walk_at t target)) /\
     (forall p, In p (map st_path (walk_at t target)) <->
                exists c r, p = joinc (target_comps target ++ c) /\ tree_at t (target_comps target ++ c) r) /\
     NoDup (map st_path (walk_at t target))).
Proof. exact walk_at_sub_proof. Qed.

(* Hard links in a sub-target walk.  fs.Walk creates one seenFiles map per call, so only the inode
   groups of the WALKED sub-sequence exist: among the non-directories at or below the target that
   share the inode of the entry there is a least one c0 (in protocol path order); it is reported
   with empty Linkname (as the file itself, full size) and every later one names it.  A member of
   the group that lies OUTSIDE the target plays no role — in particular, when the whole-tree walk
   reports a/x and then "a-b" as a link to a/x, the sub-target walk of "a-b" alone reports it as a
   plain file, and the sub-target walk of a directory never names a path outside that directory.
   Same hypotheses as walk_hardlinks. *)
Theorem walk_at_hardlinks :
  forall t target, wf_tree t -> one_fs t -> ino_consistent t ->
  target_comps target <> [] ->
  forall st, In st (walk_at t target) ->
  forall c r, tree_at t (target_comps target ++ c) r ->
    st_path st = joinc (target_comps target ++ c) -> is_dir r = false ->
  exists c0 r0,
    tree_at t (target_comps target ++ c0) r0 /\ is_dir r0 = false /\
    l_ino r0 = l_ino r /\ l_dev r0 = l_dev r /\
    (forall c1 r1, tree_at t (target_comps target ++ c1) r1 -> is_dir r1 = false -> l_ino r1 = l_ino r ->
                   c1 = c0 \/ compare_path (joinc (target_comps target ++ c0)) (joinc (target_comps target ++ c1)) = Lt) /\
    st_linkname st = (if is_symlink r then l_target r
                      else if bytes_eqb (joinc (target_comps target ++ c0)) (joinc (target_comps target ++ c))
                           then [] else joinc (target_comps target ++ c0)).
Proof. exact walk_at_hardlinks_proof. Qed.

(* SubDirFS.  For proper sub-roots (names = distinct well-formed single components, directory
   Stats, well-formed trees) the composite walk is: the sub-roots in bytewise name order; for each
   its own Stat, then its walk with "name/" put in front of every path and every hard-link name,
   absolute symlink targets re-rooted below "/name" (lexically cleaned, as path.Join does),
   relative symlink targets untouched ([sd_block], [prefix_stat]); no error; and the whole
   callback sequence is strictly ascending in protocol path order. *)
Theorem subdir_walk_prefixed :
  forall ds, sd_wf ds ->
  walk_subdirs ds [] = Some (flat_map sd_block (isort_sd ds), false)
  /\ Permutation (isort_sd ds) ds
  /\ StronglySorted (fun a b => cmp_bytes (sd_name a) (sd_name b) = Lt) (isort_sd ds)
  /\ StronglySorted (fun p q => compare_path p q = Lt) (map fst (flat_map sd_block (isort_sd ds))).
Proof. exact subdir_walk_prefixed_proof. Qed.

(* Hard links inside SubDirFS.  subDirFS.Walk runs the inner FS.Walk once per sub-root (its own
   seenFiles), then rewrites: for the callback "name/p" of a non-directory p of sub-root d the
   Linkname is empty if p is the least holder of its inode WITHIN d, otherwise "name/" + that
   least path (never a path of another sub-root, even if the inode is the same file there);
   a symlink keeps its readlink target, re-rooted below "/name" and cleaned when absolute. *)
Theorem subdir_walk_hardlinks :
  forall ds, sd_wf ds ->
  forall cbs err, walk_subdirs ds [] = Some (cbs, err) ->
  forall d, In d ds -> one_fs (sd_tree d) -> ino_consistent (sd_tree d) ->
  forall st cs r, In (sd_name d ++ sep :: joinc cs, st) cbs ->
    cs <> [] -> tree_at (sd_tree d) cs r -> is_dir r = false ->
  st_path st = sd_name d ++ sep :: joinc cs /\
  exists cs0 r0,
    cs0 <> [] /\ tree_at (sd_tree d) cs0 r0 /\ is_dir r0 = false /\ l_ino r0 = l_ino r /\ l_dev r0 = l_dev r /\
    (forall cs1 r1, cs1 <> [] -> tree_at (sd_tree d) cs1 r1 -> is_dir r1 = false -> l_ino r1 = l_ino r ->
                    cs1 = cs0 \/ compare_path (joinc cs0) (joinc cs1) = Lt) /\
    st_linkname st =
      (if is_symlink r then
         (if is_abs (l_target r) then clean (sep :: sd_name d ++ sep :: l_target r) else l_target r)
       else if bytes_eqb (joinc cs0) (joinc cs) then [] else sd_name d ++ sep :: joinc cs0).
Proof. exact subdir_walk_hardlinks_proof. Qed.

(* SubDirFS, walk of a sub-target.  subDirFS.Walk cuts the target at its first separator; for
   proper sub-roots and a target  name  or  name/rest  whose first component is a well-formed name:
   if a sub-root is called name, the callbacks are exactly that sub-root's Stat followed by its
   walk at rest (walk_at: the entry rest and everything below it, walk_at_sub / walk_at_hardlinks),
   prefixed ([sd_block_at]); no error.  Sub-roots are selected by EQUALITY of the whole component:
   every other sub-root contributes nothing — also one whose name is a proper string prefix of
   name (lib vs lib64) or has name as a prefix — and if no sub-root is called name nothing is
   reported at all. *)
Theorem subdir_walk_at :
  forall ds name rest target, sd_wf ds -> wf_name name ->
  (target = name ++ sep :: rest \/ (target = name /\ rest = [])) ->
  (forall d, In d ds -> sd_name d = name -> walk_subdirs ds target = Some (sd_block_at d rest, false)) /\
  ((forall d, In d ds -> sd_name d <> name) -> walk_subdirs ds target = Some ([], false)).
Proof. exact subdir_walk_at_proof. Qed.

(* SubDirFS, ANY target (also one whose first component is empty: "", "/", "/x").  With first / rest =
   the target cut at its first separator (strings.Cut), the walk of proper sub-roots is, for the
   sub-roots in name order, [sd_select first rest]: the block of the sub-root at rest (its Stat, then
   its walk_at at rest, prefixed) if first is EMPTY or EQUALS its name, nothing otherwise; no error.
   So "/x" walks x in every sub-root, and subdir_walk_at / subdir_walk_prefixed are instances. *)
Theorem subdir_walk_any :
  forall ds target, sd_wf ds ->
  walk_subdirs ds target =
  Some (flat_map (sd_select (fst (cut_sep target)) (snd (cut_sep target))) (isort_sd ds), false).
Proof. exact subdir_walk_any_proof. Qed.

(* Hard links in a SubDirFS walk of a sub-target (any first component; rest reduces to the non-empty
   component list tc).  For the callback name/joinc(tc ++ c) of a non-directory of sub-root d: among
   the non-directories of d AT OR BELOW tc sharing its inode there is a least one c0; Linkname is
   empty if it is c0 itself, otherwise "name/" + path of c0 - never a path outside the walked
   sub-tree or in another sub-root; a symlink keeps its (re-rooted) readlink target.  Same
   hypotheses as walk_hardlinks, for the one sub-root. *)
Theorem subdir_walk_at_hardlinks :
  forall ds target, sd_wf ds ->
  forall cbs err, walk_subdirs ds target = Some (cbs, err) ->
  target_comps (snd (cut_sep target)) <> [] ->
  forall d, In d ds -> one_fs (sd_tree d) -> ino_consistent (sd_tree d) ->
  forall st c r,
    In (sd_name d ++ sep :: joinc (target_comps (snd (cut_sep target)) ++ c), st) cbs ->
    tree_at (sd_tree d) (target_comps (snd (cut_sep target)) ++ c) r -> is_dir r = false ->
  st_path st = sd_name d ++ sep :: joinc (target_comps (snd (cut_sep target)) ++ c) /\
  exists c0 r0,
    tree_at (sd_tree d) (target_comps (snd (cut_sep target)) ++ c0) r0 /\ is_dir r0 = false /\
    l_ino r0 = l_ino r /\ l_dev r0 = l_dev r /\
    (forall c1 r1, tree_at (sd_tree d) (target_comps (snd (cut_sep target)) ++ c1) r1 ->
                   is_dir r1 = false -> l_ino r1 = l_ino r ->
                   c1 = c0 \/ compare_path (joinc (target_comps (snd (cut_sep target)) ++ c0))
                                            (joinc (target_comps (snd (cut_sep target)) ++ c1)) = Lt) /\
    st_linkname st =
      (if is_symlink r then
         (if is_abs (l_target r) then clean (sep :: sd_name d ++ sep :: l_target r) else l_target r)
       else if bytes_eqb (joinc (target_comps (snd (cut_sep target)) ++ c0))
                         (joinc (target_comps (snd (cut_sep target)) ++ c))
            then [] else sd_name d ++ sep :: joinc (target_comps (snd (cut_sep target)) ++ c0)).
Proof. exact subdir_walk_at_hardlinks_proof. Qed.

(* NESTED composites: a SubDirFS with one sub-root (Stat ost, a directory Stat with a well-formed
   name) whose FS is itself the SubDirFS over proper sub-roots [inner] whose Stats carry no Linkname.
   [walk_nested] = both constructors + the outer subDirFS.Walk over the inner subDirFS.Walk; it is
   the model that kind 0906 compares with the real code (nested_judge_model).
   nested_walk_any: for EVERY target the walk is [nested_listing]: nothing if the target's first
   component is neither empty nor the outer name; otherwise the outer Stat followed by the inner
   listing for the remainder (subdir_walk_any) with the outer name put in front of every callback
   path and prefix_stat applied a second time to every Stat ([nest_rewrite]); no error.
   nested_walk_spec: the whole walk (target "") is the outer Stat followed by the prefixed inner
   whole-walk listing (subdir_walk_prefixed), strictly ascending in protocol path order.
   nested_parent_first: in it every entry outer/name/c is preceded by its parent. *)
Theorem nested_walk_any :
  forall ost inner target,
  sd_wf inner -> no_linkname inner -> wf_name (st_path ost) -> st_is_dir ost = true ->
  walk_nested ost inner target = Some (nested_listing ost inner target, false).
Proof. exact nested_walk_any_proof. Qed.

Theorem nested_walk_spec :
  forall ost inner,
  sd_wf inner -> no_linkname inner -> wf_name (st_path ost) -> st_is_dir ost = true ->
  let listing := (st_path ost, ost) :: map (nest_rewrite (st_path ost)) (flat_map sd_block (isort_sd inner)) in
  walk_nested ost inner [] = Some (listing, false)
  /\ StronglySorted (fun p q => compare_path p q = Lt) (map fst listing).
Proof. exact nested_walk_spec_proof. Qed.

Theorem nested_parent_first :
  forall ost inner,
  sd_wf inner -> no_linkname inner -> wf_name (st_path ost) -> st_is_dir ost = true ->
  let listing := (st_path ost, ost) :: map (nest_rewrite (st_path ost)) (flat_map sd_block (isort_sd inner)) in
  forall d c r, In d inner -> tree_at (sd_tree d) c r ->
  exists pre e post, listing = pre ++ e :: post /\ fst e = joinc (st_path ost :: sd_name d :: c)
                     /\ In (joinc (removelast (st_path ost :: sd_name d :: c))) (map fst pre).
Proof. exact nested_parent_first_proof. Qed.

(* Order for ANY target (Proofs/WalkNestOrd.v).  subdir_walk_any_sorted: every target walk of a
   SubDirFS succeeds and its callback paths are strictly ascending in protocol path order (hence
   duplicate-free), each a sub-root name followed by separator-free components.
   nested_walk_any_sorted: the same for every target walk of a nested composite - the order
   statement of nested_walk_spec without the restriction to target "". *)
Theorem subdir_walk_any_sorted :
  forall ds target, sd_wf ds ->
  exists cbs, walk_subdirs ds target = Some (cbs, false)
    /\ StronglySorted (fun p q => compare_path p q = Lt) (map fst cbs)
    /\ forall p, In p (map fst cbs) -> exists cs, cs <> [] /\ Forall nosep cs /\ p = joinc cs.
Proof. exact subdir_walk_any_sorted_proof. Qed.

Theorem nested_walk_any_sorted :
  forall ost inner target,
  sd_wf inner -> no_linkname inner -> wf_name (st_path ost) -> st_is_dir ost = true ->
  walk_nested ost inner target = Some (nested_listing ost inner target, false)
  /\ StronglySorted (fun p q => compare_path p q = Lt) (map fst (nested_listing ost inner target)).
Proof. exact nested_walk_any_sorted_proof. Qed.

(* ... and with it "each directory before its contents" for every target: whenever a path and a path
   below it are both reported, the upper one comes first *)
Theorem subdir_any_dir_first :
  forall ds target cs c cbs e,
  sd_wf ds -> walk_subdirs ds target = Some (cbs, e) ->
  cs <> [] -> c <> [] -> Forall nosep (cs ++ c) ->
  In (joinc cs) (map fst cbs) -> In (joinc (cs ++ c)) (map fst cbs) ->
  exists pre post, map fst cbs = pre ++ joinc (cs ++ c) :: post /\ In (joinc cs) pre.
Proof. exact subdir_any_dir_first_proof. Qed.

Theorem nested_any_dir_first :
  forall ost inner target cs c,
  sd_wf inner -> no_linkname inner -> wf_name (st_path ost) -> st_is_dir ost = true ->
  cs <> [] -> c <> [] -> Forall nosep (cs ++ c) ->
  let P := map fst (nested_listing ost inner target) in
  In (joinc cs) P -> In (joinc (cs ++ c)) P ->
  exists pre post, P = pre ++ joinc (cs ++ c) :: post /\ In (joinc cs) pre.
Proof. exact nested_any_dir_first_proof. Qed.

(* the model components of the verdicts of kinds 0902/0905 and 0906 are these model functions *)
Theorem nested_judge_model :
  forall ost zs target cbs err,
  fst (C09G.nested_judge ost zs target cbs err)
  = WalkNestGlue.enc_walk_result (walk_nested ost (map fst zs) target).
Proof. exact WalkNestGlue.nested_judge_model_proof. Qed.

(* The shared view model (Model/Tree.v, used by the other properties through MemFS): the canonical
   listing of a view whose sibling lists are strictly ascending bytewise, with non-empty
   separator-free names, is strictly ascending in protocol path order and has no duplicate path. *)
Theorem view_walk_sorted :
  forall roots, wf_view roots ->
  StronglySorted (fun p q => compare_path p q = Lt) (map (fun e => st_path (fst e)) (walk_root roots))
  /\ NoDup (map (fun e => st_path (fst e)) (walk_root roots)).
Proof. exact view_walk_sorted_proof. Qed.

(* The sortedness check evaluated by the glue on the implementation's callbacks is the predicate
   of walk_sorted. *)
Theorem sorted_b_reflects :
  forall l, sorted_b l = true <-> StronglySorted (fun p q => compare_path p q = Lt) l.
Proof. exact sorted_b_spec. Qed.

Print Assumptions walk_sorted.
Print Assumptions walk_complete_once.
Print Assumptions walk_paths_clean.
Print Assumptions walk_parent_first.
Print Assumptions walk_stat.
Print Assumptions walk_hardlinks.
Print Assumptions walk_hardlinks_cross_device_refuted.
Print Assumptions wf_tree_b_reflects.
Print Assumptions walk_at_sub.
Print Assumptions walk_at_hardlinks.
Print Assumptions subdir_walk_hardlinks.
Print Assumptions subdir_walk_at.
Print Assumptions subdir_walk_any.
Print Assumptions subdir_walk_at_hardlinks.
Print Assumptions nested_walk_any.
Print Assumptions nested_walk_spec.
Print Assumptions nested_parent_first.
Print Assumptions subdir_walk_any_sorted.
Print Assumptions nested_walk_any_sorted.
Print Assumptions subdir_any_dir_first.
Print Assumptions nested_any_dir_first.
Print Assumptions nested_judge_model.
Print Assumptions subdir_walk_prefixed.
Print Assumptions view_walk_sorted.
Print Assumptions sorted_b_reflects.

(* ---- non-vacuity ---- *)
Definition rec_ (mode ino nlink : N) (target : list N) : lrec :=
  {| l_mode := mode; l_uid := 1000; l_gid := 5; l_size := 3; l_mtime := 1600000000000000007; l_rdev := 0;
     l_ino := ino; l_nlink := nlink; l_target := target; l_xattrs := []; l_dev := 0 |}.
Definition A := 97. Definition B := 98. Definition X := 120. Definition Y := 121.
(* stored unsorted:  "a-b" (regular, inode 5)   "a"/ { "y" -> "/t" ; "x" (regular, inode 5) }   "a b" (regular) *)
Definition ex_tree : tree :=
  T (rec_ 16877 1 3 [])
    [ ([A; 45; B], T (rec_ 33188 5 2 []) []);
      ([A], T (rec_ 16877 2 2 [])
              [ ([Y], T (rec_ 41471 7 1 [47; 116]) []);
                ([X], T (rec_ 33188 5 2 []) []) ]);
      ([A; 32; B], T (rec_ 33188 6 1 []) []) ].

Example ex_wf : wf_tree_b ex_tree = true.
Proof. vm_compute. reflexivity. Qed.

(* a, a/x, a/y, "a b", a-b : the directory's contents come before "a b" and "a-b" although
   ' ' and '-' are smaller than '/'; a-b (same inode as a/x) is reported as a link to a/x *)
Example ex_walk :
  map (fun s => (st_path s, st_linkname s)) (walk ex_tree) =
  [ ([A], []); ([A; 47; X], []); ([A; 47; Y], [47; 116]); ([A; 32; B], []); ([A; 45; B], [A; 47; X]) ].
Proof. vm_compute. reflexivity. Qed.

(* the same entries sorted bytewise as whole strings would NOT be in protocol order *)
Example ex_bytewise_differs :
  compare_path [A; 47; X] [A; 32; B] = Lt /\ cmp_bytes [A; 47; X] [A; 32; B] = Gt.
Proof. vm_compute. split; reflexivity. Qed.

Example ex_modes :
  map st_mode (walk ex_tree) = [2147484141; 420; 134218239; 420; 420]
  /\ go_mode 49645 = 16777709 /\ N.ldiff (go_mode 49645) ModeSocket = 493     (* socket 0755 -> plain 0755 *)
  /\ go_mode 11648 = 81789312                                                   (* setuid+setgid char device 0600 *)
  /\ major 4294967295 = 4095 /\ minor 4294967295 = 1048575.
Proof. vm_compute. repeat split; reflexivity. Qed.

(* the executable specification accepts the model's walk of the example and rejects a swap *)
Example ex_spec :
  let snap := entries_root ex_tree in
  spec_walk_b [] snap (walk ex_tree) = true /\
  spec_walk_b [] snap (match walk ex_tree with a :: b :: r => b :: a :: r | l => l end) = false.
Proof. vm_compute. split; reflexivity. Qed.

(* sub-target: "./a/" is cleaned to a; the target itself is reported first; only the inode group
   inside the sub-tree counts (a/x is the first holder of inode 5 there) *)
Example ex_walk_at :
  map (fun s => (st_path s, st_linkname s)) (walk_at ex_tree [46; 47; A; 47]) =
  [ ([A], []); ([A; 47; X], []); ([A; 47; Y], [47; 116]) ]
  /\ walk_at ex_tree [A; 47; 110; 111] = [] /\ walk_at ex_tree [47] = walk ex_tree.
Proof. vm_compute. repeat split; reflexivity. Qed.

(* hard links and sub-targets: inode 5 has the names "a-b", a/x and a/z.  The whole walk reports
   a/x as the file and a/z, a-b as links to it; the walk of target "a" sees a/x (file) and a/z
   (link to a/x); the walk of target "a-b" — whose group members all lie elsewhere — reports a
   plain file; the walk of a/z alone likewise.  (Size is the file size also for the links: mkstat's
   stat.Size = fi.Size() comes after setUnixOpt's stat.Size = 0 — walk_stat.) *)
Definition Z := 122.
Definition ex_tree_hl : tree :=
  T (rec_ 16877 1 3 [])
    [ ([A; 45; B], T (rec_ 33188 5 3 []) []);
      ([A], T (rec_ 16877 2 2 [])
              [ ([Z], T (rec_ 33188 5 3 []) []);
                ([X], T (rec_ 33188 5 3 []) []) ]) ].
Example ex_walk_at_hardlinks :
  map (fun s => (st_path s, st_linkname s, st_size s)) (walk ex_tree_hl) =
  [ ([A], [], 0); ([A; 47; X], [], 3); ([A; 47; Z], [A; 47; X], 3); ([A; 45; B], [A; 47; X], 3) ]
  /\ map (fun s => (st_path s, st_linkname s, st_size s)) (walk_at ex_tree_hl [A]) =
     [ ([A], [], 0); ([A; 47; X], [], 3); ([A; 47; Z], [A; 47; X], 3) ]
  /\ map (fun s => (st_path s, st_linkname s, st_size s)) (walk_at ex_tree_hl [A; 45; B]) = [ ([A; 45; B], [], 3) ]
  /\ map (fun s => (st_path s, st_linkname s, st_size s)) (walk_at ex_tree_hl [A; 47; Z]) = [ ([A; 47; Z], [], 3) ].
Proof. vm_compute. repeat split; reflexivity. Qed.

(* SubDirFS over two sub-roots "s" and "r" both holding ex_tree: r first; paths, the hard-link
   name a/x and the absolute symlink target /t are prefixed *)
Definition dstat (name : list N) : stat :=
  {| st_path := name; st_mode := 2147484141; st_uid := 0; st_gid := 0; st_size := 0; st_mtime := 5;
     st_linkname := []; st_devmajor := 0; st_devminor := 0; st_xattrs := [] |}.
Example ex_subdirs :
  match walk_subdirs [ {| sd_stat := dstat [115]; sd_tree := ex_tree |};
                       {| sd_stat := dstat [114]; sd_tree := ex_tree |} ] [] with
  | Some (cbs, err) =>
    err = false /\
    map (fun e => (fst e, st_linkname (snd e))) cbs =
    [ ([114], []); ([114; 47; A], []); ([114; 47; A; 47; X], []); ([114; 47; A; 47; Y], [47; 114; 47; 116]);
      ([114; 47; A; 32; B], []); ([114; 47; A; 45; B], [114; 47; A; 47; X]);
      ([115], []); ([115; 47; A], []); ([115; 47; A; 47; X], []); ([115; 47; A; 47; Y], [47; 115; 47; 116]);
      ([115; 47; A; 32; B], []); ([115; 47; A; 45; B], [115; 47; A; 47; X]) ]
  | None => False
  end.
Proof. vm_compute. split; reflexivity. Qed.

(* sub-roots "a" and "a-b" (one name a string prefix of the other), both holding ex_tree: the target
   "a-b/a" reports a-b and the sub-tree a-b/a only — nothing of sub-root "a"; the target "a-" (a
   prefix of one name, an extension of the other) reports nothing *)
Example ex_subdir_at :
  let ds := [ {| sd_stat := dstat [A]; sd_tree := ex_tree |};
              {| sd_stat := dstat [A; 45; B]; sd_tree := ex_tree |} ] in
  option_map (fun x => (map fst (fst x), snd x)) (walk_subdirs ds [A; 45; B; 47; A]) =
    Some ([ [A; 45; B]; [A; 45; B; 47; A]; [A; 45; B; 47; A; 47; X]; [A; 45; B; 47; A; 47; Y] ], false)
  /\ walk_subdirs ds [A; 45] = Some ([], false)
  /\ option_map (fun x => length (fst x)) (walk_subdirs ds [A]) = Some 6%nat.
Proof. vm_compute. repeat split; reflexivity. Qed.

(* nested: outer "o" over the sub-roots "a" and "a-b" of ex_subdir_at.  Whole walk: o, o/a, o/a/a, ...;
   the hard-link name and the absolute symlink target carry both prefixes; target "o/a-b/a" selects
   one sub-tree; target "a" (the outer name missing) selects nothing *)
Example ex_nested :
  let inner := [ {| sd_stat := dstat [A]; sd_tree := ex_tree |};
                 {| sd_stat := dstat [A; 45; B]; sd_tree := ex_tree |} ] in
  option_map (fun x => (map (fun e => (fst e, st_linkname (snd e))) (firstn 7 (fst x)), length (fst x), snd x))
             (walk_nested (dstat [111]) inner []) =
    Some ([ ([111], []); ([111; 47; A], []); ([111; 47; A; 47; A], []); ([111; 47; A; 47; A; 47; X], []);
            ([111; 47; A; 47; A; 47; Y], [47; 111; 47; A; 47; 116]); ([111; 47; A; 47; A; 32; B], []);
            ([111; 47; A; 47; A; 45; B], [111; 47; A; 47; A; 47; X]) ], 13%nat, false)
  /\ option_map (fun x => (map fst (fst x), snd x)) (walk_nested (dstat [111]) inner [111; 47; A; 45; B; 47; A]) =
     Some ([ [111]; [111; 47; A; 45; B]; [111; 47; A; 45; B; 47; A]; [111; 47; A; 45; B; 47; A; 47; X];
             [111; 47; A; 45; B; 47; A; 47; Y] ], false)
  /\ walk_nested (dstat [111]) inner [A] = Some ([], false).
Proof. vm_compute. repeat split; reflexivity. Qed.

(* the composite of ex_nested meets the hypotheses of the nested theorems *)
Example ex_nested_hyps :
  let inner := [ {| sd_stat := dstat [A]; sd_tree := ex_tree |};
                 {| sd_stat := dstat [A; 45; B]; sd_tree := ex_tree |} ] in
  sd_wf inner /\ no_linkname inner /\ wf_name (st_path (dstat [111])) /\ st_is_dir (dstat [111]) = true
  /\ length (nested_listing (dstat [111]) inner [111; 47; A; 45; B; 47; A]) = 5%nat.
Proof.
  cbv zeta. split.
  - split.
    + assert (Hd : forall n, wf_name_b n = true ->
                wf_name (sd_name {| sd_stat := dstat n; sd_tree := ex_tree |})
                /\ st_is_dir (sd_stat {| sd_stat := dstat n; sd_tree := ex_tree |}) = true
                /\ wf_tree (sd_tree {| sd_stat := dstat n; sd_tree := ex_tree |})).
      { intros n Hn. split; [apply wf_name_b_sound; exact Hn|]. split; [reflexivity|].
        apply wf_tree_b_sound. vm_compute. reflexivity. }
      constructor; [apply Hd; vm_compute; reflexivity|]. constructor; [apply Hd; vm_compute; reflexivity|constructor].
    + cbn [map sd_name sd_stat st_path dstat]. repeat constructor; cbn [In]; intros H;
        repeat (destruct H as [H|H]; [discriminate H|]); exact H.
  - split; [repeat constructor|]. split; [apply wf_name_b_sound; vm_compute; reflexivity|].
    split; vm_compute; reflexivity.
Qed.

(* the refutation witness: the model reports m2/f and m2/g as links to m1/f *)
Example ex_cross_device :
  map (fun s => (st_path s, st_linkname s)) (walk t_xdev) =
  [ ([109; 49], []); ([109; 49; 47; 102], []); ([109; 49; 47; 103], [109; 49; 47; 102]);
    ([109; 50], []); ([109; 50; 47; 102], [109; 49; 47; 102]); ([109; 50; 47; 103], [109; 49; 47; 102]) ]
  /\ spec_walk_b [] (entries_root t_xdev) (walk t_xdev) = false.
Proof. vm_compute. split; reflexivity. Qed.

(* ---- source equivalences (tools/go2coq; gen/SrcFns.v is regenerated from /repo on every run): the
        Gallina definitions translated from stat_unix.go's major, minor and skipXattr equal the Linux
        device-number decoding (Model/DevNum.v: the inverse of the kernel's new_encode_dev, theorem
        decode_encode) and the xattr filter of the walk model ---- *)
From FSGen Require SrcFns.
From FS Require Model.DevNum Proofs.DevNumP Proofs.Src.MajorEq Proofs.Src.MinorEq Proofs.Src.SkipXattrEq.
Theorem major_src_eq : forall d, SrcFns.major d = DevNum.dev_major d.
Proof. exact MajorEq.major_src_eq. Qed.
Theorem minor_src_eq : forall d, SrcFns.minor d = DevNum.dev_minor d.
Proof. exact MinorEq.minor_src_eq. Qed.
Theorem dev_decode_encode : forall major minor, (major < 4096)%N -> (minor < 1048576)%N ->
  DevNum.dev_major (DevNum.encode_dev major minor) = major /\ DevNum.dev_minor (DevNum.encode_dev major minor) = minor.
Proof. exact DevNumP.decode_encode. Qed.
Theorem skipXattr_src_eq : forall k, SrcFns.skipXattr k = has_prefix xattr_apple_prefix k.
Proof. exact SkipXattrEq.skipXattr_src_eq. Qed.
Print Assumptions major_src_eq.
Print Assumptions minor_src_eq.
Print Assumptions dev_decode_encode.
Print Assumptions skipXattr_src_eq.
