From Coq Require Import List NArith Bool.
From FS Require Import Sx Model.Path Model.Stat Model.Walk.
