From Coq Require Import List NArith Bool.
Example placeholder : True. Proof. exact I. Qed.
