(* C05 — Change notifications mirror exactly what changed in dest, with true digests
   (abstract layer).  Only the property theorems (closed by [exact]) with their
   [Print Assumptions], and non-vacuity examples.
   Models: Model/Diff.v, Model/AbsDest.v (abstract DiskWriter.HandleChange / processChange,
   notifications, [replay] = what a consumer of the notifications can rebuild: path ->
   (stat, digest); [nview D] = that view of a destination map; H / hdr = the hash and the header
   bytes of the caller's ContentHasher, arbitrary).
   Proofs: Proofs/AbsDestP.v, Proofs/ReceiveP.v.  Vocabulary: see Properties/C02.v.

   The receiver's Filter (ReceiveOpt.Filter, handed to the differ and to the DiskWriter) is the
   parameter [wf] of [receive_abs_f] (theorems *_filtered below): the writer works on a copy of
   the stat rewritten by the filter — that is what reaches the disk —, the notification and the
   hashed header keep the stat AS SENT.  [filter_ok wf]: the filter never answers "skip" and keeps
   path, type bits and link name.  All other theorems are the case "no filter".
   Not here: the order in which file contents
   complete — the model emits the notification of a regular file at the position of its
   HandleChange call; [notify_order_independent] below shows that ANY order in which no
   notification precedes a notification for one of its ancestors rebuilds the same view (the
   real notification of a regular file is emitted by a goroutine started by its own
   HandleChange call, hence after those of its ancestor directories; all others come in path
   order); the timing-dependent hard-link exception (the destination listing is an input at
   this layer).

   Hard links.  A notification carries the stat AS SENT; the destination gives a new hard link
   the metadata of the inode it joins (AbsDest.link_stat: os.Link, no rewriteMetadata).  The two
   agree exactly when the sender is honest — every hard-link entry carries the metadata of the
   entry it names, which is what every walk produces.  Decidable forms of that hypothesis:
     recv_honest m d A B      every hard-link change the writer applies announces the stat the
                              new name then shows (judged along the run; any listings, any mode)
     links_meta B             listing level: a hard-link entry of B has the mode, uid, gid, size,
                              mtime, device numbers and xattrs of the entry of B it names
     link_xattrs_kept d A B   a link target that stays in place (same identity key in A and B)
                              has the same xattrs in A and B (xattrs are not part of the key)
   [honesty_needed] below: without it the replayed view differs from the destination. *)
From Coq Require Import List NArith Bool Sorting.Sorted.
From FS Require Import Sx Model.Path Model.Stat Model.Diff Model.AbsDest
  Proofs.DiffP Proofs.AbsDestP Proofs.ReceiveP Proofs.ReplayP Proofs.NotifyOrderP Proofs.FilterRecvP.
From Coq Require Import Sorting.Permutation.
Import ListNotations.
Open Scope N_scope.

Notation idf := (fun s : stat => s).

(* No hypothesis on the listings: for ALL listings, both modes, even when the transfer stops on
   an error — provided the hard-link changes applied are honest — replaying the notifications on
   the consumer's view of the old destination gives exactly the consumer's view of the
   destination as the writer left it (the stat each path shows + digest of header and stored
   bytes; removed subtrees gone). *)
Theorem notify_replays_any : forall (H : bytes -> bytes) (hdr : stat -> bytes) d A B m,
  recv_honest m d A B = true ->
  let r := receive_abs H hdr m d A B in
  replay (ds_notifs r) (nview H hdr (dest_of A)) = nview H hdr (ds_map r).
Proof. exact ReceiveP.notify_replays_any. Qed.

(* ... and under the hypotheses (both listings sorted and ancestor-closed, hard links name an
   earlier regular entry and carry its metadata, same identity key => same bytes, link targets
   that stay in place have the source's xattrs) the transfer does not fail, every hard-link
   change is honest, and that new destination is the source's view: at every path the same
   identity key as the source's entry and, for regular files and hard links, the same bytes;
   nothing where the source has nothing. *)
Theorem notify_replays : forall (H : bytes -> bytes) (hdr : stat -> bytes) d A B,
  wf_listing (map fst A) -> wf_listing (map fst B) -> links_ok B -> identity_faithful d A B ->
  links_meta B -> link_xattrs_kept d A B ->
  let r := receive_abs H hdr Fresh d A B in
  ds_err r = false /\
  recv_honest Fresh d A B = true /\
  replay (ds_notifs r) (nview H hdr (dest_of A)) = nview H hdr (ds_map r) /\
  forall p, view_equiv (alookup p (ds_map r)) (efind p B).
Proof.
  intros H hdr d A B HwA HwB Hl Hf Hm Hxk. cbv zeta.
  destruct (receive_fresh_proof H hdr d A B HwA HwB Hl Hf Hm) as (He & _ & Hv & _).
  pose proof (receive_fresh_honest H hdr d A B HwA HwB Hl Hf Hm Hxk) as Hh.
  split; auto. split; auto. split; auto. apply (ReceiveP.notify_replays_any H hdr d A B Fresh Hh).
Qed.

(* With an honest sender that is not known to keep xattrs (the weaker listing-level hypothesis):
   still no failure and the source's identity key and bytes at every path. *)
Theorem transfer_shows_source : forall (H : bytes -> bytes) (hdr : stat -> bytes) d A B,
  wf_listing (map fst A) -> wf_listing (map fst B) -> links_ok B -> identity_faithful d A B ->
  links_meta B ->
  let r := receive_abs H hdr Fresh d A B in
  ds_err r = false /\ forall p, view_equiv (alookup p (ds_map r)) (efind p B).
Proof.
  intros H hdr d A B HwA HwB Hl Hf Hm. cbv zeta.
  destruct (receive_fresh_proof H hdr d A B HwA HwB Hl Hf Hm) as (He & _ & Hv & _). auto.
Qed.

(* ... and whatever metadata the hard-link entries carry: no failure, every path of the source
   present as a directory / non-directory like the source's entry, with the source's bytes, and
   with the source's identity key unless it is a hard link. *)
Theorem transfer_shows_source_weak : forall (H : bytes -> bytes) (hdr : stat -> bytes) d A B,
  wf_listing (map fst A) -> wf_listing (map fst B) -> links_ok B -> identity_faithful d A B ->
  let r := receive_abs H hdr Fresh d A B in
  ds_err r = false /\ forall p, view_equiv_w (alookup p (ds_map r)) (efind p B).
Proof.
  intros H hdr d A B HwA HwB Hl Hf. cbv zeta.
  destruct (receive_fresh_weak H hdr d A B HwA HwB Hl Hf) as (He & _ & Hv & _). auto.
Qed.

(* (No honesty needed from here to notify_digest.)
   The notifications are exactly the images of the changes of the specification (C02
   diff_changes_exact): one per added path, one per common path whose identity differs — a
   regular file whose content is transferred is announced as ADD, everything else with the
   kind of the change —, one delete per top-most removed path; nothing for a path that exists
   unchanged; no path twice. *)
Theorem notify_exact : forall (H : bytes -> bytes) (hdr : stat -> bytes) d A B,
  wf_listing (map fst A) -> wf_listing (map fst B) -> links_ok B -> identity_faithful d A B ->
  let r := receive_abs H hdr Fresh d A B in
  ds_err r = false /\
  ds_notifs r = map (notif_of (src_of B) H hdr) (diff idf d (map fst A) (map fst B)) /\
  (forall n, In n (ds_notifs r) <->
     exists c, spec_change idf d (map fst A) (map fst B) c /\ n = notif_of (src_of B) H hdr c) /\
  NoDup (map notif_path (ds_notifs r)).
Proof. exact notify_exact_proof. Qed.

(* The digest announced for a path is the hash of the header of the stat as sent followed by
   exactly the bytes the destination finally holds there; header only when no content is
   transferred (directories, links, special files). *)
Theorem notify_digest : forall (H : bytes -> bytes) (hdr : stat -> bytes) d A B,
  wf_listing (map fst A) -> wf_listing (map fst B) -> links_ok B -> identity_faithful d A B ->
  let r := receive_abs H hdr Fresh d A B in
  forall k p st dg, In (k, p, Some (st, dg)) (ds_notifs r) ->
  exists e, alookup p (ds_map r) = Some e /\
            dg = H (hdr st ++ (if wants_content st then de_bytes e else [])).
Proof. exact notify_digest_proof. Qed.

(* ---- with the receiver's Filter ----
   As far as destination, requests and failure are concerned, a transfer through the filter is
   the plain transfer of the source with every stat rewritten by the filter ([filter_entries]);
   the writer executed exactly the rewritten changes of that transfer, and the notifications
   are the images of the changes AS RECEIVED. *)
Theorem filtered_transfer_reduces : forall wf, filter_ok wf ->
  forall (H : bytes -> bytes) (hdr : stat -> bytes) d A B m,
  wf_listing (map fst A) -> wf_listing (map fst B) ->
  let r := receive_abs_f wf H hdr m d A B in
  let r' := receive_abs H hdr m d A (filter_entries wf B) in
  ds_map r = ds_map r' /\ ds_err r = ds_err r' /\ ds_reqs r = ds_reqs r' /\
  map (restat wf) (ds_changes r) = ds_changes r' /\
  ds_notifs r = map (notif_of (src_of B) H hdr) (ds_changes r) /\
  (ds_err r = false ->
   ds_changes r = diff (filter_stat wf) d (match m with Fresh => map fst A | Merge => [] end) (map fst B)).
Proof. exact receive_abs_f_reduce. Qed.

(* notify_exact with a filter: no failure; the notifications are exactly the images — with the
   stat AS SENT and the digest of ITS header — of the changes of the specification for the
   differ with that filter; no path twice.  [identity_faithful] speaks of the filtered source:
   same identity key after the filter => same bytes. *)
Theorem notify_exact_filtered : forall wf, filter_ok wf ->
  forall (H : bytes -> bytes) (hdr : stat -> bytes) d A B,
  wf_listing (map fst A) -> wf_listing (map fst B) -> links_ok B ->
  identity_faithful d A (filter_entries wf B) ->
  let r := receive_abs_f wf H hdr Fresh d A B in
  ds_err r = false /\
  ds_notifs r = map (notif_of (src_of B) H hdr) (diff (filter_stat wf) d (map fst A) (map fst B)) /\
  (forall n, In n (ds_notifs r) <->
     exists c, spec_change (filter_stat wf) d (map fst A) (map fst B) c /\ n = notif_of (src_of B) H hdr c) /\
  NoDup (map notif_path (ds_notifs r)).
Proof. exact notify_exact_f_proof. Qed.

(* notify_digest with a filter: the digest announced is the hash of the header of the stat AS
   SENT followed by the bytes the destination finally holds; the destination's own stat at that
   path is the FILTERED one (identity key; for a hard link: that of the inode it joined). *)
Theorem notify_digest_filtered : forall wf, filter_ok wf ->
  forall (H : bytes -> bytes) (hdr : stat -> bytes) d A B,
  wf_listing (map fst A) -> wf_listing (map fst B) -> links_ok B ->
  identity_faithful d A (filter_entries wf B) ->
  let r := receive_abs_f wf H hdr Fresh d A B in
  forall k p st dg, In (k, p, Some (st, dg)) (ds_notifs r) ->
  exists e, alookup p (ds_map r) = Some e /\
            dg = H (hdr st ++ (if wants_content st then de_bytes e else [])) /\
            (is_hardlink st = false -> same_file DMetadata (de_stat e) (filter_stat wf st) = true).
Proof. exact notify_digest_f_proof. Qed.

(* Order independence, general form: two lists of notifications that are permutations of each
   other, without duplicate paths, both "ancestors first" (no notification is followed by one
   for an ancestor of its path), rebuild the same view from any starting view. *)
Theorem replay_order_independent : forall ns ns',
  NoDup (map npath ns) -> ancestors_first ns -> Permutation ns ns' -> ancestors_first ns' ->
  forall M p, alookup p (replay ns' M) = alookup p (replay ns M).
Proof. exact ReplayP.replay_order_independent. Qed.

(* ... hence the notifications of a transfer, received in ANY ancestors-first order — whatever
   the completion order of the file contents — rebuild the view of the new destination. *)
Theorem notify_order_independent : forall (H : bytes -> bytes) (hdr : stat -> bytes) d A B,
  wf_listing (map fst A) -> wf_listing (map fst B) -> links_ok B -> identity_faithful d A B ->
  links_meta B -> link_xattrs_kept d A B ->
  let r := receive_abs H hdr Fresh d A B in
  forall ns', Permutation (ds_notifs r) ns' -> ancestors_first ns' ->
  forall p, alookup p (replay ns' (nview H hdr (dest_of A))) = alookup p (nview H hdr (ds_map r)).
Proof. exact notify_order_independent_proof. Qed.

Print Assumptions notify_replays_any.
Print Assumptions replay_order_independent.
Print Assumptions notify_order_independent.
Print Assumptions notify_replays.
Print Assumptions transfer_shows_source.
Print Assumptions transfer_shows_source_weak.
Print Assumptions notify_exact.
Print Assumptions notify_digest.
Print Assumptions filtered_transfer_reduces.
Print Assumptions notify_exact_filtered.
Print Assumptions notify_digest_filtered.

(* ------------------------------------------------------------------ examples *)
Definition mk (p : bytes) (mode uid gid size mtime : N) (ln : bytes) : stat :=
  {| st_path := p; st_mode := mode; st_uid := uid; st_gid := gid; st_size := size; st_mtime := mtime;
     st_linkname := ln; st_devmajor := 0; st_devminor := 0; st_xattrs := [] |}.
Definition pa := [97]. Definition pb := [98]. Definition pc := [99].
Definition p_ax := [97; 47; 120]. Definition p_by := [98; 47; 121].
Definition dir (p : bytes) (perm : N) := mk p (ModeDir + perm) 0 0 0 7 [].
Definition file (p : bytes) (mt : N) := mk p 420 0 0 3 mt [].
(* transparent hash, header = path + a marker *)
Definition Hx (b : bytes) : bytes := b.
Definition hx (s : stat) : bytes := st_path s ++ [0].

Definition exA : list entry :=
  [ (dir pa 448, []); (file p_ax 1, [1;1;1]);      (* a/ 0700 -> 0755 : metadata only (F5) *)
    (dir pb 493, []); (file p_by 1, [2;2;2]);      (* b/ -> file b *)
    (file pc 1, [3;3;3]) ].                        (* c deleted *)
Definition exB : list entry :=
  [ (dir pa 493, []); (file p_ax 1, [1;1;1]); (file pb 5, [8;8]) ].

(* exB plus c as a NEW NAME of the unchanged a/x (c was a file of its own), honestly announced *)
Definition exBl : list entry := exB ++ [ (mk pc 420 0 0 3 1 p_ax, [1;1;1]) ].
(* the same, announced with another mode and owner than a/x has *)
Definition exBd : list entry := exB ++ [ (mk pc 384 7 0 3 1 p_ax, [1;1;1]) ].

Example hypotheses_satisfiable :
  (wf_listing (map fst exA) /\ wf_listing (map fst exB) /\ links_ok exB
   /\ identity_faithful DMetadata exA exB /\ links_meta exB /\ link_xattrs_kept DMetadata exA exB)
  /\ (wf_listing (map fst exBl) /\ links_ok exBl /\ identity_faithful DMetadata exA exBl
      /\ links_meta exBl /\ link_xattrs_kept DMetadata exA exBl).
Proof.
  split.
  - split; [apply listing_ok_b_iff; vm_compute; reflexivity|].
    split; [apply listing_ok_b_iff; vm_compute; reflexivity|].
    split; [apply links_ok_b_sound; vm_compute; reflexivity|].
    split; [apply identity_faithful_b_sound; vm_compute; reflexivity|].
    split; [apply links_meta_b_sound; vm_compute; reflexivity|].
    apply link_xattrs_kept_b_sound; vm_compute; reflexivity.
  - split; [apply listing_ok_b_iff; vm_compute; reflexivity|].
    split; [apply links_ok_b_sound; vm_compute; reflexivity|].
    split; [apply identity_faithful_b_sound; vm_compute; reflexivity|].
    split; [apply links_meta_b_sound; vm_compute; reflexivity|].
    apply link_xattrs_kept_b_sound; vm_compute; reflexivity.
Qed.

(* an honest new hard link: announced as a modify with a header-only digest, it shares inode
   class and bytes with a/x, and the replayed view is the destination *)
Example example_link_notification :
  let r := receive_abs Hx hx Fresh DMetadata exA exBl in
  recv_honest Fresh DMetadata exA exBl = true
  /\ nth_error (ds_notifs r) 2 = Some (KModify, pc, Some (mk pc 420 0 0 3 1 p_ax, [99; 0]))
  /\ option_map de_ino (alookup pc (ds_map r)) = option_map de_ino (alookup p_ax (ds_map r))
  /\ option_map de_bytes (alookup pc (ds_map r)) = Some [1;1;1]
  /\ replay (ds_notifs r) (nview Hx hx (dest_of exA)) = nview Hx hx (ds_map r).
Proof. vm_compute. repeat split; reflexivity. Qed.

(* the hypothesis is needed: a hard link announced with another mode and owner than its target
   shows the target's (the inode's) — the notification says 0600 uid 7, the destination has
   0644 uid 0, under the announced path and link name *)
Example honesty_needed :
  let r := receive_abs Hx hx Fresh DMetadata exA exBd in
  ds_err r = false
  /\ links_ok exBd /\ recv_honest Fresh DMetadata exA exBd = false /\ links_meta_b exBd = false
  /\ option_map fst (alookup pc (replay (ds_notifs r) (nview Hx hx (dest_of exA)))) = Some (mk pc 384 7 0 3 1 p_ax)
  /\ option_map fst (alookup pc (nview Hx hx (ds_map r))) = Some (mk pc 420 0 0 3 1 p_ax).
Proof.
  cbv zeta. split; [vm_compute; reflexivity|]. split; [apply links_ok_b_sound; vm_compute; reflexivity|].
  vm_compute. repeat split; reflexivity.
Qed.

(* the directory whose mode changed is notified (modify, header-only digest), the file
   replacing a directory is announced as ADD with header + content, its old subtree is not
   mentioned, the deleted file is; replaying that on the old view gives the new view *)
Example example_notifications :
  let r := receive_abs Hx hx Fresh DMetadata exA exB in
  ds_notifs r = [ (KModify, pa, Some (dir pa 493, [97; 0]));
                  (KAdd, pb, Some (file pb 5, [98; 0; 8; 8]));
                  (KDelete, pc, None) ]
  /\ map fst (replay (ds_notifs r) (nview Hx hx (dest_of exA))) = [pb; pa; p_ax]
  /\ alookup p_ax (replay (ds_notifs r) (nview Hx hx (dest_of exA))) = Some (file p_ax 1, [97; 47; 120; 0; 1; 1; 1]).
Proof. vm_compute. repeat split; reflexivity. Qed.

(* merge mode: the destination walker is empty, everything of the source is an add *)
Example example_merge :
  let r := receive_abs Hx hx Merge DMetadata exA exB in
  map (fun n => (fst (fst n))) (ds_notifs r) = [KAdd; KAdd; KAdd]
  /\ ds_reqs r = [p_ax; pb]
  /\ option_map de_bytes (alookup pc (ds_map r)) = Some [3;3;3]   (* c is kept *)
  /\ alookup p_by (ds_map r) = None.                              (* below the replaced directory *)
Proof. vm_compute. repeat split; reflexivity. Qed.

(* a umask-022 filter: the kept directory a/ (0700 -> 0777 at the source) is notified with the
   stat AS SENT (0777) and the header of that stat, the destination holds 0755; the new file b
   (0666 as sent) is stored 0644 and announced 0666 *)
Example filter_ok_satisfiable : filter_ok umask22.
Proof. exact umask22_ok. Qed.
Definition exBf : list entry :=
  [ (dir pa 511, []); (file p_ax 1, [1;1;1]); (mk pb 438 0 0 2 5 [], [8;8]) ].
Example example_filtered :
  let r := receive_abs_f umask22 Hx hx Fresh DMetadata exA exBf in
  ds_notifs r = [ (KModify, pa, Some (dir pa 511, [97; 0]));
                  (KAdd, pb, Some (mk pb 438 0 0 2 5 [], [98; 0; 8; 8]));
                  (KDelete, pc, None) ]
  /\ option_map (fun e => st_mode (de_stat e)) (alookup pa (ds_map r)) = Some (ModeDir + 493)
  /\ option_map (fun e => st_mode (de_stat e)) (alookup pb (ds_map r)) = Some 420
  /\ ds_reqs r = [pb]
  /\ identity_faithful_b DMetadata exA (filter_entries umask22 exBf) = true
  (* a second synchronisation through the same filter finds nothing to do *)
  /\ ds_notifs (receive_abs_f umask22 Hx hx Fresh DMetadata (dest_listing exBf (ds_map r)) exBf) = [].
Proof. vm_compute. repeat split; reflexivity. Qed.
