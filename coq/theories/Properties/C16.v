(* C16 — Copy include/exclude selects exactly the reference set and creates no extra directories.

   Model: Model/CopierSel.v (copier.include/exclude with the parent's MatchInfo, the [copied] flag,
   createParentDirs, copyDirectory, copyDirectoryOnly, copyFileInfo/copyXAttrs on directories) over
   the pattern-list model of C10 (Model/Pattern.v; the single-pattern matcher [pmatch] is external,
   a Section variable).  Proofs: Proofs/CopySelP.v, CopySelThmP.v, CopySelWitnessP.v, on top of
   C10's PatternP, IncrNaiveP, RefP, FlatRefP, NaiveRefP, PruneP.

   Source = a view (the tree C10's filtered walk runs over) with distinct sibling names, only
   directories having children (wf_tree).  Destination = any finite map from paths relative to the
   landing target to entries; "" is the target itself.  [copy_sel ... = (fs', log, None)]: the copy
   succeeded, left the destination [fs'] and materialised the source entries [log] (in this
   order; l_sel = the entry passed include/exclude itself, false = created on demand as a parent).

   keep_incr = included and not excluded, evaluated with MatchesUsingParentResults handed down
   from the top-level source (what copier.copy does); keep_naive = MatchesOrParentMatches on the
   whole path (the reference filter of C10).  flat_items V view = the entries of the full walk
   that V selects or that lie above a selected entry, in walk order (FilterWalk.flat_reference
   with contents); spec_ent says what each of them looks like afterwards (CopierSel.result). *)
From Coq Require Import List NArith Bool String.
From FS Require Import Sx Model.Path Model.Stat Model.Tree Model.Pattern Model.FilterWalk Model.CopierSel
  Proofs.PathP Proofs.PatternP Proofs.WitnessP Proofs.CopySelP Proofs.CopySelThmP Proofs.CopySelWitnessP.
Import ListNotations.

(* ---- copied = entries with the incremental verdict + their ancestors, nothing else ----
   For every matcher, pattern lists, source tree and destination: a successful copy materialises
   exactly the flat reference over keep_incr, in walk order; every destination path other than the
   target itself holds afterwards what [spec_ent] computes from that list and the old content
   (in particular: paths outside the list are untouched, and a path exists afterwards iff it
   existed before or is in the list). *)
Theorem copy_selects_incr_reference :
  forall pmatch c rootst view fs0 fs' log,
    wf_tree view = true ->
    copy_sel pmatch c (SrcDir rootst view) fs0 = (fs', log, None) ->
    log = flat_items (keep_incr pmatch c) view
    /\ map l_st log = flat_reference (keep_incr pmatch c) view
    /\ (forall q, q <> [] -> fs' q = spec_ent log fs0 q)
    /\ (forall q, q <> [] -> (fs' q <> None <-> (fs0 q <> None \/ In q (map l_path log)))).
Proof. exact copy_selects_proof. Qed.

(* ---- no extra directories ----
   An entry of the source (a directory in particular) that is not selected and has no selected
   entry below it does not appear in the destination (unless it was there before). *)
Theorem no_extra_dirs :
  forall pmatch c rootst view fs0 fs' log,
    wf_tree view = true ->
    copy_sel pmatch c (SrcDir rootst view) fs0 = (fs', log, None) ->
    forall e, In e (walk_root view) ->
      keep_incr pmatch c (st_path (fst e)) = false ->
      (forall e', In e' (walk_root view) ->
         has_prefix (st_path (fst e) ++ [sep]) (st_path (fst e')) = true -> keep_incr pmatch c (st_path (fst e')) = false) ->
      fs0 (st_path (fst e)) = None -> fs' (st_path (fst e)) = None.
Proof. exact no_extra_dirs_proof. Qed.

(* ---- parents created on demand carry the source directory's metadata ----
   An item of the log that did not pass include/exclude itself is a directory of the source tree;
   if the destination had nothing at its path it is a directory afterwards with the source
   directory's permission+special bits, owner and xattrs (timestamps are not represented: the
   property does not claim them); if something was there, it was only chmod'ed to the source
   directory's mode (owner, xattrs, content of the existing entry stay). *)
Theorem lazy_parent_metadata :
  forall pmatch c rootst view fs0 fs' log,
    wf_tree view = true ->
    copy_sel pmatch c (SrcDir rootst view) fs0 = (fs', log, None) ->
    forall it, In it log -> l_sel it = false ->
      In (l_st it, l_ct it) (walk_root view) /\ st_is_dir (l_st it) = true /\
      match fs0 (l_path it) with
      | None => exists e, fs' (l_path it) = Some e /\ st_is_dir (fst e) = true
                /\ perm_of (st_mode (fst e)) = perm_of (st_mode (l_st it))
                /\ st_uid (fst e) = st_uid (l_st it) /\ st_gid (fst e) = st_gid (l_st it)
                /\ (keys_sorted (st_xattrs (l_st it)) = true -> st_xattrs (fst e) = st_xattrs (l_st it))
      | Some old => fs' (l_path it) = Some (chmod_stat (l_st it) (fst old), snd old)
      end.
Proof. exact lazy_parent_metadata_proof. Qed.

(* ---- copy vs filtered walk ----
   For ALL pattern lists, matchers and trees: what the copier materialises is, stat for stat and
   in the same order, what filterFS.Walk without its two SkipDir shortcuts reports ... *)
Theorem copy_eq_filter_walk_unpruned :
  forall pmatch c rootst view fs0 fs' log,
    wf_tree view = true ->
    copy_sel pmatch c (SrcDir rootst view) fs0 = (fs', log, None) ->
    map l_st log = filter_walk pmatch id_map (no_prune c) view.
Proof. exact copy_eq_filter_walk_unpruned_proof. Qed.

(* ... and what the walk as the code runs it reports, under the hypotheses of C10's
   prune_unobservable (literal reading of prefix-only patterns by the external matcher;
   regex-safe literals in the L/* patterns the shortcuts rely on) *)
Theorem copy_eq_filter_walk :
  forall pmatch c rootst view fs0 fs' log,
    prefix_semantics pmatch -> cfg_star_safe c = true -> wf_tree view = true ->
    copy_sel pmatch c (SrcDir rootst view) fs0 = (fs', log, None) ->
    map l_st log = filter_walk pmatch id_map c view.
Proof. exact copy_eq_filter_walk_proof. Qed.

(* without cfg_star_safe the statement is FALSE (C10's known finding unsafe-star-literal seen
   from the copier): include ["a{2}/*"], tree aa/x, matcher answering as the real library: the
   copier copies aa and aa/x, the walk prunes aa and reports nothing.  Replayed on the real
   code: corpus/C16/witnesses.case (kind 1602). *)
Theorem copy_ne_filter_walk_refuted :
  exists pmatch c rootst view fs0 fs' log,
    prefix_semantics pmatch /\ wf_tree view = true /\ cfg_star_safe c = false /\
    copy_sel pmatch c (SrcDir rootst view) fs0 = (fs', log, None) /\
    map l_st log <> filter_walk pmatch id_map c view.
Proof.
  exact (ex_intro _ pm_k5 (ex_intro _ k5_cfg (ex_intro _ st_dir (ex_intro _ k5_view (ex_intro _ empty_dst
    (match k5_copy with
     | ex_intro _ fs' (ex_intro _ log (conj H (conj _ (conj _ Hne)))) =>
       ex_intro _ fs' (ex_intro _ log (conj pm_k5_semantics (conj k5_wf (conj k5_not_safe (conj H Hne)))))
     end)))))).
Qed.

(* ---- copy vs the naive reference (the reference filter of C10) ----
   under the computable condition no_late_shadow on every path of the tree *)
Theorem copy_eq_naive :
  forall pmatch c rootst view fs0 fs' log,
    wf_tree view = true -> wf_strict view = true -> all_paths (nls_path pmatch c) view = true ->
    copy_sel pmatch c (SrcDir rootst view) fs0 = (fs', log, None) ->
    log = flat_items (keep_naive pmatch c) view.
Proof. exact copy_eq_naive_proof. Qed.

(* without it: FALSE — known finding K1 (moby/patternmatcher) on the copier: include
   ["d"; "!d/c"; "d"], tree d/{c,e}: the copier copies d, d/e; the naive reference d, d/c, d/e.
   Replayed on the real copy.Copy: corpus/C16/witnesses.case (kind 1601). *)
Theorem copy_ne_naive_refuted :
  exists pmatch c rootst view fs0 fs' log,
    prefix_semantics pmatch /\ wf_tree view = true /\ wf_strict view = true /\
    all_paths (nls_path pmatch c) view = false /\
    copy_sel pmatch c (SrcDir rootst view) fs0 = (fs', log, None) /\
    log <> flat_items (keep_naive pmatch c) view.
Proof.
  exact (ex_intro _ pm_lit (ex_intro _ k1_cfg (ex_intro _ st_dir (ex_intro _ k1_view (ex_intro _ empty_dst
    (match k1_copy with
     | ex_intro _ fs' (ex_intro _ log (conj H (conj _ (conj _ Hne)))) =>
       ex_intro _ fs' (ex_intro _ log
         (conj (lit_pmatch_prefix_semantics _)
               (conj (proj1 k1_wf) (conj (proj1 (proj2 k1_wf)) (conj (proj2 (proj2 k1_wf)) (conj H Hne))))))
     end)))))).
Qed.

(* ---- a single non-directory as the source: the patterns are not consulted ---- *)
Theorem single_file_source_ignores_patterns :
  forall pmatch c pmatch' c' st ct fs,
    copy_sel pmatch c (SrcFile st ct) fs = copy_sel pmatch' c' (SrcFile st ct) fs.
Proof. exact single_file_proof. Qed.

Print Assumptions copy_selects_incr_reference.
Print Assumptions no_extra_dirs.
Print Assumptions lazy_parent_metadata.
Print Assumptions copy_eq_filter_walk_unpruned.
Print Assumptions copy_eq_filter_walk.
Print Assumptions copy_ne_filter_walk_refuted.
Print Assumptions copy_eq_naive.
Print Assumptions copy_ne_naive_refuted.
Print Assumptions single_file_source_ignores_patterns.
