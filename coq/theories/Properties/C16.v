(* C16 — Copy include/exclude selects exactly the reference set and creates no extra directories.

   Model: Model/CopierSel.v (copier.include/exclude with the parent's MatchInfo, the [copied] flag,
   createParentDirs, copyDirectory, copyDirectoryOnly, copyFileInfo/copyXAttrs on directories) over
   the pattern-list model of C10 (Model/Pattern.v; the single-pattern matcher [pmatch] is external,
   a Section variable).  Proofs: Proofs/CopySelP.v, CopySelThmP.v, CopySelWitnessP.v, on top of
   C10's PatternP, IncrNaiveP, RefP, FlatRefP, NaiveRefP, PruneP.

   Source = a view (the tree C10's filtered walk runs over) with distinct sibling names, only
   directories having children (wf_tree).  Destination = any finite map from paths relative to the
   landing target to entries; "" is the target itself.  [copy_sel ... = (fs', log, None)]: the copy
   succeeded, left the destination [fs'] and materialised the source entries [log] (in this
   order; l_sel = the entry passed include/exclude itself, false = created on demand as a parent).

   keep_incr = included and not excluded, evaluated with MatchesUsingParentResults handed down
   from the top-level source (what copier.copy does); keep_naive = MatchesOrParentMatches on the
   whole path (the reference filter of C10).  flat_items V view = the entries of the full walk
   that V selects or that lie above a selected entry, in walk order (FilterWalk.flat_reference
   with contents); spec_ent says what each of them looks like afterwards (CopierSel.result). *)
From Coq Require Import List NArith Bool String.
From FS Require Import Sx Model.Path Model.Stat Model.Tree Model.Pattern Model.FilterWalk Model.CopierSel
  Proofs.PathP Proofs.PatternP Proofs.WitnessP Proofs.CopySelP Proofs.CopySelThmP Proofs.CopySelOkP Proofs.CopySelWitnessP.
Import ListNotations.

(* ---- copied = entries with the incremental verdict + their ancestors, nothing else ----
   For every matcher, pattern lists, source tree and destination: a successful copy materialises
   exactly the flat reference over keep_incr, in walk order; every destination path other than the
   target itself holds afterwards what [spec_ent] computes from that list and the old content
   (in particular: paths outside the list are untouched, and a path exists afterwards iff it
   existed before or is in the list). *)
Theorem copy_selects_incr_reference :
  forall pmatch c rootst view fs0 fs' log,
    wf_tree view = true ->
    copy_sel pmatch c (SrcDir rootst view) fs0 = (fs', log, None) ->
    log = flat_items (keep_incr pmatch c) view
    /\ map l_st log = flat_reference (keep_incr pmatch c) view
    /\ (forall q, q <> [] -> fs' q = spec_ent log fs0 q)
    /\ (forall q, q <> [] -> (fs' q <> None <-> (fs0 q <> None \/ In q (map l_path log)))).
Proof. exact copy_selects_proof. Qed.

(* ---- the hypothesis "the copy succeeded" is not vacuous: creating parents on demand suffices ----
   For every matcher, pattern lists and source tree: if every source path that exists in the
   destination has the same kind there (directory / non-directory) and the landing target is
   missing or a directory — an empty destination in particular — the copy succeeds: no mkdir or
   create ever misses its parent directory. *)
Theorem copy_succeeds_on_compatible_destination :
  forall pmatch c rootst view fs0,
    wf_tree view = true ->
    (forall e o, In e (walk_root view) -> fs0 (st_path (fst e)) = Some o -> e_dir o = st_is_dir (fst e)) ->
    (forall o, fs0 [] = Some o -> e_dir o = true) ->
    exists fs' log, copy_sel pmatch c (SrcDir rootst view) fs0 = (fs', log, None).
Proof. exact (fun pmatch c rootst view fs0 Hwf => copy_succeeds_proof view Hwf pmatch c rootst fs0). Qed.

(* ---- no extra directories ----
   An entry of the source (a directory in particular) that is not selected and has no selected
   entry below it does not appear in the destination (unless it was there before). *)
Theorem no_extra_dirs :
  forall pmatch c rootst view fs0 fs' log,
    wf_tree view = true ->
    copy_sel pmatch c (SrcDir rootst view) fs0 = (fs', log, None) ->
    forall e, In e (walk_root view) ->
      keep_incr pmatch c (st_path (fst e)) = false ->
      (forall e', In e' (walk_root view) ->
         has_prefix (st_path (fst e) ++ [sep]) (st_path (fst e')) = true -> keep_incr pmatch c (st_path (fst e')) = false) ->
      fs0 (st_path (fst e)) = None -> fs' (st_path (fst e)) = None.
Proof. exact no_extra_dirs_proof. Qed.

(* ---- parents created on demand carry the source directory's metadata ----
   An item of the log that did not pass include/exclude itself is a directory of the source tree;
   if the destination had nothing at its path it is a directory afterwards with the source
   directory's permission+special bits, owner and xattrs (timestamps are not represented: the
   property does not claim them); if something was there, it was only chmod'ed to the source
   directory's mode (owner, xattrs, content of the existing entry stay). *)
Theorem lazy_parent_metadata :
  forall pmatch c rootst view fs0 fs' log,
    wf_tree view = true ->
    copy_sel pmatch c (SrcDir rootst view) fs0 = (fs', log, None) ->
    forall it, In it log -> l_sel it = false ->
      In (l_st it, l_ct it) (walk_root view) /\ st_is_dir (l_st it) = true /\
      match fs0 (l_path it) with
      | None => exists e, fs' (l_path it) = Some e /\ st_is_dir (fst e) = true
                /\ perm_of (st_mode (fst e)) = perm_of (st_mode (l_st it))
                /\ st_uid (fst e) = st_uid (l_st it) /\ st_gid (fst e) = st_gid (l_st it)
                /\ (keys_sorted (st_xattrs (l_st it)) = true -> st_xattrs (fst e) = st_xattrs (l_st it))
      | Some old => fs' (l_path it) = Some (chmod_stat (l_st it) (fst old), snd old)
      end.
Proof. exact lazy_parent_metadata_proof. Qed.

(* ---- copy vs filtered walk ----
   For ALL pattern lists, matchers and trees: what the copier materialises is, stat for stat and
   in the same order, what filterFS.Walk without its two SkipDir shortcuts reports ... *)
Theorem copy_eq_filter_walk_unpruned :
  forall pmatch c rootst view fs0 fs' log,
    wf_tree view = true ->
    copy_sel pmatch c (SrcDir rootst view) fs0 = (fs', log, None) ->
    map l_st log = filter_walk pmatch id_map (no_prune c) view.
Proof. exact copy_eq_filter_walk_unpruned_proof. Qed.

(* ... and what the walk as the code runs it reports, under the hypotheses of C10's
   prune_unobservable (literal reading of prefix-only patterns by the external matcher;
   regex-safe literals in the L/* patterns the shortcuts rely on) *)
Theorem copy_eq_filter_walk :
  forall pmatch c rootst view fs0 fs' log,
    prefix_semantics pmatch -> cfg_star_safe c = true -> wf_tree view = true ->
    copy_sel pmatch c (SrcDir rootst view) fs0 = (fs', log, None) ->
    map l_st log = filter_walk pmatch id_map c view.
Proof. exact copy_eq_filter_walk_proof. Qed.

(* without cfg_star_safe the statement is FALSE (C10's known finding unsafe-star-literal seen
   from the copier): include ["a{2}/*"], tree aa/x, matcher answering as the real library: the
   copier copies aa and aa/x, the walk prunes aa and reports nothing.  Replayed on the real
   code: corpus/C16/witnesses.case (kind 1602). *)
Theorem copy_ne_filter_walk_refuted :
  exists pmatch c rootst view fs0 fs' log,
    prefix_semantics pmatch /\ wf_tree view = true /\ cfg_star_safe c = false /\
    copy_sel pmatch c (SrcDir rootst view) fs0 = (fs', log, None) /\
    map l_st log <> filter_walk pmatch id_map c view.
Proof. exact copy_ne_filter_walk_refuted_proof. Qed.

(* ---- copy vs the naive reference (the reference filter of C10) ----
   under the computable condition no_late_shadow on every path of the tree *)
Theorem copy_eq_naive :
  forall pmatch c rootst view fs0 fs' log,
    wf_tree view = true -> wf_strict view = true -> all_paths (nls_path pmatch c) view = true ->
    copy_sel pmatch c (SrcDir rootst view) fs0 = (fs', log, None) ->
    log = flat_items (keep_naive pmatch c) view.
Proof. exact copy_eq_naive_proof. Qed.

(* without it: FALSE — known finding K1 (moby/patternmatcher) on the copier: include
   ["d"; "!d/c"; "d"], tree d/{c,e}: the copier copies d, d/e; the naive reference d, d/c, d/e.
   Replayed on the real copy.Copy: corpus/C16/witnesses.case (kind 1601). *)
Theorem copy_ne_naive_refuted :
  exists pmatch c rootst view fs0 fs' log,
    prefix_semantics pmatch /\ wf_tree view = true /\ wf_strict view = true /\
    all_paths (nls_path pmatch c) view = false /\
    copy_sel pmatch c (SrcDir rootst view) fs0 = (fs', log, None) /\
    log <> flat_items (keep_naive pmatch c) view.
Proof. exact copy_ne_naive_refuted_proof. Qed.

(* ---- a single non-directory as the source: the patterns are not consulted ---- *)
Theorem single_file_source_ignores_patterns :
  forall pmatch c pmatch' c' st ct fs,
    copy_sel pmatch c (SrcFile st ct) fs = copy_sel pmatch' c' (SrcFile st ct) fs.
Proof. exact single_file_proof. Qed.

Print Assumptions copy_selects_incr_reference.
Print Assumptions copy_succeeds_on_compatible_destination.
Print Assumptions no_extra_dirs.
Print Assumptions lazy_parent_metadata.
Print Assumptions copy_eq_filter_walk_unpruned.
Print Assumptions copy_eq_filter_walk.
Print Assumptions copy_ne_filter_walk_refuted.
Print Assumptions copy_eq_naive.
Print Assumptions copy_ne_naive_refuted.
Print Assumptions single_file_source_ignores_patterns.

(* ---- non-vacuity: the tree of filter_test.go with distinctive directory metadata; the same
        inputs are run against the real copy.Copy by corpus/C16/examples.case ---- *)
Open Scope string_scope.

Definition look : list string :=
  ["a"; "a/b"; "a/b/bar"; "a/b/bar/fop"; "a/b/bar/foo"; "a/b/baz"; "bar"; "baz"; "foo"; "foo2"].

(* include a/b/bar/fop into an empty destination: a, a/b, a/b/bar are created on demand with the
   source directories' mode (sticky bit included), owner and xattrs; no other directory appears *)
Example ex_deferred_parents :
  run_ex pm_lit cfg_deep empty_dst look =
  (None,
   [(bs "a", false); (bs "a/b", false); (bs "a/b/bar", false); (bs "a/b/bar/fop", true)],
   [Some ((ModeDir + 457)%N, 0%N, 7%N, [(bs "user.kb", [118%N])]);
    Some ((ModeDir + ModeSticky + 511)%N, 5%N, 0%N, []);
    Some ((ModeDir + 448)%N, 1000%N, 5%N, [(bs "user.ka", [1%N; 2%N])]);
    Some (420%N, 0%N, 0%N, []); None; None; None; None; None; None])
  /\ wf_tree c16_view = true.
Proof. vm_compute. split; reflexivity. Qed.

(* the same when a exists already (mode 0500, uid 9, an xattr): a is only chmod'ed *)
Example ex_existing_parent_chmod_only :
  run_ex pm_lit cfg_deep dst_with_a ["a"; "a/b"] =
  (None,
   [(bs "a", false); (bs "a/b", false); (bs "a/b/bar", false); (bs "a/b/bar/fop", true)],
   [Some ((ModeDir + 457)%N, 9%N, 0%N, [(bs "user.old", [9%N])]);
    Some ((ModeDir + ModeSticky + 511)%N, 5%N, 0%N, [])]).
Proof. vm_compute. reflexivity. Qed.

(* a FILE named a in the destination where the parent a is needed: createParentDirs reports it *)
Example ex_parent_is_a_file : run_ex pm_lit cfg_deep dst_file_a [] = (Some EDirOverNondir, [], []).
Proof. vm_compute. reflexivity. Qed.

(* **, !, trailing /*, directories that match but have no selected descendant (a/b/baz, foo), a
   directory in which nothing matches (baz): copy = filtered walk = flat naive reference *)
Definition cfg_mix : cfg :=
  {| c_inc := Some [ip "a/b/*"; ip "**/foo"; xp "foo/**"]; c_exc := Some [ip "a/b/bar/*"; xp "a/b/bar/fop"; ip "foo2"];
     c_prune := true |}.
Definition pm_c16 : list N -> list N -> bool :=
  lit_pmatch (fun P q =>
    if bytes_eqb P (bs "**/foo") then
      bytes_eqb q (bs "foo") || match strip_suffix (bs "/foo") q with Some _ => true | None => false end
    else false).
Example ex_mixed :
  err_of pm_c16 cfg_mix ft_view empty_dst = None
  /\ lpaths (log_of pm_c16 cfg_mix ft_view empty_dst)
     = map bs ["a"; "a/b"; "a/b/bar"; "a/b/bar/fop"; "a/b/baz"; "bar"; "bar/foo"; "foo"]
  /\ map l_sel (log_of pm_c16 cfg_mix ft_view empty_dst) = [false; false; true; true; true; false; true; true]
  /\ map l_st (log_of pm_c16 cfg_mix ft_view empty_dst) = filter_walk pm_c16 id_map cfg_mix ft_view
  /\ log_of pm_c16 cfg_mix ft_view empty_dst = flat_items (keep_naive pm_c16 cfg_mix) ft_view
  /\ (wf_tree ft_view = true /\ wf_strict ft_view = true /\ cfg_star_safe cfg_mix = true
      /\ all_paths (nls_path pm_c16 cfg_mix) ft_view = true).
Proof. vm_compute. repeat split; reflexivity. Qed.
