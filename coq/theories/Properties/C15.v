(* C15 — Copy onto existing content follows overlay rules and is idempotent.
   Only the property theorems (closed by [exact]) and their [Print Assumptions]; the model of
   /repo/copy is Model/Copier.v, the declarative overlay rules are Model/CopySpec.v
   ([overlay_all]), proofs in Proofs/Copy*P.v.

   Reading guide.  [copy_top o sel sroot fs src dst] = copy.Copy on the destination file system
   [fs] (names -> inode ids -> dentries, so hard links and metadata sharing are as on disk) with
   the source tree [sroot]; it returns the final state and the error.  [overlay_all o sroot V src
   dst] computes from the destination VIEW alone what must be at every path afterwards
   ([xr_view]: dentry, whether its mtime is determined, an inode KEY: same key <-> same inode),
   the notifications, or the error ([XConflict cls path obstacle], [XOther cls], [XScope] = a
   symlink on an argument path, C14's subject).  [view_matches V X] = every path of V carries
   exactly the entry X demands (all stat fields, xattrs, bytes, symlink target; mtime unless
   unspecified) and two non-directories share an inode iff their keys are equal.
   [wf_src]: sibling names distinct, only directories have children, valid types, symlinks 0777,
   xattrs sorted by key.  [wf_fs]: ids below [next], every entry has a parent directory,
   directories have one name, the root is a directory.
   [links_consistent]: the names of one multiply-linked regular file carry one dentry.
   Link groups (copier.inodes, os.Link, forgetLinkSources): the EXACT inode partition
   ("same group <-> same inode") is proved for one literal source and for wildcard sources
   without link groups (hypothesis [no_link_groups sroot \/ o_wild o = false]); for wildcard
   sources WITH link groups the dentries and "same inode -> same group" are proved
   (copy_overlay_links), the converse is refuted (copy_overlay_partition_refuted: known finding
   hardlink-group-split-after-overwrite).  See props/C15.json. *)
From Coq Require Import List NArith Bool.
From FS Require Import Sx Model.Path Model.SymMode Model.Copier Model.CopySpec
  Proofs.CopierP Proofs.CopyOpsP Proofs.CopyTopP Proofs.CopyThmP Proofs.CopyConflictP Proofs.CopyFaithP
  Proofs.CopyIdemP Proofs.CopyEx.
Import ListNotations.
Open Scope N_scope.
Open Scope bool_scope.

(* The result of a successful Copy is [overlay_all] - every dentry AND the exact inode
   partition - and the notifications are [xr_notifs]; for one literal source (link groups
   included) and for wildcard sources without link groups. *)
Theorem copy_overlay_partial :
  forall o sroot, wf_src sroot -> links_consistent sroot -> no_link_groups sroot \/ o_wild o = false ->
  forall fs src dst r, wf_fs fs -> overlay_all o sroot (view_of_fs fs) src dst = inl r ->
    exists st', copy_top o sel_all sroot fs src dst = (st', None) /\
                view_matches (view_of_fs (c_fs st')) (xr_view r) /\
                rev (c_notifs st') = xr_notifs r.
Proof. exact copy_overlay_partial_proof. Qed.

(* EVERY source, wildcards together with link groups included: every path carries exactly the
   dentry the overlay demands ([match_at]: type, mode, owner, time, device, target, xattrs,
   bytes), and two names share an inode only if the overlay puts them into one group
   ([keys_sound]: a copy is never linked to a file of another group, nor to a foreign file -
   what forgetLinkSources repairs); notifications as specified. *)
Theorem copy_overlay_links :
  forall o sroot, wf_src sroot -> links_consistent sroot ->
  forall fs src dst r, wf_fs fs -> overlay_all o sroot (view_of_fs fs) src dst = inl r ->
    exists st', copy_top o sel_all sroot fs src dst = (st', None) /\
                (forall p, match_at (view_of_fs (c_fs st')) (xr_view r) p = true) /\
                keys_sound (view_of_fs (c_fs st')) (xr_view r) /\
                rev (c_notifs st') = xr_notifs r.
Proof. exact copy_overlay_links_proof. Qed.

(* ... but not the converse: with wildcards a later match can replace the recorded copy of a
   link group while another name of it survives; the next member is copied afresh and the
   group ends up on two inodes (every dentry right).  Real code: corpus/C13/group_split.case,
   known finding hardlink-group-split-after-overwrite. *)
Theorem copy_overlay_partition_refuted :
  exists o sroot fs src dst,
    wf_src sroot /\ links_consistent sroot /\ wf_fs fs /\
    match overlay_all o sroot (view_of_fs fs) src dst with
    | inl r =>
      let V := view_of_fs (c_fs (fst (copy_top o sel_all sroot fs src dst))) in
      snd (copy_top o sel_all sroot fs src dst) = None /\
      ~ (forall p q, keys_at V (xr_view r) p q = true)
    | inr _ => False
    end.
Proof. exact copy_overlay_partition_refuted_proof. Qed.

(* every error the specification predicts is the error Copy reports (all sources) *)
Theorem copy_error :
  forall o sroot, wf_src sroot -> links_consistent sroot ->
  forall fs src dst xe, wf_fs fs -> overlay_all o sroot (view_of_fs fs) src dst = inr xe ->
    exists st' e, copy_top o sel_all sroot fs src dst = (st', Some e) /\ err_cls e = xerr_cls xe.
Proof. exact copy_error_partial_proof. Qed.

(* A directory meeting a non-directory (class 1: source directory over a non-directory, class 2:
   source non-directory over a directory) without always-replace: Copy fails with that class and
   the obstacle is still at its path with the same dentry and the same inode (all sources). *)
Theorem conflict_is_error_and_keeps_obstacle :
  forall o sroot, wf_src sroot -> links_consistent sroot ->
  forall fs src dst cls p bef, wf_fs fs ->
    overlay_all o sroot (view_of_fs fs) src dst = inr (XConflict cls p bef) ->
    o_replace o = false /\
    exists st' e be i,
      copy_top o sel_all sroot fs src dst = (st', Some e) /\ err_cls e = cls /\
      bef = Some be /\
      ((cls = 1 /\ is_dir (x_d be) = false) \/ (cls = 2 /\ is_dir (x_d be) = true)) /\
      names (c_fs st') p = Some i /\ dent_match (inodes (c_fs st') i) be = true /\
      (forall j, x_key be = KDst j -> i = j).
Proof. exact conflict_is_error_and_keeps_obstacle_partial_proof. Qed.

(* With always-replace no clash is ever reported (the source entry replaces the obstacle: that
   is then part of copy_overlay, see ex_replace below). *)
Theorem always_replace_never_conflicts :
  forall o sroot V0 src dst cls p bef,
    o_replace o = true -> overlay_all o sroot V0 src dst <> inr (XConflict cls p bef).
Proof. exact always_replace_never_conflicts_proof. Qed.

(* A successful Copy leaves a well-formed file system, so it can be copied onto again. *)
Theorem copy_preserves_wf :
  forall o sroot, wf_src sroot -> links_consistent sroot ->
  forall fs src dst st', wf_fs fs -> copy_top o sel_all sroot fs src dst = (st', None) -> wf_fs (c_fs st').
Proof. exact copy_preserves_wf_proof. Qed.

(* "... unless always-replace is set, in which case the source wins": no clash is reported, and
   after a successful copy every source entry is at its destination path with the source's
   type, a source non-directory as a faithful copy whatever was there before (one literal source;
   what else is there is copy_overlay_partial). *)
Theorem always_replace_source_wins_partial :
  forall o sroot, wf_src sroot -> links_consistent sroot ->
  forall fs src dst ms sn,
    o_replace o = true -> o_wild o = false -> wf_fs fs ->
    parse_of o = Some ms -> s_resolve sroot (rooted src) = inl sn ->
    (forall cls p bef, overlay_all o sroot (view_of_fs fs) src dst <> inr (XConflict cls p bef)) /\
    (forall r L, overlay_all o sroot (view_of_fs fs) src dst = inl r -> xr_landings r = [L] ->
       exists st', copy_top o sel_all sroot fs src dst = (st', None) /\
         forall rel s, s_lookup sn rel = Some s ->
           exists i d, view_of_fs (c_fs st') (L ++ rel) = Some (i, d) /\ ftype d = copy_type (sdent s) /\
                       (is_dir (sdent s) = false -> faithful_dent o ms (sdent s) d = true)).
Proof. exact always_replace_source_wins_partial_proof. Qed.

(* Repeating a successful copy changes nothing: every path has the same dentry (type, mode,
   owner, device, symlink target, xattrs, bytes) after the second application, and the same
   mtime except for directories whose entries were re-created (their expected entry has
   x_known = false: "some time during the call").
   Full statement (copy_idempotent): target_stable o fs -> copy (copy fs) ~ copy fs for every
   successful copy.  Here target_stable is the pair of hypotheses on the SECOND application:
   the specification predicts success and the same landing path ([xr_landings]) - without it
   the statement contradicts the landing rule (a source directory copied to a not yet existing
   dst lands AT dst the first time and INSIDE dst the second time, like cp -a); landing_clear
   as in C13.  One literal source (link groups included); inode numbers are not compared
   (non-directories are re-created). *)
Theorem copy_idempotent_partial :
  forall o sroot, wf_src sroot -> links_consistent sroot ->
  forall fs src dst r1 st1 r2 ms sn L,
    o_wild o = false -> wf_fs fs ->
    overlay_all o sroot (view_of_fs fs) src dst = inl r1 ->
    copy_top o sel_all sroot fs src dst = (st1, None) ->
    parse_of o = Some ms -> s_resolve sroot (rooted src) = inl sn ->
    xr_landings r1 = [L] -> landing_clear r1 sn L ->
    overlay_all o sroot (view_of_fs (c_fs st1)) src dst = inl r2 -> xr_landings r2 = [L] ->
    exists st2, copy_top o sel_all sroot (c_fs st1) src dst = (st2, None) /\
      forall p, match view_of_fs (c_fs st1) p, view_of_fs (c_fs st2) p with
                | None, None => True
                | Some (_, d1), Some (_, d2) =>
                    same_but_time d1 d2 /\
                    (d_mtime d1 = d_mtime d2 \/ exists e, xr_view r2 p = Some e /\ x_known e = false)
                | _, _ => False
                end.
Proof. exact copy_idempotent_partial_proof. Qed.

Print Assumptions copy_overlay_partial.
Print Assumptions copy_overlay_links.
Print Assumptions copy_overlay_partition_refuted.
Print Assumptions copy_error.
Print Assumptions conflict_is_error_and_keeps_obstacle.
Print Assumptions always_replace_never_conflicts.
Print Assumptions copy_preserves_wf.
Print Assumptions always_replace_source_wins_partial.
Print Assumptions copy_idempotent_partial.

(* ---- non-vacuity ---- *)
Example ex_hypotheses :
  wf_src ex_src /\ no_link_groups ex_src /\ links_consistent ex_src /\ wf_fs fs_empty /\ wf_fs ex_dst /\
  wf_src ex_src_links /\ links_consistent ex_src_links.
Proof.
  exact (conj (proj1 ex_src_wf) (conj (proj2 ex_src_wf) (conj (links_consistent_nolinks _ (proj2 ex_src_wf))
        (conj fs_empty_wf (conj ex_dst_wf ex_src_links_wf))))).
Qed.

Definition ex_paths : list (list (list N)) :=
  [ []; [n_d]; [n_d; n_f]; [n_d; n_f; n_x]; [n_d; n_g]; [n_d; n_l]; [n_d; n_p]; [n_p]; [n_x]; [n_d; n_d] ].

(* d/f is a directory in the destination, a file in the source: class 2 at d/f, the directory
   d/f and its content stay (same inode), the unrelated d/g too *)
Example ex_conflict :
  match overlay_all o_plain ex_src (view_of_fs ex_dst) n_d s_slash,
        copy_top o_plain sel_all ex_src ex_dst n_d s_slash with
  | inr (XConflict cls p (Some be)), (st', Some e) =>
      N.eqb cls 2 && path_eqb p [n_d; n_f] && is_dir (x_d be) && N.eqb (err_cls e) 2 &&
      (match names (c_fs st') [n_d; n_f], names ex_dst [n_d; n_f] with
       | Some i, Some j => N.eqb i j && dent_match (inodes (c_fs st') i) be
       | _, _ => false end) &&
      (match lstat (c_fs st') [n_d; n_f; n_x] with Some d => is_reg d | None => false end)
  | _, _ => false
  end = true.
Proof. vm_compute. reflexivity. Qed.

(* the same call with always-replace: the file wins, d/f/x is gone, d/g stays; d, the directory
   named by the call, is merged into: it keeps owner, mode and xattrs and gets the source's time *)
Example ex_replace :
  match overlay_all o_replace_on ex_src (view_of_fs ex_dst) n_d s_slash,
        copy_top o_replace_on sel_all ex_src ex_dst n_d s_slash with
  | inl r, (st', None) =>
      view_matches_b (view_of_fs (c_fs st')) (xr_view r) ex_paths &&
      (match lstat (c_fs st') [n_d; n_f] with Some d => is_reg d && bytes_eqb (d_content d) [104; 105] | None => false end) &&
      (match lstat (c_fs st') [n_d; n_f; n_x] with Some _ => false | None => true end) &&
      (match lstat (c_fs st') [n_d; n_g] with Some d => bytes_eqb (d_content d) [111; 108; 100] | None => false end) &&
      (match lstat (c_fs st') [n_d] with
       | Some d => N.eqb (d_uid d) 0 && N.eqb (perm12 d) 448 && N.eqb (d_mtime d) 1000 &&
                   xattrs_eqb (d_xattrs d) [([97], [2])]
       | None => false end)
  | _, _ => false
  end = true.
Proof. vm_compute. reflexivity. Qed.

(* a non-directory copied to an existing directory lands inside it; one notification *)
Example ex_file_into_dir :
  match overlay_all o_plain ex_src (view_of_fs ex_dst) n_p n_d,
        copy_top o_plain sel_all ex_src ex_dst n_p n_d with
  | inl r, (st', None) =>
      view_matches_b (view_of_fs (c_fs st')) (xr_view r) ex_paths &&
      (match lstat (c_fs st') [n_d; n_p] with Some d => N.eqb (ftype d) S_IFIFO | None => false end) &&
      (match rev (c_notifs st') with [(p, false)] => path_eqb p [n_d; n_p] | _ => false end) &&
      (match xr_landings r with [L] => path_eqb L [n_d; n_p] | _ => false end)
  | _, _ => false
  end = true.
Proof. vm_compute. reflexivity. Qed.

(* wildcards: "*" = d and p, both land in the not yet existing n/ ... the first match creates it *)
Example ex_wildcard :
  let o := {| o_chown := None; o_mode := None; o_modestr := []; o_utime := None; o_dircontents := false;
              o_replace := false; o_wild := true; o_umask := 18 |} in
  match overlay_all o ex_src (view_of_fs fs_empty) [42] [120; 47],
        copy_top o sel_all ex_src fs_empty [42] [120; 47] with
  | inl r, (st', None) =>
      view_matches_b (view_of_fs (c_fs st')) (xr_view r) ([n_x; n_d] :: [n_x; n_d; n_f] :: [n_x; n_d; n_l] :: [n_x; n_p] :: ex_paths) &&
      (match lstat (c_fs st') [n_x; n_d; n_f], lstat (c_fs st') [n_x; n_p] with Some _, Some _ => true | _, _ => false end)
  | _, _ => false
  end = true.
Proof. vm_compute. reflexivity. Qed.

(* the always-replace copy of ex_replace applied twice: same landing, same dentries everywhere *)
Definition dent_eqb (a b : dent) : bool :=
  N.eqb (d_mode a) (d_mode b) && N.eqb (d_uid a) (d_uid b) && N.eqb (d_gid a) (d_gid b) &&
  N.eqb (d_rdev a) (d_rdev b) && bytes_eqb (d_target a) (d_target b) && xattrs_eqb (d_xattrs a) (d_xattrs b) &&
  bytes_eqb (d_content a) (d_content b).
Example ex_idempotent :
  match copy_top o_replace_on sel_all ex_src ex_dst n_d s_slash with
  | (st1, None) =>
    match overlay_all o_replace_on ex_src (view_of_fs ex_dst) n_d s_slash,
          overlay_all o_replace_on ex_src (view_of_fs (c_fs st1)) n_d s_slash,
          copy_top o_replace_on sel_all ex_src (c_fs st1) n_d s_slash with
    | inl r1, inl r2, (st2, None) =>
        (match xr_landings r1, xr_landings r2 with [L1], [L2] => path_eqb L1 L2 | _, _ => false end) &&
        forallb (fun p => match lstat (c_fs st1) p, lstat (c_fs st2) p with
                          | Some d1, Some d2 => dent_eqb d1 d2 && (N.eqb (d_mtime d1) (d_mtime d2) || is_dir d2)
                          | None, None => true
                          | _, _ => false end) ex_paths &&
        (match lstat (c_fs st2) [n_d; n_f] with Some d => is_reg d | None => false end)
    | _, _, _ => false
    end
  | _ => false
  end = true.
Proof. vm_compute. reflexivity. Qed.

(* link groups: d/f, d/g and h are one inode in the source; copying the root over the populated
   destination with always-replace: the three copies share ONE inode (d/g replaces the old
   unrelated file), d/x has its own, the overlay specification (keys KSrc) is matched *)
Example ex_link_group :
  match overlay_all o_replace_on ex_src_links (view_of_fs ex_dst) [] s_slash,
        copy_top o_replace_on sel_all ex_src_links ex_dst [] s_slash with
  | inl r, (st', None) =>
      view_matches_b (view_of_fs (c_fs st')) (xr_view r) ([n_h] :: [n_d; n_x] :: ex_paths) &&
      (match names (c_fs st') [n_d; n_f], names (c_fs st') [n_d; n_g], names (c_fs st') [n_h], names (c_fs st') [n_d; n_x] with
       | Some a, Some b, Some c, Some d => N.eqb a b && N.eqb b c && negb (N.eqb a d)
       | _, _, _, _ => false end) &&
      (match lstat (c_fs st') [n_d; n_g] with Some d => bytes_eqb (d_content d) [104; 105] | None => false end) &&
      negb (c_split st')
  | _, _ => false
  end = true.
Proof. vm_compute. reflexivity. Qed.

(* the former finding hardlink-first-copy-overwritten, repaired: d1/f1 = d2/f2 one inode, d2/f1
   another file, "d*/f?" to "/": /f2 now reads AAA and the whole overlay incl. the partition holds *)
Example ex_stale_repaired :
  match overlay_all o_wild_on ex_stale_src (view_of_fs fs_empty) stale_pat s_slash,
        copy_top o_wild_on sel_all ex_stale_src fs_empty stale_pat s_slash with
  | inl r, (st', None) =>
      view_matches_b (view_of_fs (c_fs st')) (xr_view r) [ []; [n_f1]; [n_f2]; [n_d1]; [n_d2] ] &&
      (match lstat (c_fs st') [n_f1], lstat (c_fs st') [n_f2] with
       | Some a, Some b => bytes_eqb (d_content a) [66; 66; 66] && bytes_eqb (d_content b) [65; 65; 65]
       | _, _ => false end) && negb (c_split st')
  | _, _ => false
  end = true.
Proof. vm_compute. reflexivity. Qed.

(* ---- source equivalences (tools/go2coq; gen/SrcFns.v is regenerated from /repo on every run), for ALL inputs:
        the Gallina definition translated from copy/copy.go's containsWildcards (Linux) equals the model's
        escape-aware has_wild_e (the byte after a backslash is skipped) by which splitWildcards finds the first
        pattern component, and its loop never runs out of the fuel the translator derived ---- *)
From FSGen Require SrcFns.
From FS Require Proofs.Src.CopyContainsWildcardsEq.
Theorem copy_containsWildcards_src_eq :
  forall c, SrcFns.copy_containsWildcards c = Some (has_wild_e c).
Proof. exact CopyContainsWildcardsEq.copy_containsWildcards_src_eq. Qed.
(* the earlier statement: the escape-free has_wild on backslash-free components (through has_wild_e_backslash_free) *)
Theorem copy_containsWildcards_backslash_free :
  forall c, existsb (N.eqb ch_bsl) c = false ->
    SrcFns.copy_containsWildcards c = Some (has_wild c).
Proof. exact CopyContainsWildcardsEq.copy_containsWildcards_backslash_free. Qed.
Print Assumptions copy_containsWildcards_src_eq.
Print Assumptions copy_containsWildcards_backslash_free.

(* splitWildcards (strings.Split / filepath.Join with the meanings of Src/Prims.v, proved equal to Path.comps /
   Path.clean; a range variable that shadows the parameter; containsWildcards through its own translation)
   computes, for ALL p, what the model's resolve_wild computes: the components of Clean(p) (one empty component
   for an empty p; an empty component stands for "/"), split before the first pattern component by the
   escape-aware split_wild_e, each half joined and cleaned ("" for an empty half). *)
From FS Require Proofs.Src.SplitWildcardsEq.
Theorem splitWildcards_src_eq : forall p,
  let cs0 := match p with [] => [[]] | _ => comps (clean p) end in
  let cs := map (fun c => match c with [] => [sep] | _ => c end) cs0 in
  let jn := fun l : list bytes => match l with [] => [] | _ => clean (joinc l) end in
  SrcFns.splitWildcards p = Some (jn (fst (split_wild_e cs)), jn (snd (split_wild_e cs))).
Proof. exact SplitWildcardsEq.splitWildcards_src_eq. Qed.
(* the earlier statement: the escape-free split_wild when no component holds a backslash *)
Theorem splitWildcards_backslash_free : forall p,
  let cs0 := match p with [] => [[]] | _ => comps (clean p) end in
  let cs := map (fun c => match c with [] => [sep] | _ => c end) cs0 in
  let jn := fun l : list bytes => match l with [] => [] | _ => clean (joinc l) end in
  forallb (fun c => negb (existsb (N.eqb ch_bsl) c)) cs0 = true ->
  SrcFns.splitWildcards p = Some (jn (fst (split_wild cs)), jn (snd (split_wild cs))).
Proof. exact SplitWildcardsEq.splitWildcards_backslash_free. Qed.
Print Assumptions splitWildcards_src_eq.
Print Assumptions splitWildcards_backslash_free.

(* ---- backslash escapes in wildcard sources.  The model's resolve_wild (and with it overlay_all,
   copy_top and every theorem above) honours them: a component is a pattern iff it holds an
   UNESCAPED * ? [ ([has_wild_e]: the byte after a backslash is skipped, as containsWildcards does
   on Linux); the components before the first pattern component are a literal path, backslashes
   included ([split_wild_e]); matching is filepath.Match restricted to literals, *, ? and \x
   ([glob_e]; character classes and a trailing lone backslash: EScope).  The two source-equivalence theorems above
   tie them to the translated Go functions for all inputs; on components without a backslash they are the plain
   has_wild / split_wild (/ glob). *)
From FS Require Proofs.CopyWildP.
Theorem has_wild_e_backslash_free :
  forall c, existsb (N.eqb ch_bsl) c = false -> has_wild_e c = has_wild c.
Proof. exact CopyWildP.has_wild_e_plain. Qed.
Theorem split_wild_e_backslash_free :
  forall cs, forallb (fun c => negb (existsb (N.eqb ch_bsl) c)) cs = true -> split_wild_e cs = split_wild cs.
Proof. exact CopyWildP.split_wild_e_plain. Qed.
Theorem glob_e_backslash_free :
  forall pat, existsb (N.eqb ch_bsl) pat = false -> forall name, glob_e pat name = glob pat name.
Proof. exact CopyWildP.glob_e_plain. Qed.
Print Assumptions has_wild_e_backslash_free.
Print Assumptions split_wild_e_backslash_free.
Print Assumptions glob_e_backslash_free.

(* "\[*" and "x\??" are patterns (an escaped metacharacter followed by real ones), "\[" and "a\*" are
   literal names; "\[*" matches "[ab", "x\??" matches "x?z" and not "xyz" *)
Example ex_escapes :
  has_wild_e [92; 91; 42] && has_wild_e [120; 92; 63; 63] && negb (has_wild_e [92; 91]) && negb (has_wild_e [97; 92; 42]) &&
  has_wild_e [92; 92; 42] && glob_e [92; 91; 42] [91; 97; 98] && glob_e [120; 92; 63; 63] [120; 63; 122] &&
  negb (glob_e [120; 92; 63; 63] [120; 121; 122]) = true.
Proof. vm_compute. reflexivity. Qed.

