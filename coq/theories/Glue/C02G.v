(* C02 kinds.  0201/0202: Glue/DiffG.v (real doubleWalkDiff / sameFile through the hooks).
   0203: the real DiskWriter driven by the real diff (harness/c05.go) against Model/AbsDest.v,
   specification oracle RecvG.c02_spec (exact request set, unchanged entries keep their inode).
   0204: below. *)
From Coq Require Import List NArith Bool.
From FS Require Import Sx Glue.DiffG Glue.RecvG.
Import ListNotations.

Definition run_0201 := DiffG.run_0201.
Definition run_0202 := DiffG.run_0202.

Definition run_0203 (input impl : sx) : sx :=
  match dec_rcase input impl with
  | None => v_malformed
  | Some c => verdict (model_obs c) (impl_obs c) (c02_spec c) (SL [])
  end.

(* 0204: the real walker + differ + DiskWriter run TWICE on the same source (harness/c05.go
   runResync); specification oracle RecvG.c02_resync_spec = C02 resync_after_transfer_noop. *)
Definition run_0204 (input impl : sx) : sx :=
  match dec_rscase input impl with
  | None => v_malformed
  | Some c => verdict (rs_model c) (rs_impl c) (c02_resync_spec c) (SL [])
  end.

(* 0205: a history of three synchronisations through the real Send/Receive with the real walks on
   both sides (harness/c02e2e.go); specification oracle RecvG.c02_history_spec. *)
Definition run_0205 (input impl : sx) : sx :=
  match dec_hcase input impl with
  | None => v_malformed
  | Some c => verdict (h_model c) (h_impl c) (c02_history_spec c) (SL [])
  end.
