(* Decoding of C03 cases and verdicts.
   kind 0301: FS model vs the Linux kernel (random syscall sequences in a chroot jail).
   kind 0302: real fsutil.Receive fed by a hostile sender vs recv_fs (see below). *)
From Coq Require Import List NArith Bool.
From FS Require Import Sx Model.Path Model.Stat Model.Fs.
Import ListNotations.
Open Scope N_scope.

(* ---- encoding of inodes and snapshots (shared by both kinds) ---- *)
Definition type_code (k : ikind) : N :=
  match k with
  | KDir _ _ => 16384 | KFile _ => 32768 | KLink _ => 40960 | KSpecial t _ => t
  end.
Definition enc_xattrs (x : list (bytes * bytes)) : sx :=
  SL (map (fun kv => SL [SB (fst kv); SB (snd kv)]) x).
(* (type mode uid gid mtime rdev target xattrs content) *)
Definition enc_inode (n : inode) : sx :=
  let m := i_meta n in
  SL [SN (type_code (i_kind n)); SN (m_mode m); SN (m_uid m); SN (m_gid m); SN (m_mtime m);
      SN (match i_kind n with KSpecial _ r => r | _ => 0 end);
      SB (match i_kind n with KLink t => t | _ => [] end);
      enc_xattrs (m_xattrs m);
      SB (match i_kind n with KFile d => d | _ => [] end)].

Fixpoint first_index (i : N) (l : list (bytes * N * inode)) (k : N) : N :=
  match l with
  | [] => k
  | (_, j, _) :: r => if N.eqb i j then k else first_index i r (k + 1)
  end.
(* entries (path class inode): class = index of the first entry with the same inode *)
Definition enc_snapshot (l : list (bytes * N * inode)) : sx :=
  SL (map (fun e : bytes * N * inode =>
             match e with (p, i, n) => SL [SB p; SN (first_index i l 0); enc_inode n] end) l).

Definition snapshot_from (f : fs) (i : N) : list (bytes * N * inode) :=
  match get f i with
  | Some n => ([], i, n) :: tree_below 64 f i []
  | None => []
  end.

Definition names_sorted (l : list bytes) : list bytes :=
  map fst (sort_ents (map (fun n => (n, tt)) l)).

Definition enc_result (r : result) : sx :=
  match r with
  | ROk => SL []
  | RErr e => SL [SN (errno_code e)]
  | RStat _ n => SL [SN 0; enc_inode n]
  | RBytes b => SL [SN 0; SB b]
  | RNames l => SL [SN 0; SL (map SB (names_sorted l))]
  | RFd _ => SL []
  end.

(* ---- kind 0301: one syscall ---- *)
Definition step_0301 (st : ctx * fs) (op : sx) : option (ctx * fs * result) :=
  let (c, f) := st in
  let ret (x : fs * result) := Some (c, fst x, snd x) in
  match op with
  | SL [SN 1; SB p] => ret (sys_lstat c f p)
  | SL [SN 2; SB p] => ret (sys_stat c f p)
  | SL [SN 3; SB p] => ret (sys_readlink c f p)
  | SL [SN 4; SB p] => ret (sys_readdir c f p)
  | SL [SN 5; SB p; SN m] => ret (sys_mkdir c f p m)
  | SL [SN 6; SB p; SN t; SN m; SN r] => ret (sys_mknod c f p t m r)
  | SL [SN 7; SB t; SB p] => ret (sys_symlink c f t p)
  | SL [SN 8; SB o; SB n] => ret (sys_link c f o n)
  | SL [SN 9; SB p; cr; SN m; SN off; SB d] =>
    b <- sx_bool cr ;;
    match sys_open_wronly c f p b m with
    | (f1, RFd i) => ret (fd_pwrite f1 i (N.to_nat off) d)
    | x => ret x
    end
  | SL [SN 10; SB p] => ret (sys_unlink c f p)
  | SL [SN 11; SB p] => ret (sys_rmdir c f p)
  | SL [SN 12; SB p] => ret (sys_remove_all c f p)
  | SL [SN 13; SB o; SB n] => ret (sys_rename c f o n)
  | SL [SN 14; SB p; SN m] => ret (sys_chmod c f p m)
  | SL [SN 15; SB p; SN u; SN g] => ret (sys_lchown c f p u g)
  | SL [SN 16; SB p; SN t] => ret (sys_utimens c f p t)
  | SL [SN 17; SB p; SB k; SB v] => ret (sys_lsetxattr c f p k v)
  | SL [SN 18; SB p] => let (c', r) := sys_chdir c f p in Some (c', f, r)
  | _ => None
  end.

Fixpoint run_ops (st : ctx * fs) (ops : list sx) (acc : list sx) : option (fs * list sx) :=
  match ops with
  | [] => Some (snd st, rev acc)
  | op :: r =>
    x <- step_0301 st op ;;
    match x with (c, f, res) => run_ops (c, f) r (enc_result res :: acc) end
  end.

(* input = (op ...); impl = ((result ...) snapshot) from the kernel.  There is no separate
   specification: the kernel is the ground truth the model is validated against. *)
Definition run_0301 (input impl : sx) : sx :=
  match input with
  | SL ops =>
    match run_ops (ctx_init, fs_init) ops [] with
    | Some (f, rs) => verdict (SL [SL rs; enc_snapshot (snapshot_from f 1)]) impl true (SL [])
    | None => v_malformed
    end
  | _ => v_malformed
  end.
