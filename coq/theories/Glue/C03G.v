(* Decoding of C03 cases and verdicts.
   kind 0301: FS model vs the Linux kernel (random syscall sequences in a chroot jail).
   kind 0302: real fsutil.Receive fed by a hostile sender vs recv_fs (see below). *)
From Coq Require Import List NArith Bool.
From FS Require Import Sx Model.Path Model.Stat Model.Validator Model.Fs Model.DiskWriterFs Model.RecvMeta Model.RecvSpec.
Import ListNotations.
Open Scope N_scope.
Open Scope bool_scope.

(* ---- encoding of inodes and snapshots (shared by both kinds) ---- *)
Definition type_code (k : ikind) : N :=
  match k with
  | KDir _ _ => 16384 | KFile _ => 32768 | KLink _ => 40960 | KSpecial t _ => t
  end.
Definition enc_xattrs (x : list (bytes * bytes)) : sx :=
  SL (map (fun kv => SL [SB (fst kv); SB (snd kv)]) x).
(* (type mode uid gid mtime rdev target xattrs content) *)
Definition enc_inode (n : inode) : sx :=
  let m := i_meta n in
  SL [SN (type_code (i_kind n)); SN (m_mode m); SN (m_uid m); SN (m_gid m); SN (m_mtime m);
      SN (match i_kind n with KSpecial _ r => r | _ => 0 end);
      SB (match i_kind n with KLink t => t | _ => [] end);
      enc_xattrs (m_xattrs m);
      SB (match i_kind n with KFile d => d | _ => [] end)].

Fixpoint first_index (i : N) (l : list (bytes * N * inode)) (k : N) : N :=
  match l with
  | [] => k
  | (_, j, _) :: r => if N.eqb i j then k else first_index i r (k + 1)
  end.
(* entries (path class inode): class = index of the first entry with the same inode *)
Definition enc_snapshot (l : list (bytes * N * inode)) : sx :=
  SL (map (fun e : bytes * N * inode =>
             match e with (p, i, n) => SL [SB p; SN (first_index i l 0); enc_inode n] end) l).

Definition snapshot_from (f : fs) (i : N) : list (bytes * N * inode) :=
  match get f i with
  | Some n => ([], i, n) :: tree_below 64 f i []
  | None => []
  end.

Definition names_sorted (l : list bytes) : list bytes :=
  map fst (sort_ents (map (fun n => (n, tt)) l)).

Definition enc_result (r : result) : sx :=
  match r with
  | ROk => SL []
  | RErr e => SL [SN (errno_code e)]
  | RStat _ n => SL [SN 0; enc_inode n]
  | RBytes b => SL [SN 0; SB b]
  | RNames l => SL [SN 0; SL (map SB (names_sorted l))]
  | RFd _ => SL []
  end.

(* ---- kind 0301: one syscall ---- *)
Definition step_0301 (st : ctx * fs) (op : sx) : option (ctx * fs * result) :=
  let (c, f) := st in
  let ret (x : fs * result) := Some (c, fst x, snd x) in
  match op with
  | SL [SN 1; SB p] => ret (sys_lstat c f p)
  | SL [SN 2; SB p] => ret (sys_stat c f p)
  | SL [SN 3; SB p] => ret (sys_readlink c f p)
  | SL [SN 4; SB p] => ret (sys_readdir c f p)
  | SL [SN 5; SB p; SN m] => ret (sys_mkdir c f p m)
  | SL [SN 6; SB p; SN t; SN m; SN r] => ret (sys_mknod c f p t m r)
  | SL [SN 7; SB t; SB p] => ret (sys_symlink c f t p)
  | SL [SN 8; SB o; SB n] => ret (sys_link c f o n)
  | SL [SN 9; SB p; cr; SN m; SN off; SB d] =>
    b <- sx_bool cr ;;
    match sys_open_wronly c f p b m with
    | (f1, RFd i) => ret (fd_pwrite f1 i (N.to_nat off) d)
    | x => ret x
    end
  | SL [SN 19; SB p; SN m; SB d] =>
    match sys_open_trunc c f p m with
    | (f1, RFd i) => ret (fd_pwrite f1 i 0 d)
    | x => ret x
    end
  | SL [SN 10; SB p] => ret (sys_unlink c f p)
  | SL [SN 11; SB p] => ret (sys_rmdir c f p)
  | SL [SN 12; SB p] => ret (sys_remove_all c f p)
  | SL [SN 13; SB o; SB n] => ret (sys_rename c f o n)
  | SL [SN 14; SB p; SN m] => ret (sys_chmod c f p m)
  | SL [SN 15; SB p; SN u; SN g] => ret (sys_lchown c f p u g)
  | SL [SN 16; SB p; SN t] => ret (sys_utimens c f p t)
  | SL [SN 17; SB p; SB k; SB v] => ret (sys_lsetxattr c f p k v)
  | SL [SN 18; SB p] => let (c', r) := sys_chdir c f p in Some (c', f, r)
  | _ => None
  end.

Fixpoint run_ops (st : ctx * fs) (ops : list sx) (acc : list sx) : option (fs * list sx) :=
  match ops with
  | [] => Some (snd st, rev acc)
  | op :: r =>
    x <- step_0301 st op ;;
    match x with (c, f, res) => run_ops (c, f) r (enc_result res :: acc) end
  end.

(* input = (op ...); impl = ((result ...) snapshot) from the kernel.  There is no separate
   specification: the kernel is the ground truth the model is validated against. *)
Definition run_0301 (input impl : sx) : sx :=
  match input with
  | SL ops =>
    match run_ops (ctx_init, fs_init) ops [] with
    | Some (f, rs) => verdict (SL [SL rs; enc_snapshot (snapshot_from f 1)]) impl true (SL [])
    | None => v_malformed
    end
  | _ => v_malformed
  end.

(* ================= kind 0302: the real Receive fed by a scripted hostile sender =================
   input = (setup-ops dest packets merge [opts]); opts = (metaonly filter), each () = nil or
   (default (path ...)): the callback answers default except on the listed paths.  impl = (class t0 destreal before after) with RAW lstat
   snapshots of the whole jail (see harness/c03_recv.go).
   model         = recv_fs on the file system the setup ops build (Model/DiskWriterFs.v);
   specification = C03, evaluated on the two raw snapshots only (nothing of the model):
     (a) everything not strictly below the destination directory is unchanged — every entry,
         with inode number, link count, type, mode, owner, mtime, ctime, device, link target,
         xattrs and bytes; for the destination directory itself: its entry (name, inode, type,
         mode, owner, xattrs); for an inode that had a second name inside the destination
         before the run: link count and ctime are left out (removing the inside name changes them);
     (b) a stream the specification calls bad (Model/RecvSpec.v: C12 path/order/parent
         specification, hard link to a path not sent before, content for an id no regular STAT
         announced) makes Receive fail, and no path first named at or after the offending
         packet has been created or altered;
     (c) content for an id whose transfer has already ended (a DATA packet, with or without bytes,
         after the id's terminator - Model/RecvSpec.v spec_late) makes Receive fail, and what the
         destination stores under the path of the id holds nothing sent after the terminator. *)
Record rawent := {
  re_path : bytes; re_ino : N; re_nlink : N; re_type : N; re_perm : N; re_uid : N; re_gid : N;
  re_mtime : N; re_ctime : N; re_rdev : N; re_target : bytes; re_xattrs : sx; re_content : bytes }.

Definition dec_rawent (s : sx) : option rawent :=
  match s with
  | SL [SB p; SN ino; SN nl; SN t; SN pm; SN u; SN g; SN mt; SN ct; SN rd; SB tg; xa; SB c] =>
    Some {| re_path := p; re_ino := ino; re_nlink := nl; re_type := t; re_perm := pm; re_uid := u; re_gid := g;
            re_mtime := mt; re_ctime := ct; re_rdev := rd; re_target := tg; re_xattrs := xa; re_content := c |}
  | _ => None
  end.

Fixpoint raw_first_index (ino : N) (l : list rawent) (k : N) : N :=
  match l with
  | [] => k
  | e :: r => if N.eqb ino (re_ino e) then k else raw_first_index ino r (k + 1)
  end.

(* a raw snapshot in the format of [enc_snapshot]: mtimes written during the run are "now" *)
Definition conv_snapshot (t0 : N) (l : list rawent) : sx :=
  SL (map (fun e =>
             SL [SB (re_path e); SN (raw_first_index (re_ino e) l 0);
                 SL [SN (re_type e); SN (re_perm e); SN (re_uid e); SN (re_gid e);
                     SN (if N.leb t0 (re_mtime e) then now_mark else re_mtime e);
                     SN (re_rdev e); SB (re_target e); re_xattrs e; SB (re_content e)]]) l).

Definition dec_packet (s : sx) : option packet :=
  match s with
  | SL [SN 0] => Some (PStat None)
  | SL [SN 0; st] => s' <- dec_stat st ;; Some (PStat (Some s'))
  | SL [SN 1; SN id; SB d] => Some (PData id d)
  | SL [SN 2] => Some PFin
  | SL [SN 3; SB _] => Some PErr
  | SL [SN 4; SN _] => Some POther
  | SL [SN 5; SN _] => Some POther
  | _ => None
  end.

(* ---- specification (a): outside unchanged ---- *)
Definition strictly_below (d p : bytes) : bool :=
  match d with
  | [] => negb (is_nil p)
  | _ => has_prefix (d ++ [sep]) p
  end.

Definition outside_key (dest : bytes) (shared : list N) (e : rawent) : sx :=
  if bytes_eqb (re_path e) dest then
    SL [SB (re_path e); SN (re_ino e); SN (re_type e); SN (re_perm e); SN (re_uid e); SN (re_gid e); re_xattrs e]
  else
    let sh := memN (re_ino e) shared in
    SL [SB (re_path e); SN (re_ino e); SN (if sh then 0 else re_nlink e); SN (re_type e); SN (re_perm e);
        SN (re_uid e); SN (re_gid e); SN (re_mtime e); SN (if sh then 0 else re_ctime e); SN (re_rdev e);
        SB (re_target e); re_xattrs e; SB (re_content e)].

Definition outside_view (dest : bytes) (shared : list N) (l : list rawent) : sx :=
  SL (map (outside_key dest shared) (filter (fun e => negb (strictly_below dest (re_path e))) l)).

(* ---- specification (b): bad streams: [spec_bad] of Model/RecvSpec.v ---- *)
Definition stat_paths (pks : list packet) : list bytes :=
  flat_map (fun pk => match pk with PStat (Some st) => [st_path st] | _ => [] end) pks.

Definition find_raw (p : bytes) (l : list rawent) : option rawent :=
  find (fun e => bytes_eqb (re_path e) p) l.
(* link count and ctime are left out: they change when ANOTHER name of the inode is removed *)
Definition raw_full (e : rawent) : sx :=
  SL [SN (re_ino e); SN (re_type e); SN (re_perm e); SN (re_uid e); SN (re_gid e); SN (re_mtime e);
      SN (re_rdev e); SB (re_target e); re_xattrs e; SB (re_content e)].

(* no path first named at or after packet [b] exists afterwards unless it is the untouched old entry *)
Definition not_applied (dest : bytes) (pks : list packet) (b : nat) (before after : list rawent) : bool :=
  let early := stat_paths (firstn b pks) in
  forallb (fun p =>
             if negb (ok_path p) || mem_bytes p early then true
             else
               let q := child_path dest p in
               match find_raw q after with
               | None => true
               | Some ea => match find_raw q before with
                            | Some eb => sx_eqb (raw_full ea) (raw_full eb)
                            | None => false
                            end
               end) (stat_paths (skipn b pks)).

(* known finding: a hard-link STAT naming a file the transfer left in place re-stamps that
   inode; when the inode has a second name outside the destination, the outside file changes.
   Signature: the outside views differ only in metadata of inodes shared with the inside. *)
Definition outside_key_nometa (dest : bytes) (shared : list N) (e : rawent) : sx :=
  if memN (re_ino e) shared && negb (bytes_eqb (re_path e) dest) then
    SL [SB (re_path e); SN (re_ino e); SN (re_type e); SN (re_rdev e); SB (re_target e); SB (re_content e)]
  else outside_key dest shared e.
Definition outside_view_nometa (dest : bytes) (shared : list N) (l : list rawent) : sx :=
  SL (map (outside_key_nometa dest shared) (filter (fun e => negb (strictly_below dest (re_path e))) l)).

(* a callback of ReceiveOpt: () = nil, (default (path ...)) *)
Definition dec_pred (x : sx) : option (option (stat -> bool)) :=
  match x with
  | SL [] => Some None
  | SL [d; SL ps] =>
    b <- sx_bool d ;;
    l <- omap (fun y => match y with SB p => Some p | _ => None end) ps ;;
    Some (Some (fun s : stat => xorb b (mem_bytes (st_path s) l)))
  | _ => None
  end.

(* ReceiveOpt.Filter: () = nil, ((path ...) uidadd gidadd): the filter answers false for the listed
   paths and everything below them, and adds the two numbers to uid and gid of what it lets pass
   ([subtree_filter]); with a fourth element: for the listed paths only ([exact_filter], replay of
   the witness of receiver_contained_any_filter_refuted; never generated) *)
Definition dec_filter (x : sx) : option (option rfilter) :=
  match x with
  | SL [] => Some None
  | SL [SL ps; SN ua; SN ga] =>
    l <- omap (fun y => match y with SB p => Some p | _ => None end) ps ;;
    Some (Some (subtree_filter l ua ga))
  | SL [SL ps; SN ua; SN ga; _] =>
    l <- omap (fun y => match y with SB p => Some p | _ => None end) ps ;;
    Some (Some (exact_filter l ua ga))
  | _ => None
  end.

(* "filter-rejected-hardlink-source" *)
Definition sig_filter_link : bytes :=
  [102;105;108;116;101;114;45;114;101;106;101;99;116;101;100;45;104;97;114;100;108;105;110;107;45;115;111;117;114;99;101].

Definition run_0302_opt (ops : list sx) (dest : bytes) (pks : list sx) (mg : N) (mo : option (stat -> bool))
                        (flt : option rfilter) (impl : sx) : sx :=
  match impl with
  | SL [SN cls; SN t0; SB destreal; bf; af] =>
    match run_ops (ctx_init, fs_init) ops [], omap dec_packet pks, sx_list dec_rawent bf, sx_list dec_rawent af with
    | Some (f0, _), Some packets, Some before, Some after =>
      match resolve_ino ctx_init f0 dest true, resolve_ino ctx_init f0 dest false with
      | inl d0, inl dlno =>
        let dl := match get f0 dlno with Some {| i_kind := KLink _ |} => true | _ => false end in
        let st := recv_fs_opt f0 1 d0 dl (negb (N.eqb mg 0)) mo (match flt with Some fl => fl | None => no_filter end) [] packets in
        (* A receive loop that dies in the closed-channel panic runs its deferred errgroup Done
           on the way down: Receive's g.Wait() returns nil and the epilogue of a metadata transfer
           races with the death of the process — dest/.fsutil-metadata is found untouched,
           removed, empty or written, and the mtime of dest with it.  For these runs the
           correspondence (not the specification below) leaves that one entry and the mtime of
           the destination directory out on both sides. *)
        let racy := match mo with Some _ => N.eqb (recv_class st) 3 | None => false end in
        let lp := child_path destreal listing_name in
        let keep (p : bytes) := negb (racy && (bytes_eqb p lp || strictly_below lp p)) in
        let blank_m (e : bytes * N * inode) :=
          match e with (p, i, n) =>
            if racy && bytes_eqb p destreal then (p, i, {| i_kind := i_kind n; i_meta := with_mtime (i_meta n) 0 |}) else e end in
        let blank_i (e : rawent) :=
          if racy && bytes_eqb (re_path e) destreal then
            {| re_path := re_path e; re_ino := re_ino e; re_nlink := re_nlink e; re_type := re_type e; re_perm := re_perm e;
               re_uid := re_uid e; re_gid := re_gid e; re_mtime := 0; re_ctime := re_ctime e; re_rdev := re_rdev e;
               re_target := re_target e; re_xattrs := re_xattrs e; re_content := re_content e |}
          else e in
        let model := SL [SN (recv_class st); enc_snapshot (snapshot_from f0 1);
                         enc_snapshot (map blank_m (filter (fun e : bytes * N * inode => keep (fst (fst e))) (snapshot_from (r_fs st) 1)))] in
        let implv := SL [SN cls; conv_snapshot t0 before; conv_snapshot t0 (map blank_i (filter (fun e => keep (re_path e)) after))] in
        (* specification, on the raw snapshots *)
        let shared := map re_ino (filter (fun e => strictly_below destreal (re_path e)) before) in
        let contained := sx_eqb (outside_view destreal shared before) (outside_view destreal shared after) in
        let bad := spec_bad_opt mo packets in
        let rejected := match bad with
                        | None => true
                        | Some b => (N.eqb cls 1 || N.eqb cls 3) && not_applied destreal packets b before after
                        end in
        let ran := N.leb cls 3 in
        (* (c) content for an id whose transfer has already ended (Model/RecvSpec.v spec_late): Receive
           fails, and what the destination stores under the path of the id holds nothing that was
           sent after the terminator: it is a prefix of what was sent before it, or the bytes the
           path had before the run, or no regular file at all.  Not looked at when an earlier
           packet is already bad by (b). *)
        let late := match spec_late_opt mo packets, bad with
                    | Some (b, p, pre), Some b' => if Nat.leb b' b then None else Some (b, p, pre)
                    | x, None => x
                    | None, _ => None
                    end in
        let late_fail := match late with None => true | Some _ => N.eqb cls 1 || N.eqb cls 3 end in
        let late_bytes := match late with
                          | None => true
                          | Some (_, p, pre) =>
                            let q := child_path destreal p in
                            match find_raw q after with
                            | None => true
                            | Some ea =>
                              negb (N.eqb (re_type ea) 32768) || has_prefix (re_content ea) pre
                              || match find_raw q before with
                                 | Some eb => N.eqb (re_type eb) 32768 && bytes_eqb (re_content eb) (re_content ea)
                                 | None => false
                                 end
                            end
                          end in
        let late_ok := late_fail && late_bytes in
        let code := (if contained then 0 else 1) + (if rejected then 0 else 2) + (if ran then 0 else 4)
                    + (if late_ok then 0 else 8) in
        (* known finding filter-rejected-hardlink-source: with a Filter that rejects a subtree the
           hard-link validator still records the rejected entries, so a transferred hard link may
           name a source the disk writer skipped; link(2) then resolves dest/<Linkname> through
           whatever the destination holds there.  Signature: there are transferred hard links whose
           Linkname the filter rejects, and the outside views differ only in link count / ctime of
           the inodes found afterwards under the names of those links. *)
        let bad_links := match flt with
                         | None => []
                         | Some fl =>
                           flat_map (fun pk => match pk with
                                               | PStat (Some s) =>
                                                 if is_hardlink_stat s && negb (f_rej fl (st_path s)) && f_rej fl (st_linkname s)
                                                    && match mo with Some sel => sel s | None => true end
                                                 then [child_path destreal (st_path s)] else []
                                               | _ => [] end) packets
                         end in
        let linked := map re_ino (filter (fun e => mem_bytes (re_path e) bad_links) after) in
        let sig := if negb contained && rejected && ran
                      && sx_eqb (outside_view_nometa destreal shared before) (outside_view_nometa destreal shared after)
                   then [SL [SB [115; 105; 103]; SB [104;97;114;100;108;105;110;107;45;114;101;115;116;97;109;112;115;45;
                                                     115;104;97;114;101;100;45;105;110;111;100;101]]]
                   else if negb contained && rejected && ran && negb (is_nil linked)
                           && sx_eqb (outside_view destreal (shared ++ linked) before) (outside_view destreal (shared ++ linked) after)
                   then [SL [SB [115; 105; 103]; SB sig_filter_link]]
                   else [] in
        verdict model implv (contained && rejected && ran && late_ok)
                (SL (SN code :: of_optnat bad :: of_optnat (option_map (fun x => fst (fst x)) late) :: sig))
      | _, _ => v_malformed
      end
    | _, _, _, _ => v_malformed
    end
  | _ => v_malformed
  end.

Definition run_0302 (input impl : sx) : sx :=
  match input with
  | SL [SL ops; SB dest; SL pks; SN mg] => run_0302_opt ops dest pks mg None None impl
  | SL [SL ops; SB dest; SL pks; SN mg; SL [mox; fx]] =>
    match dec_pred mox, dec_filter fx with
    | Some mo, Some flt => run_0302_opt ops dest pks mg mo flt impl
    | _, _ => v_malformed
    end
  | _ => v_malformed
  end.
