(* Shared decoding for the kinds 0203 (C02) and 0501 (C05): the real DiskWriter driven by the
   real doubleWalkDiff on a scratch directory (harness/c05.go) against Model/AbsDest.v. *)
From Coq Require Import List NArith Bool.
From FS Require Import Sx Model.Path Model.Stat Model.Diff Model.AbsDest Model.Hardlinks Glue.DiffG.
Import ListNotations.
Open Scope N_scope.
Open Scope bool_scope.

(* ---- the harness' ContentHasher: transparent hash, header = fixed-width fields + strings ---- *)
Fixpoint le_bytes (k : nat) (n : N) : bytes :=
  match k with O => [] | S k' => N.land n 255 :: le_bytes k' (N.shiftr n 8) end.
Definition le64 (n : N) : bytes := le_bytes 8 n.
Definition hdr (st : stat) : bytes :=
  le64 (st_mode st) ++ le64 (st_uid st) ++ le64 (st_gid st) ++ le64 (st_size st) ++ le64 (st_mtime st)
  ++ le64 (st_devmajor st) ++ le64 (st_devminor st) ++ st_path st ++ [0] ++ st_linkname st ++ [0]
  (* the xattrs, in key order: key NUL length value *)
  ++ concat (map (fun kv => fst kv ++ [0] ++ le64 (N.of_nat (length (snd kv))) ++ snd kv) (st_xattrs st)).
Definition Hid (b : bytes) : bytes := b.

Definition dec_entry (s : sx) : option entry :=
  match s with SL [st; SB c] => s' <- dec_stat st ;; Some (s', c) | _ => None end.

Definition rmode_of (n : N) : rmode := if N.eqb n 0 then Fresh else Merge.

(* ---- the receiver's Filter, selectable by code (mirrors harness/c05.go c05Filter):
        0 none; 1 umask 022; 2 ownership reset to 7:8; 3 umask 027 + mtime truncated to seconds;
        4 reject the subtree "b" (the entry b and everything below it: result false);
        5 every xattr VALUE patched (first byte xor 0xff: in Go, in place in the clone);
        6 xattr map edited (entry user.z deleted, entry user.a = 01 added) + uid 7 ---- *)
Definition set_owner (s : stat) (u g : N) : stat :=
  {| st_path := st_path s; st_mode := st_mode s; st_uid := u; st_gid := g; st_size := st_size s;
     st_mtime := st_mtime s; st_linkname := st_linkname s; st_devmajor := st_devmajor s;
     st_devminor := st_devminor s; st_xattrs := st_xattrs s |}.
Definition set_mtime (s : stat) (t : N) : stat :=
  {| st_path := st_path s; st_mode := st_mode s; st_uid := st_uid s; st_gid := st_gid s; st_size := st_size s;
     st_mtime := t; st_linkname := st_linkname s; st_devmajor := st_devmajor s;
     st_devminor := st_devminor s; st_xattrs := st_xattrs s |}.
Definition set_xattrs (s : stat) (x : list (bytes * bytes)) : stat :=
  {| st_path := st_path s; st_mode := st_mode s; st_uid := st_uid s; st_gid := st_gid s; st_size := st_size s;
     st_mtime := st_mtime s; st_linkname := st_linkname s; st_devmajor := st_devmajor s;
     st_devminor := st_devminor s; st_xattrs := x |}.
Definition rejected_path (p : bytes) : bool := bytes_eqb p [98] || has_prefix [98; 47] p.
Definition user_z : bytes := [117; 115; 101; 114; 46; 122].
Definition user_a : bytes := [117; 115; 101; 114; 46; 97].
Definition wf_of (code : N) (p : bytes) (s : stat) : bool * stat :=
  if N.eqb code 4 then (negb (rejected_path p), s)
  else if N.eqb code 5 then
    (true, set_xattrs s (map (fun kv => (fst kv, match snd kv with b :: r => N.lxor b 255 :: r | [] => [] end)) (st_xattrs s)))
  else if N.eqb code 6 then
    (true, set_owner (set_xattrs s ((user_a, [1]) :: filter (fun kv => negb (bytes_eqb (fst kv) user_z) && negb (bytes_eqb (fst kv) user_a))
                                                          (st_xattrs s))) 7 (st_gid s))
  (* (the permission bits of a symbolic link cannot be set on Linux: the mode masks leave them alone) *)
  else if N.eqb code 1 then (true, if mode_is_symlink (st_mode s) then s else set_mode s (N.ldiff (st_mode s) 18))
  else if N.eqb code 2 then (true, set_owner s 7 8)
  else if N.eqb code 3 then
    (true, set_mtime (if mode_is_symlink (st_mode s) then s else set_mode s (N.ldiff (st_mode s) 23))
                     (st_mtime s - N.modulo (st_mtime s) 1000000000))
  else (true, s).

(* ---- canonical form of a destination entry:
        (path mode uid gid mtime(non-dir) target(symlink) devmajor devminor(device) content(regular)
         inode-class kept) ---- *)
Definition has_dev (st : stat) : bool := has_bits (st_mode st) ModeDevice.

Fixpoint insert_by {X} (key : X -> bytes) (x : X) (l : list X) : list X :=
  match l with
  | [] => [x]
  | y :: r => match compare_path (key x) (key y) with
              | Gt => y :: insert_by key x r
              | _ => x :: l
              end
  end.
Definition sort_by {X} (key : X -> bytes) (l : list X) : list X := fold_right (insert_by key) [] l.

Fixpoint first_index (f : dentry -> bool) (l : list (bytes * dentry)) (i : N) : N :=
  match l with
  | [] => i
  | kv :: r => if f (snd kv) then i else first_index f r (i + 1)
  end.

Definition canon_fields (st : stat) : list sx :=
  [SB (st_path st);
   (* the permission bits of a symbolic link cannot be set on Linux: always 0777 on disk *)
   SN (if mode_is_symlink (st_mode st) then N.lor (st_mode st) ModePerm else st_mode st);
   SN (st_uid st); SN (st_gid st);
   SN (if st_is_dir st then 0 else st_mtime st);
   SB (if mode_is_symlink (st_mode st) then st_linkname st else []);
   SN (if has_dev st then st_devmajor st else 0); SN (if has_dev st then st_devminor st else 0)].

Definition canon_entry (D0 sorted : dmap) (kv : bytes * dentry) : sx :=
  let e := snd kv in
  let st := set_path (de_stat e) (fst kv) in
  SL (canon_fields st ++
      [SB (if is_reg st then de_bytes e else []);
       SN (first_index (fun e' => N.eqb (de_ino e') (de_ino e)) sorted 0);
       of_bool (match alookup (fst kv) D0 with Some e0 => N.eqb (de_ino e0) (de_ino e) | None => false end)]).

Definition enc_notif (n : notif) : sx :=
  match n with
  | (k, p, Some (st, dg)) => SL [SN (kind_code k); SB p; enc_stat st; SB dg]
  | (k, p, None) => SL [SN (kind_code k); SB p]
  end.
Definition dec_kind (k : N) : option ckind :=
  if N.eqb k 0 then Some KAdd else if N.eqb k 1 then Some KModify else if N.eqb k 2 then Some KDelete else None.
Definition dec_notif (s : sx) : option notif :=
  match s with
  | SL [SN k; SB p; st; SB dg] => kd <- dec_kind k ;; s' <- dec_stat st ;; Some (kd, p, Some (s', dg))
  | SL [SN k; SB p] => kd <- dec_kind k ;; Some (kd, p, None)
  | _ => None
  end.
Definition notif_path (n : notif) : bytes := snd (fst n).
Definition notif_kind (n : notif) : ckind := fst (fst n).

(* a decoded case *)
Record rcase := {
  rc_differ : differ; rc_mode : rmode; rc_filter : N;
  rc_A : list entry;            (* destination: stats as the real walker listed them + contents *)
  rc_B : list entry;
  rc_reqs : list bytes; rc_notifs : list notif; rc_final : list sx; rc_err : bool }.

Definition dec_rcase (input impl : sx) : option rcase :=
  match input, impl with
  | SL (SN dc :: SN mc :: SN _ :: a :: b :: rest), SL [w; SL rq; SL nt; SL fin; er] =>
    fc <- match rest with [] => Some 0 | [SN c] => Some c | [SN c; _] => Some c | _ => None end ;;
    A0 <- sx_list dec_entry a ;;
    B0 <- sx_list dec_entry b ;;
    (* kind 0502 (seventh element): the listing goes through the real Send, whose hard-link filter
       (WithHardlinkReset, Model/Hardlinks.v) rewrites link names that name no earlier entry *)
    let B := match rest with
             | [_; _] => combine (hardlink_reset (map fst B0)) (map snd B0)
             | _ => B0 end in
    W <- sx_list dec_stat w ;;
    rqs <- omap sx_B rq ;;
    nts <- omap dec_notif nt ;;
    e <- sx_bool er ;;
    Some {| rc_differ := differ_of dc; rc_mode := rmode_of mc; rc_filter := fc;
            rc_A := map (fun s => (s, src_of A0 (st_path s))) W; rc_B := B;
            rc_reqs := rqs; rc_notifs := nts; rc_final := fin; rc_err := e |}
  | _, _ => None
  end.

Definition rc_wf (c : rcase) := wf_of (rc_filter c).
Definition rc_F (c : rcase) : stat -> stat := filter_stat (rc_wf c).
Definition model_state (c : rcase) : dstate :=
  receive_abs_f (rc_wf c) Hid hdr (rc_mode c) (rc_differ c) (rc_A c) (rc_B c).

Definition model_obs (c : rcase) : sx :=
  let r := model_state c in
  if ds_err r then SL [SN 1]
  else
    let D0 := dest_of (rc_A c) in
    let sorted := sort_by fst (ds_map r) in
    SL [SN 0; SL (map SB (ds_reqs r)); SL (map enc_notif (sort_by notif_path (ds_notifs r)));
        SL (map (canon_entry D0 sorted) sorted)].

Definition impl_obs (c : rcase) : sx :=
  if rc_err c then SL [SN 1]
  else SL [SN 0; SL (map SB (rc_reqs c)); SL (map enc_notif (sort_by notif_path (rc_notifs c))); SL (rc_final c)].

(* ---- C05 oracle, part (a): replaying the notifications IN THE ORDER OBSERVED on the model of
        the old destination gives the new destination, digests included ---- *)
Definition final_path (f : sx) : bytes := match f with SL (SB p :: _) => p | _ => [] end.
Definition final_content (f : sx) : bytes :=
  match f with SL [_; _; _; _; _; _; _; _; SB c; _; _] => c | _ => [] end.
Definition final_fields (f : sx) : list sx := firstn 8 (match f with SL l => l | _ => [] end).

Fixpoint sx_list_eqb (a b : list sx) : bool :=
  match a, b with
  | [], [] => true
  | x :: a', y :: b' => sx_eqb x y && sx_list_eqb a' b'
  | _, _ => false
  end.

(* the hypothesis of C05 notify_replays_any, on what the snapshot comparison below can see (the
   canonical fields: path, mode, uid, gid, mtime, device numbers — not size, not xattrs): every
   hard-link entry the writer applies announces the metadata the new name then shows, i.e. that
   of the inode it joins.  For a dishonest entry the notification (stat as sent) and the
   destination (the inode's metadata) differ BY SPECIFICATION; the model still predicts the
   destination (model_obs). *)
Definition canon_eqb (a b : stat) : bool := sx_list_eqb (canon_fields a) (canon_fields b).
Definition case_honest (c : rcase) : bool :=
  recv_honest_f_by canon_eqb (rc_wf c) (rc_mode c) (rc_differ c) (rc_A c) (rc_B c).

(* announced (added / modified) in this transfer: the disk holds the FILTERED stat there; an
   entry that was not touched keeps what it had *)
Definition touched (c : rcase) (p : bytes) : bool :=
  existsb (fun n => bytes_eqb (notif_path n) p && negb (ckind_eqb (notif_kind n) KDelete)) (rc_notifs c).

Definition replay_ok (c : rcase) : bool :=
  let M := replay (rc_notifs c) (nview Hid hdr (dest_of (rc_A c))) in
  forallb (fun f =>
             match alookup (final_path f) M with
             | Some (st, dg) =>
               (* the consumer knows its own filter: the disk holds the filtered stat, the digest is
                  that of the header AS SENT followed by the stored bytes *)
               sx_list_eqb (canon_fields (set_path (if touched c (final_path f) then rc_F c st else st) (final_path f)))
                           (final_fields f)
               && bytes_eqb dg (digest Hid hdr st (final_content f))
             | None => false
             end) (rc_final c)
  && forallb (fun kv => existsb (fun f => bytes_eqb (final_path f) (fst kv)) (rc_final c)
                        || negb (match alookup (fst kv) M with Some _ => true | None => false end)) M.

(* ---- C05 oracle, part (b): the notifications are exactly the changes the specification asks
        for (a regular file whose content is transferred is announced as ADD), no path twice ---- *)
Definition notif_justified (F : stat -> stat) (d : differ) (LA LB : list stat) (n : notif) : bool :=
  match n with
  | (KDelete, p, None) => spec_change_b F d LA LB (KDelete, p, None)
  | (k, p, Some (st, _)) =>
    spec_change_b F d LA LB (k, p, Some st) && (negb (wants_content st) || ckind_eqb k KAdd)
    || (ckind_eqb k KAdd && wants_content st && spec_change_b F d LA LB (KModify, p, Some st))
  | _ => false
  end.

(* the notifications are the images, with the stat AS SENT, of the changes of the specification
   for the differ with the receiver's filter F (C05 notify_exact / notify_exact_filtered) *)
Definition notify_exact_b (F : stat -> stat) (d : differ) (LA LB : list stat) (ns : list notif) : bool :=
  forallb (notif_justified F d LA LB) ns
  && complete_b F d LA LB
       (map (fun n => match n with
                      | (k, p, Some (st, _)) =>
                        ((if ckind_eqb k KAdd && wants_content st
                             && match lookup p LA with Some _ => true | None => false end
                          then KModify else k), p, Some st)
                      | (k, p, None) => (k, p, None)
                      end) ns)
  && nodup_paths_b (map notif_path ns).

Definition case_wf (c : rcase) : bool :=
  listing_ok_b (map fst (rc_A c)) && listing_ok_b (map fst (rc_B c)).

Definition c05_spec (c : rcase) : bool :=
  rc_err c
  || ((negb (case_honest c) || replay_ok c)
      && match rc_mode c with
         | Fresh =>
           (* a filter that rejects a whole subtree: nothing is executed or notified there; outside it
              the notifications are exactly the specified changes *)
           let keepS := fun s : stat => fst (rc_wf c (st_path s) s) in
           negb (case_wf c)
           || (notify_exact_b (rc_F c) (rc_differ c) (filter keepS (map fst (rc_A c))) (filter keepS (map fst (rc_B c))) (rc_notifs c)
               && forallb (fun n => fst (rc_wf c (notif_path n) empty_stat)) (rc_notifs c))
         | Merge => true
         end).

(* ---- C02 oracle: content is requested for exactly the regular files (no Linkname) of B that
        are new or whose identity differs; every path present on both sides with equal identity
        keeps its inode ---- *)
Fixpoint paths_eqb (a b : list bytes) : bool :=
  match a, b with
  | [], [] => true
  | x :: a', y :: b' => bytes_eqb x y && paths_eqb a' b'
  | _, _ => false
  end.

Definition final_kept (f : sx) : bool :=
  match f with SL [_; _; _; _; _; _; _; _; _; _; SN k] => negb (N.eqb k 0) | _ => false end.

Definition c02_spec (c : rcase) : bool :=
  rc_err c || negb (case_wf c)
  || match rc_mode c with
     | Merge => paths_eqb (rc_reqs c) (map st_path (filter wants_content (map fst (rc_B c))))
     | Fresh =>
       let LA := map fst (rc_A c) in
       let LB := map fst (rc_B c) in
       paths_eqb (rc_reqs c) (reqs_spec (rc_differ c) LA LB)
       && forallb (fun b => negb (unchanged_b (rc_differ c) LA b)
                            || existsb (fun f => bytes_eqb (final_path f) (st_path b) && final_kept f) (rc_final c)) LB
     end.

(* ---- kind 0204 (C02 resync_after_transfer_noop): two synchronisations of the same source.
        input (differ order A B), impl (walked1 failed1 walked2 reqs2 notifs2 failed2).
        Model: the first transfer fails or not as receive_abs says; the second one — the real
        differ and writer over the destination AS THE REAL WALKER LISTED IT the second time —
        requests and notifies what receive_abs computes from that listing (contents of the
        destination do not enter requests, notifications or failure).
        Specification, on the implementation's output: when the hypotheses of the theorem hold
        (listings well-formed, links_ok, links_meta, identity_faithful) and the first transfer did
        not fail, the second requests nothing, notifies nothing and does not fail. ---- *)
Record rscase := {
  rs_differ : differ; rs_filter : N; rs_A : list entry; rs_B : list entry;
  rs_err1 : bool; rs_W2 : list stat; rs_reqs2 : list bytes; rs_notifs2 : list notif; rs_err2 : bool }.

Definition dec_rscase (input impl : sx) : option rscase :=
  match input, impl with
  | SL (SN dc :: SN _ :: a :: b :: rest), SL [w1; e1; w2; SL rq; SL nt; e2] =>
    fc <- match rest with [] => Some 0 | [SN c] => Some c | _ => None end ;;
    A0 <- sx_list dec_entry a ;;
    B <- sx_list dec_entry b ;;
    W1 <- sx_list dec_stat w1 ;;
    W2 <- sx_list dec_stat w2 ;;
    rqs <- omap sx_B rq ;;
    nts <- omap dec_notif nt ;;
    x1 <- sx_bool e1 ;;
    x2 <- sx_bool e2 ;;
    Some {| rs_differ := differ_of dc; rs_filter := fc; rs_A := map (fun s => (s, src_of A0 (st_path s))) W1; rs_B := B;
            rs_err1 := x1; rs_W2 := W2; rs_reqs2 := rqs; rs_notifs2 := nts; rs_err2 := x2 |}
  | _, _ => None
  end.

Definition rs_model (c : rscase) : sx :=
  let r1 := receive_abs_f (wf_of (rs_filter c)) Hid hdr Fresh (rs_differ c) (rs_A c) (rs_B c) in
  if ds_err r1 then SL [SN 1]
  else
    let r2 := receive_abs_f (wf_of (rs_filter c)) Hid hdr Fresh DMetadata (map (fun s => (s, [])) (rs_W2 c)) (rs_B c) in
    if ds_err r2 then SL [SN 0; SN 1]
    else SL [SN 0; SN 0; SL (map SB (ds_reqs r2)); SL (map enc_notif (sort_by notif_path (ds_notifs r2)))].

Definition rs_impl (c : rscase) : sx :=
  if rs_err1 c then SL [SN 1]
  else if rs_err2 c then SL [SN 0; SN 1]
  else SL [SN 0; SN 0; SL (map SB (rs_reqs2 c)); SL (map enc_notif (sort_by notif_path (rs_notifs2 c)))].

(* the permission bits of a symbolic link cannot be set on Linux (always 0777 on disk, see
   canon_fields): a source listing that announces other bits — no Linux walker does — differs
   from the destination for ever; outside the model, outside the oracle *)
Definition symlink_modes_ok (B : list entry) : bool :=
  forallb (fun e => negb (mode_is_symlink (st_mode (fst e)))
                    || N.eqb (N.land (st_mode (fst e)) ModePerm) ModePerm) B.

(* with the subtree-rejecting filter: no hard link across the border of the rejected subtree *)
Definition links_respect_reject (code : N) (B : list entry) : bool :=
  negb (N.eqb code 4)
  || forallb (fun e => negb (is_hardlink (fst e))
                       || Bool.eqb (rejected_path (st_path (fst e))) (rejected_path (st_linkname (fst e)))) B.

Definition rs_hyps (c : rscase) : bool :=
  let B' := filter_entries (wf_of (rs_filter c)) (rs_B c) in
  listing_ok_b (map fst (rs_A c)) && listing_ok_b (map fst (rs_B c)) && links_ok_b (rs_B c)
  && links_meta_b (rs_B c) && links_meta_b B' && identity_faithful_b (rs_differ c) (rs_A c) B'
  && symlink_modes_ok (rs_B c) && links_respect_reject (rs_filter c) (rs_B c).

Definition c02_resync_spec (c : rscase) : bool :=
  rs_err1 c || negb (rs_hyps c)
  || (negb (rs_err2 c)
      && match rs_reqs2 c with [] => true | _ => false end
      && match rs_notifs2 c with [] => true | _ => false end).

(* ---- kind 0205 (C02): a history of three synchronisations through the real Send/Receive, the
        source states S1, S2, S2 materialised on disk and listed by the REAL source walk, the
        destination (starting as A) listed by the walk Receive sets up.
        input (A S1 S2); impl: per synchronisation (failed reqIDs ((kind path)...) snapshot-rows).
        Model: the chain of receive_abs over the states AS GIVEN (= as materialised): requests
        and notified (kind, path) of every step.
        Specification on the implementation's output, when the hypotheses of the theorems hold
        for every step: after each synchronisation the independent snapshot shows exactly the
        source state as materialised — every changed identity was re-transferred, every removed
        path removed (untouched_keep_inode / rewritten_get_new_inode / notify_replays'
        view_equiv, evaluated against the ground truth) — and the third synchronisation, of an
        unchanged source, requests nothing and notifies nothing (resync_after_transfer_noop). ---- *)
Definition row_of_entry (e : entry) : sx :=
  SL (canon_fields (fst e) ++ [SB (if is_reg (fst e) && mode_is_regular (st_mode (fst e)) then snd e else [])]).

Fixpoint rows_eqb (a b : list sx) : bool :=
  match a, b with
  | [], [] => true
  | x :: a', y :: b' => sx_eqb x y && rows_eqb a' b'
  | _, _ => false
  end.

Record hstep := { hs_failed : bool; hs_reqs : list N; hs_notifs : list (N * bytes); hs_rows : list sx }.

Definition dec_kp (s : sx) : option (N * bytes) :=
  match s with SL [SN k; SB p] => Some (k, p) | _ => None end.
Definition dec_hstep (s : sx) : option hstep :=
  match s with
  | SL [f; SL rq; SL nt; SL rows] =>
    fb <- sx_bool f ;; rqs <- omap sx_N rq ;; nts <- omap dec_kp nt ;;
    Some {| hs_failed := fb; hs_reqs := rqs; hs_notifs := nts; hs_rows := rows |}
  | _ => None
  end.

Record hcase := { hc_filter : N; hc_differ : differ; hc_mode : rmode; hc_A : list entry; hc_S1 : list entry; hc_S2 : list entry; hc_steps : list hstep }.
Definition dec_hcase (input impl : sx) : option hcase :=
  match input, impl with
  | SL (a :: s1 :: s2 :: rest), SL steps =>
    (* optional: filter code, differ (0 DiffMetadata, 1 DiffNone), merge *)
    opts <- match rest with
            | [] => Some (0, 0, 0) | [SN c] => Some (c, 0, 0) | [SN c; SN df] => Some (c, df, 0)
            | [SN c; SN df; SN mg] => Some (c, df, mg) | _ => None end ;;
    let '(fc, df, mg) := opts in
    A <- sx_list dec_entry a ;; S1 <- sx_list dec_entry s1 ;; S2 <- sx_list dec_entry s2 ;;
    st <- omap dec_hstep steps ;;
    Some {| hc_filter := fc; hc_differ := differ_of df; hc_mode := rmode_of mg; hc_A := A; hc_S1 := S1; hc_S2 := S2; hc_steps := st |}
  | _, _ => None
  end.

(* the destination map listed again: every entry it holds, in path order, under its path *)
Definition dmap_listing (D : dmap) : list entry :=
  map (fun kv => (set_path (de_stat (snd kv)) (fst kv), de_bytes (snd kv))) (sort_by fst D).

(* one step of the model chain (through the receiver's filter): result + the destination listed again *)
Definition h_step (c : hcase) (A S : list entry) : dstate * list entry :=
  let r := receive_abs_f (wf_of (hc_filter c)) Hid hdr (hc_mode c) (hc_differ c) A S in (r, dmap_listing (ds_map r)).

Definition kp_path (x : N * bytes) : bytes := snd x.
Definition enc_kp (x : N * bytes) : sx := SL [SN (fst x); SB (snd x)].
Definition step_obs (failed : bool) (reqs : list bytes) (nts : list (N * bytes)) : sx :=
  if failed then SL [SN 1]
  else SL [SN 0; SL (map SB (sort_by (fun p => p) reqs)); SL (map enc_kp (sort_by kp_path nts))].

Definition h_model (c : hcase) : sx :=
  let '(r1, A1) := h_step c (hc_A c) (hc_S1 c) in
  let o1 := step_obs (ds_err r1) (ds_reqs r1) (map (fun n => (kind_code (notif_kind n), notif_path n)) (ds_notifs r1)) in
  if ds_err r1 then SL [o1]
  else
    let '(r2, A2) := h_step c A1 (hc_S2 c) in
    let o2 := step_obs (ds_err r2) (ds_reqs r2) (map (fun n => (kind_code (notif_kind n), notif_path n)) (ds_notifs r2)) in
    if ds_err r2 then SL [o1; o2]
    else
      let '(r3, _) := h_step c A2 (hc_S2 c) in
      SL [o1; o2; step_obs (ds_err r3) (ds_reqs r3) (map (fun n => (kind_code (notif_kind n), notif_path n)) (ds_notifs r3))].

(* a REQ id is the index of the STAT in the sender's stream = index in the source listing *)
Definition req_paths (S : list entry) (ids : list N) : list bytes :=
  map (fun i => match nth_error S (N.to_nat i) with Some e => st_path (fst e) | None => [] end) ids.

Definition h_impl (c : hcase) : sx :=
  SL (map (fun xs => step_obs (hs_failed (fst xs)) (req_paths (snd xs) (hs_reqs (fst xs))) (hs_notifs (fst xs)))
          (combine (hc_steps c) [hc_S1 c; hc_S2 c; hc_S2 c])).

Definition h_listing_ok (E : list entry) : bool :=
  listing_ok_b (map fst E) && links_ok_b E && links_meta_b E && symlink_modes_ok E.

Definition h_hyps (c : hcase) : bool :=
  let F := filter_entries (wf_of (hc_filter c)) in
  h_listing_ok (hc_A c) && h_listing_ok (hc_S1 c) && h_listing_ok (hc_S2 c)
  && links_meta_b (F (hc_S1 c)) && links_meta_b (F (hc_S2 c))
  && identity_faithful_b (hc_differ c) (hc_A c) (F (hc_S1 c)) && identity_faithful_b (hc_differ c) (F (hc_S1 c)) (F (hc_S2 c))
  && links_respect_reject (hc_filter c) (hc_S1 c) && links_respect_reject (hc_filter c) (hc_S2 c)
  && links_respect_reject (hc_filter c) (hc_A c).

(* what the destination must show after a synchronisation of the source state S through the
   receiver's filter: every entry of S the filter does not reject, with the stat AS REWRITTEN by the
   filter — and, where the filter rejects, what the destination held at the start (A0), untouched *)
Definition keeps (code : N) (e : entry) : bool := fst (wf_of code (st_path (fst e)) (fst e)).
Definition expected_rows (code : N) (A0 S : list entry) : list sx :=
  map row_of_entry
    (sort_by (fun e : entry => st_path (fst e))
       (filter (keeps code) (filter_entries (wf_of code) S) ++ filter (fun e => negb (keeps code e)) A0)).
Definition shows (code : N) (A0 S : list entry) (st : hstep) : bool := rows_eqb (expected_rows code A0 S) (hs_rows st).
(* merge mode: nothing is deleted; every entry of the source the filter keeps is there *)
Definition holds_all (code : N) (S : list entry) (st : hstep) : bool :=
  forallb (fun row => existsb (sx_eqb row) (hs_rows st))
          (map row_of_entry (filter (keeps code) (filter_entries (wf_of code) S))).
Definition step_ok (c : hcase) (S : list entry) (st : hstep) : bool :=
  negb (hs_failed st)
  && match hc_mode c with
     | Fresh => shows (hc_filter c) (hc_A c) S st     (* whatever the differ: removed names are removed *)
     | Merge => holds_all (hc_filter c) S st
     end.

Definition c02_history_spec (c : hcase) : bool :=
  negb (h_hyps c)
  || match hc_steps c with
     | [s1; s2; s3] =>
       step_ok c (hc_S1 c) s1 && step_ok c (hc_S2 c) s2 && step_ok c (hc_S2 c) s3
       (* with DiffMetadata (and no merge) the synchronisation of the unchanged source finds nothing
          to do; with DiffNone everything is written again (model comparison: diff_none_requests_all) *)
       && match hc_differ c, hc_mode c with
          | DMetadata, Fresh =>
            match hs_reqs s3 with [] => true | _ => false end && match hs_notifs s3 with [] => true | _ => false end
          | _, _ => true
          end
     | _ => false
     end.
