(* Shared decoding for the kinds 0203 (C02) and 0501 (C05): the real DiskWriter driven by the
   real doubleWalkDiff on a scratch directory (harness/c05.go) against Model/AbsDest.v. *)
From Coq Require Import List NArith Bool.
From FS Require Import Sx Model.Path Model.Stat Model.Diff Model.AbsDest Glue.DiffG.
Import ListNotations.
Open Scope N_scope.
Open Scope bool_scope.

(* ---- the harness' ContentHasher: transparent hash, header = fixed-width fields + strings ---- *)
Fixpoint le_bytes (k : nat) (n : N) : bytes :=
  match k with O => [] | S k' => N.land n 255 :: le_bytes k' (N.shiftr n 8) end.
Definition le64 (n : N) : bytes := le_bytes 8 n.
Definition hdr (st : stat) : bytes :=
  le64 (st_mode st) ++ le64 (st_uid st) ++ le64 (st_gid st) ++ le64 (st_size st) ++ le64 (st_mtime st)
  ++ le64 (st_devmajor st) ++ le64 (st_devminor st) ++ st_path st ++ [0] ++ st_linkname st ++ [0].
Definition Hid (b : bytes) : bytes := b.

Definition dec_entry (s : sx) : option entry :=
  match s with SL [st; SB c] => s' <- dec_stat st ;; Some (s', c) | _ => None end.

Definition rmode_of (n : N) : rmode := if N.eqb n 0 then Fresh else Merge.

(* ---- canonical form of a destination entry:
        (path mode uid gid mtime(non-dir) target(symlink) devmajor devminor(device) content(regular)
         inode-class kept) ---- *)
Definition has_dev (st : stat) : bool := has_bits (st_mode st) ModeDevice.

Fixpoint insert_by {X} (key : X -> bytes) (x : X) (l : list X) : list X :=
  match l with
  | [] => [x]
  | y :: r => match compare_path (key x) (key y) with
              | Gt => y :: insert_by key x r
              | _ => x :: l
              end
  end.
Definition sort_by {X} (key : X -> bytes) (l : list X) : list X := fold_right (insert_by key) [] l.

Fixpoint first_index (f : dentry -> bool) (l : list (bytes * dentry)) (i : N) : N :=
  match l with
  | [] => i
  | kv :: r => if f (snd kv) then i else first_index f r (i + 1)
  end.

Definition canon_fields (st : stat) : list sx :=
  [SB (st_path st);
   (* the permission bits of a symbolic link cannot be set on Linux: always 0777 on disk *)
   SN (if mode_is_symlink (st_mode st) then N.lor (st_mode st) ModePerm else st_mode st);
   SN (st_uid st); SN (st_gid st);
   SN (if st_is_dir st then 0 else st_mtime st);
   SB (if mode_is_symlink (st_mode st) then st_linkname st else []);
   SN (if has_dev st then st_devmajor st else 0); SN (if has_dev st then st_devminor st else 0)].

Definition canon_entry (D0 sorted : dmap) (kv : bytes * dentry) : sx :=
  let e := snd kv in
  let st := set_path (de_stat e) (fst kv) in
  SL (canon_fields st ++
      [SB (if is_reg st then de_bytes e else []);
       SN (first_index (fun e' => N.eqb (de_ino e') (de_ino e)) sorted 0);
       of_bool (match alookup (fst kv) D0 with Some e0 => N.eqb (de_ino e0) (de_ino e) | None => false end)]).

Definition enc_notif (n : notif) : sx :=
  match n with
  | (k, p, Some (st, dg)) => SL [SN (kind_code k); SB p; enc_stat st; SB dg]
  | (k, p, None) => SL [SN (kind_code k); SB p]
  end.
Definition dec_kind (k : N) : option ckind :=
  if N.eqb k 0 then Some KAdd else if N.eqb k 1 then Some KModify else if N.eqb k 2 then Some KDelete else None.
Definition dec_notif (s : sx) : option notif :=
  match s with
  | SL [SN k; SB p; st; SB dg] => kd <- dec_kind k ;; s' <- dec_stat st ;; Some (kd, p, Some (s', dg))
  | SL [SN k; SB p] => kd <- dec_kind k ;; Some (kd, p, None)
  | _ => None
  end.
Definition notif_path (n : notif) : bytes := snd (fst n).
Definition notif_kind (n : notif) : ckind := fst (fst n).

(* a decoded case *)
Record rcase := {
  rc_differ : differ; rc_mode : rmode;
  rc_A : list entry;            (* destination: stats as the real walker listed them + contents *)
  rc_B : list entry;
  rc_reqs : list bytes; rc_notifs : list notif; rc_final : list sx; rc_err : bool }.

Definition dec_rcase (input impl : sx) : option rcase :=
  match input, impl with
  | SL [SN dc; SN mc; SN _; a; b], SL [w; SL rq; SL nt; SL fin; er] =>
    A0 <- sx_list dec_entry a ;;
    B <- sx_list dec_entry b ;;
    W <- sx_list dec_stat w ;;
    rqs <- omap sx_B rq ;;
    nts <- omap dec_notif nt ;;
    e <- sx_bool er ;;
    Some {| rc_differ := differ_of dc; rc_mode := rmode_of mc;
            rc_A := map (fun s => (s, src_of A0 (st_path s))) W; rc_B := B;
            rc_reqs := rqs; rc_notifs := nts; rc_final := fin; rc_err := e |}
  | _, _ => None
  end.

Definition model_state (c : rcase) : dstate := receive_abs Hid hdr (rc_mode c) (rc_differ c) (rc_A c) (rc_B c).

Definition model_obs (c : rcase) : sx :=
  let r := model_state c in
  if ds_err r then SL [SN 1]
  else
    let D0 := dest_of (rc_A c) in
    let sorted := sort_by fst (ds_map r) in
    SL [SN 0; SL (map SB (ds_reqs r)); SL (map enc_notif (sort_by notif_path (ds_notifs r)));
        SL (map (canon_entry D0 sorted) sorted)].

Definition impl_obs (c : rcase) : sx :=
  if rc_err c then SL [SN 1]
  else SL [SN 0; SL (map SB (rc_reqs c)); SL (map enc_notif (sort_by notif_path (rc_notifs c))); SL (rc_final c)].

(* ---- C05 oracle, part (a): replaying the notifications IN THE ORDER OBSERVED on the model of
        the old destination gives the new destination, digests included ---- *)
Definition final_path (f : sx) : bytes := match f with SL (SB p :: _) => p | _ => [] end.
Definition final_content (f : sx) : bytes :=
  match f with SL [_; _; _; _; _; _; _; _; SB c; _; _] => c | _ => [] end.
Definition final_fields (f : sx) : list sx := firstn 8 (match f with SL l => l | _ => [] end).

Fixpoint sx_list_eqb (a b : list sx) : bool :=
  match a, b with
  | [], [] => true
  | x :: a', y :: b' => sx_eqb x y && sx_list_eqb a' b'
  | _, _ => false
  end.

(* the hypothesis of C05 notify_replays_any, on what the snapshot comparison below can see (the
   canonical fields: path, mode, uid, gid, mtime, device numbers — not size, not xattrs): every
   hard-link entry the writer applies announces the metadata the new name then shows, i.e. that
   of the inode it joins.  For a dishonest entry the notification (stat as sent) and the
   destination (the inode's metadata) differ BY SPECIFICATION; the model still predicts the
   destination (model_obs). *)
Definition canon_eqb (a b : stat) : bool := sx_list_eqb (canon_fields a) (canon_fields b).
Definition case_honest (c : rcase) : bool :=
  recv_honest_by canon_eqb (rc_mode c) (rc_differ c) (rc_A c) (rc_B c).

Definition replay_ok (c : rcase) : bool :=
  let M := replay (rc_notifs c) (nview Hid hdr (dest_of (rc_A c))) in
  forallb (fun f =>
             match alookup (final_path f) M with
             | Some (st, dg) =>
               sx_list_eqb (canon_fields (set_path st (final_path f))) (final_fields f)
               && bytes_eqb dg (digest Hid hdr st (final_content f))
             | None => false
             end) (rc_final c)
  && forallb (fun kv => existsb (fun f => bytes_eqb (final_path f) (fst kv)) (rc_final c)
                        || negb (match alookup (fst kv) M with Some _ => true | None => false end)) M.

(* ---- C05 oracle, part (b): the notifications are exactly the changes the specification asks
        for (a regular file whose content is transferred is announced as ADD), no path twice ---- *)
Definition notif_justified (d : differ) (LA LB : list stat) (n : notif) : bool :=
  match n with
  | (KDelete, p, None) => spec_change_b (fun s => s) d LA LB (KDelete, p, None)
  | (k, p, Some (st, _)) =>
    spec_change_b (fun s => s) d LA LB (k, p, Some st) && (negb (wants_content st) || ckind_eqb k KAdd)
    || (ckind_eqb k KAdd && wants_content st && spec_change_b (fun s => s) d LA LB (KModify, p, Some st))
  | _ => false
  end.

Definition notify_exact_b (d : differ) (LA LB : list stat) (ns : list notif) : bool :=
  forallb (notif_justified d LA LB) ns
  && complete_b (fun s => s) d LA LB
       (map (fun n => match n with
                      | (k, p, Some (st, _)) =>
                        ((if ckind_eqb k KAdd && wants_content st
                             && match lookup p LA with Some _ => true | None => false end
                          then KModify else k), p, Some st)
                      | (k, p, None) => (k, p, None)
                      end) ns)
  && nodup_paths_b (map notif_path ns).

Definition case_wf (c : rcase) : bool :=
  listing_ok_b (map fst (rc_A c)) && listing_ok_b (map fst (rc_B c)).

Definition c05_spec (c : rcase) : bool :=
  rc_err c
  || ((negb (case_honest c) || replay_ok c)
      && match rc_mode c with
         | Fresh => negb (case_wf c) || notify_exact_b (rc_differ c) (map fst (rc_A c)) (map fst (rc_B c)) (rc_notifs c)
         | Merge => true
         end).

(* ---- C02 oracle: content is requested for exactly the regular files (no Linkname) of B that
        are new or whose identity differs; every path present on both sides with equal identity
        keeps its inode ---- *)
Fixpoint paths_eqb (a b : list bytes) : bool :=
  match a, b with
  | [], [] => true
  | x :: a', y :: b' => bytes_eqb x y && paths_eqb a' b'
  | _, _ => false
  end.

Definition final_kept (f : sx) : bool :=
  match f with SL [_; _; _; _; _; _; _; _; _; _; SN k] => negb (N.eqb k 0) | _ => false end.

Definition c02_spec (c : rcase) : bool :=
  rc_err c || negb (case_wf c)
  || match rc_mode c with
     | Merge => paths_eqb (rc_reqs c) (map st_path (filter wants_content (map fst (rc_B c))))
     | Fresh =>
       let LA := map fst (rc_A c) in
       let LB := map fst (rc_B c) in
       paths_eqb (rc_reqs c) (reqs_spec (rc_differ c) LA LB)
       && forallb (fun b => negb (unchanged_b (rc_differ c) LA b)
                            || existsb (fun f => bytes_eqb (final_path f) (st_path b) && final_kept f) (rc_final c)) LB
     end.
