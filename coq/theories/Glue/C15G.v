(* C15 kinds: the decoding, model run and oracles are shared with C13 (Glue/C13G.v). *)
From Coq Require Import List NArith Bool.
From FS Require Import Sx Glue.C13G.
Definition run_1501 (input impl : sx) : sx := C13G.run_1501 input impl.
Definition run_1502 (input impl : sx) : sx := C13G.run_1502 input impl.
