From Coq Require Import List NArith Bool.
From FS Require Import Sx Glue.C13G.
Definition run_1501 (input impl : sx) : sx := run_1301 input impl.
