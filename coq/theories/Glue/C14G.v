(* Decoding of C14 cases and verdicts. *)
From Coq Require Import List NArith Bool.
From FS Require Import Sx Model.Path Model.Stat Model.Tree Model.Converge Model.Fs Model.RootPath Model.CopyFs Model.Pattern Model.FilterWalk Model.CopierSel Glue.C03G.
Import ListNotations.
Open Scope bool_scope.

(* kind 1401: impl = (err outside_before outside_after top_before top_after src_before src_after dst_after)
   Specification (C14), evaluated on the implementation's observables:
     the sentinel tree outside both roots is unchanged (every lstat field, inode numbers, link
     counts, bytes, xattrs); the top level of the jail (the parents of the roots) has the same
     entries, types, owners, inodes and link targets; the source root is unchanged; no file below
     the destination root holds bytes of the sentinel tree ("O:" provenance tag). *)
Definition tag_O (c : list N) : bool := has_prefix [79; 58] c.   (* "O:" *)

Definition top_key (s : sx) : sx :=   (* drop the mtime of top-level entries: writing into dstroot changes it *)
  match s with SL [n; m; u; g; i; t; _] => SL [n; m; u; g; i; t] | x => x end.

Definition run_1401 (input impl : sx) : sx :=
  match impl with
  | SL [err; ob; oa; tb; ta; sb; sa; da] =>
    match sx_list dec_raw da, sx_L tb, sx_L ta with
    | Some dst, Some tbl, Some tal =>
      let outside_same := sx_eqb ob oa in
      let top_same := sx_eqb (SL (map top_key tbl)) (SL (map top_key tal)) in
      let src_same := sx_eqb sb sa in
      let no_leak := forallb (fun d => negb (tag_O (r_content d))) dst in
      let ran := match err with SN e => N.leb e 1 | _ => false end in
      let code := ((if outside_same then 0 else 1) + (if top_same then 0 else 2) + (if src_same then 0 else 4)
                   + (if no_leak then 0 else 8) + (if ran then 0 else 16))%N in
      verdict impl impl (outside_same && top_same && src_same && no_leak && ran) (SL [SN code])
    | _, _, _ => v_malformed
    end
  | _ => v_malformed
  end.

(* ---------------------------------------------------------------------------------------
   kind 1403: input = (ops root path follow); impl = (op-results snapshot rp) where the ops
   (encoding of kind 0301) built a tree in an empty jail, the snapshot was taken by an lstat
   walk, and rp is what the REAL copy.rootPath returned: (0 path) | (1 code).
   Model: the same ops run on Model/Fs.v, then Model/RootPath.copy_root_path.
   Specification (theorem rootpath_result_link_free), evaluated on the implementation's result
   against the implementation's snapshot, without path resolution: the result is root followed
   by names only (no "." / ".." / empty component), and no prefix of it strictly below root
   is a symbolic link in the snapshot (the final name is exempt when follow = false). *)
Definition enc_rp (r : bytes + rp_err) : sx :=
  match r with
  | inl p => SL [SN 0; SB p]
  | inr RpTooManyLinks => SL [SN 1; SN 999]
  | inr (RpErrno e) => SL [SN 1; SN (errno_code e)]
  | inr RpFuel => SL [SN 1; SN 997]
  end.

Definition snap_type (snap : list sx) (p : bytes) : option N :=
  match find (fun e => match e with SL (SB q :: _) => bytes_eqb p q | _ => false end) snap with
  | Some (SL [_; _; SL (SN t :: _)]) => Some t
  | _ => None
  end.

(* prefixes [c1], [c1;c2], ... of a component list *)
Fixpoint prefixes_from (acc : list bytes) (cs : list bytes) : list (list bytes) :=
  match cs with
  | [] => []
  | c :: r => (acc ++ [c]) :: prefixes_from (acc ++ [c]) r
  end.

Definition rp_spec (snap : list sx) (root out : bytes) (follow : bool) : bool :=
  has_prefix root out &&
  (let rest := skipn (length root) out in
   (bytes_eqb root [sep] || is_nil rest || is_abs rest) &&
   (let cs := pcs rest in
    let rcs := pcs root in
    forallb name_ok cs &&
    bytes_eqb out (render (rcs ++ cs)) &&
    (let pre := prefixes_from [] cs in
     let checked := if follow then pre else removelast pre in
     forallb (fun p => match snap_type snap (joinc (rcs ++ p)) with
                       | Some 40960 => false
                       | _ => true
                       end) checked))).

(* 4th component (follow = true only): what the kernel answers to chroot(root); chdir(Join("/",
   path)); getcwd() — (0 cwd) | (1 errno) — against Fs.resolve with the process root set to
   root.  It is NOT part of the specification: RootPath deviates from it (theorem
   rootpath_is_chroot_resolution_refuted); the generator counts how often. *)
Definition enc_cw (r : bytes + errno) : sx :=
  match r with inl p => SL [SN 0; SB p] | inr e => SL [SN 1; SN (errno_code e)] end.

Definition run_1403 (input impl : sx) : sx :=
  match input with
  | SL [SL ops; SB root; SB path; fl] =>
    match sx_bool fl, run_ops (ctx_init, fs_init) ops [] with
    | Some follow, Some (f, rs) =>
      let cw := if follow then
                  match resolve_ino ctx_init f root true with
                  | inl ri => enc_cw (chroot_cwd f ri (join2 [sep] path))
                  | inr e => SL [SN 1; SN (errno_code e)]
                  end
                else SL [] in
      let model := SL [SL rs; enc_snapshot (snapshot_from f 1);
                       enc_rp (copy_root_path ctx_init f root path follow); cw] in
      match impl with
      | SL [_; SL snap; SL [SN 0; SB out]; _] =>
        let ok := rp_spec snap root out follow in
        verdict model impl ok (SL [SN 1])
      | SL [_; SL _; SL [SN 1; SN _]; _] => verdict model impl true (SL [])
      | _ => v_malformed
      end
    | _, _ => v_malformed
    end
  | _ => v_malformed
  end.

(* ---------------------------------------------------------------------------------------
   kind 1404: input = (ops srcRoot src dstRoot dst opts);
   impl = (op-results snapshot-before matches err snapshot-after (dino-before dino-after)).
   Model: the ops on Model/Fs.v, then Model/CopyFs.copy_top with the matches the real
   ResolveWildcards returned; compared: error-or-not and the snapshot of the WHOLE jail afterwards.
   Specification (copy_contained), evaluated on the implementation's two snapshots without the
   model: every entry whose path is not strictly below dstRoot and is not dstRoot itself is
   unchanged (same paths, same records: type, mode, owner, mtime, rdev, target, xattrs, content —
   this covers inodes that are also hard-linked into the destination), the hard-link partition
   among those entries is unchanged, and dstRoot is still the same directory inode. *)
Definition dec_opt2 (s : sx) : option (option (N * N)) :=
  match s with SL [] => Some None | SL [SN a; SN b] => Some (Some (a, b)) | _ => None end.
Definition dec_opt1 (s : sx) : option (option N) :=
  match s with SL [] => Some None | SL [SN a] => Some (Some a) | _ => None end.

Definition dec_copts7 (fl wi ar dc ch ut mo : sx) : option (copts * bool) :=
    fl <- sx_bool fl ;; wi <- sx_bool wi ;; ar <- sx_bool ar ;; dc <- sx_bool dc ;;
    ch <- dec_opt2 ch ;; ut <- dec_opt1 ut ;; mo <- dec_opt1 mo ;;
    Some ({| o_follow := fl; o_always_replace := ar; o_dir_contents := dc;
             o_chown := ch; o_utime := ut; o_mode := mo |}, wi).
(* options, wildcards flag, include patterns, exclude patterns *)
Definition dec_copts (s : sx) : option (copts * bool * list bytes * list bytes) :=
  match s with
  | SL [fl; wi; ar; dc; ch; ut; mo] =>
    x <- dec_copts7 fl wi ar dc ch ut mo ;; Some (x, [], [])
  | SL [fl; wi; ar; dc; ch; ut; mo; SL inc; SL exc] =>
    x <- dec_copts7 fl wi ar dc ch ut mo ;; i <- omap sx_B inc ;; e <- omap sx_B exc ;; Some (x, i, e)
  | _ => None
  end.

(* single-pattern results of the real matcher: ((cleanedPattern path bool) ...) *)
Definition dec_pm (s : sx) : option (bytes * bytes * bool) :=
  match s with SL [SB p; SB q; b] => b' <- sx_bool b ;; Some (p, q, b') | _ => None end.
Fixpoint tbl_pmatch (t : list (bytes * bytes * bool)) (P q : bytes) : bool :=
  match t with
  | [] => false
  | (p', q', b) :: r => if bytes_eqb p' P && bytes_eqb q' q then b else tbl_pmatch r P q
  end.
(* newCopier: matchers from the pattern lists (None = patternmatcher.New failed) *)
Definition mk_selector (tbl : list (bytes * bytes * bool)) (inc exc : list bytes) : option selector :=
  match mk_cfg inc exc with
  | Some cf => Some {| sl_inc := sel_inc (tbl_pmatch tbl) cf; sl_exc := sel_exc (tbl_pmatch tbl) cf |}
  | None => None
  end.

Definition dec_matches (s : sx) : option (option (list bytes)) :=
  match s with
  | SL [] => Some None
  | SL [SN 1] => Some (Some [])          (* ResolveWildcards failed: Copy returns at the same point as for no match *)
  | SL [SN 0; SL l] => l' <- omap sx_B l ;; Some (Some l')
  | _ => None
  end.

(* path strictly below root (both relative to the jail, no leading separator), or root itself *)
Definition below_or_eq (root p : bytes) : bool :=
  bytes_eqb root p || has_prefix (root ++ [sep]) p.

Definition snap_entry (e : sx) : option (bytes * N * sx) :=
  match e with SL [SB p; SN cls; rec] => Some (p, cls, rec) | _ => None end.

Definition outside_entries (root : bytes) (snap : list (bytes * N * sx)) : list (bytes * N * sx) :=
  filter (fun e => negb (below_or_eq root (fst (fst e)))) snap.

(* same partition: two entries share a class before iff they share one after (lists aligned) *)
Fixpoint same_partition (a b : list N) : bool :=
  match a, b with
  | [], [] => true
  | x :: a', y :: b' =>
    forallb (fun xy => Bool.eqb (N.eqb x (fst xy)) (N.eqb y (snd xy))) (combine a' b') && same_partition a' b'
  | _, _ => false
  end.

Definition outside_unchanged (root : bytes) (before after : list sx) : bool :=
  match omap snap_entry before, omap snap_entry after with
  | Some b, Some a =>
    let ob := outside_entries root b in
    let oa := outside_entries root a in
    sx_eqb (SL (map (fun e => SL [SB (fst (fst e)); snd e]) ob)) (SL (map (fun e => SL [SB (fst (fst e)); snd e]) oa))
    && same_partition (map (fun e => snd (fst e)) ob) (map (fun e => snd (fst e)) oa)
  | _, _ => false
  end.

Definition reads_inside (f : fs) (sroot : bytes) (reads : list N) : bool :=
  match resolve_ino ctx_init f sroot true with
  | inr _ => true                        (* no source root: nothing is copied *)
  | inl sr =>
    let below := sr :: map (fun e => snd (fst e)) (tree_below 64 f sr []) in
    forallb (fun i => negb (N.ltb i (f_next f)) || existsb (N.eqb i) below) reads
  end.

Definition copy_fuel : nat := 64.

Definition run_1404 (input impl : sx) : sx :=
  match input, impl with
  | SL [SL ops; SB sroot; SB src; SB droot; SB dst; o],
    SL [_; SL sb; ms; SN err; SL sa; SL [SN di0; SN di1]; SL pt] =>
    match dec_copts o, dec_matches ms, run_ops (ctx_init, fs_init) ops [], omap dec_pm pt with
    | Some (opts, wild, inc, exc), Some matches, Some (f, rs), Some tbl =>
      let m := if wild then match matches with Some l => Some l | None => Some [] end else None in
      let '(s', res) := copy_top copy_fuel ctx_init opts (mk_selector tbl inc exc) sroot src droot dst m (cst_init f) in
      let code := match res with inl _ => 0 | inr 4 => 9 | inr _ => 1 end%N in
      let model := SL [SL rs; enc_snapshot (snapshot_from f 1); ms; SN code;
                       enc_snapshot (snapshot_from (s_fs s') 1); SL [SN di0; SN di1]; SL pt] in
      let rel := match droot with a :: r => if N.eqb a sep then r else droot | [] => [] end in
      (* the read side (copy_reads_inside, also for overlapping roots): of the inodes that existed
         before, the model's source-path calls name only srcRoot and what lies below it (no link followed) *)
      let rd := reads_inside f sroot (s_reads s') in
      let ok := outside_unchanged rel sb sa && N.eqb di0 di1 && negb (N.eqb di0 0) && N.leb err 1 && rd in
      (* out of the model's scope, exactly: the model ran out of its recursion bound (copy_fuel = 64
         levels: a copy that nests into itself, which the real code pursues until ENAMETOOLONG).  The
         model is then not compared, the specification still is evaluated on what the implementation did. *)
      let fuel_out := match res with inr 4 => true | _ => false end%N in
      verdict (if fuel_out then impl else model) impl ok
              (SL [SN (if outside_unchanged rel sb sa then 0 else 1); SN di0; SN di1; SN err; SN (if rd then 0 else 1)])
    | _, _, _, _ => v_malformed
    end
  | _, _ => v_malformed
  end.

(* ---- kind 1405: the real Copy under strace: the flavours of its metadata calls ----
   impl = (output-of-1404 ((call nofollow path) ...)).  A call of the wrong flavour is a specification failure; otherwise the verdict
   is that of kind 1404 on the same run.  chown / utimes / setxattr calls must be no-follow, a following chmod must name
   something that is not a symlink at the time of the call (theorem metadata_calls_nofollow). *)
Definition s_chmod : bytes := [99; 104; 109; 111; 100].
(* (call nofollow path) for chown / utimes / setxattr; (chmod nofollow path onlink) *)
Definition ev_ok (e : sx) : bool :=
  match e with
  | SL [SB kind; b; SB path] =>
    negb (bytes_eqb kind s_chmod) && match sx_bool b with Some true => true | _ => false end
  | SL [SB kind; b; SB path; l] =>
    bytes_eqb kind s_chmod &&
    match sx_bool b, sx_bool l with
    | Some true, Some _ => true
    | Some false, Some false => true
    | _, _ => false
    end
  | _ => false
  end.
Definition run_1405 (input impl : sx) : sx :=
  match impl with
  | SL [SL [r0; sb; ms; err; SL sa; di; pt]; SL evs] =>
    let o4 := SL [r0; sb; ms; err; SL sa; di; pt] in
    if forallb ev_ok evs then run_1404 input o4
    else verdict impl impl false (SL (filter (fun e => negb (ev_ok e)) evs))
  | _ => v_malformed
  end.
