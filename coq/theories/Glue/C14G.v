(* Decoding of C14 cases and verdicts. *)
From Coq Require Import List NArith Bool.
From FS Require Import Sx Model.Path Model.Stat Model.Tree Model.Converge.
Import ListNotations.
Open Scope bool_scope.

(* kind 1401: impl = (err outside_before outside_after top_before top_after src_before src_after dst_after)
   Specification (C14), evaluated on the implementation's observables:
     the sentinel tree outside both roots is unchanged (every lstat field, inode numbers, link
     counts, bytes, xattrs); the top level of the jail (the parents of the roots) has the same
     entries, types, owners, inodes and link targets; the source root is unchanged; no file below
     the destination root holds bytes of the sentinel tree ("O:" provenance tag). *)
Definition tag_O (c : list N) : bool := has_prefix [79; 58] c.   (* "O:" *)

Definition top_key (s : sx) : sx :=   (* drop the mtime of top-level entries: writing into dstroot changes it *)
  match s with SL [n; m; u; g; i; t; _] => SL [n; m; u; g; i; t] | x => x end.

Definition run_1401 (input impl : sx) : sx :=
  match impl with
  | SL [err; ob; oa; tb; ta; sb; sa; da] =>
    match sx_list dec_raw da, sx_L tb, sx_L ta with
    | Some dst, Some tbl, Some tal =>
      let outside_same := sx_eqb ob oa in
      let top_same := sx_eqb (SL (map top_key tbl)) (SL (map top_key tal)) in
      let src_same := sx_eqb sb sa in
      let no_leak := forallb (fun d => negb (tag_O (r_content d))) dst in
      let ran := match err with SN e => N.leb e 1 | _ => false end in
      let code := ((if outside_same then 0 else 1) + (if top_same then 0 else 2) + (if src_same then 0 else 4)
                   + (if no_leak then 0 else 8) + (if ran then 0 else 16))%N in
      verdict impl impl (outside_same && top_same && src_same && no_leak && ran) (SL [SN code])
    | _, _, _ => v_malformed
    end
  | _ => v_malformed
  end.
