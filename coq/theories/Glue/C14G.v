(* Decoding of C14 cases and verdicts. *)
From Coq Require Import List NArith Bool.
From FS Require Import Sx Model.Path Model.Stat Model.Tree Model.Converge Model.Fs Model.RootPath Glue.C03G.
Import ListNotations.
Open Scope bool_scope.

(* kind 1401: impl = (err outside_before outside_after top_before top_after src_before src_after dst_after)
   Specification (C14), evaluated on the implementation's observables:
     the sentinel tree outside both roots is unchanged (every lstat field, inode numbers, link
     counts, bytes, xattrs); the top level of the jail (the parents of the roots) has the same
     entries, types, owners, inodes and link targets; the source root is unchanged; no file below
     the destination root holds bytes of the sentinel tree ("O:" provenance tag). *)
Definition tag_O (c : list N) : bool := has_prefix [79; 58] c.   (* "O:" *)

Definition top_key (s : sx) : sx :=   (* drop the mtime of top-level entries: writing into dstroot changes it *)
  match s with SL [n; m; u; g; i; t; _] => SL [n; m; u; g; i; t] | x => x end.

Definition run_1401 (input impl : sx) : sx :=
  match impl with
  | SL [err; ob; oa; tb; ta; sb; sa; da] =>
    match sx_list dec_raw da, sx_L tb, sx_L ta with
    | Some dst, Some tbl, Some tal =>
      let outside_same := sx_eqb ob oa in
      let top_same := sx_eqb (SL (map top_key tbl)) (SL (map top_key tal)) in
      let src_same := sx_eqb sb sa in
      let no_leak := forallb (fun d => negb (tag_O (r_content d))) dst in
      let ran := match err with SN e => N.leb e 1 | _ => false end in
      let code := ((if outside_same then 0 else 1) + (if top_same then 0 else 2) + (if src_same then 0 else 4)
                   + (if no_leak then 0 else 8) + (if ran then 0 else 16))%N in
      verdict impl impl (outside_same && top_same && src_same && no_leak && ran) (SL [SN code])
    | _, _, _ => v_malformed
    end
  | _ => v_malformed
  end.

(* ---------------------------------------------------------------------------------------
   kind 1403: input = (ops root path follow); impl = (op-results snapshot rp) where the ops
   (encoding of kind 0301) built a tree in an empty jail, the snapshot was taken by an lstat
   walk, and rp is what the REAL copy.rootPath returned: (0 path) | (1 code).
   Model: the same ops run on Model/Fs.v, then Model/RootPath.copy_root_path.
   Specification (theorem rootpath_result_link_free), evaluated on the implementation's result
   against the implementation's snapshot, without path resolution: the result is root followed
   by names only (no "." / ".." / empty component), and no prefix of it strictly below root
   is a symbolic link in the snapshot (the final name is exempt when follow = false). *)
Definition enc_rp (r : bytes + rp_err) : sx :=
  match r with
  | inl p => SL [SN 0; SB p]
  | inr RpTooManyLinks => SL [SN 1; SN 999]
  | inr (RpErrno e) => SL [SN 1; SN (errno_code e)]
  | inr RpFuel => SL [SN 1; SN 997]
  end.

Definition snap_type (snap : list sx) (p : bytes) : option N :=
  match find (fun e => match e with SL (SB q :: _) => bytes_eqb p q | _ => false end) snap with
  | Some (SL [_; _; SL (SN t :: _)]) => Some t
  | _ => None
  end.

(* prefixes [c1], [c1;c2], ... of a component list *)
Fixpoint prefixes_from (acc : list bytes) (cs : list bytes) : list (list bytes) :=
  match cs with
  | [] => []
  | c :: r => (acc ++ [c]) :: prefixes_from (acc ++ [c]) r
  end.

Definition rp_spec (snap : list sx) (root out : bytes) (follow : bool) : bool :=
  has_prefix root out &&
  (let rest := skipn (length root) out in
   (bytes_eqb root [sep] || is_nil rest || is_abs rest) &&
   (let cs := pcs rest in
    let rcs := pcs root in
    forallb name_ok cs &&
    bytes_eqb out (render (rcs ++ cs)) &&
    (let pre := prefixes_from [] cs in
     let checked := if follow then pre else removelast pre in
     forallb (fun p => match snap_type snap (joinc (rcs ++ p)) with
                       | Some 40960 => false
                       | _ => true
                       end) checked))).

(* 4th component (follow = true only): what the kernel answers to chroot(root); chdir(Join("/",
   path)); getcwd() — (0 cwd) | (1 errno) — against Fs.resolve with the process root set to
   root.  It is NOT part of the specification: RootPath deviates from it (theorem
   rootpath_is_chroot_resolution_refuted); the generator counts how often. *)
Definition enc_cw (r : bytes + errno) : sx :=
  match r with inl p => SL [SN 0; SB p] | inr e => SL [SN 1; SN (errno_code e)] end.

Definition run_1403 (input impl : sx) : sx :=
  match input with
  | SL [SL ops; SB root; SB path; fl] =>
    match sx_bool fl, run_ops (ctx_init, fs_init) ops [] with
    | Some follow, Some (f, rs) =>
      let cw := if follow then
                  match resolve_ino ctx_init f root true with
                  | inl ri => enc_cw (chroot_cwd f ri (join2 [sep] path))
                  | inr e => SL [SN 1; SN (errno_code e)]
                  end
                else SL [] in
      let model := SL [SL rs; enc_snapshot (snapshot_from f 1);
                       enc_rp (copy_root_path ctx_init f root path follow); cw] in
      match impl with
      | SL [_; SL snap; SL [SN 0; SB out]; _] =>
        let ok := rp_spec snap root out follow in
        verdict model impl ok (SL [SN 1])
      | SL [_; SL _; SL [SN 1; SN _]; _] => verdict model impl true (SL [])
      | _ => v_malformed
      end
    | _, _ => v_malformed
    end
  | _ => v_malformed
  end.
