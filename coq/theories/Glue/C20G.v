(* Decoding of C20 cases and verdicts. *)
From Coq Require Import List NArith Bool.
From FS Require Import Sx Model.Path Model.Stat Model.Varint Model.Codec Model.Framing Model.MetaBuffer Model.Listing.
Import ListNotations.
Open Scope N_scope.

(* packet = (type opt id data), opt = () | (stat) *)
Definition dec_packet (s : sx) : option packet :=
  match s with
  | SL [SN t; SL o; SN i; SB d] =>
    match o with
    | [] => Some {| ptype := t; pstat := None; pid := i; pdata := d |}
    | [x] => st <- dec_stat x ;; Some {| ptype := t; pstat := Some st; pid := i; pdata := d |}
    | _ => None
    end
  | _ => None
  end.
Definition enc_packet (p : packet) : sx :=
  SL [SN (ptype p); SL (match pstat p with Some s => [enc_stat s] | None => [] end); SN (pid p); SB (pdata p)].

Definition ostat_eqb (a b : option stat) : bool :=
  match a, b with
  | Some x, Some y => stat_eqb x y
  | None, None => true
  | _, _ => false
  end.
Definition packet_eqb (a b : packet) : bool :=
  N.eqb (ptype a) (ptype b) && ostat_eqb (pstat a) (pstat b) && N.eqb (pid a) (pid b) && bytes_eqb (pdata a) (pdata b).

Definition sig (s : bytes) : sx := SL [SB [115; 105; 103]; SB s].   (* "sig" *)
(* "non-utf8-string-generic-runtime" *)
Definition sig_k2 : bytes :=
  [110;111;110;45;117;116;102;56;45;115;116;114;105;110;103;45;103;101;110;101;114;105;99;45;114;117;110;116;105;109;101].
(* "map-entry-overrun-overallocates" *)
Definition sig_overrun : bytes :=
  [109;97;112;45;101;110;116;114;121;45;111;118;101;114;114;117;110;45;111;118;101;114;97;108;108;111;99;97;116;101;115].

(* the order in which an encoder emitted the map entries, read off its output; falls back to
   the canonical order when the output is not an encoding of a permutation of [xs] *)
Definition canon (o : list (bytes * bytes)) : list (bytes * bytes) :=
  fold_left (fun acc kv => xinsert (fst kv) (snd kv) acc) o [].
Definition order_or (xs o : list (bytes * bytes)) : list (bytes * bytes) :=
  if Nat.eqb (length o) (length xs) && xattrs_eqb (canon o) xs then o else xs.
Definition stat_order (s : stat) (b : bytes) : list (bytes * bytes) :=
  match decode_stat_into xappend (empty_stat, []) b with
  | Some (s', _) => order_or (st_xattrs s) (st_xattrs s')
  | None => st_xattrs s
  end.
Definition packet_order (p : packet) (b : bytes) : list (bytes * bytes) :=
  match decode_packet_into xappend empty_pstate b with
  | Some q => match q_stat q with Some (s', _) => order_or (pxattrs p) (st_xattrs s') | None => pxattrs p end
  | None => pxattrs p
  end.

(* kind 2001: (sel value) -> (bytes size); sel bit 0 = Stat / Packet, the other bits select the real
   encode path (every path must produce the same bytes and agree with SizeVT).  Model: encode (in the emitted entry order) and size.
   Spec: the model DEcoder maps the real bytes back to the value (no unknown fields), and the
   real SizeVT is the real length. *)
(* one encoding (bytes size) of the value [s] / [p] as reported by the implementation: model
   output and specification verdict *)
Definition enc_case_stat (s : stat) (impl : sx) : sx * bool :=
  let implb := match impl with SL [SB b; SN _] => Some b | _ => None end in
  let impln := match impl with SL [SB _; SN n] => Some n | _ => None end in
  let o := match implb with Some b => stat_order s b | None => st_xattrs s end in
  let m := SL [SB (encode_stat_ord o s); SN (size_stat s)] in
  let sp := match implb, impln with
            | Some b, Some n =>
              match decode_stat_u b with
              | Some (s', u) => stat_eqb s' s && bytes_eqb u [] && (len b =? n)
              | None => false
              end
            | _, _ => false
            end in
  (m, sp).
Definition enc_case_packet (p : packet) (impl : sx) : sx * bool :=
  let implb := match impl with SL [SB b; SN _] => Some b | _ => None end in
  let impln := match impl with SL [SB _; SN n] => Some n | _ => None end in
  let o := match implb with Some b => packet_order p b | None => pxattrs p end in
  let m := SL [SB (encode_packet_ord o p); SN (size_packet p)] in
  let sp := match implb, impln with
            | Some b, Some n =>
              match decode_packet_u b with
              | Some (p', su, u) => packet_eqb p' p && bytes_eqb su [] && bytes_eqb u [] && (len b =? n)
              | None => false
              end
            | _, _ => false
            end in
  (m, sp).

Definition run_2001 (input impl : sx) : sx :=
  match input with
  | SL [SN sel; v] =>
    if negb (N.testbit sel 0) then
      match dec_stat v with
      | None => v_malformed
      | Some s => let r := enc_case_stat s impl in verdict (fst r) impl (snd r) (SL [])
      end
    else
      match dec_packet v with
      | None => v_malformed
      | Some p => let r := enc_case_packet p impl in verdict (fst r) impl (snd r) (SL [])
      end
  | _ => v_malformed
  end.

(* kind 2002: (sel bytes) -> (#1 value unknown.. size) | (#0).
   Spec ("a value or an error, never a panic, never more than the input"): the output is an
   error or a value whose byte-like fields together are no longer than the input. *)
(* Independent account of the unknown fields of an input: split the message into records with
   Skip only (no typed decoding) and keep, verbatim and in order, those whose field number is
   outside the schema 1..maxfn.  A decoder that accepts the input must retain exactly these
   bytes (nothing dropped, nothing reordered). *)
Fixpoint unknown_walk (maxfn : N) (fuel : nat) (l : bytes) : option bytes :=
  match l with
  | [] => Some []
  | _ :: _ =>
    match fuel with
    | O => None
    | S f =>
      match get_tag l, skip l with
      | Some (fn, _, _), Some r =>
        match unknown_walk maxfn f r with
        | Some u => Some (if (1 <=? fn) && (fn <=? maxfn) then u else firstn (length l - length r) l ++ u)
        | None => None
        end
      | _, _ => None
      end
    end
  end.
(* unknown fields of the Stat payloads (field 2) of a Packet, merged in order *)
Fixpoint stat_unknown_walk (fuel : nat) (l : bytes) : option bytes :=
  match l with
  | [] => Some []
  | _ :: _ =>
    match fuel with
    | O => None
    | S f =>
      match get_tag l, skip l with
      | Some (fn, _, r0), Some r =>
        match stat_unknown_walk f r with
        | Some u =>
          if fn =? 2 then
            match get_bytes r0 with
            | Some (payload, _) =>
              match unknown_walk 10 (length payload) payload with Some w => Some (w ++ u) | None => None end
            | None => None
            end
          else Some u
        | None => None
        end
      | _, _ => None
      end
    end
  end.
Definition unk_ok (u : bytes) (w : option bytes) : bool :=
  match w with Some x => bytes_eqb u x | None => true end.

Definition run_2002 (input impl : sx) : sx :=
  match input with
  | SL [SN sel; SB b] =>
    if sel =? 0 then
      let md := decode_stat_u b in
      let m := match md with
               | Some (s, u) => SL [SN 1; enc_stat s; SB u; SN (size_stat_u s u)]
               | None => SL [SN 0]
               end in
      let sp := match impl with
                | SL [SN 0] => true
                | SL [SN 1; sv; SB u; SN _] =>
                  match dec_stat sv with
                  | Some s => (stat_alloc (s, u) <=? len b) && unk_ok u (unknown_walk 10 (length b) b)
                  | None => false
                  end
                | _ => false
                end in
      let over := match md with Some su => negb (stat_alloc su <=? len b) | None => false end in
      verdict m impl sp (if over then sig sig_overrun else SL [])
    else
      let md := decode_packet_u b in
      let m := match md with
               | Some (p, su, u) =>
                 SL [SN 1; enc_packet p; SB su; SB u; SN (size_packet_u p su u)]
               | None => SL [SN 0]
               end in
      let sp := match impl with
                | SL [SN 0] => true
                | SL [SN 1; pv; SB su; SB u; SN _] =>
                  match dec_packet pv with
                  | Some p => (packet_alloc (p, su, u) <=? len b) && unk_ok u (unknown_walk 4 (length b) b)
                              && unk_ok su (stat_unknown_walk (length b) b)
                  | None => false
                  end
                | _ => false
                end in
      let over := match md with Some x => negb (packet_alloc x <=? len b) | None => false end in
      verdict m impl sp (if over then sig sig_overrun else SL [])
  | _ => v_malformed
  end.

(* kind 2003: (sel value) -> (gm gu vu), the generic protobuf runtime against the VT codec:
   gm = generic deterministic Marshal (#1 bytes)|(#0); gu = generic Unmarshal of the VT bytes
   (#1 value)|(#0); vu = VT Unmarshal of the generic bytes (#1 value)|(#0)|().
   Spec: all three succeed, the model decoder maps the generic bytes to the value, and both
   cross decodings give the value back.  Known finding K2: strings that are not UTF-8. *)
Definition res_stat (o : option stat) : sx :=
  match o with Some s => SL [SN 1; enc_stat s] | None => SL [SN 0] end.
Definition res_packet (o : option packet) : sx :=
  match o with Some p => SL [SN 1; enc_packet p] | None => SL [SN 0] end.
Definition res_bytes (o : option bytes) : sx :=
  match o with Some b => SL [SN 1; SB b] | None => SL [SN 0] end.

Definition run_2003 (input impl : sx) : sx :=
  match input with
  | SL [SN sel; v] =>
    if sel =? 0 then
      match dec_stat v with
      | None => v_malformed
      | Some s =>
        let gm := generic_encode_stat s in
        let m := SL [res_bytes gm; res_stat (generic_decode_stat (encode_stat s));
                     match gm with Some b => res_stat (decode_stat b) | None => SL [] end] in
        let sp := match impl with
                  | SL [SL [SN 1; SB gb]; SL [SN 1; gu]; SL [SN 1; vu]] =>
                    match decode_stat_u gb, dec_stat gu, dec_stat vu with
                    | Some (s1, u1), Some s2, Some s3 => stat_eqb s1 s && bytes_eqb u1 [] && stat_eqb s2 s && stat_eqb s3 s
                    | _, _, _ => false
                    end
                  | _ => false
                  end in
        verdict m impl sp (if utf8_valid_stat s then SL [] else sig sig_k2)
      end
    else
      match dec_packet v with
      | None => v_malformed
      | Some p =>
        let gm := generic_encode_packet p in
        let m := SL [res_bytes gm; res_packet (generic_decode_packet (encode_packet p));
                     match gm with Some b => res_packet (decode_packet b) | None => SL [] end] in
        let sp := match impl with
                  | SL [SL [SN 1; SB gb]; SL [SN 1; gu]; SL [SN 1; vu]] =>
                    match decode_packet_u gb, dec_packet gu, dec_packet vu with
                    | Some (p1, su1, u1), Some p2, Some p3 =>
                      packet_eqb p1 p && bytes_eqb su1 [] && bytes_eqb u1 [] && packet_eqb p2 p && packet_eqb p3 p
                    | _, _, _ => false
                    end
                  | _ => false
                  end in
        verdict m impl sp (if utf8_valid_packet p then SL [] else sig sig_k2)
      end
  | _ => v_malformed
  end.

(* kind 2004: (mode packets lens [cut]) -> (full-stream (item..)), item = (packet) | (#0).
   Model: the stream is the concatenation of the frames (entry order read off the real
   stream), cut to [cut] bytes when mode has bit 2; it is split into chunks of the given
   lengths (+ the rest) and read back by recv_msgs.
   Spec (complete streams): what was received = what was sent, in order. *)
Fixpoint stream_orders (fuel : nat) (s : bytes) : list (list (bytes * bytes)) :=
  match fuel with
  | O => []
  | S f =>
    match s with
    | a :: b :: c :: d :: r =>
      match take_n (be32_dec [a; b; c; d]) r with
      | Some (body, r') =>
        match decode_packet_into xappend empty_pstate body with
        | Some q => match q_stat q with Some (s', _) => st_xattrs s' | None => [] end
        | None => []
        end :: stream_orders f r'
      | None => []
      end
    | _ => []
    end
  end.
Fixpoint frames_ord (ps : list packet) (os : list (list (bytes * bytes))) : bytes :=
  match ps with
  | [] => []
  | p :: ps' =>
    let o := match os with o :: _ => order_or (pxattrs p) o | [] => pxattrs p end in
    frame (encode_packet_ord o p) ++ frames_ord ps' (match os with _ :: os' => os' | [] => [] end)
  end.
(* a piece of the reader: #n, or (#n #flag) with flag 1 = io.EOF, 2 = another error *)
Definition dec_piece (s : sx) : option (N * rerr) :=
  match s with
  | SN n => Some (n, RNone)
  | SL [SN n; SN f] => Some (n, if f =? 1 then REof else if f =? 2 then RErr else RNone)
  | _ => None
  end.
(* cut [s] into pieces of the given lengths, each with the error its exhausting Read reports;
   what is left is the last piece; nothing follows the piece that exhausts the data *)
Fixpoint fragment (s : bytes) (lens : list (N * rerr)) : list (bytes * rerr) :=
  match lens with
  | [] => match s with [] => [] | _ => [(s, RNone)] end
  | (n, f) :: r =>
    match s with
    | [] => []
    | _ => if n <=? len s then (firstn (N.to_nat n) s, f) :: fragment (skipn (N.to_nat n) s) r else [(s, f)]
    end
  end.
(* mode bit 3: the Read that delivers the final bytes reports io.EOF (unless the piece has an
   error of its own) *)
Fixpoint eof_with_last (cs : list (bytes * rerr)) : list (bytes * rerr) :=
  match cs with
  | [] => []
  | [(c, f)] => [(c, match f with RNone => REof | _ => f end)]
  | x :: r => x :: eof_with_last r
  end.
(* executable form of Framing.tail_flagged *)
Fixpoint tail_flagged_b (cs : list (bytes * rerr)) : bool :=
  match cs with
  | [] => true
  | [(c, f)] => match f with RErr => negb (len c =? 0) | _ => true end
  | (_, f) :: r => match f with RNone => tail_flagged_b r | _ => false end
  end.
Definition res_items (l : list (option packet)) : sx :=
  SL (map (fun o => match o with Some p => SL [enc_packet p] | None => SL [SN 0] end) l).
Fixpoint items_eqb (got : list sx) (sent : list packet) : bool :=
  match got, sent with
  | [], [] => true
  | SL [g] :: got', p :: sent' =>
    match dec_packet g with Some p' => packet_eqb p' p && items_eqb got' sent' | None => false end
  | _, _ => false
  end.

(* what was received is a prefix of what was sent, followed by at most one error item *)
Fixpoint items_prefixb (got : list sx) (sent : list packet) : bool :=
  match got with
  | [] => true
  | [SL [SN 0]] => true
  | SL [g] :: got' =>
    match sent with
    | p :: sent' =>
      match dec_packet g with Some p' => packet_eqb p' p && items_prefixb got' sent' | None => false end
    | [] => false
    end
  | _ => false
  end.

(* one stream: model output and specification verdict for what the implementation reports *)
Definition framing_case (mode : N) (msgs : list packet) (ls : list (N * rerr)) (rest : list sx) (impl : sx)
  : sx * bool :=
  let impl_stream := match impl with SL [SB s; _] => s | _ => [] end in
  let full := frames_ord msgs (stream_orders (S (length msgs)) impl_stream) in
  let truncated := N.testbit mode 2 in
  let stream :=
    if truncated then
      match rest with
      | [SN cut] => if cut <? len full then firstn (N.to_nat cut) full else full
      | _ => full
      end
    else full in
  let chunks0 := fragment stream ls in
  let chunks := if N.testbit mode 3 then eof_with_last chunks0 else chunks0 in
  let m := SL [SB full; res_items (recv_msgs_x chunks)] in
  (* a harness anomaly — (#ffff msg) panic, (#fffe) hang, (#fffd ..) aliasing / send error —
     is never an acceptable outcome.  A complete stream through a reader that reports an
     error at most with its last piece (Framing.tail_flagged: the hypothesis of
     recv_all_fragmentation_x) must be received entirely; otherwise (cut stream, error in
     mid-stream) no wrong packet may appear: a prefix, then at most one error *)
  let sp := match impl with
            | SL [SB _; SL got] =>
              if negb truncated && tail_flagged_b chunks then items_eqb got msgs
              else items_prefixb got msgs
            | _ => false
            end in
  (m, sp).

Definition run_2004 (input impl : sx) : sx :=
  match input with
  | SL (SN mode :: ps :: lens :: rest) =>
    match sx_list dec_packet ps, sx_list dec_piece lens with
    | Some msgs, Some ls =>
      let r := framing_case mode msgs ls rest impl in
      verdict (fst r) impl (snd r) (SL [])
    | _, _ => v_malformed
    end
  | _ => v_malformed
  end.

(* kind 2007: (mode ((packets lens)..) schedule) -> ((full-stream (item..))..), several
   protoStreams in one process with interleaved RecvMsg calls.  The buffer pool they share is
   outside the model: whatever the schedule, EVERY stream is judged on its own exactly as in
   kind 2004 (model: recv_msgs_x on its own pieces; specification: it receives what was sent
   on it). *)
Definition dec_stream (s : sx) : option (list packet * list (N * rerr)) :=
  match s with
  | SL [ps; lens] => msgs <- sx_list dec_packet ps ;; ls <- sx_list dec_piece lens ;; Some (msgs, ls)
  | _ => None
  end.
Fixpoint streams_cases (mode : N) (ss : list (list packet * list (N * rerr))) (impls : list sx) : list sx * bool :=
  match ss with
  | [] => ([], match impls with [] => true | _ => false end)
  | (msgs, ls) :: ss' =>
    let impl_i := match impls with x :: _ => x | [] => SL [] end in
    let r := framing_case (N.land mode 1) msgs ls [] impl_i in
    let rr := streams_cases mode ss' (match impls with _ :: t => t | [] => [] end) in
    (fst r :: fst rr, snd r && snd rr && match impls with [] => false | _ => true end)
  end.
Definition run_2007 (input impl : sx) : sx :=
  match input with
  | SL [SN mode; SL streams; SL _] =>
    match sx_list dec_stream (SL streams) with
    | Some ss =>
      let impls := match impl with SL l => l | _ => [] end in
      let r := streams_cases mode ss impls in
      (* an anomaly output (#ffff ..) etc. is an SL whose elements are not stream results:
         every framing_case then judges false *)
      verdict (SL (fst r)) impl (snd r) (SL [])
    | None => v_malformed
    end
  | _ => v_malformed
  end.

(* kind 2005: ((size seed)..) -> (out ((len cap)..)).  Record i is size_i bytes
   (seed_i + j) mod 256.  Spec: WriteTo emits the concatenation of the records. *)
Fixpoint gen_rec (n : nat) (x : N) : bytes :=
  match n with
  | O => []
  | S n' => (x mod 256) :: gen_rec n' (N.succ x)
  end.
Definition dec_rec (s : sx) : option bytes :=
  match s with
  | SL [SN n; SN seed] => if n <=? 1000000 then Some (gen_rec (N.to_nat n) seed) else None
  | _ => None
  end.
Definition run_2005 (input impl : sx) : sx :=
  match sx_list dec_rec input with
  | None => v_malformed
  | Some recs =>
    let b := alloc_all recs in
    let m := SL [SB (write_to b); SL (map (fun lc => SL [SN (fst lc); SN (snd lc)]) (chunk_shape b))] in
    let sp := match impl with
              | SL [SB out; _] => bytes_eqb out (concat recs)
              | _ => false
              end in
    verdict m impl sp (SL [])
  end.

(* kind 2006: (mode (stat..) [cut]) -> (file parse), parse = (#1 (stat..)) | (#0).
   Model: the records (LE length ++ encoding, entry order read off the real file) pushed through
   the chunked buffer; the file, cut to [cut] bytes when mode has bit 0, parsed by decode_listing.
   Spec (uncut files): the parse gives back exactly the recorded stats, in order. *)
Fixpoint listing_orders (fuel : nat) (s : bytes) : list (list (bytes * bytes)) :=
  match fuel with
  | O => []
  | S f =>
    match s with
    | a :: b :: c :: d :: r =>
      match take_n (le32_dec [a; b; c; d]) r with
      | Some (body, r') =>
        match decode_stat_into xappend (empty_stat, []) body with
        | Some (s', _) => st_xattrs s'
        | None => []
        end :: listing_orders f r'
      | None => []
      end
    | _ => []
    end
  end.
Fixpoint records_ord (ss : list stat) (os : list (list (bytes * bytes))) : list bytes :=
  match ss with
  | [] => []
  | s :: ss' =>
    let o := match os with o :: _ => order_or (st_xattrs s) o | [] => st_xattrs s end in
    lframe (encode_stat_ord o s) :: records_ord ss' (match os with _ :: os' => os' | [] => [] end)
  end.
Definition res_stats (o : option (list stat)) : sx :=
  match o with Some l => SL [SN 1; SL (map enc_stat l)] | None => SL [SN 0] end.
Fixpoint stats_eqb20 (got : list sx) (want : list stat) : bool :=
  match got, want with
  | [], [] => true
  | g :: got', s :: want' =>
    match dec_stat g with Some s' => stat_eqb s' s && stats_eqb20 got' want' | None => false end
  | _, _ => false
  end.

Definition run_2006 (input impl : sx) : sx :=
  match input with
  | SL (SN mode :: ss :: rest) =>
    match sx_list dec_stat ss with
    | Some stats =>
      let impl_file := match impl with SL [SB s; _] => s | _ => [] end in
      let full := write_to (alloc_all (records_ord stats (listing_orders (S (length stats)) impl_file))) in
      let truncated := N.testbit mode 0 in
      let file :=
        if truncated then
          match rest with
          | [SN cut] => if cut <? len full then firstn (N.to_nat cut) full else full
          | _ => full
          end
        else full in
      let m := SL [SB full; res_stats (decode_listing file)] in
      let sp := match impl with
                | SL [SB _; SL [SN 1; SL got]] => if truncated then true else stats_eqb20 got stats
                | SL [SB _; SL [SN 0]] => truncated
                | _ => false
                end in
      verdict m impl sp (SL [])
    | None => v_malformed
    end
  | _ => v_malformed
  end.

(* kind 2008: (sel (op..)) -> (item..): a history of mutations and observations on ONE Stat
   (sel 0) or Packet (sel 1) object.  The model is a function of the VALUE: it tracks the
   current value through the mutations (for a Stat object the value sits in pstat) and
   every observation must be the observation of the current value, whatever happened to
   the object before — sizes, every encode path, the generic runtime, SendMsg + RecvMsg. *)
Definition hist_stat (cur : packet) : stat := match pstat cur with Some s => s | None => empty_stat end.
Definition set_pstat (cur : packet) (o : option stat) : packet :=
  {| ptype := ptype cur; pstat := o; pid := pid cur; pdata := pdata cur |}.

Definition hist_mut (isp : bool) (cur : packet) (op : sx) : option packet :=
  match op with
  | SL [SN 0; v] => if isp then dec_packet v else st <- dec_stat v ;; Some (set_pstat cur (Some st))
  | SL [SN 1; SB d] => Some {| ptype := ptype cur; pstat := pstat cur; pid := pid cur; pdata := d |}
  | SL [SN 2; SN i] => Some {| ptype := ptype cur; pstat := pstat cur; pid := i; pdata := pdata cur |}
  | SL [SN 3; SN ty] => Some {| ptype := ty; pstat := pstat cur; pid := pid cur; pdata := pdata cur |}
  | SL [SN 4; SL []] => Some (set_pstat cur None)
  | SL [SN 4; SL [x]] => st <- dec_stat x ;; Some (set_pstat cur (Some st))
  | SL [SN 5; v] => st <- dec_stat v ;; Some (set_pstat cur (Some st))
  | SL [SN 6] | SL [SN 7] => Some (if isp then empty_packet else set_pstat empty_packet (Some empty_stat))
  | _ => None
  end.

Definition hist_obs (isp : bool) (cur : packet) (op item : sx) : option (sx * bool) :=
  match op with
  | SL [SN 10; SN _] =>
    Some (if isp then enc_case_packet cur item else enc_case_stat (hist_stat cur) item)
  | SL [SN 11; SN _] =>
    let n := if isp then size_packet cur else size_stat (hist_stat cur) in
    Some (SL [SN n], match item with SL [SN k] => k =? n | _ => false end)
  | SL [SN 12] =>
    if isp then
      Some (res_bytes (generic_encode_packet cur),
            match item with
            | SL [SN 1; SB b] =>
              match decode_packet_u b with
              | Some (p', su, u) => packet_eqb p' cur && bytes_eqb su [] && bytes_eqb u []
              | None => false
              end
            | SL [SN 0] => true
            | _ => false
            end)
    else
      Some (res_bytes (generic_encode_stat (hist_stat cur)),
            match item with
            | SL [SN 1; SB b] =>
              match decode_stat_u b with
              | Some (s', u) => stat_eqb s' (hist_stat cur) && bytes_eqb u []
              | None => false
              end
            | SL [SN 0] => true
            | _ => false
            end)
  | SL [SN 13] =>
    let fr := match item with SL [SB f; _] => f | _ => [] end in
    let body := skipn 4 fr in
    let o := packet_order cur body in
    Some (SL [SB (frame (encode_packet_ord o cur)); SL [enc_packet cur]],
          match item with
          | SL [SB f; SL [pv]] =>
            (4 <=? len f) && (be32_dec (firstn 4 f) =? len body) &&
            match decode_packet_u body with
            | Some (p', su, u) => packet_eqb p' cur && bytes_eqb su [] && bytes_eqb u []
            | None => false
            end &&
            match dec_packet pv with Some p' => packet_eqb p' cur | None => false end
          | _ => false
          end)
  | _ => None
  end.

Definition is_obs (op : sx) : bool :=
  match op with SL (SN c :: _) => 10 <=? c | _ => false end.

Fixpoint hist_run (isp : bool) (cur : packet) (ops items : list sx) : option (list sx * bool) :=
  match ops with
  | [] => Some ([], match items with [] => true | _ => false end)
  | op :: ops' =>
    if is_obs op then
      let it := match items with x :: _ => x | [] => SL [] end in
      match hist_obs isp cur op it with
      | None => None
      | Some r =>
        match hist_run isp cur ops' (match items with _ :: t => t | [] => [] end) with
        | None => None
        | Some rr => Some (fst r :: fst rr, snd r && snd rr && match items with [] => false | _ => true end)
        end
      end
    else
      match hist_mut isp cur op with
      | None => None
      | Some cur' => hist_run isp cur' ops' items
      end
  end.

Definition run_2008 (input impl : sx) : sx :=
  match input with
  | SL [SN sel; SL ops] =>
    let isp := N.testbit sel 0 in
    let start := if isp then empty_packet else set_pstat empty_packet (Some empty_stat) in
    match hist_run isp start ops (match impl with SL l => l | _ => [] end) with
    | Some r => verdict (SL (fst r)) impl (snd r) (SL [])
    | None => v_malformed
    end
  | _ => v_malformed
  end.

(* kind 2009: (mode recv-packets lens send-packets schedule) -> ((full-stream (item..)) (frame..)):
   ONE protoStream used in both directions, SendMsg calls forced between the pieces in which
   its reader delivers the incoming stream (e.g. inside the 4-byte prefix).  The directions are
   independent in the model: the incoming side is judged as in kind 2004, and every frame
   SendMsg wrote must be the intact frame of its packet. *)
Fixpoint sent_frames (ps : list packet) (frs : list sx) : list sx * bool :=
  match ps with
  | [] => ([], match frs with [] => true | _ => false end)
  | p :: ps' =>
    let f := match frs with SB f :: _ => f | _ => [] end in
    let body := skipn 4 f in
    let o := packet_order p body in
    let ok := match frs with
              | SB _ :: _ =>
                (4 <=? len f) && (be32_dec (firstn 4 f) =? len body) &&
                match decode_packet_u body with
                | Some (p', su, u) => packet_eqb p' p && bytes_eqb su [] && bytes_eqb u []
                | None => false
                end
              | _ => false
              end in
    let rr := sent_frames ps' (match frs with _ :: t => t | [] => [] end) in
    (SB (frame (encode_packet_ord o p)) :: fst rr, ok && snd rr)
  end.
Definition run_2009 (input impl : sx) : sx :=
  match input with
  | SL [SN mode; rps; lens; sps; SL _] =>
    match sx_list dec_packet rps, sx_list dec_piece lens, sx_list dec_packet sps with
    | Some msgs, Some ls, Some sends =>
      let impl_r := match impl with SL [r; _] => r | _ => SL [] end in
      let impl_f := match impl with SL [_; SL f] => f | _ => [] end in
      let r := framing_case (N.land mode 1) msgs ls [] impl_r in
      let s := sent_frames sends impl_f in
      let shape := match impl with SL [_; SL _] => true | _ => false end in
      verdict (SL [fst r; SL (fst s)]) impl (shape && snd r && snd s) (SL [])
    | _, _, _ => v_malformed
    end
  | _ => v_malformed
  end.
