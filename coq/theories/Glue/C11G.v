(* Decoding of C11 cases and verdicts. *)
From Coq Require Import List NArith Bool.
From FS Require Import Sx Model.Path Model.Stat Model.Tree Model.Pattern Model.FilterWalk
  Model.Hardlinks Model.Validator Model.Converge Model.SenderView Model.FilterOpt Glue.C10G.
From FS Require Model.FollowLinks Model.Walk Glue.C09G.
Import ListNotations.
Open Scope bool_scope.

(* group structure is preserved by the reset: two plain entries belonged to one link
   group (same source path) iff they end up with the same representative *)
Definition groups_preserved (orig out : list stat) : bool :=
  let ps := filter (fun p => hl_plain (fst p)) (combine orig out) in
  forallb (fun a => forallb (fun b =>
     Bool.eqb (bytes_eqb (orig_rep (fst a)) (orig_rep (fst b)))
              (bytes_eqb (orig_rep (snd a)) (orig_rep (snd b)))) ps) ps.

Definition only_linkname_changed (orig out : list stat) : bool :=
  Nat.eqb (length orig) (length out)
  && forallb (fun p => stat_eqb (set_linkname (fst p) []) (set_linkname (snd p) [])) (combine orig out).

(* kind 1101: input = (view) whose hard-link names may point to filtered-out paths;
   impl = (stats reported by the real WithHardlinkReset(fs).Walk,  verdict of the real
           Hardlinks validator on them: () or (#idx)).
   Spec: the output passes hardlink_check, only link names changed, groups preserved. *)
Definition run_1101 (input impl : sx) : sx :=
  match input, impl with
  | SL [v], SL [outl; realcheck] =>
    match dec_view v, sx_list dec_stat outl with
    | Some view, Some out =>
      let orig := map fst (walk_root view) in
      let m := SL [SL (map enc_stat (hardlink_reset orig)); of_optnat (hardlink_check (hardlink_reset orig))] in
      let wf := wf_links orig in
      let holds := negb wf
                   || (sx_eqb (of_optnat (hardlink_check out)) (SL []) && sx_eqb realcheck (SL [])
                       && only_linkname_changed orig out && groups_preserved orig out
                       && sx_eqb (SL (map enc_stat out)) (SL (map enc_stat (reset_spec orig)))) in
      verdict m impl holds (SL [of_bool wf])
    | _, _ => v_malformed
    end
  | _, _ => v_malformed
  end.

(* kind 1102: a filtered view transferred end to end.
   input = (view includes excludes);  impl = (send_err recv_err hung stats_announced dest_raw opens)
   with opens = ((path opened_ok bytes_equal) ...) for every regular file of the FULL view, opened
   through the same filtered FS.  Specification (C11), evaluated on the implementation's observables:
     the announced STAT sequence is accepted by the order validator and the hard-link validator,
     both calls succeed, the destination converged to exactly the announced view (with the
     contents of the source files), every announced regular file opens and yields its bytes,
     every regular file that was not announced cannot be opened. *)
Definition vitem_of_stat (s : stat) : vitem :=
  {| vkind := 0; vpath := st_path s; visdir := st_is_dir s |}.

Definition dec_open (s : sx) : option (list N * bool * bool) :=
  match s with SL [SB p; a; b] => x <- sx_bool a ;; y <- sx_bool b ;; Some (p, x, y) | _ => None end.

Fixpoint content_of (p : list N) (l : list entry) : list N :=
  match l with
  | [] => []
  | e :: r => if bytes_eqb p (st_path (fst e)) then snd e else content_of p r
  end.

(* the case lies in the late-shadow domain of the incremental matcher (C10, known finding K1):
   some path of the view violates no_late_shadow for the real library's answers *)
Definition in_late_shadow_domain (pm : bytes -> bytes -> bool) (c : cfg) (view : list node) : bool :=
  negb (forallb (fun e : entry => nls_path pm c (st_path (fst e))) (walk_root view)).

(* the real FollowLinks answer as the harness sends it: (#0 nil? (path ...)) *)
Definition dec_fl (s : sx) : option (bool * list bytes) :=
  match s with
  | SL [SN 0; n; l] => b <- sx_bool n ;; ps <- sx_list sx_B l ;; Some (b, ps)
  | _ => None
  end.

(* the list the property reads (= the list handed to the matcher, Model/FilterOpt.v): the user's
   patterns in order, then the targets the IMPLEMENTATION's FollowLinks returned *)
Definition stated_list (inc : list bytes) (fl : option (bool * list bytes)) : list bytes :=
  match fl with
  | Some (false, ts) => inc ++ ts
  | _ => inc
  end.

Definition cfg_dom (pm : bytes -> bytes -> bool) (c : cfg) (view : list node) : bool :=
  negb (in_late_shadow_domain pm c view) && cfg_star_safe c.

Fixpoint list_bytes_eqb (a b : list bytes) : bool :=
  match a, b with
  | [], [] => true
  | x :: a', y :: b' => bytes_eqb x y && list_bytes_eqb a' b'
  | _, _ => false
  end.

(* ---- FollowPaths are honoured: every symlink the INDEPENDENT resolver of C18 (chroot_resolve:
        Linux path resolution with the tree as root) traverses for a requested path, and the
        entry it reaches, is announced.  Judged under C18's side conditions (its known findings)
        and without exclude patterns (an exclude may legitimately hide a target). ---- *)
Definition follow_needs (view : list node) (reqs : list bytes) : list (list bytes) :=
  flat_map (fun p => flat_map (fun r => FollowLinks.traversed r ++
                                 match FollowLinks.final r with
                                 | FollowLinks.Reached q => match q with [] => [] | _ => [q] end
                                 | FollowLinks.Failed => []
                                 end)
                              (FollowLinks.chroot_resolve_all FollowLinks.go_match view p)) reqs.
Definition target_reinterpreted (s : bytes) : bool :=
  match s with c :: _ => N.eqb c bang | [] => false end ||
  existsb (N.eqb 92) s || negb (bytes_eqb (trim_space s) s).
Definition follow_judged (view : list node) (reqs : list bytes) (fl : option (bool * list bytes)) : bool :=
  match fl with
  | Some (false, ts) =>
    FollowLinks.no_revisit FollowLinks.go_match view (FollowLinks.fuel_bound view reqs) reqs
    && FollowLinks.lexical_safe view reqs && FollowLinks.wild_last_only reqs
    && FollowLinks.links_literal view && negb (existsb target_reinterpreted ts)
  | _ => false
  end.
Definition follow_honoured (view : list node) (reqs : list bytes) (announced : list stat) : bool :=
  forallb (fun q => existsb (fun s => bytes_eqb (st_path s) (FollowLinks.key q)) announced)
          (follow_needs view reqs).

(* kind 1102: input = (view includes excludes [follow]);
   impl = (send_err recv_err hung stats_announced dest_raw opens ptable fl). *)
Definition run_1102 (input impl : sx) : sx :=
  match input, impl with
  | SL (v :: inc :: exc :: rest), SL [SN se; SN re; SN hung; stl; dr; ops; pt; fls] =>
    match dec_view v, sx_list dec_stat stl, sx_list dec_raw dr, sx_list dec_open ops with
    | Some view, Some announced, Some dest, Some opens =>
      let full := walk_root view in
      let src := map (fun s => (s, content_of (st_path s) full)) announced in
      let ok_stream := sx_eqb (of_optnat (run_validator (map vitem_of_stat announced))) (SL [])
                       && sx_eqb (of_optnat (hardlink_check announced)) (SL []) in
      let success := N.eqb se 0 && N.eqb re 0 && N.eqb hung 0 in
      let conv := converged false [] src dest in
      let announced_reg (p : list N) := existsb (fun s => bytes_eqb (st_path s) p && mode_is_regular (st_mode s)) announced in
      let opens_ok := forallb (fun o => let '(p, opened, same) := o in
                                        if announced_reg p then opened && same else negb opened) opens in
      (* the announced view is the reference-filtered source: reset_spec of C10's naive reference
         for the list the property reads (user patterns in order, then the follow targets) *)
      let '(shadow, ref_ok, fol_ok) :=
        match sx_list dec_pentry pt, dec_raws inc, dec_raws exc with
        | Some tbl, Some ri, Some re' =>
          let pm := table_pmatch tbl in
          let fl := match rest with _ :: _ => dec_fl fls | [] => None end in
          let ls := stated_list ri fl in
          match mk_cfg ls re' with
          | Some cs =>
            let sh := in_late_shadow_domain pm cs view in
            let judged := wf_source view && source_links_ok view && cfg_dom pm cs view in
            let reqs := match rest with f :: _ => match dec_raws f with Some l => l | None => [] end | [] => [] end in
            (sh, negb judged || sx_eqb (enc_stats (reset_spec (reference (keep_naive pm cs) id_map view))) (enc_stats announced),
             negb (judged && is_nil re' && follow_judged view reqs fl) || follow_honoured view reqs announced)
          | None => (false, true, true)
          end
        | _, _, _ => (false, true, true)
        end in
      let code := (if ok_stream then 0 else 1) + (if success then 0 else 2) + (if conv then 0 else 4)
                  + (if opens_ok then 0 else 8) + (if ref_ok then 0 else 16) + (if fol_ok then 0 else 32) in
      (* walk and Open may only disagree (and a file may only arrive empty) in the late-shadow domain *)
      let s := if shadow && ok_stream && success then [sig s_late_shadow] else [] in
      verdict impl impl (ok_stream && success && conv && opens_ok && ref_ok && fol_ok)
              (SL (s ++ SN code :: (if success then converged_diag false [] src dest else [])))%N
    | _, _, _, _ => v_malformed
    end
  | _, _ => v_malformed
  end.

(* kind 1103: what Send announces for a filtered source, and Open on every regular file.
   input = (view include-raw exclude-raw maptable);
   impl  = (#ffff) | (#0 inc exc ptable calls opens vverdict hverdict)   (harness/c11.go run1103).
   Model = sender_view / filter_open / the two validators on the model's stream.
   Specification, evaluated on what the IMPLEMENTATION reported:
     S1 (filtered_stream_valid) the order validator and the hard-link validator (model of each on the
        implementation's calls, AND the real ones) accept — required when the source is well-formed
        and the map table never answers Exclude for a directory of the view;
     S2 the calls are the declarative description: reset_spec of the naive reference
        (filter_walk_is_naive_reference + reset_eq_spec) — judged when no path is in the late-shadow
        domain and the L/* literals are regex-safe (the other cases are C10's known findings);
     S3 (reported_file_can_be_opened / walk_open_agree) every announced regular file opens with
        its bytes — judged outside the late-shadow domain; when the map table drops nothing,
        every regular file that opens is announced — judged when additionally the L/* literals are
        regex-safe; inside the late-shadow domain a disagreement carries the late-shadow signature. *)
Definition dec_open3 (s : sx) : option (list N * N) :=
  match s with SL [SB p; SN a] => Some (p, a) | _ => None end.

Definition run_1103 (input impl : sx) : sx :=
  match input with
  | SL [v; inc; exc; mt] =>
    match dec_view v, dec_raws inc, dec_raws exc, sx_list dec_mentry mt with
    | Some view, Some incr_, Some excr, Some mtab =>
      match impl with
      | SL [SN 65535] =>
        match mk_cfg incr_ excr with None => v_ok | Some _ => v_malformed end
      | SL [SN 0; iinc; iexc; pt; calls; ops; vv; hv] =>
        match sx_list dec_pentry pt, sx_list dec_stat calls, sx_list dec_open3 ops, mk_cfg incr_ excr with
        | Some tbl, Some icalls, Some iopens, Some c =>
          let pm := table_pmatch tbl in
          let mf := table_map mtab in
          let full := walk_root view in
          let regs := filter (fun e : entry => mode_is_regular (st_mode (fst e))) full in
          let sv := sender_view pm mf c view in
          let model := SL [SN 0; enc_side (c_inc c); enc_side (c_exc c); enc_stats sv;
                           SL (map (fun e : entry => SL [SB (st_path (fst e)); of_bool (filter_open pm c (st_path (fst e)))]) regs);
                           of_optnat (run_validator (items sv)); of_optnat (hardlink_check sv)] in
          let impl' := SL [SN 0; iinc; iexc; calls; ops; vv; hv] in
          let src_ok := wf_source view && source_links_ok view in
          let map_ok := forallb (fun e : entry => negb (st_is_dir (fst e))
                           || match fst (mf (st_path (fst e)) (fst e)) with MExclude => false | _ => true end) full in
          let keeps_all := forallb (fun e : entry => match fst (mf (st_path (fst e)) (fst e)) with MKeep => true | _ => false end) full in
          let shadow := in_late_shadow_domain pm c view in
          let dom := negb shadow && cfg_star_safe c in
          let s1 := sx_eqb (of_optnat (run_validator (items icalls))) (SL [])
                    && sx_eqb (of_optnat (hardlink_check icalls)) (SL [])
                    && sx_eqb vv (SL []) && sx_eqb hv (SL []) in
          let declarative := reset_spec (reference (keep_naive pm c) mf view) in
          let s2 := sx_eqb (enc_stats declarative) calls in
          let announced (p : list N) := existsb (fun s => bytes_eqb (st_path s) p) icalls in
          (* S3a: announced => opens with its bytes (reported_file_can_be_opened: any matcher);
             S3b: not announced => cannot be opened (walk_open_agree: map drops nothing, prefix
             semantics); a file served with other bytes is never acceptable *)
          let s3a := forallb (fun o => let '(p, a) := o in if announced p then N.eqb a 1 else negb (N.eqb a 2)) iopens
                     && Nat.eqb (length iopens) (length regs) in
          let s3b := forallb (fun o => let '(p, a) := o in announced p || N.eqb a 0) iopens in
          let j1 := negb (src_ok && map_ok) || s1 in
          let j2 := negb (src_ok && dom) || s2 in
          let j3a := negb (src_ok && negb shadow) || s3a in
          let j3b := negb (src_ok && dom && keeps_all) || s3b in
          let code := (if j1 then 0 else 1) + (if j2 then 0 else 2) + (if j3a then 0 else 4) + (if j3b then 0 else 8) in
          (* inside the late-shadow domain only the walk/Open pair is looked at, to attach the
             signature of the known finding to a disagreement *)
          if src_ok && shadow && negb (s3a && (negb keeps_all || s3b)) && j1
          then verdict model impl' false (SL [sig s_late_shadow; SN 16])%N
          else verdict model impl' (j1 && j2 && j3a && j3b)
                       (SL [SN code; of_bool src_ok; of_bool map_ok; of_bool shadow; of_bool (cfg_star_safe c)])%N
        | Some _, Some _, Some _, None => v_diff (SL [SN 65535])
        | _, _, _, _ => v_malformed
        end
      | _ => v_malformed
      end
    | _, _, _, _ => v_malformed
    end
  | _ => v_malformed
  end.

(* kind 1104: kind 1103 for a FilterOpt with FollowPaths (no map function).
   input = (view include-raw exclude-raw follow-raw);
   impl  = (#ffff) | (#0 fl exc ptable calls opens vverdict hverdict), fl = the real FollowLinks answer.
   Model: C18's model of FollowLinks, the assembly of Model/FilterOpt.v, then sender_view / filter_open.
   Specification on the implementation's output:
     S1 stream valid (both validators, modelled and real);
     S2 calls = reset_spec of the naive reference for the STATED list (user patterns in order ++ the
        targets the real FollowLinks returned): the view is what the include list says;
     S3 walk and Open agree on every regular file of the source (no map function);
     S4 every symlink the independent resolver (C18's chroot_resolve) traverses for a FollowPaths
        entry, and the entry it reaches, is announced (no exclude patterns, C18's side conditions);
   S2/S3 judged outside the late-shadow / unsafe-literal domains of that list. *)
Definition run_1104 (input impl : sx) : sx :=
  match input with
  | SL [v; inc; exc; fol] =>
    match dec_view v, dec_raws inc, dec_raws exc, dec_raws fol with
    | Some view, Some incr_, Some excr, Some follow =>
      match impl, mk_cfg_opt view incr_ excr follow with
      | _, FollowLinks.OutOfFuel => v_malformed
      | SL [SN 65535], FollowLinks.Ok None => v_ok
      | SL [SN 65535], FollowLinks.Ok (Some _) => v_malformed      (* syntax errors are not modelled *)
      | SL [SN 0; fls; iexc; pt; calls; ops; vv; hv], FollowLinks.Ok oc =>
        match sx_list dec_pentry pt, sx_list dec_stat calls, sx_list dec_open3 ops, oc with
        | Some tbl, Some icalls, Some iopens, Some c =>
          let pm := table_pmatch tbl in
          let full := walk_root view in
          let regs := filter (fun e : entry => mode_is_regular (st_mode (fst e))) full in
          let sv := sender_view pm id_map c view in
          let mfl := match follow with
                     | [] => SL []
                     | _ => match follow_targets view follow with
                            | FollowLinks.Ok None => SL [SN 0; SN 1; SL []]
                            | FollowLinks.Ok (Some l) => SL [SN 0; SN 0; SL (map SB l)]
                            | FollowLinks.OutOfFuel => SL [SN 2]
                            end
                     end in
          let model := SL [SN 0; mfl; enc_side (c_exc c); enc_stats sv;
                           SL (map (fun e : entry => SL [SB (st_path (fst e)); of_bool (filter_open pm c (st_path (fst e)))]) regs);
                           of_optnat (run_validator (items sv)); of_optnat (hardlink_check sv)] in
          let impl' := SL [SN 0; fls; iexc; calls; ops; vv; hv] in
          let ls := stated_list incr_ (match follow with [] => None | _ => dec_fl fls end) in
          match mk_cfg ls excr with
          | Some cs =>
            let src_ok := wf_source view && source_links_ok view in
            let shadow := in_late_shadow_domain pm cs view in
            let dom := cfg_dom pm cs view in
            let s1 := sx_eqb (of_optnat (run_validator (items icalls))) (SL [])
                      && sx_eqb (of_optnat (hardlink_check icalls)) (SL [])
                      && sx_eqb vv (SL []) && sx_eqb hv (SL []) in
            let want (c0 : cfg) := enc_stats (reset_spec (reference (keep_naive pm c0) id_map view)) in
            let s2 := sx_eqb (want cs) calls in
            let announced (p : list N) := existsb (fun s => bytes_eqb (st_path s) p) icalls in
            let s3 := forallb (fun o => let '(p, a) := o in if announced p then N.eqb a 1 else N.eqb a 0) iopens
                      && Nat.eqb (length iopens) (length regs) in
            let fl := match follow with [] => None | _ => dec_fl fls end in
            let j1 := negb src_ok || s1 in
            let j2 := negb (src_ok && dom) || s2 in
            let j3 := negb (src_ok && dom) || s3 in
            (* S4: FollowPaths are honoured (independent resolver of C18) *)
            let j4 := negb (src_ok && dom && is_nil excr && follow_judged view follow fl)
                      || follow_honoured view follow icalls in
            let code := (if j1 then 0 else 1) + (if j2 then 0 else 2) + (if j3 then 0 else 4) + (if j4 then 0 else 8) in
            if src_ok && shadow && negb s3 && j1
            then verdict model impl' false (SL [sig s_late_shadow; SN 16])%N
            else verdict model impl' (j1 && j2 && j3 && j4)
                         (SL [SN code; of_bool src_ok; of_bool shadow; of_bool dom])%N
          | None => v_malformed
          end
        | Some _, Some _, Some _, None => v_diff (SL [SN 65535])
        | _, _, _, _ => v_malformed
        end
      | _, _ => v_malformed
      end
    | _, _, _, _ => v_malformed
    end
  | _ => v_malformed
  end.

(* kind 1105: an on-disk source walked by the real NewFS; the paths [hidden] (non-directories) are
   hidden AFTER the base walk registered their inode (MapFunc exclude, or an outer exclude filter over
   an inner pass-through filter); announce; transfer TWICE into the same destination.
   input = (view hidden stack);
   impl  = (src_snapshot calls (se1 re1 hung1) dest1 #reqs1 (se2 re2 hung2) dest2 #reqs2).
   Model: C09's model of fs.Walk (Model/Walk.v) on the tree built from the INDEPENDENT snapshot of the
   source, minus the hidden paths, then hardlink_reset.
   Specification on the implementation's output:
     A1 every announced non-directory carries the SIZE the snapshot shows for its path (C09 walk_stat
        + reset_representative: the entry the reset turns back into a file keeps its full size);
     A2 both validators accept the announced stream;
     A3 the announced stream is reset_spec of (walk minus hidden);
     A4 every announced entry carries the xattrs the snapshot shows for its path; B3 every regular
        file of the destination has the xattrs of the source entry at its path;
     B1 the first transfer succeeds and the destination converged to the announced view;
     B2 the second, unchanged transfer succeeds, requests NO content and leaves the destination
        snapshot (inode numbers and link counts included) exactly as it was. *)
Definition run_1105 (input impl : sx) : sx :=
  match input, impl with
  | SL [_; hid; _], SL [ss; calls; SL [SN se1; SN re1; SN h1]; d1; SN q1; SL [SN se2; SN re2; SN h2]; d2; SN q2] =>
    match sx_list sx_B hid, sx_list C09G.dec_raw ss, sx_list Converge.dec_raw ss, sx_list dec_stat calls,
          sx_list Converge.dec_raw d1 with
    | Some hidden, Some snap, Some sraw, Some icalls, Some dest1 =>
      match C09G.build_tree (Walk.T C09G.root_rec []) snap with
      | None => v_malformed
      | Some t =>
        let full := Walk.walk t in
        let is_hidden (p : list N) := existsb (bytes_eqb p) hidden in
        let visible := filter (fun s => negb (is_hidden (st_path s))) full in
        let hidden_files := forallb (fun s => negb (is_hidden (st_path s)) || negb (st_is_dir s)) full in
        let judged := hidden_files && wf_links visible in
        let model := SL [SL (map enc_stat (hardlink_reset visible))] in
        let impl' := SL [calls] in
        let a1 := forallb (fun s => st_is_dir s ||
                             match find_raw (st_path s) sraw with
                             | Some d => N.eqb (st_size s) (r_size d)
                             | None => false
                             end) icalls in
        let a2 := sx_eqb (of_optnat (run_validator (map vitem_of_stat icalls))) (SL [])
                  && sx_eqb (of_optnat (hardlink_check icalls)) (SL []) in
        let a3 := sx_eqb (SL (map enc_stat (reset_spec visible))) calls in
        (* A4: every announced entry carries the xattrs llistxattr / lgetxattr show for its path
           (all names of an inode share them; no com.apple.* keys are generated) *)
        let a4 := forallb (fun s => match find_raw (st_path s) sraw with
                                    | Some d => xattrs_eqb (st_xattrs s) (r_xattrs d)
                                    | None => false
                                    end) icalls in
        let src := map (fun s => (s, match find_raw (st_path s) sraw with Some d => r_content d | None => [] end)) icalls in
        let b1 := N.eqb se1 0 && N.eqb re1 0 && N.eqb h1 0 && converged false [] src dest1 in
        (* B3: every regular file of the destination has the xattrs of the SOURCE entry at its path *)
        let b3 := forallb (fun d => negb (N.eqb (N.land (r_mode d) Converge.S_IFMT) Converge.S_IFREG) ||
                             match find_raw (r_path d) sraw with
                             | Some o => xattrs_eqb (r_xattrs d) (r_xattrs o)
                             | None => false
                             end) dest1 in
        let b2 := N.eqb se2 0 && N.eqb re2 0 && N.eqb h2 0 && N.eqb q2 0 && sx_eqb d1 d2 in
        let code := (if a1 then 0 else 1) + (if a2 then 0 else 2) + (if a3 then 0 else 4)
                    + (if b1 then 0 else 8) + (if b2 then 0 else 16) + (if a4 then 0 else 32) + (if b3 then 0 else 64) in
        verdict model impl' (negb judged || (a1 && a2 && a3 && a4 && b1 && b2 && b3))
                (SL (SN code :: of_bool judged :: (if b1 then [] else converged_diag false [] src dest1)))%N
      end
    | _, _, _, _, _ => v_malformed
    end
  | _, SL [SN _] => v_ok      (* the harness could not materialise the view (not judged) *)
  | _, _ => v_malformed
  end.
