(* Decoding of C11 cases and verdicts. *)
From Coq Require Import List NArith Bool.
From FS Require Import Sx Model.Path Model.Stat Model.Tree Model.Hardlinks Model.Validator Model.Converge.
Import ListNotations.
Open Scope bool_scope.

(* group structure is preserved by the reset: two plain entries belonged to one link
   group (same source path) iff they end up with the same representative *)
Definition groups_preserved (orig out : list stat) : bool :=
  let ps := filter (fun p => hl_plain (fst p)) (combine orig out) in
  forallb (fun a => forallb (fun b =>
     Bool.eqb (bytes_eqb (orig_rep (fst a)) (orig_rep (fst b)))
              (bytes_eqb (orig_rep (snd a)) (orig_rep (snd b)))) ps) ps.

Definition only_linkname_changed (orig out : list stat) : bool :=
  Nat.eqb (length orig) (length out)
  && forallb (fun p => stat_eqb (set_linkname (fst p) []) (set_linkname (snd p) [])) (combine orig out).

(* kind 1101: input = (view) whose hard-link names may point to filtered-out paths;
   impl = (stats reported by the real WithHardlinkReset(fs).Walk,  verdict of the real
           Hardlinks validator on them: () or (#idx)).
   Spec: the output passes hardlink_check, only link names changed, groups preserved. *)
Definition run_1101 (input impl : sx) : sx :=
  match input, impl with
  | SL [v], SL [outl; realcheck] =>
    match dec_view v, sx_list dec_stat outl with
    | Some view, Some out =>
      let orig := map fst (walk_root view) in
      let m := SL [SL (map enc_stat (hardlink_reset orig)); of_optnat (hardlink_check (hardlink_reset orig))] in
      let wf := wf_links orig in
      let holds := negb wf
                   || (sx_eqb (of_optnat (hardlink_check out)) (SL []) && sx_eqb realcheck (SL [])
                       && only_linkname_changed orig out && groups_preserved orig out
                       && sx_eqb (SL (map enc_stat out)) (SL (map enc_stat (reset_spec orig)))) in
      verdict m impl holds (SL [of_bool wf])
    | _, _ => v_malformed
    end
  | _, _ => v_malformed
  end.

(* kind 1102: a filtered view transferred end to end.
   input = (view includes excludes);  impl = (send_err recv_err hung stats_announced dest_raw opens)
   with opens = ((path opened_ok bytes_equal) ...) for every regular file of the FULL view, opened
   through the same filtered FS.  Specification (C11), evaluated on the implementation's observables:
     the announced STAT sequence is accepted by the order validator and the hard-link validator,
     both calls succeed, the destination converged to exactly the announced view (with the
     contents of the source files), every announced regular file opens and yields its bytes,
     every regular file that was not announced cannot be opened. *)
Definition vitem_of_stat (s : stat) : vitem :=
  {| vkind := 0; vpath := st_path s; visdir := st_is_dir s |}.

Definition dec_open (s : sx) : option (list N * bool * bool) :=
  match s with SL [SB p; a; b] => x <- sx_bool a ;; y <- sx_bool b ;; Some (p, x, y) | _ => None end.

Fixpoint content_of (p : list N) (l : list entry) : list N :=
  match l with
  | [] => []
  | e :: r => if bytes_eqb p (st_path (fst e)) then snd e else content_of p r
  end.

Definition run_1102 (input impl : sx) : sx :=
  match input, impl with
  | SL (v :: _), SL [SN se; SN re; SN hung; stl; dr; ops] =>
    match dec_view v, sx_list dec_stat stl, sx_list dec_raw dr, sx_list dec_open ops with
    | Some view, Some announced, Some dest, Some opens =>
      let full := walk_root view in
      let src := map (fun s => (s, content_of (st_path s) full)) announced in
      let ok_stream := sx_eqb (of_optnat (run_validator (map vitem_of_stat announced))) (SL [])
                       && sx_eqb (of_optnat (hardlink_check announced)) (SL []) in
      let success := N.eqb se 0 && N.eqb re 0 && N.eqb hung 0 in
      let conv := converged false [] src dest in
      let announced_reg (p : list N) := existsb (fun s => bytes_eqb (st_path s) p && mode_is_regular (st_mode s)) announced in
      let opens_ok := forallb (fun o => let '(p, opened, same) := o in
                                        if announced_reg p then opened && same else negb opened) opens in
      let code := (if ok_stream then 0 else 1) + (if success then 0 else 2) + (if conv then 0 else 4) + (if opens_ok then 0 else 8) in
      verdict impl impl (ok_stream && success && conv && opens_ok)
              (SL (SN code :: (if success then converged_diag false [] src dest else [])))%N
    | _, _, _, _ => v_malformed
    end
  | _, _ => v_malformed
  end.
