(* Decoding of C11 cases and verdicts. *)
From Coq Require Import List NArith Bool.
From FS Require Import Sx Model.Path Model.Stat Model.Tree Model.Hardlinks.
Import ListNotations.
Open Scope bool_scope.

(* group structure is preserved by the reset: two plain entries belonged to one link
   group (same source path) iff they end up with the same representative *)
Definition groups_preserved (orig out : list stat) : bool :=
  let ps := filter (fun p => hl_plain (fst p)) (combine orig out) in
  forallb (fun a => forallb (fun b =>
     Bool.eqb (bytes_eqb (orig_rep (fst a)) (orig_rep (fst b)))
              (bytes_eqb (orig_rep (snd a)) (orig_rep (snd b)))) ps) ps.

Definition only_linkname_changed (orig out : list stat) : bool :=
  Nat.eqb (length orig) (length out)
  && forallb (fun p => stat_eqb (set_linkname (fst p) []) (set_linkname (snd p) [])) (combine orig out).

(* kind 1101: input = (view) whose hard-link names may point to filtered-out paths;
   impl = (stats reported by the real WithHardlinkReset(fs).Walk,  verdict of the real
           Hardlinks validator on them: () or (#idx)).
   Spec: the output passes hardlink_check, only link names changed, groups preserved. *)
Definition run_1101 (input impl : sx) : sx :=
  match input, impl with
  | SL [v], SL [outl; realcheck] =>
    match dec_view v, sx_list dec_stat outl with
    | Some view, Some out =>
      let orig := map fst (walk_root view) in
      let m := SL [SL (map enc_stat (hardlink_reset orig)); of_optnat (hardlink_check (hardlink_reset orig))] in
      let wf := wf_links orig in
      let holds := negb wf
                   || (sx_eqb (of_optnat (hardlink_check out)) (SL []) && sx_eqb realcheck (SL [])
                       && only_linkname_changed orig out && groups_preserved orig out
                       && sx_eqb (SL (map enc_stat out)) (SL (map enc_stat (reset_spec orig)))) in
      verdict m impl holds (SL [of_bool wf])
    | _, _ => v_malformed
    end
  | _, _ => v_malformed
  end.
