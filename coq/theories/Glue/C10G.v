(* Decoding of C10 cases and verdicts. *)
From Coq Require Import List NArith Bool.
From FS Require Import Sx Model.Path Model.Stat Model.Tree Model.Pattern Model.FilterWalk.
Import ListNotations.
Open Scope N_scope.
Open Scope bool_scope.

(* ---- the external single-pattern matcher, instantiated by table lookup: the harness calls
        the real patternmatcher for every (cleaned pattern, path) pair a case can ask about ---- *)
Definition ptable := list (bytes * bytes * bool).
Definition dec_pentry (s : sx) : option (bytes * bytes * bool) :=
  match s with SL [SB p; SB q; b] => b' <- sx_bool b ;; Some (p, q, b') | _ => None end.
Fixpoint table_pmatch (t : ptable) (P q : bytes) : bool :=
  match t with
  | [] => false
  | (p', q', b) :: r => if bytes_eqb p' P && bytes_eqb q' q then b else table_pmatch r P q
  end.

(* ---- the map function as a finite table path -> (result, rewrite mode); default keep ---- *)
Definition mtable := list (bytes * N * N).
Definition dec_mentry (s : sx) : option (bytes * N * N) :=
  match s with SL [SB p; SN r; SN w] => Some (p, r, w) | _ => None end.
Definition rewrite (w : N) (s : stat) : stat :=
  {| st_path := st_path s;
     st_mode := if N.eqb w 3 then N.land (st_mode s) 4294967277 else st_mode s;   (* &^ 022 *)
     st_uid := if N.eqb w 1 then 0 else st_uid s;
     st_gid := if N.eqb w 1 then 0 else st_gid s;
     st_size := st_size s;
     st_mtime := if N.eqb w 2 then 0 else st_mtime s;
     st_linkname := st_linkname s; st_devmajor := st_devmajor s; st_devminor := st_devminor s;
     st_xattrs := if N.eqb w 4 then [] else st_xattrs s |}.
Definition dec_res (r : N) : mres := if N.eqb r 1 then MExclude else if N.eqb r 2 then MSkipDir else MKeep.
Fixpoint table_map (t : mtable) (p : bytes) (s : stat) : mres * stat :=
  match t with
  | [] => (MKeep, s)
  | (p', r, w) :: rest => if bytes_eqb p' p then (dec_res r, rewrite w s) else table_map rest p s
  end.

Definition enc_pat (P : pat) : sx := SL [of_bool (p_excl P); SB (p_str P)].
Definition enc_side (o : option (list pat)) : sx :=
  match o with None => SL [] | Some ps => SL [SL (map enc_pat ps)] end.
Definition dec_raws (s : sx) : option (list bytes) := sx_list sx_B s.

Definition sig (name : bytes) : sx := SL [SB [115; 105; 103]; SB name].          (* "sig" *)
Definition s_late_shadow : bytes :=                                              (* "late-shadow" *)
  [108; 97; 116; 101; 45; 115; 104; 97; 100; 111; 119].
Definition s_unsafe_star : bytes :=                                              (* "unsafe-star-literal" *)
  [117; 110; 115; 97; 102; 101; 45; 115; 116; 97; 114; 45; 108; 105; 116; 101; 114; 97; 108].

Definition enc_stats (l : list stat) : sx := SL (map enc_stat l).

(* kind 1001: input = (view include-raw exclude-raw maptable).
   impl = (#ffff)                          NewFilterFS returned an error
        | (#0 inc exc ptable calls)        inc/exc = () | (((excl str) ...)) as the real matchers
                                           hold them; ptable = ((pattern path bool) ...) from the
                                           real Pattern.match; calls = stats the consumer's
                                           callback received from the real filterFS.Walk.
   Model = normalisation + filter_walk.  Spec oracle = reference over the NAIVE verdict
   (MatchesOrParentMatches semantics on every entry of the full tree); when the map table is
   empty, in its flat form (filter of the full walk: selected, or path-prefix ancestor of a
   selected entry), which Properties/C10.reference_nomap_is_flat proves equal. *)
Definition run_1001 (input impl : sx) : sx :=
  match input with
  | SL [v; inc; exc; mt] =>
    match dec_view v, dec_raws inc, dec_raws exc, sx_list dec_mentry mt with
    | Some view, Some incr_, Some excr, Some mtab =>
      match impl with
      | SL [SN 65535] =>
        match mk_cfg incr_ excr with
        | None => v_ok
        | Some _ => v_malformed     (* pattern syntax errors are not modelled: do not generate them *)
        end
      | SL [SN 0; iinc; iexc; pt; calls] =>
        match sx_list dec_pentry pt with
        | None => v_malformed
        | Some tbl =>
          let pm := table_pmatch tbl in
          let mf := table_map mtab in
          let impl' := SL [SN 0; iinc; iexc; calls] in
          match mk_cfg incr_ excr with
          | None => v_diff (SL [SN 65535])
          | Some c =>
            let m := filter_walk pm mf c view in
            let model := SL [SN 0; enc_side (c_inc c); enc_side (c_exc c); enc_stats m] in
            (* nil map on a view with distinct sibling names: the literal flat statement *)
            let o_naive := enc_stats (if is_nil mtab && wf_tree view
                                      then flat_reference (keep_naive pm c) view
                                      else reference (keep_naive pm c) mf view) in
            let holds := sx_eqb o_naive calls in
            if holds then verdict model impl' true (SL [])
            else
              let o_incr := enc_stats (reference (keep_incr pm c) mf view) in
              let m_np := enc_stats (filter_walk pm mf (no_prune c) view) in
              let nls := forallb (fun e => nls_path pm c (st_path (fst e))) (walk_root view) in
              let safe := cfg_star_safe c in
              let explained_by_model := sx_eqb (enc_stats m) calls in
              let s :=
                if negb nls && sx_eqb o_incr calls then [sig s_late_shadow]
                else if negb safe && explained_by_model && sx_eqb m_np o_naive then [sig s_unsafe_star]
                else if negb nls && negb safe && explained_by_model && sx_eqb m_np o_incr then [sig s_late_shadow]
                else [] in
              verdict model impl' false (SL (s ++ [o_naive]))
          end
        end
      | _ => v_malformed
      end
    | _, _, _, _ => v_malformed
    end
  | _ => v_malformed
  end.

(* kind 1002: list evaluation.  input = (raw-patterns path).
   impl = (#ffff) | (#0 pats ptable naive chain) with naive = real MatchesOrParentMatches(path),
   chain = ((matched info...) ...): real MatchesUsingParentResults along the prefixes of path,
   each with the MatchInfo of the previous one (infos are opaque in Go: only matched is sent).
   Spec: the real MatchesOrParentMatches is the skip-free reading [naive_noskip], and the real
   chain verdict at the path equals it. *)
Definition run_1002 (input impl : sx) : sx :=
  match input with
  | SL [raws; SB path] =>
    match dec_raws raws with
    | None => v_malformed
    | Some rs =>
      match impl with
      | SL [SN 65535] => match normalize rs with None => v_ok | Some _ => v_malformed end
      | SL [SN 0; ipats; pt; inaive; ichain] =>
        match sx_list dec_pentry pt, normalize rs with
        | Some tbl, Some pats =>
          let pm := table_pmatch tbl in
          let cs := pcomps path in
          let chain := map (fun pre => of_bool (incr_path pm pats pre)) (prefixes cs) in
          let model := SL [SN 0; SL (map enc_pat pats); of_bool (naive pm pats path); SL chain] in
          let impl' := SL [SN 0; ipats; inaive; ichain] in
          let sp := of_bool (naive_noskip pm pats path) in
          let last_chain := match ichain with SL l => last l (SL []) | _ => SL [] end in
          if sx_eqb sp inaive && sx_eqb last_chain inaive then verdict model impl' true (SL [])
          else
            let s := if negb (no_late_shadow pm pats cs) && sx_eqb sp inaive then [sig s_late_shadow] else [] in
            verdict model impl' false (SL (s ++ [sp]))
        | Some _, None => v_diff (SL [SN 65535])
        | _, _ => v_malformed
        end
      | _ => v_malformed
      end
    end
  | _ => v_malformed
  end.

(* kind 1003: validates the hypotheses FilterP makes about the external matcher on
   prefix-only patterns.  input = (raw-pattern path); impl = (#ffff) | (#1) (pattern skipped:
   blank) | (#0 (excl str) matched) from the real library.
   Model: normalisation, and for a pattern the code classifies prefix-only (pat_kind <> Glob,
   regex-safe literal for L/* ) the literal reading [prefix_match]; for other patterns the
   library's answer is echoed (nothing is claimed about them). *)
Definition run_1003 (input impl : sx) : sx :=
  match input with
  | SL [SB raw; SB path] =>
    match normalize1 raw, impl with
    | NErr, SL [SN 65535] => v_ok
    | NSkip, SL [SN 1] => v_ok
    | NPat P, SL [SN 0; ip; SN b] =>
      let k := pat_kind (p_str P) in
      let claimed := match k with Glob => false | _ => kind_safe k end in
      let m := if claimed then of_bool (prefix_match k path) else SN b in
      let model := SL [SN 0; enc_pat P; m] in
      let holds := if claimed then sx_eqb (of_bool (prefix_match k path)) (SN b) else true in
      verdict model impl holds (SL [])
    | NPat P, SL [SN 65535] => v_malformed     (* syntax error: not modelled *)
    | NErr, _ => v_diff (SL [SN 65535])
    | NSkip, _ => v_diff (SL [SN 1])
    | NPat P, _ => v_diff (SL [SN 0; enc_pat P])
    end
  | _ => v_malformed
  end.

(* kind 1004: filterFS.Open against the naive verdict.  input = (view include-raw exclude-raw path);
   impl = (#ffff) | (#0 inc exc ptable allowed) where allowed = Open did not fail with
   "not exist" because of the patterns (the harness opens through a FS whose Open always
   succeeds).  Model and spec: keep_naive. *)
Definition run_1004 (input impl : sx) : sx :=
  match input with
  | SL [inc; exc; SB path] =>
    match dec_raws inc, dec_raws exc with
    | Some incr_, Some excr =>
      match impl with
      | SL [SN 65535] => match mk_cfg incr_ excr with None => v_ok | Some _ => v_malformed end
      | SL [SN 0; iinc; iexc; pt; allowed] =>
        match sx_list dec_pentry pt, mk_cfg incr_ excr with
        | Some tbl, Some c =>
          let pm := table_pmatch tbl in
          let model := SL [SN 0; enc_side (c_inc c); enc_side (c_exc c); of_bool (keep_naive pm c path)] in
          let impl' := SL [SN 0; iinc; iexc; allowed] in
          verdict model impl' (sx_eqb model impl') (SL [])
        | Some _, None => v_diff (SL [SN 65535])
        | _, _ => v_malformed
        end
      | _ => v_malformed
      end
    | _, _ => v_malformed
    end
  | _ => v_malformed
  end.

(* kind 1005: a HISTORY of walks on one filterFS value (harness/c10.go run1005): sequential
   re-walks and walks started from inside the callback of a running walk.
   input = (view include-raw exclude-raw maptable history), history = ((n0 n1 ...) ...);
   impl = (#ffff) | (#0 inc exc ptable (calls ...)), one calls list per walk started, in start order.
   Model: every walk reports filter_walk; a walk with nest positions n0 :: rest starts a nested walk
   (with positions rest) iff it makes more than n0 calls.
   Specification: EVERY walk of the history equals the reference — the naive reference when no path
   is in the late-shadow domain and the L/* literals are regex-safe (C10's two known findings are
   judged by kind 1001), the first walk of the history (a walk of the fresh value) otherwise. *)
Fixpoint walks_started (m : nat) (nest : list N) : nat :=
  match nest with
  | [] => 1
  | n :: r => if Nat.ltb (N.to_nat n) m then S (walks_started m r) else 1
  end.

Definition run_1005 (input impl : sx) : sx :=
  match input with
  | SL [v; inc; exc; mt; SL hist] =>
    match dec_view v, dec_raws inc, dec_raws exc, sx_list dec_mentry mt, omap (sx_list sx_N) hist with
    | Some view, Some incr_, Some excr, Some mtab, Some h =>
      match impl with
      | SL [SN 65535] =>
        match mk_cfg incr_ excr with None => v_ok | Some _ => v_malformed end
      | SL [SN 0; iinc; iexc; pt; SL walks] =>
        match sx_list dec_pentry pt, mk_cfg incr_ excr with
        | Some tbl, Some c =>
          let pm := table_pmatch tbl in
          let mf := table_map mtab in
          let m := filter_walk pm mf c view in
          let total := fold_left (fun acc nest => (acc + walks_started (length m) nest)%nat) h 0%nat in
          let model := SL [SN 0; enc_side (c_inc c); enc_side (c_exc c); SL (repeat (enc_stats m) total)] in
          let impl' := SL [SN 0; iinc; iexc; SL walks] in
          let o_naive := enc_stats (if is_nil mtab && wf_tree view
                                    then flat_reference (keep_naive pm c) view
                                    else reference (keep_naive pm c) mf view) in
          let dom := forallb (fun e => nls_path pm c (st_path (fst e))) (walk_root view) && cfg_star_safe c in
          let ref := if dom then o_naive else match walks with w :: _ => w | [] => o_naive end in
          let holds := forallb (sx_eqb ref) walks && Nat.eqb (length walks) total in
          verdict model impl' holds (SL [of_bool dom; ref])
        | Some _, None => v_diff (SL [SN 65535])
        | _, _ => v_malformed
        end
      | _ => v_malformed
      end
    | _, _, _, _, _ => v_malformed
    end
  | _ => v_malformed
  end.
