(* C05 kind 0501: the real DiskWriter driven by the real diff (harness/c05.go) against
   Model/AbsDest.v.  Specification oracle RecvG.c05_spec: replaying the notifications in the
   order observed on the model of the old destination yields the new destination with the
   digests of what is stored; the notifications are exactly the specified changes. *)
From Coq Require Import List NArith Bool.
From FS Require Import Sx Glue.RecvG.
Import ListNotations.

Definition run_0501 (input impl : sx) : sx :=
  match dec_rcase input impl with
  | None => v_malformed
  | Some c => verdict (model_obs c) (impl_obs c) (c05_spec c) (SL [])
  end.

(* kind 0502: the same case through the REAL fsutil.Send / fsutil.Receive (source = synthetic FS
   over listing B, NotifyHashed, ContentHasher with a slow Sum): same decoding, same model, same
   specification oracle. *)
Definition run_0502 := run_0501.
