(* Decoding of C04 / C08 cases: from a view + prior destination to the parameters of the
   goroutine LTS, abstraction of a fault scenario to a small instance, exhaustive search of
   that instance, verdicts. *)
From Coq Require Import List NArith Bool Arith PeanoNat.
From FS Require Import Sx Model.Path Model.Stat Model.Tree Model.Lts Model.LtsExplore.
From FSGen Require FromSource.
Import ListNotations.
Local Open Scope nat_scope.

(* ---------- what the receiver's diff decides for each entry of the source listing ---------- *)
Record cent := { ce_path : bytes; ce_file : bool; ce_chunks : nat; ce_kind : ekind; ce_added : bool }.

(* sameFile / compareStat of diff_containerd.go (DiffMetadata): [d] destination, [s] source *)
Definition same_entry (d s : stat) : bool :=
  (st_is_dir d || (N.eqb (st_size d) (st_size s) && N.eqb (st_mtime d) (st_mtime s)))
  && N.eqb (st_mode d) (st_mode s) && N.eqb (st_uid d) (st_uid s) && N.eqb (st_gid d) (st_gid s)
  && N.eqb (st_devmajor d) (st_devmajor s) && N.eqb (st_devminor d) (st_devminor s)
  && bytes_eqb (st_linkname d) (st_linkname s).

Definition chunks_for (chunk : N) (len : nat) : nat :=
  let c := if N.eqb chunk 0 then 32768%N else chunk in
  N.to_nat ((N.of_nat len + c - 1) / c).

Definition classify (chunk : N) (prior : list Tree.entry) (e : Tree.entry) : cent :=
  let s := fst e in
  let old := find (fun o => bytes_eqb (st_path (fst o)) (st_path s)) prior in
  let isfile := mode_is_regular (st_mode s) in
  let same := match old with Some o => same_entry (fst o) s | None => false end in
  {| ce_path := st_path s; ce_file := isfile; ce_chunks := chunks_for chunk (length (snd e));
     ce_kind := if same then ESame
                else if isfile && match st_linkname s with [] => true | _ => false end then ENeed else EMeta;
     ce_added := match old with Some _ => false | None => true end |}.

Definition classify_all (chunk : N) (view prior : list node) : list cent :=
  let pr := walk_root prior in map (classify chunk pr) (walk_root view).

Definition is_need (k : ekind) : bool := match k with ENeed => true | _ => false end.
Definition is_same (k : ekind) : bool := match k with ESame => true | _ => false end.

Definition to_entry (cap : nat) (c : cent) : entry :=
  {| e_file := ce_file c; e_chunks := Nat.min (ce_chunks c) cap; e_kind := ce_kind c |}.

(* ids (positions in the listing) the receiver requests, ascending: the sequential function *)
Definition expected_reqs (cs : list cent) : list nat :=
  need_ids_from 0 (map (to_entry 1) cs).

(* ---------- abstraction of a scenario to a small LTS instance ---------- *)
Inductive cfault :=
| CNone | CBreak (side : bool) (k : nat) | CCancel (which : N) (k : nat)
| CWalk (a : nat) | CRead (a b : nat) | COpen (a : nat) | CHash (a : nat) | CNotify (a : nat)
| CVanish (sender : bool) (k : nat).

Definition dec_fault_core (k a b : N) : option cfault :=
  let a' := N.to_nat a in let b' := N.to_nat b in
  if N.eqb k 0 then Some CNone
  else if N.eqb k 1 then Some (CBreak (N.odd a) b')
  else if N.eqb k 2 then Some (CCancel (N.land a 3) b')
  else if N.eqb k 3 then Some (CWalk a')
  else if N.eqb k 4 then Some (CRead a' b')
  else if N.eqb k 5 then Some (COpen a')
  else if N.eqb k 6 then Some (CHash a')
  else if N.eqb k 7 then Some (CNotify a')
  else if N.eqb k 8 then Some (CVanish (N.odd a) b')
  else None.

(* (kind a b [hold [stall]]): hold <> 0 = the fault is held back until quiescence; stall = 1 + index
   of the entry whose receiver-side callbacks block until then (0 = none) *)
Definition dec_fault (s : sx) : option (cfault * bool * option nat) :=
  match s with
  | SL [SN k; SN a; SN b] => f <- dec_fault_core k a b ;; Some (f, false, None)
  | SL [SN k; SN a; SN b; SN h] => f <- dec_fault_core k a b ;; Some (f, negb (N.eqb h 0), None)
  | SL [SN k; SN a; SN b; SN h; SN st] =>
      f <- dec_fault_core k a b ;;
      Some (f, negb (N.eqb h 0), if N.eqb st 0 then None else Some (N.to_nat st - 1))
  | _ => None
  end.

Definition kind_at (cs : list cent) (a : nat) : option ekind := option_map ce_kind (nth_error cs a).

(* does the fault hook ever run?  (a hook on an entry that is never opened / hashed does not) *)
Definition fault_target (cs : list cent) (f : cfault) : option nat :=
  match f with
  | CWalk a => if a <? length cs then Some a else None
  | CRead a _ | COpen a => match kind_at cs a with Some ENeed => Some a | _ => None end
  | CHash a | CNotify a => match kind_at cs a with Some ESame | None => None | Some _ => Some a end
  | _ => None
  end.

Definition indexed {A} (l : list A) : list (nat * A) := combine (seq 0 (length l)) l.
Definition opt_list {A} (o : option A) : list A := match o with Some x => [x] | None => [] end.

(* How many of the m entries that follow the held entry are kept.  While the diff is held on an
   entry the ones behind it pile up, in this order: the diff channel (cap C2), the entry in fill's
   hand, walkChan (cap C), the entry in the receive loop's hand (parked in dynamicWalker.update),
   the stream buffer (cap), the entry the walker is sending; whatever is beyond that has not been
   reported by the source walk yet (its per-entry context check is still to come).  The abstract
   instance has C = C2 = 1 and a stream buffer of min(cap,1): the count is mapped segment by
   segment, so that the last entry sits in the same place. *)
Definition real_C : nat := N.to_nat FromSource.dynwalker_cap.
Definition real_C2 : nat := N.to_nat (nth 1 FromSource.diff_chan_caps 128%N).
Definition abs_followers (m cap : nat) : nat :=
  let c := real_C in let c2 := real_C2 in let cap' := Nat.min cap 1 in
  if m =? 0 then 0
  else if m <=? c2 then 1
  else if m <=? c2 + 1 then 2
  else if m <=? c2 + 1 + c then 3
  else if m <=? c2 + c + 2 then 4
  else if m <=? c2 + c + 2 + cap then 4 + cap'
  else if m <=? c2 + c + cap + 3 then 5 + cap'
  else 6 + cap'.

(* the entries kept: the fault target and the nearest requested file before it (a transfer in
   flight when the fault strikes); when the fault is held back until quiescence also the entries
   that pile up behind the target (see abs_followers); without a target the first requested file
   (else the first entry handled synchronously); gated: the first two requested files *)
Definition as_backlog (e : entry) : entry := {| e_file := e_file e; e_chunks := e_chunks e; e_kind := ESame |}.
Definition abstract_entries (cs : list cent) (target : option nat) (gated pile backlog_only : bool) (cap : nat)
  : list entry * nat (* new index of the target *) :=
  match target with
  | Some t =>
      (* a held fault is released when everything is parked: transfers before the pivot are over *)
      let before := if pile then None else find (fun ie => (fst ie <? t) && is_need (ce_kind (snd ie))) (indexed cs) in
      let after := if pile then firstn (abs_followers (length cs - S t) cap) (skipn (S t) cs) else [] in
      (map (fun ie => to_entry 1 (snd ie)) (opt_list before) ++ map (to_entry 2) (opt_list (nth_error cs t))
       ++ map (to_entry 1) (firstn 1 after)
       ++ map (fun c => if backlog_only then as_backlog (to_entry 1 c) else to_entry 1 c) (skipn 1 after),
       length (opt_list before))
  | None =>
      let needs := filter (fun c => is_need (ce_kind c)) cs in
      let metas := filter (fun c => negb (is_same (ce_kind c))) cs in
      (map (to_entry 1) (if gated then firstn 2 needs
                         else match needs with c :: _ => [c] | [] => firstn 1 metas end), 0)
  end.

Definition abstract_fault (cs : list cent) (f : cfault) (hold : bool) (t' : nat) : fault :=
  match fault_target cs f, f with
  | Some _, CWalk _ => FWalkErr t'
  | Some a, CRead _ b =>
      let ch := match nth_error cs a with Some c => ce_chunks c | None => 0 end in
      FReadErr t' (if b =? 0 then 0 else if ch <=? b then Nat.min ch 2 else 1)
  | Some _, COpen _ => FOpenErr t'
  | Some _, CHash _ => FHashErr t'
  | Some _, CNotify _ => FNotifyErr t'
  | _, CBreak side k => FBreak side ((k =? 0) && negb hold)     (* held: the position is ignored *)
  | _, CVanish sender k => FVanish sender ((k =? 0) && negb hold)
  | _, CCancel which k =>
      let at0 := (k =? 0) && negb hold in
      (* which context: 0 Send's, 1 Receive's, 2 the stream's, 3 one context shared by all three *)
      if N.eqb which 0 then FCancel false at0 else if N.eqb which 1 then FCancel true at0
      else if N.eqb which 2 then FCancelStream at0 else FCancelAll at0
  | _, _ => FNone
  end.

(* a stalled entry that the receiver never hashes / notifies (unchanged, out of range) stalls nothing *)
Definition stall_target (cs : list cent) (stall : option nat) : option nat :=
  match stall with
  | Some i => match kind_at cs i with Some ESame | None => None | Some _ => Some i end
  | None => None
  end.

Definition abstract (cs : list cent) (f : cfault) (gated hold : bool) (stall : option nat) (cap : nat)
  : scenario * params :=
  let ft := fault_target cs f in
  let st := if hold then stall_target cs stall else None in
  (* the entry around which the instance is built: the fault target, else the stalled entry *)
  let pivot := match ft with Some t => Some t | None => st end in
  (* entries pile up behind the pivot only while the diff loop itself is blocked on it: a held
     callback fault, or a stall, in a synchronously handled entry *)
  let pile := hold && match pivot with
                      | Some t => match kind_at cs t, ft with
                                  | Some EMeta, Some _ => match f with CHash _ | CNotify _ => true | _ => false end
                                  | Some EMeta, None => true
                                  | _, _ => false
                                  end
                      | None => false
                      end in
  (* with a postponed cancellation / failure / vanishing peer the entries behind the pivot only
     matter as a backlog (where the walker and the receive loop stand when the event happens):
     all but the first are kept as unchanged entries, to keep the instance small *)
  let backlog_only := match f with
                      | CCancel _ _ | CBreak _ _ | CVanish _ _ => true
                      | _ => false
                      end in
  let '(es, t') := abstract_entries cs pivot gated pile backlog_only cap in
  let f' := match ft with Some _ => abstract_fault cs f hold t' | None => abstract_fault cs f hold 0 end in
  let st' := match st, pivot with
             | Some i, Some t => if i =? t then Some t' else None   (* a stall elsewhere is not kept *)
             | _, _ => None
             end in
  ({| sc_fault := f'; sc_gated := gated; sc_stall := st'; sc_hold := hold |},
   {| p_W := 1; p_P := if gated then 0 else 1; p_C := 1; p_C2 := 1; p_capSR := Nat.min cap 1;
      p_capRS := if gated then 2 else Nat.min cap 1; p_entries := es; p_old_queue := false |}).

Definition explore_fuel : nat := 400000.

(* ---------- kind 0401 ---------- *)
Definition ret_code (n : N) : nat := if N.eqb n 0 then 1 else if N.eqb n 1 then 2 else 0.
Definition sig_k3 : bytes := (* "open-error-empty-file-success" *)
  [111;112;101;110;45;101;114;114;111;114;45;101;109;112;116;121;45;102;105;108;101;45;115;117;99;99;101;115;115]%N.
Definition tag_sig : bytes := [115;105;103]%N.

Definition run_0401 (input impl : sx) : sx :=
  (* the optional 7th field (source kind: in-memory / on-disk walker) does not change the model *)
  let input6 := match input with
                | SL [v; pr; f; fan; cap; chunk; _] => SL [v; pr; f; fan; cap; chunk]
                | SL [v; pr; f; fan; cap; chunk; _; _] => SL [v; pr; f; fan; cap; chunk]   (* + transport *)
                | SL [v; pr; f; fan; cap; chunk; _; _; _] => SL [v; pr; f; fan; cap; chunk]   (* + source Opens held *)
                | _ => input
                end in
  match input6, impl with
  | SL [v; pr; f; SN fan; SN cap; SN chunk],
    SL [SN snd_; SN rcv; hung; SN leaks; fs; SL diffs; SN follow; errs; errr; fired; bigfan; SN fins; SN finr] =>
    match dec_view v, dec_view pr, dec_fault f,
          sx_bool hung, sx_bool fs, sx_bool errs, sx_bool errr, sx_bool fired with
    | Some view, Some prior, Some (cf, hold, stall), Some hung', Some fs', Some errs', Some errr', Some fired' =>
      let cs := classify_all chunk view prior in
      let gated := negb (N.eqb fan 0) in
      let '(sc, p) := abstract cs cf gated hold stall (N.to_nat cap) in
      let r := explore_scenario explore_fuel sc p in
      let observed := 3 * ret_code snd_ + ret_code rcv + (if hung' then 9 else 0) in
      let in_model := res_complete r && memb observed (res_outcomes r) in
      let model := if in_model then impl
                   else SL [SB [108;116;115]%N (* "lts" *); of_bool (res_complete r);
                            SL (map of_nat (res_outcomes r)); of_nat observed] in
      let c1 := negb hung' && negb (N.eqb snd_ 2) && negb (N.eqb rcv 2) in
      let c2 := negb fs' in
      let tgt := fault_target cs cf in
      let c3 := match cf, tgt with
                | CWalk _, Some _ => negb fired' || gated || errs'
                | CHash _, Some _ | CNotify _, Some _ => negb fired' || gated || errr'
                | _, _ => true
                end in
      let c4 := N.eqb leaks 0 in
      let c5 := N.eqb follow 0 in
      (* Send returned nil => it was handed the receiver's FIN; Receive returned nil => it was handed the echo *)
      let c6 := (negb (N.eqb snd_ 0) || negb (N.eqb fins 0)) && (negb (N.eqb rcv 0) || negb (N.eqb finr 0)) in
      (* fault_free_completes as an oracle: when no fault fired (and the stream is not the gated
         fan-out stream that blocks every DATA send) both calls return nil *)
      let c7 := fired' || gated || (N.eqb snd_ 0 && N.eqb rcv 0) in
      let k3 := match cf, tgt with
                | COpen _, Some a =>
                    fs' && c1 && c3 && c4 && c5 && c6 && c7 &&
                    match nth_error cs a, diffs with
                    | Some c, [SB d] => bytes_eqb d (ce_path c)
                    | _, _ => false
                    end
                | _, _ => false
                end in
      let info := SL ([of_bool c1; of_bool c2; of_bool c3; of_bool c4; of_bool c5; of_bool c6; of_bool c7]
                      ++ (if k3 then [SL [SB tag_sig; SB sig_k3]] else [])) in
      verdict model impl (c1 && c2 && c3 && c4 && c5 && c6 && c7) info
    | _, _, _, _, _, _, _, _ => v_malformed
    end
  | _, _ => v_malformed
  end.
