(* Decoding of C19 cases and verdicts. *)
From Coq Require Import List NArith Bool.
From FS Require Import Sx Model.Path Model.Stat Model.Tree Model.Validator Model.Hardlinks
  Model.Converge Model.MetaOnly.
Import ListNotations.
Open Scope N_scope.
Open Scope bool_scope.

Definition dec_tab_entry (s : sx) : option (list N * bool) :=
  match s with SL [SB p; b] => v <- sx_bool b ;; Some (p, v) | _ => None end.

Fixpoint tab_lookup (p : list N) (t : list (list N * bool)) (def : bool) : bool :=
  match t with
  | [] => def
  | (q, v) :: r => if bytes_eqb p q then v else tab_lookup p r def
  end.

Definition dec_run (s : sx) : option (list N * N) :=
  match s with SL [SB p; SN n] => Some (p, n) | _ => None end.

Fixpoint stats_eqb (a b : list stat) : bool :=
  match a, b with
  | [], [] => true
  | x :: a', y :: b' => stat_eqb x y && stats_eqb a' b'
  | _, _ => false
  end.

(* a is a prefix of b *)
Fixpoint stats_prefixb (a b : list stat) : bool :=
  match a, b with
  | [], _ => true
  | x :: a', y :: b' => stat_eqb x y && stats_prefixb a' b'
  | _ :: _, [] => false
  end.

Fixpoint listN_eqb (a b : list N) : bool :=
  match a, b with
  | [], [] => true
  | x :: a', y :: b' => N.eqb x y && listN_eqb a' b'
  | _, _ => false
  end.

Fixpoint paths_eqb (a b : list (list N)) : bool :=
  match a, b with
  | [], [] => true
  | x :: a', y :: b' => bytes_eqb x y && paths_eqb a' b'
  | _, _ => false
  end.

(* "user." — the only xattr namespace the generators use that the destination can store;
   any other key makes the receiver's LSetxattr fail, which the code ignores *)
Definition user_prefix : list N := [117; 115; 101; 114; 46].
Definition storable_xattrs (s : stat) : stat :=
  {| st_path := st_path s; st_mode := st_mode s; st_uid := st_uid s; st_gid := st_gid s; st_size := st_size s;
     st_mtime := st_mtime s; st_linkname := st_linkname s; st_devmajor := st_devmajor s;
     st_devminor := st_devminor s;
     st_xattrs := filter (fun kv => has_prefix user_prefix (fst kv)) (st_xattrs s) |}.

Definition content_of (src : list entry) (p : list N) : list N :=
  match find_entry p src with Some (_, c) => c | None => [] end.

Definition is_listing_path (p : list N) : bool := bytes_eqb p listing_name || under listing_name p.

(* info: numbers of the clauses that fail *)
Definition clause (n : N) (b : bool) : list sx := if b then [] else [SN n].

Definition sig (s : list N) : sx := SL [SB [115; 105; 103]; SB s].
(* "listing-name-entry-has-dependents" *)
Definition sig_dependents : list N :=
  [108;105;115;116;105;110;103;45;110;97;109;101;45;101;110;116;114;121;45;104;97;115;45;100;101;112;101;110;100;101;110;116;115].

(* kind 1901: input = (srcView priorView ((path sel)...) selDefault cap merge [rwk]);
   rwk (absent = 0) = what the selector writes into the stat it is handed (MetaOnly.rw_of);
   impl = (send_err recv_err hung announced lkind lok listing reclens lsize reqs fwd dest_raw sentinel_ok).
   Model observables: acceptance by the receiver's validators, listing, requested ids, forwarded paths,
   all from the extracted [meta_recv_rw] run on the ANNOUNCED sequence (plus the C11 model of the
   sender's hard-link reset for the announced sequence itself).
   Specification oracle (on the implementation's observables only): the statement of C19 — the
   listing is the announced sequence (whatever the selector writes), everything else is about
   the sequence as the selector left it ([seen]).  A hang of the real Send/Receive (watchdog of
   the harness) is specification-false in EVERY case, judged or not.
   A selection that forwards a hard link without its source (not link-closed) must be REJECTED
   (receive.go shows the hard-link validator only the forwarded entries): Receive returns an
   error, and whatever the diff/writer was handed by then was caused by the entries before the
   rejected one ([applied]) — clause 10. *)
Definition run_1901 (input impl : sx) : sx :=
  match input, impl with
  | SL (sv :: pv :: tab :: def :: _ :: mg :: rwx),
    SL [SN se; SN re; SN hung; ann; SN lkind; lok; lst; lens; SN lsize; rq; fw; dr; sok] =>
    let r :=
      rwk <- match rwx with [] => Some 0 | [SN k] => Some k | _ => None end ;;
      src <- dec_view sv ;; prior <- dec_view pv ;; table <- sx_list dec_tab_entry tab ;;
      d <- sx_bool def ;; merge <- sx_bool mg ;; announced <- sx_list dec_stat ann ;;
      lok' <- sx_bool lok ;; listing <- sx_list dec_stat lst ;; lens' <- sx_list sx_N lens ;;
      reqs <- sx_list sx_N rq ;; fwd <- sx_list dec_run fw ;; dest <- sx_list dec_raw dr ;;
      sentinel_ok <- sx_bool sok ;;
      let sel := fun s : stat => tab_lookup (st_path s) table d in
      let rwf := fun s : stat => rw_of rwk (sel s) s in
      let annS := map (seen rwf) announced in       (* the sequence as the selector leaves it *)
      let srcE := walk_root src in
      let priorAll := walk_root prior in
      let priorE := filter (fun e => negb (is_listing_path (st_path (fst e)))) priorAll in
      let success := N.eqb se 0 && N.eqb re 0 && N.eqb hung 0 in
      let rs := recv_stream announced in
      let rsS := recv_stream annS in
      let sender_ok := valid_stream_b announced
                       && match hardlink_check announced with None => true | Some _ => false end in
      let closed := link_closed sel rsS in
      let needed_l := filter (needed sel rsS) rsS in
      let proj : list entry := map (fun s => (storable_xattrs s, content_of srcE (st_path s))) needed_l in
      let need_content := fun s : stat =>
        merge || match find_entry (st_path s) priorE with
                 | Some (ps, _) => negb (identity_key_eqb ps s)
                 | None => true end in
      (* ---- specification, evaluated on what the implementation did ---- *)
      let spec_reqs := map N.of_nat
        (positions_from 0 (fun s => selected_regular sel s && negb (has_link s) && need_content s) annS) in
      let c_nohang := N.eqb hung 0 in
      let c_success := success in
      let c_file := N.eqb lkind 1 && lok' in
      let c_listing := stats_eqb listing rs in
      let c_framing := Nat.eqb (length lens') (length listing)
                       && N.eqb lsize (fold_left (fun a n => a + 4 + n) lens' 0) in
      let c_reqs := listN_eqb reqs spec_reqs in
      let c_fwd := paths_eqb (map fst fwd) (map st_path needed_l)
                   && ((negb merge && negb (match priorAll with [] => true | _ => false end))
                       || forallb (fun x => N.eqb (snd x) 2) fwd) in
      let c_conv := converged merge priorE proj dest in
      let c_sentinel := sentinel_ok in
      (* observation, outside the statement (merge mode): a non-empty directory at the listing path
         survives a merge, the epilogue cannot replace it and Receive returns an error: not judged *)
      let merge_dir := merge && existsb (fun e => under listing_name (st_path (fst e))) priorAll in
      let judged := sender_ok && negb merge_dir && (negb closed || merge || identity_faithful priorE proj) in
      let applied_paths := map st_path (applied sel rsS) in
      let c_rejected := negb (N.eqb re 0)
                        && forallb (fun x => existsb (bytes_eqb (fst x)) applied_paths) fwd && c_sentinel in
      let holds := c_nohang && (negb judged
                   || (if closed
                       then c_success && c_file && c_listing && c_framing && c_reqs && c_fwd && c_conv && c_sentinel
                       else c_rejected)) in
      (* ---- model ---- *)
      let m := meta_recv_rw sel rwf announced in
      let acc := recv_accepts_rw sel rwf announced in
      let model_reqs := filter (fun i => match nth_error annS i with
                                         | Some s => negb (has_link s) && need_content s
                                         | None => false end) (map snd (r_files m)) in
      (* when Receive fails the stream is torn down and the sender may have been cut off: the
         packet log then holds a PREFIX of what the sender model announces (it always contains
         the STAT the receiver rejected) *)
      let sender_model := if success then stats_eqb (hardlink_reset (map fst srcE)) announced
                          else stats_prefixb announced (hardlink_reset (map fst srcE)) in
      let model_obs :=
        if acc then SL [SN 1; SN 1; SL (map enc_stat (r_listing m)); SL (map of_nat model_reqs);
                        SL (map (fun s => SB (st_path s)) (r_forwarded m))]
        else SL [SN 1; SN 0] in
      let impl_obs :=
        if success then SL [of_bool sender_model; SN 1; SL (map enc_stat listing); SL (map SN reqs);
                            SL (map (fun x => SB (fst x)) fwd)]
        else SL [of_bool sender_model; SN 0] in
      let deps := listing_dependents announced in
      let info :=
        SL (clause 9 c_nohang
            ++ (if closed
                then clause 1 c_success ++ clause 2 c_file ++ clause 3 c_listing ++ clause 4 c_framing
                     ++ clause 5 c_reqs ++ clause 6 c_fwd ++ clause 7 c_conv ++ clause 8 c_sentinel
                     ++ (if c_success && negb c_conv then converged_diag merge priorE proj dest else [])
                else clause 10 c_rejected)
            ++ (if deps && negb success then [sig sig_dependents] else [])) in
      Some (if judged then verdict model_obs impl_obs holds info
            else verdict impl_obs impl_obs c_nohang (SL (clause 9 c_nohang)))
    in match r with Some v => v | None => v_malformed end
  | _, _ => v_malformed
  end.

(* kind 1902: input = (size ...); impl = (total ok ((len cap) ...)) from the real buffer
   (alloc / WriteTo through the verif hook).  Model: alloc_write over records of those sizes;
   spec: WriteTo emitted exactly the concatenation (ok) and total = sum of the sizes. *)
Definition run_1902 (input impl : sx) : sx :=
  match sx_list sx_N input, impl with
  | Some sizes, SL [SN total; ok; chunks] =>
    match sx_bool ok with
    | Some ok' =>
      let recs := map (fun n => repeat 0 (N.to_nat n)) sizes in
      let b := fold_left alloc_write recs [] in
      let m := SL [SN (N.of_nat (length (buf_bytes b))); SN 1;
                   SL (map (fun c => SL [SN (N.of_nat (length (fst c))); SN (snd c)]) (rev b))] in
      verdict m impl (ok' && N.eqb total (fold_left N.add sizes 0)) (SL [])
    | None => v_malformed
    end
  | _, _ => v_malformed
  end.
