(* Decoding of C06 cases and the verdict.

   kind 0601: input = (view (openfail-path ...) (((when id) ...) ending) capacity chunklen walkfail [transport])
              (transport = how the harness moves the packets, harness/c0607_transport.go; the verdict does not depend on it)
              impl  = (trace hang late (sendoverlaps recvoverlaps))
   trace = events at the boundary of the real fsutil.Send call (harness/c0607_tap.go).

   Verdict: the specification holds iff the trace is an accepted complete trace of
   [sender_acc] AND the clauses of the property, recomputed directly on the whole trace
   by the checkers below (which do not use the acceptor), hold AND the call returned
   without the watchdog AND Send never had two SendMsg / two RecvMsg calls in flight on the
   caller's stream (the harness holds chosen sends in flight to provoke an overlap).  The trace depends on goroutine scheduling, so there is no single
   model output: model output := implementation output when the acceptor accepts. *)
From Coq Require Import List NArith Bool.
From FS Require Import Sx Model.Path Model.Stat Model.Tree Model.AccEvents Model.SenderAcc.
Import ListNotations.
Open Scope N_scope.
Open Scope bool_scope.

Fixpoint mem_bytes (p : bytes) (l : list bytes) : bool :=
  match l with [] => false | q :: r => bytes_eqb p q || mem_bytes p r end.
Fixpoint memN (n : N) (l : list N) : bool :=
  match l with [] => false | m :: r => N.eqb n m || memN n r end.

(* index of the first event the acceptor rejects *)
Fixpoint first_reject {St} (step : St -> event -> option St) (s : St) (tr : list event) (i : N) : option N :=
  match tr with
  | [] => None
  | e :: r => match step s e with Some s' => first_reject step s' r (i + 1) | None => Some i end
  end.

(* ---- clause checkers, written over the whole trace ---- *)
Definition ostat_eqb (a b : option stat) : bool :=
  match a, b with
  | None, None => true
  | Some x, Some y => stat_eqb x y
  | _, _ => false
  end.
Fixpoint ostats_eqb (a b : list (option stat)) : bool :=
  match a, b with
  | [], [] => true
  | x :: a', y :: b' => ostat_eqb x y && ostats_eqb a' b'
  | _, _ => false
  end.
Fixpoint ostats_prefix (a b : list (option stat)) : bool :=
  match a, b with
  | [], _ => true
  | x :: a', y :: b' => ostat_eqb x y && ostats_prefix a' b'
  | _ :: _, [] => false
  end.

(* stat_sequence: the STATs sent are the expected ones in order then one empty STAT
   (all of them when the call succeeded, a prefix otherwise) *)
Definition c_stats (exp : list entry) (ok : bool) (tr : list event) : bool :=
  if ok then ostats_eqb (stats_out tr) (full_stats exp) else ostats_prefix (stats_out tr) (full_stats exp).

(* the DATA payloads of one id: non-empty chunks spelling the content, then one terminator *)
Fixpoint data_full (c : bytes) (chunks : list bytes) : bool :=
  match chunks with
  | [] => false
  | d :: r =>
    match d with
    | [] => is_nil c && is_nil r
    | _ => match strip_prefix d c with Some c' => data_full c' r | None => false end
    end
  end.
(* ... or a beginning of that, when the call failed *)
Fixpoint data_part (c : bytes) (chunks : list bytes) : bool :=
  match chunks with
  | [] => true
  | d :: r =>
    match d with
    | [] => is_nil c && is_nil r
    | _ => match strip_prefix d c with Some c' => data_part c' r | None => false end
    end
  end.

Definition no_in (tr : list event) : bool := forallb (fun e => negb (is_in e)) tr.

(* data_per_request + bad_ids_fail, for every Inp (REQ n) of the trace, with
   k = STATs sent before it, reqd = ids requested before it, dseen = ids with DATA before it *)
Fixpoint c_reqs (exp : list entry) (ok : bool) (k : nat) (reqd dseen : list N) (tr : list event) : bool :=
  match tr with
  | [] => true
  | e :: r =>
    match e with
    | Inp (PReq n) =>
      let fresh := negb (memN n reqd) in
      let reg := if N.leb n (N.of_nat k) then regular_at exp (N.to_nat n) else None in
      let bad := negb fresh || match reg with None => true | Some _ => false end in
      (match reg with
       | Some c => if fresh then negb (memN n dseen) && (if ok then data_full c (data_out n r) else data_part c (data_out n r))
                   else true
       | None => true
       end)
      && (if bad then negb ok && no_in r else true)
      && c_reqs exp ok k (n :: reqd) dseen r
    | Out (PStat (Some _)) => c_reqs exp ok (S k) reqd dseen r
    | Out (PData n _) => memN n reqd && c_reqs exp ok k reqd (n :: dseen) r
    | _ => c_reqs exp ok k reqd dseen r
    end
  end.

Definition is_in_fin (e : event) : bool := match e with Inp PFin => true | _ => false end.
Definition is_out_fin (e : event) : bool := match e with Out PFin => true | _ => false end.
Definition count {A} (f : A -> bool) (l : list A) : nat := length (filter f l).
(* everything after the first element satisfying f *)
Fixpoint after {A} (f : A -> bool) (l : list A) : list A :=
  match l with [] => [] | x :: r => if f x then r else after f r end.

(* fin_echo: success means FIN came in once and was echoed once, afterwards; FIN is never
   sent unprompted or twice *)
Definition c_fin (ok : bool) (tr : list event) : bool :=
  let ni := count is_in_fin tr in
  let no := count is_out_fin tr in
  Nat.leb ni 1 && Nat.leb no ni && Nat.eqb (count is_out_fin (after is_in_fin tr)) no
  && (if ok then Nat.eqb ni 1 && Nat.eqb no 1 else true).

(* progress_monotone_one_final *)
Fixpoint nondecreasing (prev : N) (l : list (N * bool)) : bool :=
  match l with [] => true | (n, _) :: r => N.leb prev n && nondecreasing n r end.
Fixpoint one_final (l : list (N * bool)) : bool :=
  match l with
  | [] => false
  | [(_, b)] => b
  | (_, b) :: r => negb b && one_final r
  end.
Fixpoint ends_final_return (tr : list event) : bool :=
  match tr with
  | [Progress _ true; Return _] => true
  | _ :: r => ends_final_return r
  | [] => false
  end.
Definition c_progress (tr : list event) : bool :=
  nondecreasing 0 (progress_of tr) && one_final (progress_of tr) && ends_final_return tr
  && Nat.eqb (count is_return tr) 1.

(* a failed call has a cause in the trace: a request the protocol forbids (or one that raced
   its own STAT), ERR / EOF from the peer, a local fault *)
Fixpoint has_cause (exp : list entry) (k : nat) (reqd : list N) (tr : list event) : bool :=
  match tr with
  | [] => false
  | e :: r =>
    match e with
    | Inp (PReq n) =>
      if memN n reqd then true
      else if N.ltb n (N.of_nat k) then
        match regular_at exp (N.to_nat n) with
        | Some _ => has_cause exp k (n :: reqd) r
        | None => true
        end
      else true
    | Inp (PErr _) | InEof | Fault => true
    | Out (PStat (Some _)) => has_cause exp (S k) reqd r
    | _ => has_cause exp k reqd r
    end
  end.

Fixpoint last_return (tr : list event) : option bool :=
  match tr with
  | [] => None
  | [Return b] => Some b
  | _ :: r => last_return r
  end.

Definition clauses (exp : list entry) (tr : list event) : list bool :=
  match last_return tr with
  | None => [false]
  | Some ok =>
    [c_stats exp ok tr; c_reqs exp ok 0 [] [] tr; c_fin ok tr; c_progress tr; ok || has_cause exp 0 [] tr]
  end.

(* the endpoint never had two SendMsg (nor two RecvMsg) in flight on the caller's stream:
   counters of the instrumented stream of the harness (c0607_tap.go) *)
Definition exclusive_calls (ov : sx) : bool :=
  match ov with
  | SL [SN so; SN ro] => N.eqb so 0 && N.eqb ro 0
  | _ => false
  end.

Definition run_0601 (input impl : sx) : sx :=
  match input, impl with
  | SL (v :: ofl :: _ :: _ :: _ :: _ :: _), SL (t :: SN hang :: _ :: ov :: _) =>
    match dec_view v, sx_list sx_B ofl, sx_list dec_event t with
    | Some view, Some openfail, Some tr =>
      let served := fun e : entry => if mem_bytes (st_path (fst e)) openfail then [] else snd e in
      let exp := sender_entries view served in
      let acc := sender_accepts exp tr in
      let cl := clauses exp tr in
      let accepted := match acc with Some _ => true | None => false end in
      let holds := accepted && forallb (fun b => b) cl && N.eqb hang 0 && exclusive_calls ov in
      let model := if accepted then impl
                   else SL [SB [114; 101; 106]; of_optN (first_reject (sender_acc exp) sinit tr 0)] in  (* "rej" idx *)
      verdict model impl holds (SL [of_optN (first_reject (sender_acc exp) sinit tr 0); SL (map of_bool cl); SN hang; ov])
    | _, _, _ => v_malformed
    end
  | _, _ => v_malformed
  end.
