(* Decoding of C07 cases and the verdict.

   kind 0701: input = (view prior (unchanged-path ...) (merge differ) script capacity progress [transport [rejects [holds]]])
              (transport = how the harness moves the packets, harness/c0607_transport.go; the verdict does not depend on it)
              impl  = (trace hang (taken ((path content) ...)) (taken ((path content) ...)) late (sendoverlaps recvoverlaps))
   trace = events at the boundary of the real fsutil.Receive call; first listing = regular
   files of the destination when the reference sender received FIN, second = after return.

   Verdict: the specification holds iff the trace is an accepted complete trace of
   [receiver_acc needs], the clauses of the property recomputed directly on the trace
   (checkers below, independent of the acceptor) hold - including "what is on disk for a
   requested file is the concatenation of the DATA payloads received for its id", at FIN
   time and after return - and the call returned without the watchdog.
   Model output := implementation output when the acceptor accepts and the payload lists
   it stored agree with the disk. *)
From Coq Require Import List NArith Bool.
From FS Require Import Sx Model.Path Model.Stat Model.Tree Model.Validator Model.AccEvents Model.SenderAcc Model.ReceiverAcc Glue.C06G.
Import ListNotations.
Open Scope N_scope.
Open Scope bool_scope.

Definition dec_file (s : sx) : option (bytes * bytes) :=
  match s with SL [SB p; SB c] => Some (p, c) | _ => None end.
Definition dec_listing (s : sx) : option (bool * list (bytes * bytes)) :=
  match s with
  | SL (SN t :: fs :: _) => l <- sx_list dec_file fs ;; Some (negb (N.eqb t 0), l)
  | _ => None
  end.
Fixpoint plookup (p : bytes) (l : list (bytes * bytes)) : option bytes :=
  match l with [] => None | (q, c) :: r => if bytes_eqb p q then Some c else plookup p r end.

(* Well-formedness of a case.  The reference sender announces [walk_root view]; it is a
   conforming sender only if that sequence is one a sender may send: accepted by the order
   validator (validator.go, C12) and every hard-link target announced before as a file that is
   not itself a link (hardlinks.go).  The generators only produce such views; a view that is
   not (reached only by structural shrinking of a failing case) is rejected legitimately by
   the receiver and says nothing about C07: such a case is malformed, not a witness. *)
Fixpoint links_ok (seen : list bytes) (entries : list entry) : bool :=
  match entries with
  | [] => true
  | e :: r =>
    let st := fst e in
    if st_is_dir st || mode_is_symlink (st_mode st) then links_ok seen r
    else if is_nil (st_linkname st) then links_ok (st_path st :: seen) r
    else mem_bytes (st_linkname st) seen && links_ok seen r
  end.
Definition announce_ok (entries : list entry) : bool :=
  match run_validator (map (fun e : entry => {| vkind := 0; vpath := st_path (fst e); visdir := st_is_dir (fst e) |}) entries) with
  | None => links_ok [] entries
  | Some _ => false
  end.

(* ReceiveOpt.Filter of the case: it answers false for the listed paths and everything below
   them.  A rejected entry is announced like any other (it keeps its position = id in the STAT
   sequence) but the disk writer drops its change: it is not needed, whatever the diff says. *)
Definition rejected (rejects : list bytes) (p : bytes) : bool :=
  existsb (fun q => bytes_eqb p q || has_prefix (q ++ [47]) p) rejects.
Definition dec_rejects (opts : list sx) : option (list bytes) :=
  match opts with
  | _ :: rj :: _ => sx_list sx_B rj
  | _ => Some []
  end.
(* a filter the transfer can succeed with: the target of a hard link that is kept is kept too
   (os.Link to a file that was never created fails in the disk writer, legitimately) *)
Definition rejects_ok (rejects : list bytes) (entries : list entry) : bool :=
  forallb (fun e : entry =>
    let st := fst e in
    st_is_dir st || mode_is_symlink (st_mode st) || is_nil (st_linkname st)
    || rejected rejects (st_path st) || negb (rejected rejects (st_linkname st))) entries.

(* sanity of the reference sender: the STATs it sent are the announced entries in order *)
Definition c_stats_in (entries : list entry) (tr : list event) : bool :=
  ostats_prefix (stats_in tr) (full_stats entries).

Definition wanted_entry (needs : bytes -> bool) (e : entry) : bool :=
  reqable (fst e) && needs (st_path (fst e)).

(* req_exactly_needed, for every Out (REQ n): i = STATs received before it, reqd = ids requested before it *)
Fixpoint c_reqs7 (needs : bytes -> bool) (entries : list entry) (i : nat) (reqd : list N) (tr : list event) : bool :=
  match tr with
  | [] => true
  | e :: r =>
    match e with
    | Out (PReq n) =>
      N.ltb n (N.of_nat i) && negb (memN n reqd)
      && match nth_error entries (N.to_nat n) with Some en => wanted_entry needs en | None => false end
      && c_reqs7 needs entries i (n :: reqd) r
    | Inp (PStat (Some _)) => c_reqs7 needs entries (S i) reqd r
    | _ => c_reqs7 needs entries i reqd r
    end
  end.

Definition requested (tr : list event) : list N :=
  flat_map (fun e => match e with Out (PReq n) => [n] | _ => [] end) tr.
Definition is_out_req (e : event) : bool := match e with Out (PReq _) => true | _ => false end.
Definition is_in_endm (e : event) : bool := match e with Inp (PStat None) => true | _ => false end.
Definition is_in_eof (e : event) : bool := match e with InEof => true | _ => false end.
Definition has_term (n : N) (tr : list event) : bool :=
  existsb (fun e => match e with Inp (PData m []) => N.eqb m n | _ => false end) tr.

Fixpoint before {A} (f : A -> bool) (l : list A) : list A :=
  match l with [] => [] | x :: r => if f x then [] else x :: before f r end.

(* every wanted entry (position n counted from k) has been requested *)
Fixpoint all_wanted_requested (needs : bytes -> bool) (entries : list entry) (k : N) (reqd : list N) : bool :=
  match entries with
  | [] => true
  | en :: r => (negb (wanted_entry needs en) || memN k reqd) && all_wanted_requested needs r (k + 1) reqd
  end.

(* fin_after_everything: at most one FIN; before it the end marker, every wanted file
   requested and every requested id terminated; nothing is requested afterwards *)
Definition c_fin7 (needs : bytes -> bool) (entries : list entry) (ok : bool) (tr : list event) : bool :=
  let nf := count is_out_fin tr in
  Nat.leb nf 1
  && (if ok then Nat.eqb nf 1 else true)
  && (if Nat.eqb nf 0 then true
      else let pre := before is_out_fin tr in
           let post := after is_out_fin tr in
           existsb is_in_endm pre
           && forallb (fun n => has_term n pre) (requested pre)
           && all_wanted_requested needs entries 0 (requested pre)
           && negb (existsb is_out_req post)).

(* stored_is_concat against the disk: for every requested id the DATA payloads are
   non-empty chunks then one terminator, all after the REQ, and the file at the id's path
   holds exactly their concatenation *)
Fixpoint chunks_of (l : list bytes) : option (list bytes) :=   (* cs ++ [[]] -> cs, cs without [] *)
  match l with
  | [] => None
  | [[]] => Some []
  | [] :: _ => None
  | c :: r => match chunks_of r with Some cs => Some (c :: cs) | None => None end
  end.
Definition disk_has (disk : list (bytes * bytes)) (p : bytes) (cs : list bytes) : bool :=
  match plookup p disk with
  | Some c => match strip_chunks cs c with Some [] => true | _ => false end
  | None => false
  end.
Definition c_stored (entries : list entry) (disk : list (bytes * bytes)) (tr : list event) : bool :=
  forallb (fun n =>
    match nth_error entries (N.to_nat n), chunks_of (data_in n tr) with
    | Some en, Some cs =>
      is_nil (data_in n (before (fun e => match e with Out (PReq m) => N.eqb m n | _ => false end) tr))
      && disk_has disk (st_path (fst en)) cs
    | _, _ => false
    end) (requested tr).
(* no DATA for ids that were never requested (sanity of the reference sender) *)
Definition c_data_only_requested (tr : list event) : bool :=
  forallb (fun e => match e with Inp (PData n _) => memN n (requested tr) | _ => true end) tr.

(* eof_before_fin_is_error, and the shape of a successful end: FIN out, FIN in, EOF, return *)
Definition c_eof (ok : bool) (tr : list event) : bool :=
  (if existsb is_in_eof tr && negb (existsb is_in_fin (before is_in_eof tr)) then negb ok else true)
  && (if ok then existsb is_out_fin (before is_in_fin tr) && existsb is_in_fin (before is_in_eof tr)
               && negb (existsb is_in (after is_in_eof tr))
      else true).

(* a failed call has a cause in the trace *)
Definition has_cause7 (tr : list event) : bool :=
  existsb (fun e => match e with Inp (PErr _) | Fault => true | _ => false end) tr
  || (existsb is_in_eof tr && negb (existsb is_in_fin (before is_in_eof tr))).

Definition clauses7 (needs : bytes -> bool) (entries : list entry) (atfin atend : bool * list (bytes * bytes))
           (tr : list event) : list bool :=
  match last_return tr with
  | None => [false]
  | Some ok =>
    [ c_stats_in entries tr;
      c_reqs7 needs entries 0 [] tr;
      c_fin7 needs entries ok tr;
      c_data_only_requested tr;
      (* content on disk before FIN is answered *)
      (if fst atfin then c_stored entries (snd atfin) (before is_out_fin tr) else negb ok);
      (* content on disk after a successful return *)
      (if ok then fst atend && c_stored entries (snd atend) tr else true);
      c_eof ok tr;
      ok || has_cause7 tr;
      Nat.eqb (count is_return tr) 1 ]
  end.

(* the acceptor's own stored payload lists against the disk *)
Definition stored_agrees (entries : list entry) (disk : list (bytes * bytes)) (s : rstate) : bool :=
  forallb (fun ncs : N * list bytes =>
    match nth_error entries (N.to_nat (fst ncs)) with
    | Some en => disk_has disk (st_path (fst en)) (rev (snd ncs))
    | None => false
    end) (r_stored s).

Definition run_0701 (input impl : sx) : sx :=
  match input, impl with
  | SL (v :: _ :: unch :: SL [mg; SN differ] :: _ :: _ :: _ :: opts), SL (t :: SN hang :: l1 :: l2 :: _ :: ov :: _) =>
    match dec_view v, sx_list sx_B unch, sx_bool mg, sx_list dec_event t, dec_listing l1, dec_listing l2, dec_rejects opts with
    | Some view, Some unchanged, Some merge, Some tr, Some atfin, Some atend, Some rejects =>
      let entries := walk_root view in
      if negb (announce_ok entries && rejects_ok rejects entries) then v_malformed else
      let needs := fun p : bytes =>
        negb (rejected rejects p) && (merge || N.eqb differ 1 || negb (mem_bytes p unchanged)) in
      let rej := first_reject (receiver_acc needs) rinit tr 0 in
      let cl := clauses7 needs entries atfin atend tr in
      let final := receiver_run needs tr in
      let accepted := match final with Some s => match r_ret s with Some _ => true | None => false end | None => false end in
      let agrees := match final with
                    | Some s => match r_ret s with
                                | Some true => stored_agrees entries (snd atend) s
                                | _ => true
                                end
                    | None => false
                    end in
      let holds := accepted && forallb (fun b => b) cl && N.eqb hang 0 && exclusive_calls ov in
      let model := if accepted && agrees then impl
                   else SL [SB [114; 101; 106]; of_optN rej; of_bool agrees] in
      verdict model impl holds (SL [of_optN rej; SL (map of_bool cl); SN hang; ov])
    | _, _, _, _, _, _, _ => v_malformed
    end
  | _, _ => v_malformed
  end.
