(* Decoding of C17 cases and verdicts. *)
From Coq Require Import List NArith ZArith Bool.
From FS Require Import Sx Model.Path Model.Stat Model.Tree Model.Hardlinks Model.TarHdr.
From FS Require Model.Pattern Model.FilterWalk Model.Walk Glue.C09G.
Import ListNotations.
Open Scope N_scope.

Definition enc_xattrs (x : list (bytes * bytes)) : sx :=
  SL (map (fun kv => SL [SB (fst kv); SB (snd kv)]) x).

(* a member as the harness reports it after reading the archive back with archive/tar:
   (name typeflag mode uid gid size mtime-sec linkname devmajor devminor xattrs payload
    gomode nsec uname gname);  gomode = hdr.FileInfo().Mode() *)
Definition enc_member (m : member) : sx :=
  let h := fst m in
  SL [SB (h_name h); SN (h_typeflag h); SN (h_mode h); SN (h_uid h); SN (h_gid h); SN (h_size h);
      SN (of_sint (round_sec (h_mtime h))); SB (h_linkname h); SN (h_devmajor h); SN (h_devminor h);
      enc_xattrs (h_xattrs h); SB (snd m);
      SN (go_mode_of_tar (h_typeflag h) (h_mode h)); SN 0; SB []; SB []].

Definition enc_result (r : tar_result) : sx :=
  match r with
  | TarOk ms => SL [SN 0; SL (map enc_member ms); SN 1]
  | TarErr k => SL [SN 1; of_nat k]
  end.

(* read-back member -> (archived header with mtime in ns, payload, (gomode nsec uname gname)) *)
Record extras := { x_gomode : N; x_nsec : N; x_uname : bytes; x_gname : bytes }.

Definition dec_member (s : sx) : option (member * extras) :=
  match s with
  | SL [SB name; SN tf; SN mode; SN uid; SN gid; SN size; SN msec; SB ln; SN dmaj; SN dmin; xs; SB payload;
        SN gomode; SN nsec; SB un; SB gn] =>
    x <- sx_list dec_xattr xs ;;
    Some (({| h_name := name; h_typeflag := tf; h_mode := mode; h_uid := uid; h_gid := gid; h_size := size;
              h_mtime := of_sint (sint msec * ns_per_s); h_linkname := ln; h_devmajor := dmaj;
              h_devminor := dmin; h_xattrs := x |}, payload),
          {| x_gomode := gomode; x_nsec := nsec; x_uname := un; x_gname := gn |})
  | _ => None
  end.

(* (#0 (member...) trailer-ok) *)
Definition dec_ok_result (s : sx) : option (list (member * extras) * bool) :=
  match s with
  | SL [SN 0; ms; tr] => l <- sx_list dec_member ms ;; t <- sx_bool tr ;; Some (l, t)
  | _ => None
  end.

(* archive/tar's own inverse gives back the view's mode; no sub-second part, no names.
   A hard-link ('1') member carries no type: for the second name of a fifo / device inode the
   inverse yields the permission and setuid/setgid/sticky bits only. *)
Definition expected_gomode (s : stat) : N :=
  if is_nil (st_linkname s) || mode_is_symlink (st_mode s) then st_mode s
  else st_mode s - N.land (st_mode s) ModeType.
Fixpoint extras_ok (l : list entry) (xs : list extras) : bool :=
  match l, xs with
  | [], [] => true
  | e :: l', x :: xs' =>
    N.eqb (x_gomode x) (expected_gomode (fst e)) && N.eqb (x_nsec x) 0 && is_nil (x_uname x) && is_nil (x_gname x)
    && extras_ok l' xs'
  | _, _ => false
  end.

Fixpoint first_bad (l : list entry) (ms : list member) (i : N) : sx :=
  match l, ms with
  | [], [] => SL []
  | e :: l', m :: ms' => if member_matches e m then first_bad l' ms' (N.succ i) else SL [SB [109]; SN i]
  | _, _ => SL [SB [108]; SN i]
  end.

(* the specification evaluated on what the implementation produced for listing l *)
Definition spec_archive (l : list entry) (closed : bool) (impl : sx) : bool * sx :=
  if wf_listing_wb l && forallb mtime_in_range l then
    match dec_ok_result impl with
    | Some (mx, trailer) =>
      let ms := map fst mx in
      let ok_m := members_match l ms in
      let ok_x := extras_ok l (map snd mx) in
      (* "names an earlier REGULAR member" is only demanded where every link member is a second
         name of a regular file (the narrow domain of the round-trip theorems) *)
      let ok_l := negb (closed && wf_listing_b l) || links_resolve ms in
      (ok_m && ok_x && trailer && ok_l,
       if negb ok_m then first_bad l ms 0
       else if negb ok_l then SL [SB [100; 97; 110; 103; 108; 105; 110; 103]]   (* "dangling" *)
       else SL [of_bool ok_x; of_bool trailer])
    | None => (false, SL [SB [101]])       (* a well-formed view must be exported *)
    end
  else (true, SL []).                       (* outside the domain: nothing claimed; model = impl is still checked *)

(* when must every hard-link member of the real archive name an earlier regular member?  On
   views whose links are closed, and (Properties/C17.filtered_links_resolve) on every listing
   the filters leave of a canonical walk whose link groups are of one type *)
Definition resolvable (l : list entry) : bool :=
  wf_links (map fst l) && group_types_agree l && wf_listing_b (reset_entries l).

(* kind 1701: input = (view chunklen); impl = archive result of the real WriteTar *)
Definition run_1701 (input impl : sx) : sx :=
  match input with
  | SL [v; SN _] =>
    match dec_view v with
    | None => v_malformed
    | Some view =>
      let l := walk_root view in
      let m := enc_result (write_tar view) in
      (* on a view whose links are closed the reset changes nothing: the expectation is the
         view's own walk, independently of the reset model *)
      (* (links_closed says nothing about second names of fifo / device inodes: outside the
         narrow domain the expectation always goes through the reset model) *)
      let l_spec := if links_closed l && wf_listing_b l then l else reset_entries l in
      let sp := spec_archive l_spec (links_closed l || resolvable l) impl in
      verdict m impl (fst sp) (snd sp)
    end
  | _ => v_malformed
  end.

(* kind 1702: input = (view includes excludes reset); impl = ((stat...) archive-result): the
   listing an independent walk of the same filtered FS reports, and the archive WriteTar wrote
   for it.  Contents are looked up in the view by path (filterFS.Open goes to the view). *)
Definition content_of (view_l : list entry) (p : bytes) : bytes :=
  match find_entry p view_l with Some e => snd e | None => [] end.

Definition stat_eqb_mod_link (a b : stat) : bool :=
  stat_eqb (set_linkname a []) (set_linkname b []).

(* the filtered listing is a sub-sequence of the view's walk, stats unchanged (hard-link
   names may be rewritten by WithHardlinkReset) *)
Fixpoint is_sublisting (reset : bool) (sub : list stat) (l : list entry) : bool :=
  match sub, l with
  | [], _ => true
  | _ :: _, [] => false
  | s :: sub', e :: l' =>
    if bytes_eqb (st_path s) (st_path (fst e))
    then (if reset then stat_eqb_mod_link s (fst e) else stat_eqb s (fst e)) && is_sublisting reset sub' l'
    else is_sublisting reset sub l'
  end.

(* Known finding K1 (moby/patternmatcher, C10 "late-shadow") seen through WriteTar: the walk
   of the filtered FS lists a file that filterFS.Open (MatchesOrParentMatches on the full
   path) refuses, so WriteTar fails with "open p: file does not exist".  The signature is
   computed from the case with C10's pattern model (Model/Pattern.v, Model/FilterWalk.v) over
   the table of real single-pattern match results the harness sends along: WriteTar stopped at
   member k, the model exports the listing, entry k carries a payload (so WriteTar opens it),
   the naive verdict on its path is "hidden" and the path is a late-shadow path. *)
Definition ptable := list (bytes * bytes * bool).
Definition dec_pentry (s : sx) : option (bytes * bytes * bool) :=
  match s with SL [SB p; SB q; b] => b' <- sx_bool b ;; Some (p, q, b') | _ => None end.
Fixpoint table_pmatch (t : ptable) (P q : bytes) : bool :=
  match t with
  | [] => false
  | (p', q', b) :: r => if bytes_eqb p' P && bytes_eqb q' q then b else table_pmatch r P q
  end.

Definition s_sig : bytes := [115; 105; 103].                                     (* "sig" *)
Definition s_late_shadow : bytes :=                                              (* "late-shadow" *)
  [108; 97; 116; 101; 45; 115; 104; 97; 100; 111; 119].

Definition open_denied_late_shadow (tbl : ptable) (c : FilterWalk.cfg) (l : list entry) (res : sx) : bool :=
  match res, write_tar_listing l with
  | SL [SN 1; SN k], TarOk _ =>
    match nth_error (reset_entries l) (N.to_nat k) with
    | Some e =>
      let p := st_path (fst e) in
      has_payload (hdr_of_stat (fst e))
      && negb (FilterWalk.keep_naive (table_pmatch tbl) c p)
      && negb (FilterWalk.nls_path (table_pmatch tbl) c p)
    | None => false
    end
  | _, _ => false
  end.

Definition run_1702 (input impl : sx) : sx :=
  match input, impl with
  | SL [v; SL _; SL _; rs], SL [SL []; SL [SN 9]] => v_malformed      (* patterns rejected by NewFilterFS: not modelled *)
  | SL [v; inc; exc; rs], SL (lst :: res :: more) =>
    match dec_view v, sx_list dec_stat lst, sx_bool rs with
    | Some view, Some stats, Some reset =>
      let vl := walk_root view in
      let l := map (fun s => (s, content_of vl (st_path s))) stats in
      let m := SL [lst; enc_result (write_tar_listing l)] in
      let impl' := SL [lst; res] in
      let sub_ok := is_sublisting reset stats vl in
      (* reset = true: the listing already went through the real WithHardlinkReset and is the
         expectation as it stands; otherwise the reset model gives the expected link names *)
      let l_spec := if reset then l else reset_entries l in
      let sp := spec_archive l_spec (links_closed vl || resolvable l) res in
      let known :=
        match more, sx_list sx_B inc, sx_list sx_B exc with
        | [pt], Some ir, Some er =>
          match sx_list dec_pentry pt, FilterWalk.mk_cfg ir er with
          | Some tbl, Some c => open_denied_late_shadow tbl c l res
          | _, _ => false
          end
        | _, _, _ => false
        end in
      let info := if negb sub_ok then SL [SB [115; 117; 98]] else snd sp in
      verdict m impl' (sub_ok && fst sp)
              (if known then SL [SL [SB s_sig; SB s_late_shadow]; info] else info)
    | _, _, _ => v_malformed
    end
  | _, _ => v_malformed
  end.

(* kind 1703: input = (view); impl = (#0 (raw...)): lstat snapshot of the directory into which
   the harness' extractor unpacked the archive:
   (path st_mode uid gid size mtime-ns rdev linkgroup nlink target xattrs content).
   Expected = the view itself, entry by entry. *)
Definition unix_type_bits (m : N) : N :=
  match ekind_of m with
  | KReg => 32768 | KDir => 16384 | KSym => 40960 | KChar => 8192 | KBlock => 24576 | KFifo => 4096 | KOther => 0
  end.
Definition mkdev (major minor : N) : N :=
  N.lor (N.lor (N.shiftl (N.land major 4095) 8) (N.land minor 255)) (N.shiftl (N.land minor 1048320) 12).

Fixpoint index_of (p : bytes) (l : list entry) (i : N) : N :=
  match l with
  | [] => i
  | e :: r => if bytes_eqb (st_path (fst e)) p then i else index_of p r (N.succ i)
  end.
Definition is_hardlink (s : stat) : bool :=
  mode_is_regular (st_mode s) && negb (is_nil (st_linkname s)).
Definition group_head (s : stat) : bytes := if is_hardlink s then st_linkname s else st_path s.
Definition group_size (l : list entry) (head : bytes) : N :=
  N.of_nat (length (filter (fun e => bytes_eqb (group_head (fst e)) head) l)).

Definition raw_of_entry (l : list entry) (e : entry) : sx :=
  let s := fst e in
  let k := ekind_of (st_mode s) in
  let isdev := match k with KChar | KBlock => true | _ => false end in
  SL [SB (st_path s); SN (tar_mode (st_mode s) + unix_type_bits (st_mode s)); SN (st_uid s); SN (st_gid s);
      SN (match k with KReg => blen (snd e) | KSym => blen (st_linkname s) | _ => 0 end);
      SN (round_ns (st_mtime s));
      SN (if isdev then mkdev (st_devmajor s) (st_devminor s) else 0);
      SN (index_of (group_head s) l 0);
      SN (match k with KDir => 0 | _ => group_size l (group_head s) end);
      SB (match k with KSym => st_linkname s | _ => [] end);
      enc_xattrs (st_xattrs s);
      SB (match k with KReg => snd e | _ => [] end)].

Definition run_1703 (input impl : sx) : sx :=
  match input with
  | SL [v] =>
    match dec_view v with
    | None => v_malformed
    | Some view =>
      let l := walk_root view in
      let expected := SL [SN 0; SL (map (raw_of_entry l) l)] in
      if wf_listing_b l && forallb mtime_in_range l && links_closed l
      then verdict expected impl (sx_eqb expected impl) (SL [])
      else verdict expected impl true (SL [])
    end
  | _ => v_malformed
  end.

(* kind 1704: the REAL on-disk walker under a filter with a Map table.
   input = (view map-excluded-paths includes excludes [extra-links [layer]]) (layer: which FS
   layers the harness puts between the walker and WriteTar - filter, none, reset only, ... ; the
   expectation below does not depend on it; with no filter layer the harness sends empty tables): the harness materialises
   the view on disk (then makes the extra hard links ((src dst)...): second names of fifos,
   devices, symlinks, which the shared materialiser does not create), takes an INDEPENDENT lstat/readlink/llistxattr snapshot with file contents, and runs
   fsutil.NewFS(dir) -> NewFilterFS{Include, Exclude, Map: exclude the listed paths} -> WriteTar ->
   archive/tar reader.
   impl = (snapshot listed-paths archive-result pattern-table) | (#9) patterns rejected |
          (#fffd msg) the harness could not set the case up.
   The input view is NOT used here: ground truth is the snapshot.  Expected listing = the
   declarative reference listing of the snapshot (Glue/C09G.ref_walk: protocol path order, true
   stat of every path, second and later names of an inode carry Linkname = first name and the
   real size), restricted to the paths an independent walk of the same filtered FS lists, with
   the bytes the snapshot read.  The archive is judged member by member against that listing
   after the hard-link reset, like kinds 1701/1702.  The selection itself is checked as far as
   the Map table decides it: listed paths are a sub-sequence of the reference listing, none is
   map-excluded, and without patterns they are exactly the others. *)
Definition dec_raw_content (s : sx) : option (bytes * bytes) :=
  match s with
  | SL [SB p; SN _; SN _; SN _; SN _; SN _; SN _; SN _; SN _; SB _; _; SB c] => Some (p, c)
  | _ => None
  end.
Fixpoint assoc_content (p : bytes) (t : list (bytes * bytes)) : bytes :=
  match t with
  | [] => []
  | (q, c) :: r => if bytes_eqb q p then c else assoc_content p r
  end.
Fixpoint entries_of (full : list stat) (contents : list (bytes * bytes)) (paths : list bytes) : option (list entry) :=
  match paths with
  | [] => Some []
  | p :: r =>
    match find (fun s => bytes_eqb (st_path s) p) full with
    | Some s => rest <- entries_of full contents r ;; Some ((s, assoc_content p contents) :: rest)
    | None => None
    end
  end.
Fixpoint is_subseq (sub l : list bytes) : bool :=
  match sub, l with
  | [], _ => true
  | _ :: _, [] => false
  | s :: sub', x :: l' => if bytes_eqb s x then is_subseq sub' l' else is_subseq sub l'
  end.
Fixpoint paths_eqb (a b : list bytes) : bool :=
  match a, b with
  | [], [] => true
  | x :: a', y :: b' => bytes_eqb x y && paths_eqb a' b'
  | _, _ => false
  end.
Definition mem_path (p : bytes) (l : list bytes) : bool := existsb (bytes_eqb p) l.

Definition selection_ok (full : list stat) (paths mexcl : list bytes) (nopat : bool) : bool :=
  let all := map st_path full in
  is_subseq paths all
  && forallb (fun p => negb (mem_path p mexcl)) paths
  && (if nopat && forallb (fun s => negb (mem_path (st_path s) mexcl) || negb (mode_is_dir (st_mode s))) full
      then paths_eqb paths (filter (fun p => negb (mem_path p mexcl)) all)
      else true).

Definition run_1704 (input impl : sx) : sx :=
  match input, impl with
  | SL (_ :: mt :: inc :: exc :: _), SL [snapx; listed; res; pt] =>
    match sx_list C09G.dec_raw snapx, sx_list dec_raw_content snapx, sx_list sx_B listed with
    | Some snap, Some contents, Some paths =>
      match sx_list sx_B mt, sx_list sx_B inc, sx_list sx_B exc with
      | Some mexcl, Some ir, Some er =>
        let full := C09G.ref_walk snap in
        match entries_of full contents paths with
        | None => v_specfail (SL []) (SL [SB [108; 115; 116]])          (* "lst": a listed path is not on disk *)
        | Some l =>
          let m := enc_result (write_tar_listing l) in
          let sel := selection_ok full paths mexcl (is_nil ir && is_nil er) in
          let sp := spec_archive (reset_entries l) (resolvable l) res in
          let known :=
            match sx_list dec_pentry pt, FilterWalk.mk_cfg ir er with
            | Some tbl, Some c => open_denied_late_shadow tbl c l res
            | _, _ => false
            end in
          let info := if negb sel then SL [SB [115; 101; 108]] else snd sp in     (* "sel" *)
          verdict m res (sel && fst sp)
                  (if known then SL [SL [SB s_sig; SB s_late_shadow]; info] else info)
        end
      | _, _, _ => v_malformed
      end
    | _, _, _ => v_malformed
    end
  | _, _ => v_malformed          (* (#9) patterns rejected, (#fffd msg) set-up failed: nothing to judge *)
  end.

(* kind 1705: a composite view (fsutil.SubDirFS over several mounts, each a MemFS) through WriteTar.
   input = (((dirstat view) ...)); impl = archive result.  Expected listing, declaratively: the
   mounts in byte order of their names; for each its directory stat (Path = the name) followed by
   its own walk with the name put in front of every path and hard-link name (Model/Walk.prefix_stat,
   the specification C09 validates for subDirFS.Walk); the bytes of "name/p" are the bytes of p in
   THAT mount.  Nothing is claimed for names SubDirFS rejects or that are not plain names. *)
Definition dec_mount (s : sx) : option (stat * list node) :=
  match s with
  | SL [st; v] => d <- dec_stat st ;; w <- dec_view v ;; Some (d, w)
  | _ => None
  end.
Definition mount_entries (m : stat * list node) : list entry :=
  (fst m, []) :: map (fun e => (Walk.prefix_stat (st_path (fst m)) (fst e), snd e)) (walk_root (snd m)).
Definition mount_name_ok (n : bytes) : bool :=
  negb (is_nil n) && negb (existsb (N.eqb sep) n) && negb (bytes_eqb n [46]) && negb (bytes_eqb n [46; 46]).
Fixpoint distinct_names (l : list bytes) : bool :=
  match l with
  | [] => true
  | x :: r => negb (existsb (bytes_eqb x) r) && distinct_names r
  end.

Definition run_1705 (input impl : sx) : sx :=
  match input with
  | SL [ms] =>
    match sx_list dec_mount ms with
    | Some mounts =>
      let names := map (fun m => st_path (fst m)) mounts in
      if forallb mount_name_ok names && distinct_names names
         && forallb (fun m => mode_is_dir (st_mode (fst m))) mounts
      then
        let sorted := map snd (Walk.isort_kids (map (fun m => (st_path (fst m), m)) mounts)) in
        let l := flat_map mount_entries sorted in
        let m := enc_result (write_tar_listing l) in
        let l_spec := if links_closed l && wf_listing_b l then l else reset_entries l in
        let sp := spec_archive l_spec (links_closed l || resolvable l) impl in
        verdict m impl (fst sp) (snd sp)
      else v_malformed
    | None => v_malformed
    end
  | _ => v_malformed
  end.
