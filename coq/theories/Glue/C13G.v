(* Decoding of C13/C15 cases, conversion of views to the copier model's values,
   canonical form of snapshots, model run.  The specification oracles live in
   Model/CopySpec.v; kinds are assembled at the end of this file and in C15G.v. *)
From Coq Require Import List NArith Bool.
From FS Require Import Sx Model.Path Model.Stat Model.Tree Model.SymMode Model.Copier.
Import ListNotations.
Open Scope N_scope.
Open Scope bool_scope.

(* ---- Go os.FileMode -> st_mode (mirror of harness/disk.go unixMode) ---- *)
Definition go_to_unix (m : N) : N :=
  let p := N.land m 511 in
  let sp := (if has_bits m ModeSetuid then 2048 else 0) + (if has_bits m ModeSetgid then 1024 else 0)
            + (if has_bits m ModeSticky then 512 else 0) in
  let t := if has_bits m ModeDir then S_IFDIR
           else if has_bits m ModeSymlink then S_IFLNK
           else if has_bits m ModeNamedPipe then S_IFIFO
           else if has_bits m ModeSocket then S_IFSOCK
           else if has_bits m ModeDevice && has_bits m ModeCharDevice then S_IFCHR
           else if has_bits m ModeDevice then S_IFBLK
           else S_IFREG in
  t + sp + p.

(* unix.Mkdev *)
Definition mkdev (maj mnr : N) : N :=
  N.lor (N.lor (N.shiftl (N.land maj 4095) 8) (N.shiftl (N.land maj 4294963200) 32))
        (N.lor (N.land mnr 255) (N.shiftl (N.land mnr 4294967040) 12)).

Definition dent_of_stat (s : stat) (content : bytes) : dent :=
  let um := go_to_unix (st_mode s) in
  let t := N.land um S_IFMT in
  {| d_mode := um; d_uid := st_uid s; d_gid := st_gid s; d_mtime := st_mtime s;
     d_rdev := if N.eqb t S_IFCHR || N.eqb t S_IFBLK then mkdev (st_devmajor s) (st_devminor s) else 0;
     d_target := if N.eqb t S_IFLNK then st_linkname s else [];
     d_xattrs := st_xattrs s;
     d_content := if N.eqb t S_IFREG then content else [] |}.

Definition root_mtime : N := 1500000000000000000.
Definition root_dent : dent :=
  {| d_mode := S_IFDIR + 493; d_uid := 0; d_gid := 0; d_mtime := root_mtime; d_rdev := 0; d_target := [];
     d_xattrs := []; d_content := [] |}.

(* walk index of the entry whose path is [p] (1-based; 0 = not found) *)
Fixpoint index_of (p : bytes) (l : list entry) (i : N) : N :=
  match l with
  | [] => 0
  | e :: r => if bytes_eqb (st_path (fst e)) p then i else index_of p r (i + 1)
  end.

Definition is_link_member (s : stat) : bool :=
  N.eqb (N.land (go_to_unix (st_mode s)) S_IFMT) S_IFREG && nonempty (st_linkname s).

(* view node -> snode; idx = walk index of this node; returns the next free index *)
Fixpoint conv_node (flat : list entry) (idx : N) (n : node) {struct n} : snode * N :=
  match n with
  | Node name s content kids =>
    let i := if is_link_member s then index_of (st_linkname s) flat 1 else idx in
    let d := if is_link_member s then
               match nth_error flat (N.to_nat (i - 1)) with
               | Some e => dent_of_stat (fst e) (snd e)
               | None => dent_of_stat s content
               end
             else dent_of_stat s content in
    let '(ks, nxt) :=
      (fix go (l : list node) (j : N) : list snode * N :=
         match l with
         | [] => ([], j)
         | k :: r => let '(k', j') := conv_node flat j k in
                     let '(r', j'') := go r j' in (k' :: r', j'')
         end) kids (idx + 1) in
    (SNode name i d ks, nxt)
  end.

Fixpoint conv_forest (flat : list entry) (l : list node) (j : N) : list snode * N :=
  match l with
  | [] => ([], j)
  | k :: r => let '(k', j') := conv_node flat j k in
              let '(r', j'') := conv_forest flat r j' in (k' :: r', j'')
  end.

Definition sroot_of_view (v : list node) : snode * N :=
  let '(ks, nxt) := conv_forest (walk_root v) v 1 in
  (SNode [] 0 root_dent ks, nxt).

(* flat listing of an snode tree: (path, ino, dent), directory before contents *)
Fixpoint s_flat (p : list bytes) (n : snode) {struct n} : list (list bytes * N * dent) :=
  match n with
  | SNode _ i d kids =>
    (p, i, d) ::
    (fix go (l : list snode) : list (list bytes * N * dent) :=
       match l with [] => [] | k :: r => s_flat (p ++ [sname k]) k ++ go r end) kids
  end.

Fixpoint assoc_path {A} (p : list bytes) (l : list (list bytes * A)) : option A :=
  match l with [] => None | (q, a) :: r => if path_eqb p q then Some a else assoc_path p r end.
Fixpoint assoc_N {A} (i : N) (l : list (N * A)) (dflt : A) : A :=
  match l with [] => dflt | (j, a) :: r => if N.eqb i j then a else assoc_N i r dflt end.

Definition fsys_of_sroot (root : snode) (nxt : N) : fsys :=
  let fl := s_flat [] root in
  let nm := map (fun e => (fst (fst e), snd (fst e))) fl in
  let it := map (fun e => (snd (fst e), snd e)) fl in
  {| names := fun p => assoc_path p nm; inodes := fun i => assoc_N i it root_dent; next := nxt;
     dom := map (fun e => fst (fst e)) fl |}.

(* ---- canonical entries ---- *)
(* (path mode uid gid mtime rdev inokey target xattrs content); inokey = position of the first
   entry carrying the same inode *)
Definition enc_xattrs (x : list (bytes * bytes)) : sx := SL (map (fun kv => SL [SB (fst kv); SB (snd kv)]) x).

Fixpoint first_pos (i : N) (l : list N) (k : N) : N :=
  match l with [] => k | j :: r => if N.eqb i j then k else first_pos i r (k + 1) end.

Definition enc_entries (l : list (list bytes * N * dent)) : sx :=
  let inos := map (fun e => snd (fst e)) l in
  SL (map (fun e =>
    let '(p, i, d) := e in
    SL [SB (joinc p); SN (d_mode d); SN (d_uid d); SN (d_gid d); SN (d_mtime d); SN (d_rdev d);
        SN (first_pos i inos 0); SB (d_target d); enc_xattrs (d_xattrs d); SB (d_content d)]) l).

Definition now_floor : N := 1700000000000000000.

(* implementation snapshot entry: (path mode uid gid size mtime rdev ino nlink target xattrs content) *)
Definition dec_raw (s : sx) : option (list bytes * N * dent) :=
  match s with
  | SL [SB p; SN m; SN u; SN g; SN _; SN mt; SN rd; SN ino; SN _; SB tg; xs; SB ct] =>
    x <- sx_list dec_xattr xs ;;
    Some (pcomps p, ino,
          {| d_mode := m; d_uid := u; d_gid := g; d_mtime := if now_floor <=? mt then NOW else mt; d_rdev := rd;
             d_target := tg; d_xattrs := x; d_content := ct |})
  | _ => None
  end.

Definition dec_snapshot (s : sx) : option (list (list bytes * N * dent)) := sx_list dec_raw s.

(* ---- options ---- *)
Definition dec_opts (s : sx) : option copts :=
  match s with
  | SL [ch; md; SB ms; ut; dc; wl; rp; SN um] =>
    dc' <- sx_bool dc ;; wl' <- sx_bool wl ;; rp' <- sx_bool rp ;;
    ch' <- (match ch with SL [] => Some None | SL [SN u; SN g] => Some (Some (u, g)) | _ => None end) ;;
    md' <- (match md with SL [] => Some None | SL [SN m] => Some (Some m) | _ => None end) ;;
    ut' <- (match ut with SL [] => Some None | SL [SN t] => Some (Some t) | _ => None end) ;;
    Some {| o_chown := ch'; o_mode := md'; o_modestr := ms; o_utime := ut'; o_dircontents := dc';
            o_wild := wl'; o_replace := rp'; o_umask := um |}
  | _ => None
  end.

Definition err_class (e : option err) : N :=
  match e with
  | None => 0
  | Some EDirOverNondir => 1
  | Some ENondirOverDir => 2
  | Some ENoMatch => 3
  | Some EOther => 4
  | Some EScope => 99
  end.

Definition notif_path (p : list bytes) : bytes := match p with [] => s_dot | _ => sep :: joinc p end.
Definition enc_notifs (l : list (list bytes * bool)) : sx :=
  SL (map (fun pb => SL [SB (notif_path (fst pb)); of_bool (snd pb); SN 0]) (rev l)).

Definition all_selected (p : list bytes) : bool := true.

Record case := {
  k_src : snode; k_dst : fsys; k_dst0 : snode; k_srcarg : bytes; k_dstarg : bytes; k_opts : copts; k_second : bool
}.

Definition dec_case (input : sx) : option case :=
  match input with
  | SL [sv; dv; SB src; SB dst; os; sec] =>
    sv' <- dec_view sv ;; dv' <- dec_view dv ;; o <- dec_opts os ;; sec' <- sx_bool sec ;;
    let '(sr, _) := sroot_of_view sv' in
    let '(dr, nxt) := sroot_of_view dv' in
    Some {| k_src := sr; k_dst := fsys_of_sroot dr nxt; k_dst0 := dr; k_srcarg := src; k_dstarg := dst;
            k_opts := o; k_second := sec' |}
  | _ => None
  end.

Definition model_run (c : case) (fs : fsys) : fsys * sx :=
  let '(st, e) := copy_top (k_opts c) all_selected (k_src c) fs (k_srcarg c) (k_dstarg c) in
  (c_fs st, SL [SN (err_class e); enc_notifs (c_notifs st); enc_entries (fs_list (c_fs st))]).

(* canonical form of one implementation run *)
Definition canon_run (r : sx) : option sx :=
  match r with
  | SL [SN cls; ns; snap] => es <- dec_snapshot snap ;; Some (SL [SN cls; ns; enc_entries es])
  | _ => None
  end.

Definition model_output (c : case) : sx :=
  let '(fs1, r1) := model_run c (k_dst c) in
  let src := enc_entries (s_flat [] (k_src c)) in
  if k_second c then let '(_, r2) := model_run c fs1 in SL [r1; r2; src] else SL [r1; src].

Definition canon_output (impl : sx) : option sx :=
  match impl with
  | SL [r1; s] => r1' <- canon_run r1 ;; s' <- dec_snapshot s ;; Some (SL [r1'; enc_entries s'])
  | SL [r1; r2; s] =>
    r1' <- canon_run r1 ;; r2' <- canon_run r2 ;; s' <- dec_snapshot s ;; Some (SL [r1'; r2'; enc_entries s'])
  | _ => None
  end.

(* kind 1302: (modestr perm12 isdir) vs dchapes-mode: model validation of SymMode.v *)
Definition run_1302 (input impl : sx) : sx :=
  match input with
  | SL [SB s; SN p; d] =>
    match sx_bool d with
    | Some isdir =>
      let m := match parse_mode s with Some cmds => SL [SN (apply_mode cmds p isdir)] | None => SL [] end in
      verdict m impl true (SL [])
    | None => v_malformed
    end
  | _ => v_malformed
  end.

(* a run in which the model met a symlink on an argument path (C14's domain) *)
Definition out_of_scope (m : sx) : bool :=
  match m with
  | SL l => existsb (fun r => match r with SL [SN cls; _; _] => N.eqb cls 99 | _ => false end) l
  | _ => false
  end.

(* TEMP: model comparison only *)
Definition run_1301 (input impl : sx) : sx :=
  match dec_case input, canon_output impl with
  | Some c, Some ci =>
    let m := model_output c in
    if out_of_scope m then v_ok else verdict m ci true (SL [])
  | _, _ => v_malformed
  end.
