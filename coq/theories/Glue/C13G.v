(* Decoding of C13/C15 cases, conversion of views to the copier model's values,
   canonical form of snapshots, model run.  The specification oracles live in
   Model/CopySpec.v; kinds are assembled at the end of this file and in C15G.v. *)
From Coq Require Import List NArith Bool.
From FS Require Import Sx Model.Path Model.Stat Model.Tree Model.SymMode Model.Copier Model.CopySpec.
Import ListNotations.
Open Scope N_scope.
Open Scope bool_scope.

(* ---- Go os.FileMode -> st_mode (mirror of harness/disk.go unixMode) ---- *)
Definition go_to_unix (m : N) : N :=
  let p := N.land m 511 in
  let sp := (if has_bits m ModeSetuid then 2048 else 0) + (if has_bits m ModeSetgid then 1024 else 0)
            + (if has_bits m ModeSticky then 512 else 0) in
  let t := if has_bits m ModeDir then S_IFDIR
           else if has_bits m ModeSymlink then S_IFLNK
           else if has_bits m ModeNamedPipe then S_IFIFO
           else if has_bits m ModeSocket then S_IFSOCK
           else if has_bits m ModeDevice && has_bits m ModeCharDevice then S_IFCHR
           else if has_bits m ModeDevice then S_IFBLK
           else S_IFREG in
  t + sp + p.

(* unix.Mkdev *)
Definition mkdev (maj mnr : N) : N :=
  N.lor (N.lor (N.shiftl (N.land maj 4095) 8) (N.shiftl (N.land maj 4294963200) 32))
        (N.lor (N.land mnr 255) (N.shiftl (N.land mnr 4294967040) 12)).

Definition dent_of_stat (s : stat) (content : bytes) : dent :=
  let um := go_to_unix (st_mode s) in
  let t := N.land um S_IFMT in
  {| d_mode := um; d_uid := st_uid s; d_gid := st_gid s; d_mtime := st_mtime s;
     d_rdev := if N.eqb t S_IFCHR || N.eqb t S_IFBLK then mkdev (st_devmajor s) (st_devminor s) else 0;
     d_target := if N.eqb t S_IFLNK then st_linkname s else [];
     d_xattrs := st_xattrs s;
     d_content := if N.eqb t S_IFREG then content else [] |}.

Definition root_mtime : N := 1500000000000000000.
Definition root_dent : dent :=
  {| d_mode := S_IFDIR + 493; d_uid := 0; d_gid := 0; d_mtime := root_mtime; d_rdev := 0; d_target := [];
     d_xattrs := []; d_content := [] |}.

(* walk index of the entry whose path is [p] (1-based; 0 = not found) *)
Fixpoint index_of (p : bytes) (l : list entry) (i : N) : N :=
  match l with
  | [] => 0
  | e :: r => if bytes_eqb (st_path (fst e)) p then i else index_of p r (i + 1)
  end.

Definition is_link_member (s : stat) : bool :=
  N.eqb (N.land (go_to_unix (st_mode s)) S_IFMT) S_IFREG && nonempty (st_linkname s).

(* view node -> snode; idx = walk index of this node; returns the next free index *)
Fixpoint conv_node (flat : list entry) (idx : N) (n : node) {struct n} : snode * N :=
  match n with
  | Node name s content kids =>
    let i := if is_link_member s then index_of (st_linkname s) flat 1 else idx in
    let d := if is_link_member s then
               match nth_error flat (N.to_nat (i - 1)) with
               | Some e => dent_of_stat (fst e) (snd e)
               | None => dent_of_stat s content
               end
             else dent_of_stat s content in
    let '(ks, nxt) :=
      (fix go (l : list node) (j : N) : list snode * N :=
         match l with
         | [] => ([], j)
         | k :: r => let '(k', j') := conv_node flat j k in
                     let '(r', j'') := go r j' in (k' :: r', j'')
         end) kids (idx + 1) in
    (SNode name i d ks, nxt)
  end.

Fixpoint conv_forest (flat : list entry) (l : list node) (j : N) : list snode * N :=
  match l with
  | [] => ([], j)
  | k :: r => let '(k', j') := conv_node flat j k in
              let '(r', j'') := conv_forest flat r j' in (k' :: r', j'')
  end.

Definition sroot_of_view (v : list node) : snode * N :=
  let '(ks, nxt) := conv_forest (walk_root v) v 1 in
  (SNode [] 0 root_dent ks, nxt).

(* flat listing of an snode tree: (path, ino, dent), directory before contents *)
Fixpoint s_flat (p : list bytes) (n : snode) {struct n} : list (list bytes * N * dent) :=
  match n with
  | SNode _ i d kids =>
    (p, i, d) ::
    (fix go (l : list snode) : list (list bytes * N * dent) :=
       match l with [] => [] | k :: r => s_flat (p ++ [sname k]) k ++ go r end) kids
  end.

Fixpoint assoc_path {A} (p : list bytes) (l : list (list bytes * A)) : option A :=
  match l with [] => None | (q, a) :: r => if path_eqb p q then Some a else assoc_path p r end.
Fixpoint assoc_N {A} (i : N) (l : list (N * A)) (dflt : A) : A :=
  match l with [] => dflt | (j, a) :: r => if N.eqb i j then a else assoc_N i r dflt end.

Definition fsys_of_sroot (root : snode) (nxt : N) : fsys :=
  let fl := s_flat [] root in
  let nm := map (fun e => (fst (fst e), snd (fst e))) fl in
  let it := map (fun e => (snd (fst e), snd e)) fl in
  {| names := fun p => assoc_path p nm; inodes := fun i => assoc_N i it root_dent; next := nxt;
     dom := map (fun e => fst (fst e)) fl |}.

(* ---- canonical entries ---- *)
(* (path mode uid gid mtime rdev inokey target xattrs content); inokey = position of the first
   entry carrying the same inode *)
Definition enc_xattrs (x : list (bytes * bytes)) : sx := SL (map (fun kv => SL [SB (fst kv); SB (snd kv)]) x).

Fixpoint first_pos (i : N) (l : list N) (k : N) : N :=
  match l with [] => k | j :: r => if N.eqb i j then k else first_pos i r (k + 1) end.

Definition enc_entries (l : list (list bytes * N * dent)) : sx :=
  let inos := map (fun e => snd (fst e)) l in
  SL (map (fun e =>
    let '(p, i, d) := e in
    SL [SB (joinc p); SN (d_mode d); SN (d_uid d); SN (d_gid d); SN (d_mtime d); SN (d_rdev d);
        SN (first_pos i inos 0); SB (d_target d); enc_xattrs (d_xattrs d); SB (d_content d)]) l).

Definition now_floor : N := 1700000000000000000.

(* implementation snapshot entry: (path mode uid gid size mtime rdev ino nlink target xattrs content) *)
Definition dec_raw (s : sx) : option (list bytes * N * dent) :=
  match s with
  | SL [SB p; SN m; SN u; SN g; SN _; SN mt; SN rd; SN ino; SN _; SB tg; xs; SB ct] =>
    x <- sx_list dec_xattr xs ;;
    Some (pcomps p, ino,
          {| d_mode := m; d_uid := u; d_gid := g; d_mtime := if now_floor <=? mt then NOW else mt; d_rdev := rd;
             d_target := tg; d_xattrs := x; d_content := ct |})
  | _ => None
  end.

Definition dec_snapshot (s : sx) : option (list (list bytes * N * dent)) := sx_list dec_raw s.

(* ---- options ---- *)
Definition dec_opts (s : sx) : option copts :=
  match s with
  | SL [ch; md; SB ms; ut; dc; wl; rp; SN um] =>
    dc' <- sx_bool dc ;; wl' <- sx_bool wl ;; rp' <- sx_bool rp ;;
    ch' <- (match ch with SL [] => Some None | SL [SN u; SN g] => Some (Some (u, g)) | _ => None end) ;;
    md' <- (match md with SL [] => Some None | SL [SN m] => Some (Some m) | _ => None end) ;;
    ut' <- (match ut with SL [] => Some None | SL [SN t] => Some (Some t) | _ => None end) ;;
    Some {| o_chown := ch'; o_mode := md'; o_modestr := ms; o_utime := ut'; o_dircontents := dc';
            o_wild := wl'; o_replace := rp'; o_umask := um |}
  | _ => None
  end.

Definition err_class (e : option err) : N :=
  match e with
  | None => 0
  | Some EDirOverNondir => 1
  | Some ENondirOverDir => 2
  | Some ENoMatch => 3
  | Some EOther => 4
  | Some EScope => 99
  end.

Definition notif_path (p : list bytes) : bytes := match p with [] => s_dot | _ => sep :: joinc p end.
Definition enc_notifs (l : list (list bytes * bool)) : sx :=
  SL (map (fun pb => SL [SB (notif_path (fst pb)); of_bool (snd pb); SN 0]) (rev l)).

Definition all_selected (p : list bytes) : bool := true.

Record case := {
  k_src : snode; k_dst : fsys; k_dst0 : snode; k_srcarg : bytes; k_dstarg : bytes; k_opts : copts; k_second : bool
}.

(* views list the children of every directory in bytewise name order, without duplicates
   (os.ReadDir / filepath.Walk order) *)
Fixpoint names_sorted (l : list snode) : bool :=
  match l with
  | a :: ((b :: _) as r) => (match cmp_bytes (sname a) (sname b) with Lt => true | _ => false end) && names_sorted r
  | _ => true
  end.
Fixpoint tree_sorted (n : snode) {struct n} : bool :=
  match n with
  | SNode _ _ _ kids =>
    names_sorted kids && (fix go (l : list snode) : bool := match l with [] => true | k :: r => tree_sorted k && go r end) kids
  end.

(* an optional 7th field says how srcRoot / dstRoot are NAMED to copy.Copy (real path, through a
   symlinked ancestor, a symlink to the real root): the harness snapshots the real directories
   and the expected result does not depend on it, so the model ignores the field *)
Definition strip_rootmode (input : sx) : sx :=
  match input with
  | SL [sv; dv; src; dst; os; sec; SN _] => SL [sv; dv; src; dst; os; sec]
  | _ => input
  end.

Definition dec_case (input0 : sx) : option case :=
  match strip_rootmode input0 with
  | SL [sv; dv; SB src; SB dst; os; sec] =>
    sv' <- dec_view sv ;; dv' <- dec_view dv ;; o <- dec_opts os ;; sec' <- sx_bool sec ;;
    let '(sr, _) := sroot_of_view sv' in
    let '(dr, nxt) := sroot_of_view dv' in
    if negb (tree_sorted sr && tree_sorted dr) then None else
    Some {| k_src := sr; k_dst := fsys_of_sroot dr nxt; k_dst0 := dr; k_srcarg := src; k_dstarg := dst;
            k_opts := o; k_second := sec' |}
  | _ => None
  end.

(* CopyInfo.FollowLinks (bit 16 of the optional 7th field).  FollowLinks only changes how the
   LAST component of the literal base of a wildcard pattern and of every source path is resolved
   (rootPath): when none of them is a symlink the call behaves exactly as with FollowLinks off,
   which is what the model describes; a case in which FollowLinks has something to follow is
   outside the model *)
Definition case_follow (input0 : sx) : bool :=
  match input0 with
  | SL [_; _; _; _; _; _; SN hm] => N.odd (hm / 16)
  | _ => false
  end.
Definition wild_base_is_link (sroot : snode) (src : bytes) : bool :=
  let cs0 := match src with [] => [[]] | _ => comps (clean src) end in
  let cs := map (fun c => match c with [] => [sep] | _ => c end) cs0 in
  let '(p1, p2) := split_wild_e cs in
  let d1 := match p1 with [] => [] | _ => clean (joinc p1) end in
  match p2 with
  | [] => false
  | _ => match s_resolve sroot (rooted d1) with inl n => is_lnk (sdent n) | inr _ => false end
  end.
Definition follow_touches (c : case) : bool :=
  (o_wild (k_opts c) && wild_base_is_link (k_src c) (k_srcarg c)) ||
  match (if o_wild (k_opts c) then resolve_wild (k_src c) (k_srcarg c) else inl [k_srcarg c]) with
  | inl l => existsb (fun s => match s_resolve (k_src c) (rooted s) with inl sn => is_lnk (sdent sn) | inr _ => false end) l
  | inr _ => false
  end.

Definition model_run (c : case) (fs : fsys) : fsys * sx * bool :=
  let '(st, e) := copy_top (k_opts c) all_selected (k_src c) fs (k_srcarg c) (k_dstarg c) in
  (c_fs st, SL [SN (err_class e); enc_notifs (c_notifs st); enc_entries (fs_list (c_fs st))], c_split st).

(* canonical form of one implementation run *)
Definition canon_run (r : sx) : option sx :=
  match r with
  | SL [SN cls; ns; snap] => es <- dec_snapshot snap ;; Some (SL [SN cls; ns; enc_entries es])
  | _ => None
  end.

Definition model_output2 (c : case) : sx * bool :=
  let '(fs1, r1, st1) := model_run c (k_dst c) in
  let src := enc_entries (s_flat [] (k_src c)) in
  if k_second c then let '(_, r2, st2) := model_run c fs1 in (SL [r1; r2; src], st1 || st2) else (SL [r1; src], st1).
Definition model_output (c : case) : sx := fst (model_output2 c).

(* signature, computed from the case by the model: forgetLinkSources dropped the record of a
   link group's copy (a later wildcard match replaced it) while another name of that copy
   survives; the next member is copied afresh, so the group is spread over two inodes
   (bytes and metadata of every name are right; only the inode partition differs) *)
Definition sig_split : bytes :=
  [104;97;114;100;108;105;110;107;45;103;114;111;117;112;45;115;112;108;105;116;45;97;102;116;101;114;45;111;118;101;114;119;114;105;116;101].
(* only attached to a failure of the inode-partition clause *)
Definition is_keys_info (info : sx) : bool :=
  match info with
  | SL (SB t :: _) =>
    bytes_eqb t [105;110;111;100;101;115] ||
    (bytes_eqb t [115;101;99;111;110;100] &&
     match info with SL [_; SL (SB t2 :: _)] => bytes_eqb t2 [105;110;111;100;101;115] | _ => false end)
  | _ => false
  end.
Definition with_sig (c : case) (info : sx) : sx :=
  if snd (model_output2 c) && is_keys_info info then SL [SL [SB [115;105;103]; SB sig_split]; info] else info.

Definition canon_output (impl : sx) : option sx :=
  match impl with
  | SL [r1; s] => r1' <- canon_run r1 ;; s' <- dec_snapshot s ;; Some (SL [r1'; enc_entries s'])
  | SL [r1; r2; s] =>
    r1' <- canon_run r1 ;; r2' <- canon_run r2 ;; s' <- dec_snapshot s ;; Some (SL [r1'; r2'; enc_entries s'])
  | _ => None
  end.

(* kind 1302: (modestr perm12 isdir) vs dchapes-mode: model validation of SymMode.v *)
Definition run_1302 (input impl : sx) : sx :=
  match input with
  | SL [SB s; SN p; d] =>
    match sx_bool d with
    | Some isdir =>
      let m := match parse_mode s with Some cmds => SL [SN (apply_mode cmds p isdir)] | None => SL [] end in
      verdict m impl true (SL [])
    | None => v_malformed
    end
  | _ => v_malformed
  end.

(* a run in which the model met a symlink on an argument path (C14's domain) *)
Definition out_of_scope (m : sx) : bool :=
  match m with
  | SL l => existsb (fun r => match r with SL [SN cls; _; _] => N.eqb cls 99 | _ => false end) l
  | _ => false
  end.

(* ---- specification oracles, evaluated on what the IMPLEMENTATION left on disk ---- *)
Definition elist := list (list bytes * N * dent).
Definition view_of_list (l : elist) : view :=
  fun p => assoc_path p (map (fun e => (fst (fst e), (snd (fst e), snd e))) l).
Definition paths_of_list (l : elist) : list (list bytes) := map (fun e => fst (fst e)) l.

Definition dec_run (r : sx) : option (N * sx * elist) :=
  match r with
  | SL [SN cls; ns; snap] => es <- dec_snapshot snap ;; Some (cls, ns, es)
  | _ => None
  end.

Definition enc_spec_notifs (l : list (list bytes * bool)) : sx :=
  SL (map (fun pb => SL [SB (notif_path (fst pb)); of_bool (snd pb); SN 0]) l).

Record ck := { ck_ok : bool; ck_skip : bool; ck_landings : option (list (list bytes)); ck_merged : list bool; ck_info : sx }.
Definition tag (s : bytes) (rest : list sx) : sx := SL (SB s :: rest).
(* ascii tags *)
Definition t_overlay : bytes := [111;118;101;114;108;97;121].          (* "overlay" *)
Definition t_keys : bytes := [105;110;111;100;101;115].                 (* "inodes" *)
Definition t_notifs : bytes := [110;111;116;105;102;115].               (* "notifs" *)
Definition t_class : bytes := [99;108;97;115;115].                      (* "class" *)
Definition t_obstacle : bytes := [111;98;115;116;97;99;108;101].        (* "obstacle" *)
Definition t_iso : bytes := [105;115;111].                              (* "iso" *)
Definition t_idem : bytes := [105;100;101;109].                         (* "idem" *)
Definition t_source : bytes := [115;111;117;114;99;101].                (* "source" *)
Definition t_second : bytes := [115;101;99;111;110;100].                (* "second" *)

Definition first_bad {A} (f : A -> bool) (l : list A) : option A := find (fun a => negb (f a)) l.

(* one application: [before]/[after] are snapshots around it *)
Definition check_run (c : case) (real_inos : bool) (before after : elist) (cls : N) (ns : sx) : ck :=
  let Vb := view_of_list before in
  let Va := view_of_list after in
  match overlay_all (k_opts c) (k_src c) Vb (k_srcarg c) (k_dstarg c) with
  | inr XScope => {| ck_ok := true; ck_skip := true; ck_landings := None; ck_merged := []; ck_info := SL [] |}
  | inr (XOther ec) =>
    {| ck_ok := N.eqb cls ec; ck_skip := false; ck_landings := None; ck_merged := []; ck_info := tag t_class [SN ec; SN cls] |}
  | inr (XConflict ec p bef) =>
    let same := match Va p, bef with
                | Some (i, d), Some e => dent_match d e && (negb real_inos || match x_key e with KDst j => N.eqb i j | _ => true end)
                | _, _ => false
                end in
    {| ck_ok := N.eqb cls ec && same; ck_skip := false; ck_landings := None; ck_merged := [];
       ck_info := if N.eqb cls ec then tag t_obstacle [SB (joinc p)] else tag t_class [SN ec; SN cls] |}
  | inl r =>
    let ps := sort_paths (paths_of_list before ++ paths_of_list after ++ xr_paths r) in
    let X := xr_view r in
    if negb (N.eqb cls 0) then {| ck_ok := false; ck_skip := false; ck_landings := None; ck_merged := []; ck_info := tag t_class [SN 0; SN cls] |}
    else match first_bad (match_at Va X) ps with
    | Some p => {| ck_ok := false; ck_skip := false; ck_landings := None; ck_merged := []; ck_info := tag t_overlay [SB (joinc p)] |}
    | None =>
      match first_bad (fun p => forallb (keys_at Va X p) ps) ps with
      | Some p => {| ck_ok := false; ck_skip := false; ck_landings := None; ck_merged := []; ck_info := tag t_keys [SB (joinc p)] |}
      | None =>
        let en := enc_spec_notifs (xr_notifs r) in
        {| ck_ok := sx_eqb en ns; ck_skip := false; ck_landings := Some (xr_landings r); ck_merged := xr_merged r; ck_info := tag t_notifs [en] |}
      end
    end
  end.

(* C13: the explicit relation between the source tree and what is below the landing path,
   for a single (non-wildcard) source *)
(* ... and for the matches of a wildcard source that land apart from all other matches: entry by
   entry, with the inode partition when the source has no link groups *)
Definition check_iso_wild (c : case) (after : elist) (landings : option (list (list bytes))) (merged : list bool) : bool :=
  match landings, resolve_wild (k_src c) (k_srcarg c),
        (match o_modestr (k_opts c) with [] => Some None | s => option_map Some (parse_mode s) end) with
  | Some Ls, inl srcs, Some ms =>
    let V := view_of_list after in
    let nol := forallb (fun i => negb (multi_of (k_src c) i)) (s_inos (k_src c)) in
    let idx := combine (seq 0 (length Ls)) Ls in
    forallb (fun x : nat * (bytes * (list bytes * bool)) =>
      let '(i, (s, (L, m))) := x in
      if forallb (fun jl : nat * list bytes => Nat.eqb (fst jl) i || apart_b L (snd jl)) idx then
        match s_resolve (k_src c) (rooted s) with
        | inl sn =>
          let rs := s_paths [] sn ++ flat_map (fun p => match strip_prefix L p with Some r => [r] | None => [] end)
                                              (paths_of_list after) in
          if nol then tree_iso_b (k_opts c) ms m sn L V rs else forallb (iso_at (k_opts c) ms m sn L V) rs
        | inr _ => true
        end
      else true)
      (combine (seq 0 (length srcs)) (combine srcs (combine Ls merged)))
  | _, _, _ => true
  end.

Definition check_iso (c : case) (after : elist) (landings : option (list (list bytes))) (merged : list bool) : bool :=
  if o_wild (k_opts c) then check_iso_wild c after landings merged else
  match landings, s_resolve (k_src c) (rooted (k_srcarg c)),
        (match o_modestr (k_opts c) with [] => Some None | s => option_map Some (parse_mode s) end) with
  | Some [L], inl sn, Some ms =>
    let rs := s_paths [] sn ++ flat_map (fun p => match strip_prefix L p with Some r => [r] | None => [] end)
                                        (paths_of_list after) in
    tree_iso_b (k_opts c) ms (match merged with [b] => b | _ => false end) sn L (view_of_list after) rs
  | _, _, _ => true
  end.

(* C15: nothing changes when a successful copy is repeated (inode identities are not compared;
   a directory's mtime may be "now" after the second application) *)
Definition idem_dent (d1 d2 : dent) : bool :=
  N.eqb (d_mode d1) (d_mode d2) && N.eqb (d_uid d1) (d_uid d2) && N.eqb (d_gid d1) (d_gid d2)
  && (N.eqb (d_mtime d1) (d_mtime d2) || (is_dir d2 && N.eqb (d_mtime d2) NOW))
  && N.eqb (d_rdev d1) (d_rdev d2) && bytes_eqb (d_target d1) (d_target d2)
  && xattrs_eqb (d_xattrs d1) (d_xattrs d2) && bytes_eqb (d_content d1) (d_content d2).

Definition idem_at (V1 V2 : view) (p : list bytes) : bool :=
  match V1 p, V2 p with
  | Some (_, d1), Some (_, d2) => idem_dent d1 d2
  | None, None => true
  | _, _ => false
  end.

(* inode partition of non-directories is the same before and after *)
Definition idem_keys (V1 V2 : view) (p q : list bytes) : bool :=
  match V1 p, V1 q, V2 p, V2 q with
  | Some (i1, d1), Some (j1, e1), Some (i2, _), Some (j2, _) =>
    if is_dir d1 || is_dir e1 then true else Bool.eqb (N.eqb i1 j1) (N.eqb i2 j2)
  | _, _, _, _ => true
  end.

Definition same_state_b (V1 V2 : view) (ps : list (list bytes)) : bool :=
  forallb (idem_at V1 V2) ps && forallb (fun p => forallb (idem_keys V1 V2 p) ps) ps.

Fixpoint paths_eqb (a b : list (list bytes)) : bool :=
  match a, b with
  | [], [] => true
  | x :: a', y :: b' => path_eqb x y && paths_eqb a' b'
  | _, _ => false
  end.

Definition src_unchanged (c : case) (s : sx) : bool :=
  match dec_snapshot s with
  | Some es => sx_eqb (enc_entries es) (enc_entries (s_flat [] (k_src c)))
  | None => false
  end.

Definition initial_list (c : case) : elist := s_flat [] (k_dst0 c).

(* kind 1301 (C13): one application *)
Definition run_1301 (input impl : sx) : sx :=
  match dec_case input, canon_output impl with
  | Some c, Some ci =>
    let m := model_output c in
    if out_of_scope m || (case_follow input && follow_touches c) then v_ok else
    match impl with
    | SL [r1; s] =>
      match dec_run r1 with
      | Some (cls, ns, after) =>
        let k := check_run c false (initial_list c) after cls ns in
        if ck_skip k then v_ok else
        if negb (src_unchanged c s) then verdict m ci false (with_sig c (tag t_source []))
        else if negb (ck_ok k) then verdict m ci false (with_sig c (ck_info k))
        else if negb (check_iso c after (ck_landings k) (ck_merged k)) then verdict m ci false (with_sig c (tag t_iso []))
        else verdict m ci true (SL [])
      | None => v_malformed
      end
    | _ => v_malformed
    end
  | _, _ => v_malformed
  end.

(* kind 1501 (C15): two applications *)
Definition run_1501 (input impl : sx) : sx :=
  match dec_case input, canon_output impl with
  | Some c, Some ci =>
    let m := model_output c in
    if out_of_scope m || (case_follow input && follow_touches c) then v_ok else
    match impl with
    | SL [r1; r2; s] =>
      match dec_run r1, dec_run r2 with
      | Some (cls1, ns1, a1), Some (cls2, ns2, a2) =>
        let k1 := check_run c false (initial_list c) a1 cls1 ns1 in
        let k2 := check_run c true a1 a2 cls2 ns2 in
        if ck_skip k1 || ck_skip k2 then v_ok else
        if negb (src_unchanged c s) then verdict m ci false (with_sig c (tag t_source []))
        else if negb (ck_ok k1) then verdict m ci false (with_sig c (ck_info k1))
        else if negb (ck_ok k2) then verdict m ci false (with_sig c (tag t_second [ck_info k2]))
        else
          let stable := match ck_landings k1, ck_landings k2 with
                        | Some l1, Some l2 => paths_eqb l1 l2
                        | Some l1, None => false
                        | _, _ => false
                        end in
          let idem := if N.eqb cls1 0 && N.eqb cls2 0 && stable
                      then same_state_b (view_of_list a1) (view_of_list a2)
                             (sort_paths (paths_of_list a1 ++ paths_of_list a2))
                      else true in
          if idem then verdict m ci true (SL []) else verdict m ci false (with_sig c (tag t_idem []))
      | _, _ => v_malformed
      end
    | _ => v_malformed
    end
  | _, _ => v_malformed
  end.

(* kind 1303 (C13): one sparse regular file of [size] bytes, copied alone or with its directory:
   the copy has the same size and the same bytes in every probed window *)
Definition dec_mark (s : sx) : option (N * bytes) :=
  match s with SL [SN o; SB b] => Some (o, b) | _ => None end.
Definition dec_probe (s : sx) : option (N * N) :=
  match s with SL [SN o; SN l] => Some (o, l) | _ => None end.
Definition run_1303 (input impl : sx) : sx :=
  match input with
  | SL [SN size; marks; probes; _] =>
    match sx_list dec_mark marks, sx_list dec_probe probes with
    | Some ms, Some ps =>
      let m := SL [SN 0; SN size; SL (map (fun p => SB (sp_read ms size (fst p) (N.to_nat (snd p)))) ps)] in
      (* the specification itself: same size, same bytes in every window *)
      verdict m impl (sx_eqb m impl) (tag [99;111;110;116;101;110;116] [])
    | _, _ => v_malformed
    end
  | _ => v_malformed
  end.

(* kind 1502 (C15): include / exclude patterns (what they select is C16's model), the copy applied
   twice.  When the first application succeeded and the landing path is the same for both (the
   resolved dst is an existing directory of the initial destination: a directory source lands on
   its own name inside it or - dir-contents - on it, a non-directory inside it), the second one
   succeeds too and changes nothing (same_state_b); the source is left alone. *)
Definition stable_landing (c : case) : bool :=
  let X0 := xview_of (view_of_fs (k_dst c)) in
  match spec_resolve X0 (clean (k_dstarg c)), s_resolve (k_src c) (rooted (k_srcarg c)) with
  | inl D, inl _ => x_isdir (X0 D)
  | _, _ => false
  end.
Fixpoint kids_ok (n : snode) {struct n} : bool :=
  match n with
  | SNode _ _ d kids => (is_dir d || match kids with [] => true | _ => false end) && forallb kids_ok kids
  end.

(* signature of the finding filtered-parent-dir-mode-option: with include / exclude patterns a
   source directory that is not selected itself is created on demand (createParentDirs) and gets
   copyFileInfo, i.e. the Mode / ModeStr option, only when it is NEW; when it already exists
   copyDirectoryOnly chmods it to the raw source mode and copyFileInfo is skipped.  So the first
   copy leaves the option's mode and the repeated copy the source's mode.
   Computed from the case: a Mode or ModeStr option and patterns are given, and every entry that
   the second application changed is a directory below the landing path that corresponds to a
   source directory, differs in nothing but the mode, had the option's mode after the first
   application and has the source's raw permission + setuid/setgid/sticky bits after the second *)
Definition sig_parent_mode : bytes :=
  [102;105;108;116;101;114;101;100;45;112;97;114;101;110;116;45;100;105;114;45;109;111;100;101;45;111;112;116;105;111;110].
Definition with_mode (m : N) (d : dent) : dent :=
  {| d_mode := m; d_uid := d_uid d; d_gid := d_gid d; d_mtime := d_mtime d; d_rdev := d_rdev d;
     d_target := d_target d; d_xattrs := d_xattrs d; d_content := d_content d |}.
Definition parent_mode_sig (c : case) (has_patterns : bool) (a1 a2 : elist) : bool :=
  let o := k_opts c in
  let X0 := xview_of (view_of_fs (k_dst c)) in
  let V1 := view_of_list a1 in let V2 := view_of_list a2 in
  let ps := sort_paths (paths_of_list a1 ++ paths_of_list a2) in
  has_patterns &&
  (match o_mode o, o_modestr o with None, [] => false | _, _ => true end) &&
  forallb (fun p => forallb (idem_keys V1 V2 p) ps) ps &&
  match spec_resolve X0 (clean (k_dstarg c)), s_resolve (k_src c) (rooted (k_srcarg c)),
        (match o_modestr o with [] => Some None | ms => option_map Some (parse_mode ms) end) with
  | inl D, inl sn, Some ms =>
    let L := landing o sn (k_srcarg c) D X0 in
    forallb (fun p =>
      idem_at V1 V2 p ||
      match V1 p, V2 p, strip_prefix L p with
      | Some (_, d1), Some (_, d2), Some rel =>
        match s_lookup sn rel with
        | Some sd =>
          is_dir (sdent sd) && is_dir d1 && is_dir d2 &&
          idem_dent (with_mode (d_mode d2) d1) d2 &&
          N.eqb (perm12 d1) (info_mode o ms (sdent sd)) && N.eqb (perm12 d2) (perm12 (sdent sd))
        | None => false
        end
      | _, _, _ => false
      end) ps
  | _, _, _ => false
  end.

Definition t_second_class : bytes := [115;101;99;111;110;100;45;99;108;97;115;115].   (* "second-class" *)
Definition run_1502 (input impl : sx) : sx :=
  match input with
  | SL [sv; dv; src; dst; os; sec; SL inc; SL exc] =>
    match dec_case (SL [sv; dv; src; dst; os; sec]), canon_output impl with
    | Some c, Some ci =>
      if negb (kids_ok (k_src c) && kids_ok (k_dst0 c)) then v_malformed else
      match impl with
      | SL [r1; r2; s] =>
        match dec_run r1, dec_run r2 with
        | Some (cls1, _, a1), Some (cls2, _, a2) =>
          if o_wild (k_opts c) || negb (stable_landing c) then v_ok else
          if negb (src_unchanged c s) then v_specfail ci (tag t_source []) else
          if negb (N.eqb cls1 0) then v_ok else
          if negb (N.eqb cls2 0) then v_specfail ci (tag t_second_class [SN cls2]) else
          if same_state_b (view_of_list a1) (view_of_list a2) (sort_paths (paths_of_list a1 ++ paths_of_list a2))
          then v_ok
          else if parent_mode_sig c (match inc, exc with [], [] => false | _, _ => true end) a1 a2
          then v_specfail ci (SL [SL [SB [115;105;103]; SB sig_parent_mode]; tag t_idem []])
          else v_specfail ci (tag t_idem [])
        | _, _ => v_malformed
        end
      | _ => v_malformed
      end
    | _, _ => v_malformed
    end
  | _ => v_malformed
  end.
