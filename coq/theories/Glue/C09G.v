(* Decoding of C09 cases and verdicts.

   A case input is self-contained (an abstract view + options); the harness materialises it on
   disk, takes an INDEPENDENT lstat/readlink/llistxattr snapshot, runs the real walker, removes
   the directory and returns (snapshot, callbacks, error).  The snapshot part of the OUTPUT is
   the input of the model: it is ground truth obtained by syscalls that do not go through fsutil.
   Only the callbacks + error part is compared with the model. *)
From Coq Require Import List NArith Bool.
From FS Require Import Sx Model.Path Model.Stat Model.Walk.
Import ListNotations.
Open Scope N_scope.
Open Scope bool_scope.

(* RawEntry.Sx: (path mode uid gid size mtime rdev ino nlink target ((k v)...) content) *)
Definition dec_raw (s : sx) : option (bytes * lrec) :=
  match s with
  | SL [SB p; SN m; SN u; SN g; SN sz; SN mt; SN rdev; SN ino; SN nl; SB tgt; xs; SB _] =>
    x <- sx_list dec_xattr xs ;;
    Some (p, {| l_mode := m; l_uid := u; l_gid := g; l_size := sz; l_mtime := mt; l_rdev := rdev;
                l_ino := ino; l_nlink := nl; l_target := tgt; l_xattrs := x; l_dev := 0 |})
  (* kind 0903 appends st_dev *)
  | SL [SB p; SN m; SN u; SN g; SN sz; SN mt; SN rdev; SN ino; SN nl; SB tgt; xs; SB _; SN dev] =>
    x <- sx_list dec_xattr xs ;;
    Some (p, {| l_mode := m; l_uid := u; l_gid := g; l_size := sz; l_mtime := mt; l_rdev := rdev;
                l_ino := ino; l_nlink := nl; l_target := tgt; l_xattrs := x; l_dev := dev |})
  | _ => None
  end.

(* ---- snapshot (flat, any order with parents first) -> tree.  New children are put in FRONT of
        their directory, so the tree handed to the model is NOT in sorted order. ---- *)
Definition root_rec : lrec :=
  {| l_mode := 16877; l_uid := 0; l_gid := 0; l_size := 0; l_mtime := 0; l_rdev := 0; l_ino := 0;
     l_nlink := 2; l_target := []; l_xattrs := []; l_dev := 0 |}.

Fixpoint update_kid (n : bytes) (f : tree -> option tree) (kids : list (bytes * tree)) : option (list (bytes * tree)) :=
  match kids with
  | [] => None
  | (m, k) :: r =>
    if bytes_eqb n m then k' <- f k ;; Some ((m, k') :: r)
    else r' <- update_kid n f r ;; Some ((m, k) :: r')
  end.

Fixpoint insert_at (cs : list bytes) (r : lrec) (t : tree) {struct cs} : option tree :=
  match cs with
  | [] => None
  | n :: cs' =>
    match cs' with
    | [] => Some (T (t_rec t) ((n, T r []) :: t_kids t))
    | _ => kids' <- update_kid n (insert_at cs' r) (t_kids t) ;; Some (T (t_rec t) kids')
    end
  end.

Fixpoint build_tree (t : tree) (snap : list (bytes * lrec)) : option tree :=
  match snap with
  | [] => Some t
  | (p, r) :: rest => t' <- insert_at (comps p) r t ;; build_tree t' rest
  end.

Definition enc_cb (e : bytes * stat) : sx := SL [SB (fst e); enc_stat (snd e)].
Definition dec_cb (s : sx) : option (bytes * stat) :=
  match s with SL [SB p; st] => x <- dec_stat st ;; Some (p, x) | _ => None end.

(* filepath.Clean("/" + target) without its leading separator *)
Definition spec_target (target : bytes) : bytes :=
  match clean (sep :: target) with _ :: r => r | [] => [] end.

Definition cb_paths_ok (cbs : list (bytes * stat)) : bool :=
  forallb (fun e => bytes_eqb (fst e) (st_path (snd e))) cbs.

(* one walk judged on its own: model = walk_at on the tree built from the snapshot;
   specification = no error, callback path = Stat.Path, and spec_walk_b (sorted / exactly once /
   parents first / true stats incl. the hard-link rule WITHIN the walked set) on the
   implementation's callbacks against the snapshot restricted to the target. *)
Definition walk_judge (t : tree) (snap : list (bytes * lrec)) (target : bytes)
                      (cbs : list (bytes * stat)) (err : N) : sx * bool :=
  let m := SL [SL (map (fun st => enc_cb (st_path st, st)) (walk_at t target)); SN 0] in
  let tc := spec_target target in
  (m, N.eqb err 0 && cb_paths_ok cbs && spec_walk_b (parent_path tc) (snap_at snap tc) (map snd cbs)).

(* common part of kinds 0901 / 0903 *)
Definition walk_verdict (target : bytes) (snapx cbsx : sx) (err : N) (info : list (bytes * lrec) -> sx) : sx :=
  match sx_list dec_raw snapx, sx_list dec_cb cbsx with
  | Some snap, Some cbs =>
    match build_tree (T root_rec []) snap with
    | None => v_malformed
    | Some t =>
      let (m, sp) := walk_judge t snap target cbs err in
      verdict m (SL [cbsx; SN err]) (wf_tree_b t && sp) (info snap)
    end
  | _, _ => v_malformed
  end.

(* ---- walk histories: a list of steps on ONE FS value.  A step (x...) is a Walk of that target
        and has one output (callbacks err); a step that is a list (FollowLinks of those paths, which
        walks the FS internally) has no output.  Every Walk is judged on its own: neither model nor
        specification carries anything from one walk to the next (walk_at_hardlinks). ---- *)
Definition dec_walk_out (s : sx) : option (list (bytes * stat) * N) :=
  match s with SL [cbsx; SN err] => cbs <- sx_list dec_cb cbsx ;; Some (cbs, err) | _ => None end.

Fixpoint step_targets (steps : list sx) : list bytes :=
  match steps with
  | [] => []
  | SB t :: r => t :: step_targets r
  | SL [SN 1; SB t] :: r => t :: step_targets r    (* a walk whose consumer writes into the stats it receives *)
  | _ :: r => step_targets r
  end.

Fixpoint judge_all (judge : bytes -> list (bytes * stat) -> N -> sx * bool)
                   (targets : list bytes) (outs : list (list (bytes * stat) * N)) : option (list sx * bool) :=
  match targets, outs with
  | [], [] => Some ([], true)
  | tg :: r, (cbs, err) :: r' =>
    x <- judge_all judge r r' ;;
    let (m, sp) := judge tg cbs err in Some (m :: fst x, sp && snd x)
  | _, _ => None
  end.

(* kind 0904: input = (view extra-links rootform (step ...)); impl = (snapshot ((callbacks err) ...)) *)
Definition run_0904 (input impl : sx) : sx :=
  match input, impl with
  | SL [_; _; SN _; SL steps], SL [snapx; SL outsx] =>
    match sx_list dec_raw snapx, omap dec_walk_out outsx with
    | Some snap, Some outs =>
      match build_tree (T root_rec []) snap with
      | None => v_malformed
      | Some t =>
        match judge_all (walk_judge t snap) (step_targets steps) outs with
        | None => v_malformed
        | Some (ms, sp) => verdict (SL ms) (SL outsx) (wf_tree_b t && sp) (SL [])
        end
      end
    | _, _ => v_malformed
    end
  | _, _ => v_malformed
  end.

(* kind 0901: input = (view extra-links target api [rootform]); api 0 = NewFS(dir).Walk(ctx, target, fn),
   1 = fsutil.WalkDir(dir, nil), 2 = fsutil.WalkDir(dir, &FilterOpt{}), 3 = fsutil.Walk(dir, nil)
   (1-3 always walk "/").  impl = (snapshot callbacks err).
   rootform (optional) = HOW the harness names the directory to the code (the real directory, a
   symlink to it, a path through a symlinked parent, with trailing slash / "." / ".." segments,
   relative ...).  It is part of the recipe only: the snapshot is taken of the directory the name
   RESOLVES to, and neither the model nor the specification depends on the form - the callbacks
   must be the reference walk of that directory whatever it was called. *)
Definition run_0901 (input impl : sx) : sx :=
  match input, impl with
  | SL [_; _; SB target0; SN api], SL [snapx; cbsx; SN err]
  | SL [_; _; SB target0; SN api; SN _], SL [snapx; cbsx; SN err] =>
    walk_verdict (if N.eqb api 0 then target0 else [sep]) snapx cbsx err (fun _ => SL [])
  | _, _ => v_malformed
  end.

(* kind 0903: input = (view1 view2 target): the two views are materialised on two separate tmpfs
   mounts root/m1 and root/m2 (fresh file systems hand out the same inode numbers), the snapshot
   entries carry st_dev as a 13th field.  impl = (snapshot callbacks err), or (#fffc msg) when the
   sandbox cannot mount (then nothing is claimed).  Signature of the known defect: two
   non-directories with equal st_ino on different devices. *)
Definition cross_device_collision (snap : list (bytes * lrec)) : bool :=
  existsb (fun a => existsb (fun b => negb (raw_is_dir (snd a)) && negb (raw_is_dir (snd b))
                                      && N.eqb (l_ino (snd a)) (l_ino (snd b))
                                      && negb (N.eqb (l_dev (snd a)) (l_dev (snd b)))) snap) snap.
Definition sig_cross_device : sx :=
  SL [SB [115; 105; 103];
      SB [99; 114; 111; 115; 115; 45; 100; 101; 118; 105; 99; 101; 45; 105; 110; 111; 100; 101; 45; 99; 111; 108; 108; 105; 115; 105; 111; 110]].
Definition run_0903 (input impl : sx) : sx :=
  match input, impl with
  | SL [_; _; SB target], SL [snapx; cbsx; SN err] =>
    walk_verdict target snapx cbsx err
                 (fun snap => if cross_device_collision snap then SL [sig_cross_device] else SL [])
  | SL [_; _; SB _], SL [SN 65532; _] => v_ok
  | _, _ => v_malformed
  end.

(* ---- reference listing of a snapshot: sort by protocol path order, true stat of each ---- *)
Fixpoint insert_path (x : bytes * lrec) (l : list (bytes * lrec)) : list (bytes * lrec) :=
  match l with
  | [] => [x]
  | y :: l' => if path_ltb (fst y) (fst x) then y :: insert_path x l' else x :: l
  end.
Definition sort_paths (l : list (bytes * lrec)) : list (bytes * lrec) := fold_right insert_path [] l.
Definition ref_walk (snap : list (bytes * lrec)) : list stat :=
  map (fun e => spec_stat snap (fst e) (snd e)) (sort_paths snap).

(* (dirstat view extra-links [rootform]) *)
Definition dec_sd_in (s : sx) : option stat :=
  match s with SL [st; _; _] | SL [st; _; _; SN _] => dec_stat st | _ => None end.

Fixpoint zip_sds (sts : list stat) (snaps : list (list (bytes * lrec))) : option (list (subdir * list (bytes * lrec))) :=
  match sts, snaps with
  | [], [] => Some []
  | st :: r, sn :: r' =>
    t <- build_tree (T root_rec []) sn ;;
    rest <- zip_sds r r' ;;
    Some (({| sd_stat := st; sd_tree := t |}, sn) :: rest)
  | _, _ => None
  end.

Fixpoint insert_sdn (x : subdir * list (bytes * lrec)) (l : list (subdir * list (bytes * lrec))) :=
  match l with
  | [] => [x]
  | y :: l' => if path_ltb (sd_name (fst y)) (sd_name (fst x)) then y :: insert_sdn x l' else x :: l
  end.

(* strings.Cut(target, "/") re-stated: the bytes before the first separator, the bytes after it *)
Fixpoint before_sep (s : bytes) : bytes :=
  match s with [] => [] | a :: r => if N.eqb a sep then [] else a :: before_sep r end.
Fixpoint after_sep (s : bytes) : bytes :=
  match s with [] => [] | a :: r => if N.eqb a sep then r else after_sep r end.

(* one SubDirFS walk judged on its own.  err: 0 = nil, 1 = Walk (or NewFS) returned an error,
   2 = SubDirFS refused the list.  Model: walk_subdirs.
   Specification, when every name is a proper single component, names are distinct and every Stat
   is a directory: with first/rest = the target cut at its first separator, the callbacks are, for
   the sub-roots in name order WHOSE NAME IS first (all of them when first is empty), the sub-root's
   Stat followed by the reference listing of its snapshot restricted to rest (the entry rest and
   everything below it; hard-link groups within that set), prefixed with the sub-root's name (paths,
   hard-link names; absolute symlink targets re-rooted); no error; and the whole sequence is
   strictly ascending in path order.  A sub-root whose name merely starts like the target, or of
   which the target's first component is a prefix, contributes NOTHING. *)
Definition subdir_model (ds : list subdir) (target : bytes) : sx :=
  match walk_subdirs ds target with
  | None => SL [SL []; SN 2]
  | Some (out, e) => SL [SL (map enc_cb out); SN (if e then 1 else 0)]
  end.

Definition subdir_plain (zs : list (subdir * list (bytes * lrec))) : bool :=
  let names := map (fun z => sd_name (fst z)) zs in
  forallb wf_name_b names && nodup_b names
  && forallb (fun z => st_is_dir (sd_stat (fst z))) zs.
Definition subdir_wf (zs : list (subdir * list (bytes * lrec))) : bool :=
  forallb (fun z => wf_tree_b (sd_tree (fst z))) zs.

Definition subdir_expected (zs : list (subdir * list (bytes * lrec))) (target : bytes) : list stat :=
  let first := before_sep target in
  let tc := spec_target (after_sep target) in
  flat_map (fun z => if bytes_eqb first [] || bytes_eqb first (sd_name (fst z))
                     then sd_stat (fst z)
                          :: map (prefix_stat (sd_name (fst z))) (ref_walk (snap_at (snd z) tc))
                     else [])
           (fold_right insert_sdn [] zs).

(* the callbacks are exactly [expected], no error, callback path = Stat.Path, strictly ascending *)
Definition listing_ok (expected : list stat) (cbs : list (bytes * stat)) (err : N) : bool :=
  N.eqb err 0 && cb_paths_ok cbs
  && sx_eqb (SL (map enc_stat expected)) (SL (map (fun e => enc_stat (snd e)) cbs))
  && sorted_b (map (fun e => st_path (snd e)) cbs).

Definition subdir_judge (zs : list (subdir * list (bytes * lrec))) (target : bytes)
                        (cbs : list (bytes * stat)) (err : N) : sx * bool :=
  (subdir_model (map fst zs) target,
   negb (subdir_plain zs) || (subdir_wf zs && listing_ok (subdir_expected zs target) cbs err)).

(* NESTED composite (kind 0906): SubDirFS over ONE sub-root (Stat ost) whose FS is the SubDirFS over zs.
   Model: the outer subDirFS.Walk applied to the inner model walk (first component selects, the inner
   callbacks are rewritten with the outer name).  Specification (proper outer name, directory Stat,
   proper inner sub-roots): outer Stat, then the inner SPECIFICATION listing for the remainder of the
   target, prefixed with the outer name - on every walk, whatever earlier consumers did with the stats
   they were handed. *)
Definition nested_judge (ost : stat) (zs : list (subdir * list (bytes * lrec))) (target : bytes)
                        (cbs : list (bytes * stat)) (err : N) : sx * bool :=
  let oname := st_path ost in
  let first := before_sep target in
  let rest := after_sep target in
  let sel := bytes_eqb first [] || bytes_eqb first oname in
  let m :=
    if negb (bytes_eqb (base oname) oname) then SL [SL []; SN 2]
    else match walk_subdirs (map fst zs) [] with
         | None => SL [SL []; SN 2]                     (* the inner constructor refuses, whatever the target *)
         | Some _ =>
           if negb sel then SL [SL []; SN 0]
           else if negb (st_is_dir ost) then SL [SL []; SN 1]
           else match walk_subdirs (map fst zs) rest with
                | None => SL [SL []; SN 2]
                | Some (out, e) =>
                  SL [SL (map enc_cb ((oname, ost)
                                      :: map (fun c => (join2 oname (fst c), sub_rewrite oname (snd c))) out));
                      SN (if e then 1 else 0)]
                end
         end in
  let plain := wf_name_b oname && st_is_dir ost && subdir_plain zs in
  let expected := if sel then ost :: map (prefix_stat oname) (subdir_expected zs rest) else [] in
  (m, negb plain || (subdir_wf zs && listing_ok expected cbs err)).

(* kind 0902: input = (((dirstat view extra-links [rootform]) ...) target); impl = ((snapshot ...) callbacks err) *)
Definition run_0902 (input impl : sx) : sx :=
  match input, impl with
  | SL [SL sdsx; SB target], SL [SL snapsx; cbsx; SN err]
  | SL [SL sdsx; SB target; SN _], SL [SL snapsx; cbsx; SN err] =>   (* optional flag: the consumer writes into the stats *)
    match omap dec_sd_in sdsx, omap (sx_list dec_raw) snapsx, sx_list dec_cb cbsx with
    | Some sts, Some snaps, Some cbs =>
      match zip_sds sts snaps with
      | None => v_malformed
      | Some zs =>
        let (m, sp) := subdir_judge zs target cbs err in
        verdict m (SL [cbsx; SN err]) sp (SL [])
      end
    | _, _, _ => v_malformed
    end
  | _, _ => v_malformed
  end.

(* kind 0905: input = (((dirstat view extra-links [rootform]) ...) (step ...));
   impl = ((snapshot ...) ((callbacks err) ...)): a walk history on ONE SubDirFS value *)
Definition run_0905 (input impl : sx) : sx :=
  match input, impl with
  | SL [SL sdsx; SL steps], SL [SL snapsx; SL outsx] =>
    match omap dec_sd_in sdsx, omap (sx_list dec_raw) snapsx, omap dec_walk_out outsx with
    | Some sts, Some snaps, Some outs =>
      match zip_sds sts snaps with
      | None => v_malformed
      | Some zs =>
        match judge_all (subdir_judge zs) (step_targets steps) outs with
        | None => v_malformed
        | Some (ms, sp) => verdict (SL ms) (SL outsx) sp (SL [])
        end
      end
    | _, _, _ => v_malformed
    end
  | _, _ => v_malformed
  end.

(* kind 0906: input = (outer-dirstat ((dirstat view extra-links [rootform]) ...) (step ...));
   impl = ((snapshot ...) ((callbacks err) ...)): walk history on ONE nested composite *)
Definition run_0906 (input impl : sx) : sx :=
  match input, impl with
  | SL [ostx; SL sdsx; SL steps], SL [SL snapsx; SL outsx] =>
    match dec_stat ostx, omap dec_sd_in sdsx, omap (sx_list dec_raw) snapsx, omap dec_walk_out outsx with
    | Some ost, Some sts, Some snaps, Some outs =>
      match zip_sds sts snaps with
      | None => v_malformed
      | Some zs =>
        match judge_all (nested_judge ost zs) (step_targets steps) outs with
        | None => v_malformed
        | Some (ms, sp) => verdict (SL ms) (SL outsx) sp (SL [])
        end
      end
    | _, _, _, _ => v_malformed
    end
  | _, _ => v_malformed
  end.
