(* Decoding of the diff-level C02 cases (kinds 0201, 0202) and verdicts. *)
From Coq Require Import List NArith Bool.
From FS Require Import Sx Model.Path Model.Stat Model.Diff.
Import ListNotations.
Open Scope N_scope.

Definition differ_of (n : N) : differ := if N.eqb n 0 then DMetadata else DNone.

Definition upd_owner (s : stat) (u g : N) : stat :=
  {| st_path := st_path s; st_mode := st_mode s; st_uid := u; st_gid := g; st_size := st_size s;
     st_mtime := st_mtime s; st_linkname := st_linkname s; st_devmajor := st_devmajor s;
     st_devminor := st_devminor s; st_xattrs := st_xattrs s |}.
Definition upd_mtime (s : stat) (m : N) : stat :=
  {| st_path := st_path s; st_mode := st_mode s; st_uid := st_uid s; st_gid := st_gid s; st_size := st_size s;
     st_mtime := m; st_linkname := st_linkname s; st_devmajor := st_devmajor s;
     st_devminor := st_devminor s; st_xattrs := st_xattrs s |}.

(* the FilterFunc handed to doubleWalkDiff by the harness:
   0 nil, 1 uid/gid := 0, 2 mtime := 0, 3 clears the directory bit (violates the theorems'
   hypothesis on filters: used only for model = implementation) *)
Definition flt_of (n : N) : stat -> stat :=
  if N.eqb n 1 then (fun s => upd_owner s 0 0)
  else if N.eqb n 2 then (fun s => upd_mtime s 0)
  else if N.eqb n 3 then (fun s => set_mode s (N.land (st_mode s) (ModeDir - 1)))
  else (fun s => s).
Definition flt_keeps_dir (n : N) : bool := negb (N.eqb n 3).

Definition kind_code (k : ckind) : N := match k with KAdd => 0 | KModify => 1 | KDelete => 2 end.
Definition enc_change (c : change) : sx :=
  SL [SN (kind_code (ch_kind c)); SB (ch_path c);
      match ch_stat c with Some s => enc_stat s | None => SL [] end].
Definition dec_change (s : sx) : option change :=
  match s with
  | SL [SN k; SB p; st] =>
    kd <- (if N.eqb k 0 then Some KAdd else if N.eqb k 1 then Some KModify
           else if N.eqb k 2 then Some KDelete else None) ;;
    match st with
    | SL [] => Some (kd, p, None)
    | _ => s' <- dec_stat st ;; Some (kd, p, Some s')
    end
  | _ => None
  end.

(* kind 0201: input = (differ filter (stat ...) (stat ...)) = the two listings handed to the
   REAL doubleWalkDiff through the hook VerifDoubleWalkDiff; impl = ((kind path stat|()) ...)
   recorded by the change callback, or (#ffff ...) on error / panic / hang.
   Model: Diff.diff.  Specification oracle: Diff.diff_spec_b (set-based: every reported
   change is asked for, every change asked for is reported, no path twice) evaluated on the
   implementation's list; it applies when both listings are well-formed (sorted,
   ancestor-closed) and the filter keeps the directory bit. *)
Definition run_0201 (input impl : sx) : sx :=
  match input with
  | SL [SN dc; SN fc; a; b] =>
    match sx_list dec_stat a, sx_list dec_stat b with
    | Some A, Some B =>
      let d := differ_of dc in
      let f := flt_of fc in
      let m := match diff_opt f d A B with
               | Some l => SL (map enc_change l)
               | None => SL [SN 65534]
               end in
      let applies := listing_ok_b A && listing_ok_b B && flt_keeps_dir fc in
      let sp := if applies then
                  match sx_list dec_change impl with
                  | Some out => diff_spec_b f d A B out
                  | None => false
                  end
                else true in
      verdict m impl sp (SL [])
    | _, _ => v_malformed
    end
  | _ => v_malformed
  end.

(* kind 0202: input = (differ statA statB); impl = (#bool) from the real sameFile (hook
   VerifSameFile).  Model: same_file.  Oracle: equality of the identity keys (DiffNone:
   never the same). *)
Definition run_0202 (input impl : sx) : sx :=
  match input with
  | SL [SN dc; a; b] =>
    match dec_stat a, dec_stat b with
    | Some sa, Some sb =>
      let d := differ_of dc in
      let m := SL [of_bool (same_file d sa sb)] in
      let sp := SL [of_bool (match d with DNone => false
                             | DMetadata => key_eqb (identity_key sa) (identity_key sb) end)] in
      verdict m impl (sx_eqb sp impl) sp
    | _, _ => v_malformed
    end
  | _ => v_malformed
  end.
