(* Decoding of C18 cases and verdicts. *)
From Coq Require Import List NArith Bool String Ascii.
From FS Require Import Sx Model.Path Model.Stat Model.Tree Model.FollowLinks Model.Pattern.
Import ListNotations.
Open Scope N_scope.
Open Scope bool_scope.

Fixpoint bs (s : string) : bytes :=
  match s with
  | EmptyString => []
  | String a r => N_of_ascii a :: bs r
  end.

Definition dec_case (input : sx) : option (list node * list bytes) :=
  match input with
  | SL [v; rs] => view <- dec_view v ;; reqs <- sx_list sx_B rs ;; Some (view, reqs)
  | _ => None
  end.

Definition enc_result (r : result (option (list bytes))) : sx :=
  match r with
  | Ok None => SL [SN 0; SN 1; SL []]
  | Ok (Some l) => SL [SN 0; SN 0; SL (map SB l)]
  | OutOfFuel => SL [SN 2]
  end.

(* what the implementation returned: Some (isnil, list) or None for error / hang / panic *)
Definition dec_impl (impl : sx) : option (bool * list bytes) :=
  match impl with
  | SL [SN 0; n; l] => b <- sx_bool n ;; ps <- sx_list sx_B l ;; Some (b, ps)
  | _ => None
  end.

(* string constants are evaluated here so that Coq's [string] type is not extracted
   (it would shadow OCaml's in the generic driver) *)
Definition k_sig : bytes := Eval compute in bs "sig".
Definition k_revisit : bytes := Eval compute in bs "revisit-with-new-remainder".
Definition k_lexical : bytes := Eval compute in bs "lexical-dotdot-across-symlink".
Definition k_wildmid : bytes := Eval compute in bs "wildcard-middle-component-not-followed".
Definition k_linkglob : bytes := Eval compute in bs "link-target-component-read-as-pattern".
Definition k_reinterp : bytes := Eval compute in bs "follow-path-result-reinterpreted-as-pattern".
Definition k_term : bytes := Eval compute in bs "terminated-ok".
Definition k_sorted : bytes := Eval compute in bs "sorted".
Definition k_minimal : bytes := Eval compute in bs "minimal".
Definition k_nilok : bytes := Eval compute in bs "nil-ok".
Definition k_closed : bytes := Eval compute in bs "closed".
Definition k_missing : bytes := Eval compute in bs "missing".
Definition k_walkok : bytes := Eval compute in bs "walk-ok".
Definition sig (s : bytes) : sx := SL [SB k_sig; SB s].
Definition flag (s : bytes) (b : bool) : sx := SL [SB s; of_bool b].

(* kinds 1801 (MemFS) and 1804 (the same view materialised on disk, real fs.Walk):
   input = (view (req ...)); impl = (#0 nil? (path ...)) | (#1 msg) error | (#2) hang | (#3 msg) panic.
   Specification evaluated on what the implementation returned: terminated without
   error, sorted bytewise, no element inside another, nil only as an empty list, and
   closed w.r.t. the independent resolver chroot_resolve (every wildcard expansion). *)
Definition run_1801 (input impl : sx) : sx :=
  match dec_case input with
  | None => v_malformed
  | Some (view, reqs) =>
    let fuel := fuel_bound_fast view reqs in
    let m := enc_result (follow_links_opt go_match view fuel reqs) in
    match dec_impl impl with
    | None => v_specfail m (SL [flag k_term false])
    | Some (isnil, res) =>
      let srt := sorted_b res in
      let mini := minimal_b res in
      let nilok := if isnil then is_nil res else true in
      let closed := closed_b go_match view isnil res reqs in
      let spec := srt && mini && nilok && closed in
      let s :=
        if negb closed then
          if negb (no_revisit go_match view fuel reqs) then [sig k_revisit]
          else if negb (lexical_safe view reqs) then [sig k_lexical]
          else if negb (wild_last_only reqs) then [sig k_wildmid]
          else if negb (links_literal view) then [sig k_linkglob]
          else []
        else [] in
      verdict m impl spec (SL (s ++ [flag k_sorted srt; flag k_minimal mini; flag k_nilok nilok;
                                      flag k_closed closed]))
    end
  end.

(* kind 1802: input = (pattern name); impl = (#b) from path/filepath.Match (error = false).
   Validates go_match, the concrete matcher plugged into the model; no separate specification. *)
Definition run_1802 (input impl : sx) : sx :=
  match input with
  | SL [SB p; SB n] => verdict (SL [of_bool (go_match p n)]) impl true (SL [])
  | _ => v_malformed
  end.

(* kind 1803: input = (string ...); impl = ((dedupePaths(sort.Strings(in)) ...) nil? (containsWildcards(s) ...)).
   Validates sort_bytes / dedupe_paths / contains_wildcards against the Go functions.
   Specification on the implementation's list: sorted; sub-list of the input. *)
Definition run_1803 (input impl : sx) : sx :=
  match sx_list sx_B input with
  | None => v_malformed
  | Some l =>
    let d := dedupe_paths (sort_bytes l) in
    let m := SL [SL (map SB (match d with Some x => x | None => [] end));
                 of_bool (match d with None => true | _ => false end);
                 SL (map (fun s => of_bool (contains_wildcards s)) l)] in
    verdict m impl true (SL [])
  end.

(* kind 1805: end to end.  input = (view (req ...)); impl = (#0 (path ...)) = the paths a walk of
   NewFilterFS(MemFS(view), {FollowPaths: reqs}) reports | (#1 msg).
   Specification: every symlink chroot_resolve traverses and the entry it reaches is reported. *)
Fixpoint mem_c (x : list bytes) (l : list (list bytes)) : bool :=
  match l with [] => false | y :: r => comps_eqb x y || mem_c x r end.

Definition needs (view : list node) (reqs : list bytes) : list (list bytes) :=
  flat_map (fun p => flat_map (fun r => traversed r ++ match final r with Reached q => match q with [] => [] | _ => [q] end | Failed => [] end)
                              (chroot_resolve_all go_match view p)) reqs.

(* an element of the FollowLinks result that patternmatcher.New does not read as the literal path
   it is: a leading '!' (exclusion), leading / trailing white space (TrimSpace), or a backslash
   (escape character; a trailing one is ErrBadPattern) *)
Definition reinterpreted (s : bytes) : bool :=
  match s with c :: _ => N.eqb c bang | [] => false end ||
  existsb (N.eqb 92) s || negb (bytes_eqb (trim_space s) s).
Definition result_reinterpreted (view : list node) (reqs : list bytes) : bool :=
  match follow_links_opt go_match view (fuel_bound_fast view reqs) reqs with
  | Ok (Some l) => existsb reinterpreted l
  | _ => false
  end.

(* second clause of kind 1805: everything the returned include set SELECTS is walked.  The
   elements of the FollowLinks result are include patterns; an entry of the tree is selected
   when an element, read component-wise with filepath.Match, matches it or one of its
   ancestors (the naive reference of C10 for an include-only list); the walk must report
   every selected entry and every directory above one. *)
Fixpoint nonempty_prefixes (q : list bytes) : list (list bytes) :=
  match q with
  | [] => []
  | c :: r => [c] :: map (cons c) (nonempty_prefixes r)
  end.
Definition selected_paths (view : list node) (res : list bytes) : list (list bytes) :=
  flat_map nonempty_prefixes (filter (covered go_match res) (all_cpaths view)).
Definition k_unwalked : bytes := Eval compute in bs "selected-not-walked".

Definition run_1805 (input impl : sx) : sx :=
  match dec_case input with
  | None => v_malformed
  | Some (view, reqs) =>
    match impl with
    | SL [SN 0; l; fl] =>
      match sx_list sx_B l with
      | None => v_malformed
      | Some walked =>
        let w := map comps walked in
        let missing := filter (fun q => negb (mem_c q w)) (needs view reqs) in
        let fuel := fuel_bound_fast view reqs in
        let s1 :=
          if negb (no_revisit go_match view fuel reqs) then [sig k_revisit]
          else if negb (lexical_safe view reqs) then [sig k_lexical]
          else if negb (wild_last_only reqs) then [sig k_wildmid]
          else if negb (links_literal view) then [sig k_linkglob]
          else if result_reinterpreted view reqs then [sig k_reinterp]
          else [] in
        (* the include set the implementation merged: what the real FollowLinks answered *)
        let '(unwalked, s2) :=
          match dec_impl fl with
          | Some (false, res) =>
            (filter (fun q => negb (mem_c q w)) (selected_paths view res),
             if existsb reinterpreted res then [sig k_reinterp] else [])
          | Some (true, _) => (* nil: no filter at all, every entry is walked *)
            (filter (fun q => negb (mem_c q w)) (all_cpaths view), [])
          | None => ([], [])
          end in
        let fail1 := negb (is_nil missing) in
        let fail2 := negb (is_nil unwalked) in
        (* a signature is reported only when EVERY failing clause is explained by one *)
        let s := if fail2 && is_nil s2 then [] else if fail1 then s1 else s2 in
        (* no model of the filter walk here (that is C10): the "model" column repeats impl *)
        verdict impl impl (negb fail1 && negb fail2)
                (SL (s ++ [SL (SB k_missing :: map (fun q => SB (key q)) missing);
                           SL (SB k_unwalked :: map (fun q => SB (key q)) unwalked)]))
      end
    | _ => (* NewFilterFS / the walk failed: a link target read as a (malformed) pattern makes the
              include list invalid *)
      v_specfail (SL []) (SL ((if negb (links_literal view) then [sig k_linkglob]
                               else if result_reinterpreted view reqs then [sig k_reinterp] else []) ++ [flag k_walkok false]))
    end
  end.

(* kind 1806: the transfer itself.  input = (view (req ...) ((alias first) ...)): the view written
   to disk (aliases = further names of the symlink inode at [first]; in the view they are symlinks
   with the same target), sent through NewFS -> NewFilterFS(FollowPaths) -> Send / Receive.
   impl = (#0 copy-view) | (#1 msg) | (#2).
   Specification (transfer clause of C18): every symlink chroot_resolve traverses for every
   request, and the entry it reaches, exists in the copy with the same type, the same link
   target and the same bytes - so every request resolves in the copy as in the source. *)
Definition k_differs : bytes := Eval compute in bs "differs-in-copy".
Definition same_entry (a b : node) : bool :=
  Bool.eqb (node_is_dir a) (node_is_dir b) && Bool.eqb (node_is_symlink a) (node_is_symlink b) &&
  (if node_is_symlink a then bytes_eqb (node_link a) (node_link b) else true) &&
  (if node_is_dir a || node_is_symlink a then true else bytes_eqb (node_content a) (node_content b)).
Definition in_copy (view copy : list node) (x : list bytes) : bool :=
  match lookup view x, lookup copy x with
  | Some a, Some b => same_entry a b
  | None, _ => true
  | Some _, None => false
  end.

Definition run_1806 (input impl : sx) : sx :=
  match input with
  | SL [v; rs; _] =>
    match dec_case (SL [v; rs]) with
    | None => v_malformed
    | Some (view, reqs) =>
      let fuel := fuel_bound_fast view reqs in
      let s :=
        if negb (no_revisit go_match view fuel reqs) then [sig k_revisit]
        else if negb (lexical_safe view reqs) then [sig k_lexical]
        else if negb (wild_last_only reqs) then [sig k_wildmid]
        else if negb (links_literal view) then [sig k_linkglob]
        else if result_reinterpreted view reqs then [sig k_reinterp]
        else [] in
      match impl with
      | SL [SN 0; cv] =>
        match dec_view cv with
        | None => v_malformed
        | Some copy =>
          let bad := filter (fun x => negb (in_copy view copy x)) (needs view reqs) in
          verdict impl impl (is_nil bad) (SL (s ++ [SL (SB k_differs :: map (fun q => SB (key q)) bad)]))
        end
      | _ => v_specfail (SL []) (SL (s ++ [flag k_walkok false]))
      end
    end
  | _ => v_malformed
  end.
