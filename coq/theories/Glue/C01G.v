(* Decoding of C01 cases and verdicts. *)
From Coq Require Import List NArith Bool.
From FS Require Import Sx Model.Path Model.Stat Model.Tree Model.Converge.
Import ListNotations.
Open Scope N_scope.

(* kind 0101: input = (srcView priorView merge srckind cap differ notify ...);
   impl = (send_err recv_err hung dest_raw reqs notifs).
   Specification (C01): both calls returned success => converged (identity_faithful excluded by hypothesis).
   The verdict is spec-only on this kind: info = (#reason). *)
Definition run_0101 (input impl : sx) : sx :=
  match input, impl with
  | SL (sv :: pv :: mg :: _), SL [SN se; SN re; SN hung; dr; _; _] =>
    match dec_view sv, dec_view pv, sx_bool mg, sx_list dec_raw dr with
    | Some src, Some prior, Some merge, Some dest =>
      let s := walk_root src in
      let p := walk_root prior in
      let success := N.eqb se 0 && N.eqb re 0 && N.eqb hung 0 in
      let holds :=
        if success then (if identity_faithful p s || merge then converged merge p s dest else true)
        else false in   (* a fault-free transfer of a valid view must succeed *)
      verdict impl impl holds (SL (SN (if success then 1 else 2) :: (if success then converged_diag merge p s dest else [])))
    | _, _, _, _ => v_malformed
    end
  | _, _ => v_malformed
  end.
