(* Decoding of C01 cases and verdicts. *)
From Coq Require Import List NArith Bool.
From FS Require Import Sx Model.Path Model.Stat Model.Tree Model.Converge.
Import ListNotations.
Open Scope N_scope.

(* kind 0101: input = (srcView priorView merge srckind cap differ notify ...);
   impl = (send_err recv_err hung dest_raw reqs notifs).
   Specification (C01): both calls returned success => converged (identity_faithful excluded by hypothesis).
   The verdict is spec-only on this kind: info = (#reason). *)
Definition run_0101 (input impl : sx) : sx :=
  match input, impl with
  | SL (sv :: pv :: mg :: _), SL [SN se; SN re; SN hung; dr; _; _] =>
    match dec_view sv, dec_view pv, sx_bool mg, sx_list dec_raw dr with
    | Some src, Some prior, Some merge, Some dest =>
      let unpriv := match input with SL [_; _; _; _; _; _; _; SN u] => negb (N.eqb u 0) | _ => false end in
      (* the unprivileged receiver rewrites owners to its own id (1000) through the Filter option *)
      let own (e : entry) : entry :=
        if unpriv then
          (let s := fst e in
           {| st_path := st_path s; st_mode := st_mode s; st_uid := 1000; st_gid := 1000; st_size := st_size s;
              st_mtime := st_mtime s; st_linkname := st_linkname s; st_devmajor := st_devmajor s;
              st_devminor := st_devminor s; st_xattrs := st_xattrs s |}, snd e)
        else e in
      let s := map own (walk_root src) in
      let p := map own (walk_root prior) in
      let success := N.eqb se 0 && N.eqb re 0 && N.eqb hung 0 in
      let holds :=
        if success then (if identity_faithful p s || merge then converged merge p s dest else true)
        else false in   (* a fault-free transfer of a valid view must succeed *)
      let diag := if success then converged_diag merge p s dest else [] in
      (* known finding: an unprivileged receiver cannot set user.* xattrs on a file it created
         without owner write permission (LSetxattr fails with EACCES, the error is ignored) *)
      let ro_xattr_item (it : sx) : bool :=
        match it with
        | SL [SB path; SN c] =>
          N.eqb c 8 && match find_entry path s with
                       | Some (st, _) => N.eqb (N.land (st_mode st) 128) 0
                       | None => false end
        | _ => false end in
      let sig := if unpriv && negb (Nat.eqb (length diag) 0) && forallb ro_xattr_item diag
                 then [SL [SB [115;105;103]; SB [117;110;112;114;105;118;45;114;101;97;100;111;110;108;121;45;120;97;116;116;114;115]]]
                 else [] in   (* (sig "unpriv-readonly-xattrs") *)
      verdict impl impl holds (SL (SN (if success then 1 else 2) :: diag ++ sig))
    | _, _, _, _ => v_malformed
    end
  | _, _ => v_malformed
  end.
