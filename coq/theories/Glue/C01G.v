(* Decoding of C01 cases and verdicts. *)
From Coq Require Import List NArith Bool.
From FS Require Import Sx Model.Path Model.Stat Model.Tree Model.Diff Model.AbsDest Model.Converge Model.ConvergeA.
From FS Require Model.Walk.
Import ListNotations.
Open Scope N_scope.

(* ---- comparison of the real snapshot with the view predicted by the level-A model
        (receive_t of Model/ConvergeA.v = receive_abs of AbsDest + directory mtimes) ---- *)
(* "some time during the transfer": the model's clock; never a real int64 *)
Definition c01_sentinel : N := 18446744073709551616.

Definition c01_xsub (a b : list (bytes * bytes)) : bool :=
  forallb (fun kv => match xget (fst kv) b with Some kv' => bytes_eqb (snd kv) (snd kv') | None => false end) a.
Definition c01_xsame (a b : list (bytes * bytes)) : bool := c01_xsub a b && c01_xsub b a.

(* first field in which the real entry r differs from the predicted entry m (0 = none) *)
Definition c01_obs_diff (unpriv : bool) (m r : obs) : N :=
  let ty := o_type m in
  if negb (N.eqb ty (o_type r)) then 1
  else if negb (N.eqb ty S_IFLNK || N.eqb (o_perm m) (o_perm r)) then 2
  else if negb (N.eqb (o_uid m) (o_uid r) && N.eqb (o_gid m) (o_gid r)) then 3
  else if negb (N.eqb (o_mtime m) c01_sentinel || N.eqb (o_mtime m) (o_mtime r)) then 4
  else if negb (if N.eqb ty S_IFREG then bytes_eqb (o_content m) (o_content r) else true) then 5
  else if negb (if N.eqb ty S_IFLNK then bytes_eqb (o_target m) (o_target r) else true) then 6
  else if negb (if N.eqb ty S_IFCHR || N.eqb ty S_IFBLK
                then N.eqb (o_major m) (o_major r) && N.eqb (o_minor m) (o_minor r) else true) then 7
  else if negb (if N.eqb ty S_IFDIR then c01_xsame (o_xattrs m) (o_xattrs r)
                else if N.eqb ty S_IFREG then
                  (* known finding unpriv-readonly-xattrs: not judged here *)
                  (unpriv && N.eqb (N.land (o_perm m) 128) 0) || c01_xsame (o_xattrs m) (o_xattrs r)
                else true) then 8
  else 0.

Definition c01_model_diff (unpriv : bool) (pred real : list obs) : list sx :=
  flat_map (fun m => match find_obs (o_path m) real with
                     | Some r => let c := c01_obs_diff unpriv m r in
                                 if N.eqb c 0 then [] else [SL [SB (o_path m); SN c]]
                     | None => [SL [SB (o_path m); SN 100]] end) pred
  ++ flat_map (fun r => match find_obs (o_path r) pred with
                        | Some _ => [] | None => [SL [SB (o_path r); SN 101]] end) real
  (* inode partition over all non-directories *)
  ++ flat_map (fun m1 => flat_map (fun m2 =>
       if N.eqb (o_type m1) S_IFDIR || N.eqb (o_type m2) S_IFDIR then [] else
       match find_obs (o_path m1) real, find_obs (o_path m2) real with
       | Some r1, Some r2 =>
         if Bool.eqb (N.eqb (o_ino m1) (o_ino m2)) (N.eqb (o_ino r1) (o_ino r2)) then []
         else [SL [SB (o_path m1); SB (o_path m2); SN 102]]
       | _, _ => [] end) pred) pred.

(* kind 0101: input = (srcView priorView merge srckind cap differ notify ...);
   impl = (send_err recv_err hung dest_raw reqs notifs).
   Specification (C01): both calls returned success => converged (identity_faithful excluded by hypothesis).
   The verdict is spec-only on this kind: info = (#reason). *)
Definition run_0101 (input impl : sx) : sx :=
  match input, impl with
  | SL (sv :: pv :: mg :: _), SL [SN se; SN re; SN hung; dr; _; _] =>
    match dec_view sv, dec_view pv, sx_bool mg, sx_list dec_raw dr with
    | Some src, Some prior, Some merge, Some dest =>
      let unpriv := match input with SL (_ :: _ :: _ :: _ :: _ :: _ :: _ :: SN u :: _) => negb (N.eqb u 0) | _ => false end in
      (* the unprivileged receiver rewrites owners to its own id (1000) through the Filter option *)
      let own (e : entry) : entry :=
        if unpriv then
          (let s := fst e in
           {| st_path := st_path s; st_mode := st_mode s; st_uid := 1000; st_gid := 1000; st_size := st_size s;
              st_mtime := st_mtime s; st_linkname := st_linkname s; st_devmajor := st_devmajor s;
              st_devminor := st_devminor s; st_xattrs := st_xattrs s |}, snd e)
        else e in
      let s := map own (walk_root src) in
      let p := map own (walk_root prior) in
      let success := N.eqb se 0 && N.eqb re 0 && N.eqb hung 0 in
      let differ := match input with SL (_ :: _ :: _ :: _ :: _ :: SN df :: _) => if N.eqb df 0 then DMetadata else DNone
                    | _ => DMetadata end in
      let faithful := identity_faithful_b differ p s in
      let holds :=
        if success then (if Converge.identity_faithful p s || merge then converged merge p s dest else true)
        else false in   (* a fault-free transfer of a valid view must succeed *)
      let diag := if success then converged_diag merge p s dest else [] in
      (* the level-A model's prediction is judged on EVERY successful transfer — also on the identity
         collisions that the specification excludes by hypothesis: there the model predicts that the
         old bytes stay (unrestricted_convergence_refuted), and so does the code *)
      let judged := success in
      (* every case lies in the domain of the theorems: both listings are wf_entries, and wherever the
         oracle is judged (Converge.identity_faithful) the hypothesis of diff_apply_converges holds *)
      let in_domain := match input with
                       | SL [_; _; _; _; _; _; _; _; _] =>      (* generated case (hand-written corpus cases may lie outside) *)
                         wf_entries_b p && wf_entries_b s
                         && (merge || negb (Converge.identity_faithful p s) || faithful)
                       | _ => true end in
      let pred := view_x p (receive_t (fun _ => c01_sentinel) (if merge then Merge else Fresh) differ p s) in
      let mdiff := if judged then c01_model_diff unpriv pred (map obs_of_raw dest) else [] in
      (* the generator's count of identity collisions (cases excluded by hypothesis) is the glue's decision *)
      let flag_ok := match input with
                     | SL [_; _; _; _; _; _; _; _; SN f] => Bool.eqb (negb (N.eqb f 0)) (negb (Converge.identity_faithful p s))
                     | _ => true end in
      let model := if negb flag_ok then SL [SB [99;111;108;108;105;115;105;111;110;45;102;108;97;103]]   (* "collision-flag" *)
                   else if negb in_domain then SL [SB [110;111;116;45;119;102]]                           (* "not-wf" *)
                   else match mdiff with [] => impl | _ => SL (SB [109;111;100;101;108] :: mdiff) end in   (* "model" *)
      (* known finding: an unprivileged receiver cannot set user.* xattrs on a file it created
         without owner write permission (LSetxattr fails with EACCES, the error is ignored) *)
      let ro_xattr_item (it : sx) : bool :=
        match it with
        | SL [SB path; SN c] =>
          N.eqb c 8 && match find_entry path s with
                       | Some (st, _) => N.eqb (N.land (st_mode st) 128) 0
                       | None => false end
        | _ => false end in
      let sig := if unpriv && negb (Nat.eqb (length diag) 0) && forallb ro_xattr_item diag
                 then [SL [SB [115;105;103]; SB [117;110;112;114;105;118;45;114;101;97;100;111;110;108;121;45;120;97;116;116;114;115]]]
                 else [] in   (* (sig "unpriv-readonly-xattrs") *)
      verdict model impl holds (SL (SN (if success then 1 else 2) :: diag ++ sig))
    | _, _, _, _ => v_malformed
    end
  | _, _ => v_malformed
  end.

(* ------------------------------------------------------------------------------------------
   kind 0102: HISTORIES.  One on-disk source directory, one fsutil.FS object (NewFS) that is
   reused for several Send calls (or re-made, a flag of the input); between the syncs the source
   is edited with real syscalls (replace a name by a new inode through rename, delete, re-create,
   link, overwrite in place, chmod, rename); every sync goes into the persistent destination or
   into a fresh one.
   impl = ((send_err recv_err hung src_raw prior_raw dest_raw) ...), one record per sync: the
   independent lstat snapshots of the source and of the destination taken just before the sync,
   and of the destination after it.  Nothing of the input is trusted: the view the sender's FS must
   expose IS the specification walk (Model/Walk.v spec_stat, C09) of the source snapshot, the old
   destination listing that of the prior snapshot.  Specification: convergence after EVERY sync. *)
Definition c01_lrec (d : raw) : Walk.lrec :=
  {| Walk.l_mode := r_mode d; Walk.l_uid := r_uid d; Walk.l_gid := r_gid d; Walk.l_size := r_size d;
     Walk.l_mtime := r_mtime d; Walk.l_rdev := r_rdev d; Walk.l_ino := r_ino d; Walk.l_nlink := r_nlink d;
     Walk.l_target := r_target d; Walk.l_xattrs := r_xattrs d; Walk.l_dev := 0 |}.

Definition c01_listing (snap : list raw) : list entry :=
  let ls := map (fun d => (r_path d, c01_lrec d)) snap in
  map (fun d => (Walk.spec_stat ls (r_path d) (c01_lrec d), r_content d)) snap.

(* (holds, diagnostics of the oracle, disagreements with the model) of one sync *)
Definition c01_sync (one : sx) : option (bool * list sx * list sx) :=
  match one with
  | SL [SN se; SN re; SN hung; sr; pr; dr] =>
    src <- sx_list dec_raw sr ;; prior <- sx_list dec_raw pr ;; dest <- sx_list dec_raw dr ;;
    let s := c01_listing src in
    let p := c01_listing prior in
    let success := N.eqb se 0 && N.eqb re 0 && N.eqb hung 0 in
    let holds := if success then (if Converge.identity_faithful p s then converged false p s dest else true) else false in
    let diag := if success then converged_diag false p s dest else [SL [SB []; SN 200]] in
    let in_domain := wf_entries_b p && wf_entries_b s in
    let pred := view_x p (receive_t (fun _ => c01_sentinel) Fresh DMetadata p s) in
    let mdiff := if negb success then []
                 else if negb in_domain then [SL [SB [110;111;116;45;119;102]]]          (* "not-wf" *)
                 else c01_model_diff false pred (map obs_of_raw dest) in
    Some (holds, diag, mdiff)
  | _ => None
  end.

Fixpoint c01_syncs (i : N) (l : list sx) : option (bool * list sx * list sx) :=
  match l with
  | [] => Some (true, [], [])
  | one :: r =>
    x <- c01_sync one ;; y <- c01_syncs (i + 1) r ;;
    let '(h1, d1, m1) := x in let '(h2, d2, m2) := y in
    Some (h1 && h2,
          (match d1 with [] => [] | _ => [SL (SN i :: d1)] end) ++ d2,
          (match m1 with [] => [] | _ => [SL (SN i :: m1)] end) ++ m2)
  end.

Definition run_0102 (input impl : sx) : sx :=
  match impl with
  | SL (SL _ :: _ as recs) =>
    match c01_syncs 0 recs with
    | Some (holds, diag, mdiff) =>
      let model := match mdiff with [] => impl | _ => SL (SB [109;111;100;101;108] :: mdiff) end in
      verdict model impl holds (SL (SN 1 :: diag))
    | None => v_malformed
    end
  | SL [] => verdict impl impl true (SL [])          (* a history without a sync *)
  | _ => verdict impl impl false (SL [SN 3])         (* set-up failure reported by the harness *)
  end.
