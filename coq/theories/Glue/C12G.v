(* Decoding of C12 cases and verdicts. *)
From Coq Require Import List NArith Bool.
From FS Require Import Sx Model.Path Model.Validator.
Import ListNotations.
Open Scope N_scope.

Definition dec_vitem (s : sx) : option vitem :=
  match s with
  | SL [SN k; SB p; d] => b <- sx_bool d ;; Some {| vkind := k; vpath := p; visdir := b |}
  | _ => None
  end.

(* kind 1201: input = list of (kind path isdir); impl = () | (idx): index of the first
   change rejected by the real Validator.  Spec oracle: spec_first_bad. *)
Definition run_1201 (input impl : sx) : sx :=
  match sx_list dec_vitem input with
  | None => v_malformed
  | Some its =>
    let m := of_optnat (run_validator its) in
    let sp := of_optnat (spec_first_bad its) in
    verdict m impl (sx_eqb sp impl) sp
  end.

(* kind 1202: input = (p q); impl = (#cmp) with 0 Lt, 1 Eq, 2 Gt from the real ComparePath.
   Spec oracle: component-wise comparison lex_cmp (comps p) (comps q). *)
Definition run_1202 (input impl : sx) : sx :=
  match input with
  | SL [SB p; SB q] =>
    let m := SL [of_cmp (compare_path p q)] in
    let sp := SL [of_cmp (lex_cmp (comps p) (comps q))] in
    verdict m impl (sx_eqb sp impl) sp
  | _ => v_malformed
  end.

(* kind 1203: input = (p); impl = (Clean(p) IsAbs(p) Dir(p) Base(p)) from path/filepath.
   No separate specification: this validates the model of the Go standard library
   functions the validator is built on (a disagreement is a model defect). *)
Definition run_1203 (input impl : sx) : sx :=
  match input with
  | SL [SB p] =>
    let m := SL [SB (clean p); of_bool (is_abs p); SB (dir p); SB (base p)] in
    verdict m impl true (SL [])
  | _ => v_malformed
  end.
