(* Decoding of C16 cases and verdicts.
   kind 1601: real copy.Copy with IncludePatterns/ExcludePatterns into an empty or populated
              destination vs the model (CopierSel.copy_sel) and the declarative specification
              (flat_items over the NAIVE verdict + spec_ent + first_conflict).
   kind 1602: the same source tree and patterns through real copy.Copy (empty destination) and
              through real fsutil.NewFilterFS(NewFS(dir)).Walk: the two path lists must be equal. *)
From Coq Require Import List NArith Bool.
From FS Require Import Sx Model.Path Model.Stat Model.Tree Model.Pattern Model.FilterWalk Model.CopierSel Glue.C10G.
Import ListNotations.
Open Scope N_scope.
Open Scope bool_scope.

(* ---- Go os.FileMode -> st_mode (mirror of harness/disk.go unixMode) ---- *)
Definition c16_unix_mode (m : N) : N :=
  let p := N.land m 511 in
  let sp := (if has_bits m ModeSetuid then 2048 else 0) + (if has_bits m ModeSetgid then 1024 else 0)
            + (if has_bits m ModeSticky then 512 else 0) in
  let t := if has_bits m ModeDir then 16384
           else if has_bits m ModeSymlink then 40960
           else if has_bits m ModeNamedPipe then 4096
           else if has_bits m ModeSocket then 49152
           else if has_bits m ModeDevice && has_bits m ModeCharDevice then 8192
           else if has_bits m ModeDevice then 24576
           else 32768 in
  t + sp + p.

(* unix.Mkdev *)
Definition c16_mkdev (maj mnr : N) : N :=
  N.lor (N.lor (N.shiftl (N.land maj 4095) 8) (N.shiftl (N.land maj 4294963200) 32))
        (N.lor (N.land mnr 255) (N.shiftl (N.land mnr 4294967040) 12)).

Definition enc_xattrs (x : list (bytes * bytes)) : sx := SL (map (fun kv => SL [SB (fst kv); SB (snd kv)]) x).

(* canonical entry: (path mode uid gid rdev target xattrs content) *)
Definition enc_dentry (path : bytes) (e : entry) : sx :=
  let s := fst e in
  let um := c16_unix_mode (st_mode s) in
  let t := N.land um 61440 in
  SL [SB path; SN um; SN (st_uid s); SN (st_gid s);
      SN (if N.eqb t 8192 || N.eqb t 24576 then c16_mkdev (st_devmajor s) (st_devminor s) else 0);
      SB (if N.eqb t 40960 then st_linkname s else []);
      enc_xattrs (st_xattrs s);
      SB (if N.eqb t 32768 then snd e else [])].

(* implementation snapshot entry: (path mode uid gid size mtime rdev ino nlink target xattrs content) *)
Definition canon_raw (s : sx) : option sx :=
  match s with
  | SL [SB p; SN m; SN u; SN g; SN _; SN _; SN rd; SN _; SN _; SB tg; xs; SB ct] =>
    x <- sx_list dec_xattr xs ;;
    Some (SL [SB p; SN m; SN u; SN g; SN rd; SB tg; enc_xattrs x; SB ct])
  | _ => None
  end.
Definition canon_snapshot (s : sx) : option sx := l <- sx_list canon_raw s ;; Some (SL l).

(* ---- paths ---- *)
Definition joinL (L q : bytes) : bytes :=
  match L, q with
  | [], _ => q
  | _, [] => L
  | _, _ => L ++ sep :: q
  end.
(* Some rel iff full = joinL L rel *)
Definition relL (L full : bytes) : option bytes :=
  match L with
  | [] => Some full
  | _ => if bytes_eqb full L then Some []
         else match strip_prefix (L ++ [sep]) full with Some r => Some r | None => None end
  end.

Fixpoint insert_path (p : bytes) (l : list bytes) : list bytes :=
  match l with
  | [] => [p]
  | q :: r => match lex_cmp (pcomps p) (pcomps q) with
              | Lt => p :: l
              | Eq => l
              | Gt => q :: insert_path p r
              end
  end.
Definition sort_paths (l : list bytes) : list bytes := fold_right insert_path [] l.

Fixpoint assoc_b {A} (p : bytes) (l : list (bytes * A)) : option A :=
  match l with [] => None | (q, a) :: r => if bytes_eqb p q then Some a else assoc_b p r end.

Definition root_entry : entry :=
  ({| st_path := []; st_mode := ModeDir + 493; st_uid := 0; st_gid := 0; st_size := 0; st_mtime := 0;
      st_linkname := []; st_devmajor := 0; st_devminor := 0; st_xattrs := [] |}, []).

Fixpoint find_node (a : bytes) (l : list node) : option node :=
  match l with [] => None | k :: r => if bytes_eqb (node_name k) a then Some k else find_node a r end.

(* sibling names strictly ascending bytewise (os.ReadDir order = stored order) *)
Fixpoint names_sorted (l : list node) : bool :=
  match l with
  | a :: ((b :: _) as r) => (match cmp_bytes (node_name a) (node_name b) with Lt => true | _ => false end) && names_sorted r
  | _ => true
  end.
Fixpoint tree_sorted (n : node) {struct n} : bool :=
  match n with Node _ _ _ kids => names_sorted kids && forallb tree_sorted kids end.
Definition view_sorted (v : list node) : bool := names_sorted v && forallb tree_sorted v.

Fixpoint xattrs_ok (n : node) {struct n} : bool :=
  match n with Node _ s _ kids => keys_sorted (st_xattrs s) && forallb xattrs_ok kids end.

Definition err_class (e : option cerr) : N :=
  match e with None => 0 | Some EDirOverNondir => 1 | Some ENondirOverDir => 2 | Some ENoParent => 4 end.

Record c16case := {
  k_L : bytes;            (* landing target, relative to the destination root *)
  k_src : source;
  k_dst0 : list (bytes * entry);   (* the destination before, full paths *)
  k_fs0 : dfs              (* the same, relative to the landing target *)
}.

Definition src_view (s : source) : list node := match s with SrcDir _ v => v | SrcFile _ _ => [] end.

Definition mk_case (sv dv : list node) (mode : N) (name : bytes) : option c16case :=
  let dst0 := map (fun e => (st_path (fst e), e)) (walk_root dv) in
  let mk L src :=
    Some {| k_L := L; k_src := src; k_dst0 := dst0;
            k_fs0 := fun q => match L, q with
                              | [], [] => Some root_entry
                              | _, _ => assoc_b (joinL L q) dst0
                              end |} in
  if N.eqb mode 0 then mk [] (SrcDir (fst root_entry) sv)
  else match find_node name sv with
       | Some (Node _ st ct kids) => if st_is_dir st then mk name (SrcDir st kids) else mk name (SrcFile st ct)
       | None => None
       end.

(* listing of a final state.  [rs] = the copies made, one per top-level source (several with
   wildcards: their landing targets are different top-level names), each with the state it left
   below its landing target; candidates = old paths + landing targets + source paths below them *)
Definition case_cands (k : c16case) : list bytes :=
  map (joinL (k_L k)) ([] :: map (fun e => st_path (fst e)) (walk_root (src_view (k_src k)))).

Fixpoint final_at (rs : list (c16case * dfs)) (dst0 : list (bytes * entry)) (f : bytes) : option entry :=
  match rs with
  | [] => assoc_b f dst0
  | (k, fs') :: r => match relL (k_L k) f with Some q => fs' q | None => final_at r dst0 f end
  end.

Definition listing (dst0 : list (bytes * entry)) (rs : list (c16case * dfs)) : sx :=
  let cands := sort_paths (map fst dst0 ++ flat_map (fun r => case_cands (fst r)) rs) in
  SL (flat_map (fun f =>
        match f with
        | [] => []
        | _ => match final_at rs dst0 f with
               | Some e => [enc_dentry f e]
               | None => []
               end
        end) cands).

(* the copies one after the other (matches in lexical order), stopping at the first error *)
(* one copy: the state it left below its landing target, the error, and (when it failed) the
   relative paths of the directories it had created or chmod'ed but not yet given their metadata *)
Definition runres := (dfs * option cerr * list bytes)%type.
Definition rr_fs (r : runres) : dfs := fst (fst r).
Definition rr_err (r : runres) : option cerr := snd (fst r).
Definition rr_half (r : runres) : list bytes := snd r.

(* the copies one after the other (matches in lexical order), stopping at the first error; the
   failing copy's partial state is part of the result *)
Fixpoint run_all (f : c16case -> runres) (ks : list c16case) : list (c16case * dfs) * option cerr * list bytes :=
  match ks with
  | [] => ([], None, [])
  | k :: r =>
    let res := f k in
    match rr_err res with
    | Some e => ([(k, rr_fs res)], Some e, map (joinL (k_L k)) (rr_half res))
    | None => let '(rs, e, h) := run_all f r in ((k, rr_fs res) :: rs, e, h)
    end
  end.

(* ---- the specification: what the destination must look like, from the verdict V alone ----
   items = flat_items V (the entries of the full walk that V selects or that lie above a selected
   entry).  The copy fails at the first item (walk order) that meets the other kind in the
   destination; with always-replace only a directory needed as a PARENT (not selected itself)
   over a non-directory fails, every other clash is resolved by removing what is there (a
   directory with everything below it).  Items before the failing one are materialised, every
   other destination entry is untouched.  Directories that were selected themselves and contain
   the failing entry are "half done" when the copy aborts (made or chmod'ed; owner, mode and xattrs
   are applied after their contents): only their existence is specified. *)
Definition root_item (rootst : stat) : litem := {| l_st := set_path rootst []; l_ct := []; l_sel := true |}.

Definition kind_mismatch (it : litem) (o : option entry) : bool :=
  match o with None => false | Some e => negb (Bool.eqb (st_is_dir (l_st it)) (e_dir e)) end.
Definition conflict_r (repl : bool) (it : litem) (o : option entry) : option cerr :=
  if repl then (if kind_mismatch it o && st_is_dir (l_st it) && negb (l_sel it) then Some EDirOverNondir else None)
  else conflict_of it o.
Fixpoint split_conflict (repl : bool) (items : list litem) (fs0 : dfs) : list litem * option (litem * cerr) :=
  match items with
  | [] => ([], None)
  | it :: r =>
    match conflict_r repl it (fs0 (l_path it)) with
    | Some e => ([], Some (it, e))
    | None => let '(b, x) := split_conflict repl r fs0 in (it :: b, x)
    end
  end.
Definition step_r (repl : bool) (fs0 : dfs) (q : bytes) (o : option entry) (it : litem) : option entry :=
  if bytes_eqb q (l_path it) then Some (result it (if repl && kind_mismatch it o then None else o))
  else if repl && negb (st_is_dir (l_st it)) && kind_mismatch it (fs0 (l_path it)) && under (l_path it) q then None
  else o.

Definition spec_run (V : bytes -> bool) (repl : bool) (k : c16case) : runres :=
  let fs0 := k_fs0 k in
  match k_src k with
  | SrcDir rootst view =>
    let items := flat_items V view in
    let rootit := root_item rootst in
    match conflict_r repl rootit (fs0 []) with
    | Some e => (fs0, Some e, [])
    | None =>
      let root_created := match fs0 [] with None => true | Some e => negb (e_dir e) end in
      let '(before, fail) := split_conflict repl items fs0 in
      let st := fun q => match q with
                         | [] => if root_created then Some (result rootit None) else fs0 []
                         | _ => fold_left (step_r repl fs0 q) before (fs0 q)
                         end in
      match fail with
      | None => (st, None, [])
      | Some (f, e) =>
        (st, Some e,
         (if root_created then [[]] else []) ++
         map l_path (filter (fun it => l_sel it && st_is_dir (l_st it) && under (l_path it) (l_path f)) before))
      end
    end
  | SrcFile st ct =>
    let it := {| l_st := set_path st []; l_ct := ct; l_sel := true |} in
    match conflict_r repl it (fs0 []) with
    | Some e => (fs0, Some e, [])
    | None =>
      (fun q => match q with
                | [] => Some (result it None)
                | _ => if repl && kind_mismatch it (fs0 []) then None else fs0 q
                end, None, [])
    end
  end.

(* entries at half-done paths: existence and type only *)
Definition mask_entry (half : list bytes) (e : sx) : sx :=
  match e with
  | SL (SB p :: SN m :: _) => if existsb (bytes_eqb p) half then SL [SB p; SN (N.land m 61440)] else e
  | _ => e
  end.
Definition mask_listing (half : list bytes) (l : sx) : sx :=
  match l with SL es => SL (map (mask_entry half) es) | _ => l end.

Definition outcome (dst0 : list (bytes * entry)) (half : list bytes) (r : list (c16case * dfs) * option cerr * list bytes) : sx :=
  SL [SN (err_class (snd (fst r))); mask_listing half (listing dst0 (fst (fst r)))].

Definition model_run (pm : bytes -> bytes -> bool) (c : cfg) (repl : bool) (k : c16case) : runres :=
  let '(fs', _, e) := copy_sel pm c repl (k_src k) (k_fs0 k) in (fs', e, []).

Definition any_late_shadow (pm : bytes -> bytes -> bool) (c : cfg) (ks : list c16case) : bool :=
  existsb (fun k => negb (forallb (fun e => nls_path pm c (st_path (fst e))) (walk_root (src_view (k_src k))))) ks.

(* mode 0: the whole source root (CopyDirContents); 1: one named top-level entry; 2: wildcard "*":
   every top-level entry, each a top-level source of its own *)
Definition mk_cases (sv dv : list node) (mode : N) (name : bytes) : option (list c16case) :=
  if N.eqb mode 2 then omap (fun n => mk_case sv dv 1 (node_name n)) sv
  else match mk_case sv dv mode name with Some k => Some [k] | None => None end.

Definition run_1601_body (sv dv inc exc : sx) (mode : N) (name : bytes) (repl : bool) (impl : sx) : sx :=
    match dec_view sv, dec_view dv, dec_raws inc, dec_raws exc with
    | Some sview, Some dview, Some incr_, Some excr =>
      if negb (wf_tree sview && wf_tree dview && view_sorted sview && view_sorted dview
               && forallb xattrs_ok sview && forallb xattrs_ok dview) then v_malformed else
      match mk_cases sview dview mode name with
      | None => v_malformed
      | Some ks =>
        let dst0 := map (fun e => (st_path (fst e), e)) (walk_root dview) in
        match impl with
        | SL [SN 65535] =>
          match mk_cfg incr_ excr with
          | None => v_ok
          | Some _ => v_malformed     (* pattern syntax errors are not modelled: do not generate them *)
          end
        | SL [SN 0; iinc; iexc; pt; SN cls; snap] =>
          match sx_list dec_pentry pt, canon_snapshot snap with
          | Some tbl, Some csnap =>
            let pm := table_pmatch tbl in
            match mk_cfg incr_ excr with
            | None => v_diff (SL [SN 65535])
            | Some c =>
              (* the specification (see spec_run), evaluated on what the implementation left on
                 disk: same error, and the same destination — also when the copy failed *)
              let spec_ok (r : list (c16case * dfs) * option cerr * list bytes) : bool :=
                N.eqb cls (err_class (snd (fst r)))
                && sx_eqb (mask_listing (snd r) (listing dst0 (fst (fst r)))) (mask_listing (snd r) csnap) in
              let r_naive := run_all (spec_run (keep_naive pm c) repl) ks in
              let r_incr := run_all (spec_run (keep_incr pm c) repl) ks in
              let half := snd r_incr in
              let impl' := SL [SN 0; iinc; iexc; SL [SN cls; mask_listing half csnap]] in
              let mr := run_all (model_run pm c repl) ks in
              let model := SL [SN 0; enc_side (c_inc c); enc_side (c_exc c); outcome dst0 half mr] in
              if spec_ok r_naive then verdict model impl' true (SL [])
              else
                let s :=
                  if any_late_shadow pm c ks && spec_ok r_incr then [sig s_late_shadow] else [] in
                verdict model impl' false (SL (s ++ [outcome dst0 (snd r_naive) r_naive]))
            end
          | _, _ => v_malformed
          end
        | _ => v_malformed
        end
      end
    | _, _, _, _ => v_malformed
    end.

(* input = (srcView dstView include exclude mode name [alwaysReplace]) *)
Definition run_1601 (input impl : sx) : sx :=
  match input with
  | SL [sv; dv; inc; exc; SN mode; SB name] => run_1601_body sv dv inc exc mode name false impl
  | SL [sv; dv; inc; exc; SN mode; SB name; rp] =>
    match sx_bool rp with
    | Some repl => run_1601_body sv dv inc exc mode name repl impl
    | None => v_malformed
    end
  | _ => v_malformed
  end.

(* kind 1602: input = (view include-raw exclude-raw);
   impl = (#ffff) | (#0 inc exc ptable cls copied walked): cls = error class of copy.Copy into an
   empty directory, copied = paths below the destination afterwards, walked = paths the real
   filtered walk of the same directory reported. *)
Definition enc_paths (l : list bytes) : sx := SL (map SB l).

Definition run_1602 (input impl : sx) : sx :=
  match input with
  | SL [sv; inc; exc] =>
    match dec_view sv, dec_raws inc, dec_raws exc with
    | Some sview, Some incr_, Some excr =>
      if negb (wf_tree sview && view_sorted sview) then v_malformed else
      match impl with
      | SL [SN 65535] => match mk_cfg incr_ excr with None => v_ok | Some _ => v_malformed end
      | SL [SN 0; iinc; iexc; pt; SN cls; copied; walked] =>
        match sx_list dec_pentry pt with
        | None => v_malformed
        | Some tbl =>
          let pm := table_pmatch tbl in
          match mk_cfg incr_ excr with
          | None => v_diff (SL [SN 65535])
          | Some c =>
            let '(_, log, e) := copy_sel pm c false (SrcDir (fst root_entry) sview) (root_dst root_entry) in
            let m_copied := enc_paths (map l_path log) in
            let m_walked := enc_paths (map st_path (filter_walk pm id_map c sview)) in
            let model := SL [SN 0; enc_side (c_inc c); enc_side (c_exc c); SN (err_class e); m_copied; m_walked] in
            let impl' := SL [SN 0; iinc; iexc; SN cls; copied; walked] in
            if N.eqb cls 0 && sx_eqb copied walked then verdict model impl' true (SL [])
            else
              let m_np := enc_paths (map st_path (filter_walk pm id_map (no_prune c) sview)) in
              let s := if negb (cfg_star_safe c) && sx_eqb m_copied copied && sx_eqb m_walked walked
                          && sx_eqb m_np copied then [sig s_unsafe_star] else [] in
              verdict model impl' false (SL (s ++ [m_copied]))
          end
        end
      | _ => v_malformed
      end
    | _, _, _ => v_malformed
    end
  | _ => v_malformed
  end.
