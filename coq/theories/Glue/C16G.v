(* Decoding of C16 cases and verdicts.
   kind 1601: real copy.Copy with IncludePatterns/ExcludePatterns into an empty or populated
              destination vs the model (CopierSel.copy_sel) and the declarative specification
              (flat_items over the NAIVE verdict + spec_ent + first_conflict).
   kind 1602: the same source tree and patterns through real copy.Copy (empty destination) and
              through real fsutil.NewFilterFS(NewFS(dir)).Walk: the two path lists must be equal. *)
From Coq Require Import List NArith Bool.
From FS Require Import Sx Model.Path Model.Stat Model.Tree Model.Pattern Model.FilterWalk Model.CopierSel Glue.C10G.
Import ListNotations.
Open Scope N_scope.
Open Scope bool_scope.

(* ---- Go os.FileMode -> st_mode (mirror of harness/disk.go unixMode) ---- *)
Definition c16_unix_mode (m : N) : N :=
  let p := N.land m 511 in
  let sp := (if has_bits m ModeSetuid then 2048 else 0) + (if has_bits m ModeSetgid then 1024 else 0)
            + (if has_bits m ModeSticky then 512 else 0) in
  let t := if has_bits m ModeDir then 16384
           else if has_bits m ModeSymlink then 40960
           else if has_bits m ModeNamedPipe then 4096
           else if has_bits m ModeSocket then 49152
           else if has_bits m ModeDevice && has_bits m ModeCharDevice then 8192
           else if has_bits m ModeDevice then 24576
           else 32768 in
  t + sp + p.

(* unix.Mkdev *)
Definition c16_mkdev (maj mnr : N) : N :=
  N.lor (N.lor (N.shiftl (N.land maj 4095) 8) (N.shiftl (N.land maj 4294963200) 32))
        (N.lor (N.land mnr 255) (N.shiftl (N.land mnr 4294967040) 12)).

Definition enc_xattrs (x : list (bytes * bytes)) : sx := SL (map (fun kv => SL [SB (fst kv); SB (snd kv)]) x).

(* canonical entry: (path mode uid gid rdev target xattrs content) *)
Definition enc_dentry (path : bytes) (e : entry) : sx :=
  let s := fst e in
  let um := c16_unix_mode (st_mode s) in
  let t := N.land um 61440 in
  SL [SB path; SN um; SN (st_uid s); SN (st_gid s);
      SN (if N.eqb t 8192 || N.eqb t 24576 then c16_mkdev (st_devmajor s) (st_devminor s) else 0);
      SB (if N.eqb t 40960 then st_linkname s else []);
      enc_xattrs (st_xattrs s);
      SB (if N.eqb t 32768 then snd e else [])].

(* implementation snapshot entry: (path mode uid gid size mtime rdev ino nlink target xattrs content) *)
Definition canon_raw (s : sx) : option sx :=
  match s with
  | SL [SB p; SN m; SN u; SN g; SN _; SN _; SN rd; SN _; SN _; SB tg; xs; SB ct] =>
    x <- sx_list dec_xattr xs ;;
    Some (SL [SB p; SN m; SN u; SN g; SN rd; SB tg; enc_xattrs x; SB ct])
  | _ => None
  end.
Definition canon_snapshot (s : sx) : option sx := l <- sx_list canon_raw s ;; Some (SL l).

(* ---- paths ---- *)
Definition joinL (L q : bytes) : bytes :=
  match L, q with
  | [], _ => q
  | _, [] => L
  | _, _ => L ++ sep :: q
  end.
(* Some rel iff full = joinL L rel *)
Definition relL (L full : bytes) : option bytes :=
  match L with
  | [] => Some full
  | _ => if bytes_eqb full L then Some []
         else match strip_prefix (L ++ [sep]) full with Some r => Some r | None => None end
  end.

Fixpoint insert_path (p : bytes) (l : list bytes) : list bytes :=
  match l with
  | [] => [p]
  | q :: r => match lex_cmp (pcomps p) (pcomps q) with
              | Lt => p :: l
              | Eq => l
              | Gt => q :: insert_path p r
              end
  end.
Definition sort_paths (l : list bytes) : list bytes := fold_right insert_path [] l.

Fixpoint assoc_b {A} (p : bytes) (l : list (bytes * A)) : option A :=
  match l with [] => None | (q, a) :: r => if bytes_eqb p q then Some a else assoc_b p r end.

Definition root_entry : entry :=
  ({| st_path := []; st_mode := ModeDir + 493; st_uid := 0; st_gid := 0; st_size := 0; st_mtime := 0;
      st_linkname := []; st_devmajor := 0; st_devminor := 0; st_xattrs := [] |}, []).

Fixpoint find_node (a : bytes) (l : list node) : option node :=
  match l with [] => None | k :: r => if bytes_eqb (node_name k) a then Some k else find_node a r end.

(* sibling names strictly ascending bytewise (os.ReadDir order = stored order) *)
Fixpoint names_sorted (l : list node) : bool :=
  match l with
  | a :: ((b :: _) as r) => (match cmp_bytes (node_name a) (node_name b) with Lt => true | _ => false end) && names_sorted r
  | _ => true
  end.
Fixpoint tree_sorted (n : node) {struct n} : bool :=
  match n with Node _ _ _ kids => names_sorted kids && forallb tree_sorted kids end.
Definition view_sorted (v : list node) : bool := names_sorted v && forallb tree_sorted v.

Fixpoint xattrs_ok (n : node) {struct n} : bool :=
  match n with Node _ s _ kids => keys_sorted (st_xattrs s) && forallb xattrs_ok kids end.

Definition err_class (e : option cerr) : N :=
  match e with None => 0 | Some EDirOverNondir => 1 | Some ENondirOverDir => 2 | Some ENoParent => 4 end.

Record c16case := {
  k_L : bytes;            (* landing target, relative to the destination root *)
  k_src : source;
  k_dst0 : list (bytes * entry);   (* the destination before, full paths *)
  k_fs0 : dfs              (* the same, relative to the landing target *)
}.

Definition src_view (s : source) : list node := match s with SrcDir _ v => v | SrcFile _ _ => [] end.

Definition mk_case (sv dv : list node) (mode : N) (name : bytes) : option c16case :=
  let dst0 := map (fun e => (st_path (fst e), e)) (walk_root dv) in
  let mk L src :=
    Some {| k_L := L; k_src := src; k_dst0 := dst0;
            k_fs0 := fun q => match L, q with
                              | [], [] => Some root_entry
                              | _, _ => assoc_b (joinL L q) dst0
                              end |} in
  if N.eqb mode 0 then mk [] (SrcDir (fst root_entry) sv)
  else match find_node name sv with
       | Some (Node _ st ct kids) => if st_is_dir st then mk name (SrcDir st kids) else mk name (SrcFile st ct)
       | None => None
       end.

(* listing of a final state.  [rs] = the copies made, one per top-level source (several with
   wildcards: their landing targets are different top-level names), each with the state it left
   below its landing target; candidates = old paths + landing targets + source paths below them *)
Definition case_cands (k : c16case) : list bytes :=
  map (joinL (k_L k)) ([] :: map (fun e => st_path (fst e)) (walk_root (src_view (k_src k)))).

Fixpoint final_at (rs : list (c16case * dfs)) (dst0 : list (bytes * entry)) (f : bytes) : option entry :=
  match rs with
  | [] => assoc_b f dst0
  | (k, fs') :: r => match relL (k_L k) f with Some q => fs' q | None => final_at r dst0 f end
  end.

Definition listing (dst0 : list (bytes * entry)) (rs : list (c16case * dfs)) : sx :=
  let cands := sort_paths (map fst dst0 ++ flat_map (fun r => case_cands (fst r)) rs) in
  SL (flat_map (fun f =>
        match f with
        | [] => []
        | _ => match final_at rs dst0 f with
               | Some e => [enc_dentry f e]
               | None => []
               end
        end) cands).

(* the copies one after the other (matches in lexical order), stopping at the first error *)
Fixpoint run_all (f : c16case -> dfs * option cerr) (ks : list c16case) : list (c16case * dfs) * option cerr :=
  match ks with
  | [] => ([], None)
  | k :: r =>
    let res := f k in
    match snd res with
    | Some e => ([], Some e)
    | None => let '(rs, e) := run_all f r in ((k, fst res) :: rs, e)
    end
  end.

(* ---- the specification: what the destination must look like, from the verdict V alone ---- *)
Definition root_item (rootst : stat) : litem := {| l_st := set_path rootst []; l_ct := []; l_sel := true |}.

Definition spec_run (V : bytes -> bool) (k : c16case) : dfs * option cerr :=
  match k_src k with
  | SrcDir rootst view =>
    let items := flat_items V view in
    let fs0 := k_fs0 k in
    match conflict_of (root_item rootst) (fs0 []) with
    | Some e => (fs0, Some e)
    | None =>
      (fun q => match q with
                | [] => match fs0 [] with None => Some (result (root_item rootst) None) | o => o end
                | _ => spec_ent items fs0 q
                end,
       first_conflict items fs0)
    end
  | SrcFile st ct =>
    let it := {| l_st := set_path st []; l_ct := ct; l_sel := true |} in
    (fun q => match q with [] => Some (result it (k_fs0 k [])) | _ => k_fs0 k q end,
     conflict_of it (k_fs0 k []))
  end.

Definition outcome (dst0 : list (bytes * entry)) (r : list (c16case * dfs) * option cerr) : sx :=
  SL [SN (err_class (snd r)); match snd r with None => listing dst0 (fst r) | Some _ => SL [] end].

Definition model_run (pm : bytes -> bytes -> bool) (c : cfg) (k : c16case) : dfs * option cerr :=
  let '(fs', _, e) := copy_sel pm c (k_src k) (k_fs0 k) in (fs', e).

Definition any_late_shadow (pm : bytes -> bytes -> bool) (c : cfg) (ks : list c16case) : bool :=
  existsb (fun k => negb (forallb (fun e => nls_path pm c (st_path (fst e))) (walk_root (src_view (k_src k))))) ks.

(* mode 0: the whole source root (CopyDirContents); 1: one named top-level entry; 2: wildcard "*":
   every top-level entry, each a top-level source of its own *)
Definition mk_cases (sv dv : list node) (mode : N) (name : bytes) : option (list c16case) :=
  if N.eqb mode 2 then omap (fun n => mk_case sv dv 1 (node_name n)) sv
  else match mk_case sv dv mode name with Some k => Some [k] | None => None end.

Definition run_1601 (input impl : sx) : sx :=
  match input with
  | SL [sv; dv; inc; exc; SN mode; SB name] =>
    match dec_view sv, dec_view dv, dec_raws inc, dec_raws exc with
    | Some sview, Some dview, Some incr_, Some excr =>
      if negb (wf_tree sview && wf_tree dview && view_sorted sview && view_sorted dview
               && forallb xattrs_ok sview && forallb xattrs_ok dview) then v_malformed else
      match mk_cases sview dview mode name with
      | None => v_malformed
      | Some ks =>
        let dst0 := map (fun e => (st_path (fst e), e)) (walk_root dview) in
        match impl with
        | SL [SN 65535] =>
          match mk_cfg incr_ excr with
          | None => v_ok
          | Some _ => v_malformed     (* pattern syntax errors are not modelled: do not generate them *)
          end
        | SL [SN 0; iinc; iexc; pt; SN cls; snap] =>
          match sx_list dec_pentry pt, canon_snapshot snap with
          | Some tbl, Some csnap =>
            let pm := table_pmatch tbl in
            match mk_cfg incr_ excr with
            | None => v_diff (SL [SN 65535])
            | Some c =>
              let impl' := SL [SN 0; iinc; iexc; SL [SN cls; if N.eqb cls 0 then csnap else SL []]] in
              let mr := run_all (model_run pm c) ks in
              let model := SL [SN 0; enc_side (c_inc c); enc_side (c_exc c); outcome dst0 mr] in
              (* the specification: the copy fails iff a materialised entry meets the other kind
                 (directory / non-directory) in the destination, with the error of the first such
                 entry in walk order; on success the destination is exactly what spec_ent says *)
              let spec_ok (r : list (c16case * dfs) * option cerr) : bool :=
                match snd r with
                | None => N.eqb cls 0 && sx_eqb (listing dst0 (fst r)) csnap
                | Some e => N.eqb cls (err_class (Some e))
                end in
              let r_naive := run_all (spec_run (keep_naive pm c)) ks in
              if spec_ok r_naive then verdict model impl' true (SL [])
              else
                let r_incr := run_all (spec_run (keep_incr pm c)) ks in
                let s :=
                  if any_late_shadow pm c ks && spec_ok r_incr then [sig s_late_shadow] else [] in
                verdict model impl' false (SL (s ++ [outcome dst0 r_naive]))
            end
          | _, _ => v_malformed
          end
        | _ => v_malformed
        end
      end
    | _, _, _, _ => v_malformed
    end
  | _ => v_malformed
  end.

(* kind 1602: input = (view include-raw exclude-raw);
   impl = (#ffff) | (#0 inc exc ptable cls copied walked): cls = error class of copy.Copy into an
   empty directory, copied = paths below the destination afterwards, walked = paths the real
   filtered walk of the same directory reported. *)
Definition enc_paths (l : list bytes) : sx := SL (map SB l).

Definition run_1602 (input impl : sx) : sx :=
  match input with
  | SL [sv; inc; exc] =>
    match dec_view sv, dec_raws inc, dec_raws exc with
    | Some sview, Some incr_, Some excr =>
      if negb (wf_tree sview && view_sorted sview) then v_malformed else
      match impl with
      | SL [SN 65535] => match mk_cfg incr_ excr with None => v_ok | Some _ => v_malformed end
      | SL [SN 0; iinc; iexc; pt; SN cls; copied; walked] =>
        match sx_list dec_pentry pt with
        | None => v_malformed
        | Some tbl =>
          let pm := table_pmatch tbl in
          match mk_cfg incr_ excr with
          | None => v_diff (SL [SN 65535])
          | Some c =>
            let '(_, log, e) := copy_sel pm c (SrcDir (fst root_entry) sview) (root_dst root_entry) in
            let m_copied := enc_paths (map l_path log) in
            let m_walked := enc_paths (map st_path (filter_walk pm id_map c sview)) in
            let model := SL [SN 0; enc_side (c_inc c); enc_side (c_exc c); SN (err_class e); m_copied; m_walked] in
            let impl' := SL [SN 0; iinc; iexc; SN cls; copied; walked] in
            if N.eqb cls 0 && sx_eqb copied walked then verdict model impl' true (SL [])
            else
              let m_np := enc_paths (map st_path (filter_walk pm id_map (no_prune c) sview)) in
              let s := if negb (cfg_star_safe c) && sx_eqb m_copied copied && sx_eqb m_walked walked
                          && sx_eqb m_np copied then [sig s_unsafe_star] else [] in
              verdict model impl' false (SL (s ++ [m_copied]))
          end
        end
      | _ => v_malformed
      end
    | _, _, _ => v_malformed
    end
  | _ => v_malformed
  end.
