(* Decoding of C08 cases (the same transfer under N forced schedules) and verdicts. *)
From Coq Require Import List NArith Bool Arith PeanoNat.
From FS Require Import Sx Model.Path Model.Stat Model.Tree Model.Lts Model.LtsExplore Glue.C04G.
Import ListNotations.
Local Open Scope nat_scope.

Fixpoint bytes_leb (a b : bytes) : bool :=
  match a, b with
  | [], _ => true
  | _ :: _, [] => false
  | x :: a', y :: b' => if N.ltb x y then true else if N.ltb y x then false else bytes_leb a' b'
  end.
Fixpoint insert_by_path (c : bytes * sx) (l : list (bytes * sx)) : list (bytes * sx) :=
  match l with
  | [] => [c]
  | d :: r => if bytes_leb (fst c) (fst d) then c :: l else d :: insert_by_path c r
  end.

(* what the sequential receiver notifies: one notification per changed entry; files whose
   content is fetched are always reported as additions (requestAsyncFileData), other entries
   with the kind the diff gave them (0 add, 1 modify); one deletion (2) for every top-level entry
   of the prior destination that the source lacks (what is below a deleted directory is not
   reported).  Extra prior entries are only generated at the top level. *)
Definition expected_notifs (cs : list cent) (view prior : list node) : list sx :=
  let changed := filter (fun c => negb (is_same (ce_kind c))) cs in
  let ch := map (fun c => (ce_path c,
                           SL [SN (if is_need (ce_kind c) || ce_added c then 0 else 1)%N; SB (ce_path c); SN 1%N])) changed in
  let gone := filter (fun n => negb (existsb (fun m => bytes_eqb (node_name m) (node_name n)) view)) prior in
  let del := map (fun n => (node_name n, SL [SN 2%N; SB (node_name n); SN 1%N])) gone in
  map snd (fold_right insert_by_path [] (ch ++ del)).

Record srec := { sr_send : N; sr_recv : N; sr_eq : bool; sr_digest : bytes; sr_reqs : sx; sr_notifs : sx;
                 sr_ov : list N; sr_scrib : sx; sr_leaks : N; sr_prog : list N }.

Definition dec_srec (s : sx) : option srec :=
  match s with
  | SL [SN a; SN b; eq; SB d; SL rq; SL nt; SN o0; SN o1; SN o2; SN o3; sc; SN lk; SN pv; SN po] =>
      e <- sx_bool eq ;;
      Some {| sr_send := a; sr_recv := b; sr_eq := e; sr_digest := d; sr_reqs := SL rq; sr_notifs := SL nt;
              sr_ov := [o0; o1; o2; o3]; sr_scrib := sc; sr_leaks := lk; sr_prog := [pv; po] |}
  | _ => None
  end.

Definition notif_ok (s : sx) : bool :=
  match s with SL [_; _; SN d] => negb (N.eqb d 0) | _ => false end.

(* kind 0801.  Specification (on what the implementation did): under every schedule both calls
   return nil, the destination equals the view, no goroutine is left, no two SendMsg and no two
   RecvMsg were ever in flight on one endpoint, every notification carries the digest of the
   source content; destination digest, request set and notification set are the same under all
   schedules.  Model: the request set and the notification set are the ones the sequential
   function computes from (view, prior). *)
Definition run_0801 (input impl : sx) : sx :=
  (* an optional 6th field (soft limit on open descriptors during the run) does not change the prediction *)
  let input := match input with SL [v; pr; n; sd; ch; _] => SL [v; pr; n; sd; ch] | _ => input end in
  match input with
  | SL [v; pr; SN nsched; SN seed; SN chunk] =>
    match dec_view v, dec_view pr, sx_list dec_srec impl with
    | Some view, Some prior, Some recs =>
      let cs := classify_all chunk view prior in
      let reqs := SL (map of_nat (expected_reqs cs)) in
      let notifs := SL (expected_notifs cs view prior) in
      let model := SL (map (fun r => SL [SN 0; SN 0; SN 1; SB (sr_digest r); reqs; notifs;
                                         SN 0; SN 0; SN 0; SN 0; sr_scrib r; SN 0; SN 0; SN 0]%N) recs) in
      let each := forallb (fun r => N.eqb (sr_send r) 0 && N.eqb (sr_recv r) 0 && sr_eq r
                                    && forallb (N.eqb 0) (sr_ov r) && N.eqb (sr_leaks r) 0 && forallb (N.eqb 0) (sr_prog r)
                                    && match sr_notifs r with SL l => forallb notif_ok l | _ => false end) recs in
      let same := match recs with
                  | [] => false
                  | r0 :: rest => forallb (fun r => bytes_eqb (sr_digest r) (sr_digest r0)
                                                    && sx_eqb (sr_reqs r) (sr_reqs r0)
                                                    && sx_eqb (sr_notifs r) (sr_notifs r0)) rest
                  end in
      let count_ok := N.eqb (N.of_nat (length recs)) nsched in
      verdict model impl (each && same && count_ok) (SL [of_bool each; of_bool same; of_bool count_ok])
    | _, _, _ => v_malformed
    end
  | _ => v_malformed
  end.

(* kind 0802: supporting test outside the model (data races / the Go memory model are not
   modelled): the C08 generator run in a harness built with the race detector.
   impl = (built races cases child_ok info).  Specification: if the -race build exists, the run
   completed and the detector reported nothing. *)
Definition run_0802 (input impl : sx) : sx :=
  match impl with
  | SL [SN built; SN races; SN cases; SN childok; SB info] =>
      let ok := N.eqb built 0 || (N.eqb races 0 && negb (N.eqb childok 0)) in
      verdict (SL [SN built; SN 0; SN cases; SN (if N.eqb built 0 then childok else 1); SB info])%N impl ok
              (SL [SN races])
  | _ => v_malformed
  end.
