package main

// C13 / C15 — the copier (/repo/copy).  One runner for both properties:
//   input  = (srcView dstView src dst opts second)
//     opts = (chown mode modestr utime dircontents wildcards replace umask)
//            chown = () | (uid gid);  mode = () | (m);  utime = () | (ns)
//   output = (run1 [run2] srcSnapshot)      run = (errclass ((notifiedPath isDir) ...) dstSnapshot)
// Both views are materialised below a scratch directory, the REAL copy.Copy is called, and
// independent lstat snapshots (root entry included, path "") are returned.
// kind 1301: destination empty (C13); 1501: populated destination, copy applied twice (C15);
// kind 1302: mode strings against dchapes-mode (model of ParseWithUmask/Apply).
// kind 1303: one SPARSE regular file of a given size (markers at given offsets), copied alone or
//   inside a directory; output = (errclass dstSize (bytes read at each probe window)).
// kind 1502: kind 1501 with include / exclude patterns (7th, 8th field): copy applied twice.
// An optional 7th field of kinds 1301/1501 = rootMode + 16*followLinks (how the roots are named
// to copy.Copy; CopyInfo.FollowLinks).

import (
	"context"
	"fmt"
	"os"
	"path/filepath"
	"sort"
	"strings"
	"syscall"
	"time"

	mode "github.com/tonistiigi/dchapes-mode"
	"github.com/tonistiigi/fsutil"
	fscopy "github.com/tonistiigi/fsutil/copy"
	"github.com/tonistiigi/fsutil/types"
	"golang.org/x/sys/unix"
)

func init() {
	kinds[0x1301] = run1301
	kinds[0x1302] = run1302
	kinds[0x1501] = run1301
	kinds[0x1303] = run1303
	kinds[0x1502] = run1301
	props["C13"] = genC13
	props["C15"] = genC15
}

const c13RootMtime = int64(1500000000) * 1e9

type c13Opts struct {
	chown       *[2]int
	mode        *int
	modeStr     string
	utime       *int64
	dirContents bool
	wild        bool
	replace     bool
	umask       int
	// not part of the serialised option tuple (separate fields of the input)
	follow   bool
	inc, exc []string
}

func (o c13Opts) Sx() Sx {
	ch, md, ut := L(), L(), L()
	if o.chown != nil {
		ch = L(NI(o.chown[0]), NI(o.chown[1]))
	}
	if o.mode != nil {
		md = L(NI(*o.mode))
	}
	if o.utime != nil {
		ut = L(I64(*o.utime))
	}
	return L(ch, md, S(o.modeStr), ut, Bool(o.dirContents), Bool(o.wild), Bool(o.replace), NI(o.umask))
}

func sxC13Opts(x Sx) c13Opts {
	var o c13Opts
	if len(x.L[0].L) == 2 {
		o.chown = &[2]int{x.L[0].L[0].Int(), x.L[0].L[1].Int()}
	}
	if len(x.L[1].L) == 1 {
		m := x.L[1].L[0].Int()
		o.mode = &m
	}
	o.modeStr = x.L[2].Str()
	if len(x.L[3].L) == 1 {
		t := int64(x.L[3].L[0].U64())
		o.utime = &t
	}
	o.dirContents = x.L[4].IsTrue()
	o.wild = x.L[5].IsTrue()
	o.replace = x.L[6].IsTrue()
	o.umask = x.L[7].Int()
	return o
}

func c13ErrClass(err error) int {
	if err == nil {
		return 0
	}
	m := err.Error()
	switch {
	case strings.Contains(m, "cannot copy to non-directory"):
		return 1
	case strings.Contains(m, "cannot replace to directory"):
		return 2
	case strings.Contains(m, "no matches found"):
		return 3
	}
	return 4
}

// file capabilities (cap_net_raw+ep, vfs_cap_data v2).  chown(2) on a non-directory strips
// security.capability, and the shared materialiser chowns after setting xattrs, so the
// attribute is (re)applied here, after Materialize, to every regular file that carries it
var c13CapV2 = []byte{0x01, 0x00, 0x00, 0x02, 0x00, 0x20, 0x00, 0x00, 0, 0, 0, 0, 0, 0, 0, 0, 0, 0, 0, 0}

const c13CapKey = "security.capability"

func c13ReapplyCaps(roots []*MNode, dir string) error {
	var rec func(base string, n *MNode) error
	rec = func(base string, n *MNode) error {
		p := filepath.Join(base, n.Name)
		if v, ok := n.Stat.Xattrs[c13CapKey]; ok && os.FileMode(n.Stat.Mode)&os.ModeType == 0 {
			var st unix.Stat_t
			if err := unix.Lstat(p, &st); err != nil {
				return err
			}
			if err := unix.Lsetxattr(p, c13CapKey, v, 0); err != nil {
				return fmt.Errorf("lsetxattr %s %s: %v", p, c13CapKey, err)
			}
			// setxattr leaves mtime alone; restore nothing else
		}
		for _, k := range n.Kids {
			if err := rec(p, k); err != nil {
				return err
			}
		}
		return nil
	}
	for _, n := range roots {
		if err := rec(dir, n); err != nil {
			return err
		}
	}
	return nil
}

func c13SetRootMeta(dir string) error {
	if err := os.Chown(dir, 0, 0); err != nil {
		return err
	}
	if err := unix.Chmod(dir, 0755); err != nil {
		return err
	}
	return lutimes(dir, c13RootMtime)
}

func c13Snapshot(dir string) (Sx, error) {
	var st unix.Stat_t
	if err := unix.Lstat(dir, &st); err != nil {
		return Sx{}, err
	}
	root := RawEntry{Path: "", Mode: st.Mode, Uid: st.Uid, Gid: st.Gid, Size: 0,
		MtimeNs: st.Mtim.Sec*1e9 + st.Mtim.Nsec, Rdev: uint64(st.Rdev), Ino: st.Ino, Nlink: uint64(st.Nlink)}
	root.Xattrs = listXattrs(dir)
	es, err := SnapshotRaw(dir, true)
	if err != nil {
		return Sx{}, err
	}
	out := []Sx{root.Sx()}
	for _, e := range es {
		if e.Mode&syscall.S_IFMT == syscall.S_IFDIR {
			e.Size = 0
		}
		out = append(out, e.Sx())
	}
	return L(out...), nil
}

// one application of the real copier; never hangs, never panics
func c13CopyOnce(srcRoot, src, dstRoot, dst string, o c13Opts) (cls int, notifs []Sx) {
	type res struct {
		cls    int
		notifs []Sx
	}
	ch := make(chan res, 1)
	go func() {
		var ns []Sx
		defer func() {
			if r := recover(); r != nil {
				ch <- res{0xfe, ns}
			}
		}()
		ci := fscopy.CopyInfo{
			ModeStr: o.modeStr, CopyDirContents: o.dirContents, AllowWildcards: o.wild,
			AlwaysReplaceExistingDestPaths: o.replace, FollowLinks: o.follow,
			IncludePatterns: o.inc, ExcludePatterns: o.exc,
			ChangeFunc: func(kind fsutil.ChangeKind, p string, fi os.FileInfo, err error) error {
				isDir := fi != nil && fi.IsDir()
				ns = append(ns, L(S(p), Bool(isDir), NI(int(kind))))
				return nil
			},
		}
		if o.mode != nil {
			m := *o.mode
			ci.Mode = &m
		}
		if o.utime != nil {
			t := time.Unix(0, *o.utime)
			ci.Utime = &t
		}
		opts := []fscopy.Opt{fscopy.WithCopyInfo(ci)}
		if o.chown != nil {
			opts = append(opts, fscopy.WithChown(o.chown[0], o.chown[1]))
		}
		err := fscopy.Copy(context.Background(), srcRoot, src, dstRoot, dst, opts...)
		ch <- res{c13ErrClass(err), ns}
	}()
	select {
	case r := <-ch:
		return r.cls, r.notifs
	case <-time.After(10 * time.Second):
		return 0xff, nil
	}
}

func run1301(in Sx) (out Sx) {
	defer func() {
		if r := recover(); r != nil {
			out = L(S("harness-panic"), S(fmt.Sprint(r)))
		}
	}()
	srcView, dstView := SxView(in.L[0]), SxView(in.L[1])
	src, dst := in.L[2].Str(), in.L[3].Str()
	o := sxC13Opts(in.L[4])
	second := in.L[5].IsTrue()
	rootMode := 0 // how the roots are named to copy.Copy: dst mode + 3 * src mode
	if len(in.L) == 7 {
		rootMode = in.L[6].Int() % 16
		o.follow = (in.L[6].Int()/16)%2 == 1
	}
	if len(in.L) == 8 { // kind 1502: include / exclude patterns
		for _, x := range in.L[6].L {
			o.inc = append(o.inc, x.Str())
		}
		for _, x := range in.L[7].L {
			o.exc = append(o.exc, x.Str())
		}
	}

	work := WorkDir("c13-")
	defer os.RemoveAll(work)
	srcRoot, dstRoot := filepath.Join(work, "s"), filepath.Join(work, "d")
	for _, d := range []string{srcRoot, dstRoot} {
		if err := os.Mkdir(d, 0755); err != nil {
			return L(S("setup"), S(err.Error()))
		}
	}
	if err := Materialize(srcView, srcRoot); err != nil {
		return L(S("setup-src"), S(err.Error()))
	}
	if err := Materialize(dstView, dstRoot); err != nil {
		return L(S("setup-dst"), S(err.Error()))
	}
	if err := c13ReapplyCaps(srcView, srcRoot); err != nil {
		return L(S("setup-caps"), S(err.Error()))
	}
	if err := c13ReapplyCaps(dstView, dstRoot); err != nil {
		return L(S("setup-caps"), S(err.Error()))
	}
	if err := c13SetRootMeta(srcRoot); err != nil {
		return L(S("setup"), S(err.Error()))
	}
	if err := c13SetRootMeta(dstRoot); err != nil {
		return L(S("setup"), S(err.Error()))
	}
	// the names under which the (already populated) roots are handed to copy.Copy
	srcNamed, dstNamed := srcRoot, dstRoot
	if rootMode != 0 {
		if err := os.Symlink(".", filepath.Join(work, "anc")); err != nil { // anc -> the work directory itself
			return L(S("setup"), S(err.Error()))
		}
		switch rootMode % 3 {
		case 1: // through a symlinked ancestor
			dstNamed = filepath.Join(work, "anc", "d")
		case 2: // the root itself is a symlink to the real root
			if err := os.Symlink("d", filepath.Join(work, "dl")); err != nil {
				return L(S("setup"), S(err.Error()))
			}
			dstNamed = filepath.Join(work, "dl")
		}
		switch (rootMode / 3) % 3 {
		case 1:
			srcNamed = filepath.Join(work, "anc", "s")
		case 2:
			if err := os.Symlink("s", filepath.Join(work, "sl")); err != nil {
				return L(S("setup"), S(err.Error()))
			}
			srcNamed = filepath.Join(work, "sl")
		}
	}
	old := syscall.Umask(o.umask)
	defer syscall.Umask(old)

	var runs []Sx
	n := 1
	if second {
		n = 2
	}
	for i := 0; i < n; i++ {
		cls, notifs := c13CopyOnce(srcNamed, src, dstNamed, dst, o)
		snap, err := c13Snapshot(dstRoot)
		if err != nil {
			return L(S("snapshot"), S(err.Error()))
		}
		runs = append(runs, L(NI(cls), L(notifs...), snap))
	}
	ssnap, err := c13Snapshot(srcRoot)
	if err != nil {
		return L(S("snapshot"), S(err.Error()))
	}
	runs = append(runs, ssnap)
	return L(runs...)
}

// kind 1303: (size ((off bytes) ...) ((off len) ...) inDir) -> (errclass dstSize (read ...))
// a sparse file "big" of the given size with marker bytes (earlier markers win where they overlap),
// copied as a file (src "big" -> dst "copy") or with its directory (src "d" -> dst "n"); the
// destination is probed at the given windows only
func run1303(in Sx) (out Sx) {
	defer func() {
		if r := recover(); r != nil {
			out = L(S("harness-panic"), S(fmt.Sprint(r)))
		}
	}()
	size := int64(in.L[0].U64())
	inDir := in.L[3].IsTrue()
	work := WorkDir("c13big-")
	defer os.RemoveAll(work)
	srcRoot, dstRoot := filepath.Join(work, "s"), filepath.Join(work, "d")
	for _, d := range []string{srcRoot, dstRoot, filepath.Join(srcRoot, "d")} {
		if err := os.Mkdir(d, 0755); err != nil {
			return L(S("setup"), S(err.Error()))
		}
	}
	rel := "big"
	if inDir {
		rel = "d/big"
	}
	f, err := os.OpenFile(filepath.Join(srcRoot, rel), os.O_CREATE|os.O_RDWR, 0644)
	if err != nil {
		return L(S("setup"), S(err.Error()))
	}
	if err := f.Truncate(size); err != nil {
		f.Close()
		return L(S("setup"), S(err.Error()))
	}
	for i := len(in.L[1].L) - 1; i >= 0; i-- {
		m := in.L[1].L[i]
		off, b := int64(m.L[0].U64()), []byte(m.L[1].Str())
		if off+int64(len(b)) > size { // a marker never extends the file
			if off >= size {
				continue
			}
			b = b[:size-off]
		}
		if _, err := f.WriteAt(b, off); err != nil {
			f.Close()
			return L(S("setup"), S(err.Error()))
		}
	}
	f.Close()
	src, dst, dstRel := "big", "copy", "copy"
	if inDir {
		src, dst, dstRel = "d", "n", "n/big"
	}
	done := make(chan int, 1)
	go func() {
		defer func() {
			if r := recover(); r != nil {
				done <- 0xfe
			}
		}()
		done <- c13ErrClass(fscopy.Copy(context.Background(), srcRoot, src, dstRoot, dst))
	}()
	cls := 0xff
	select {
	case cls = <-done:
	case <-time.After(120 * time.Second):
	}
	if cls != 0 {
		return L(NI(cls), NI(0), L())
	}
	g, err := os.Open(filepath.Join(dstRoot, dstRel))
	if err != nil {
		return L(S("probe"), S(err.Error()))
	}
	defer g.Close()
	fi, err := g.Stat()
	if err != nil {
		return L(S("probe"), S(err.Error()))
	}
	var reads []Sx
	for _, p := range in.L[2].L {
		off, n := int64(p.L[0].U64()), p.L[1].Int()
		buf := make([]byte, n)
		k, _ := g.ReadAt(buf, off)
		reads = append(reads, S(string(buf[:k])))
	}
	return L(NI(0), I64(fi.Size()), L(reads...))
}

// kind 1302: (modestr perm12 isdir) -> () on a parse error | (newperm12)
func run1302(in Sx) (out Sx) {
	defer func() {
		if r := recover(); r != nil {
			out = L(N(0xffff))
		}
	}()
	s := in.L[0].Str()
	p := uint32(in.L[1].U64())
	fm := os.FileMode(p & 0777)
	if p&04000 != 0 {
		fm |= os.ModeSetuid
	}
	if p&02000 != 0 {
		fm |= os.ModeSetgid
	}
	if p&01000 != 0 {
		fm |= os.ModeSticky
	}
	if in.L[2].IsTrue() {
		fm |= os.ModeDir
	}
	set, err := mode.ParseWithUmask(s, 0)
	if err != nil {
		return L()
	}
	nm := set.Apply(fm)
	return L(N(uint64(unixMode(nm) & 07777)))
}

// ---------------------------------------------------------------- generators

var c13Universe = []string{"d1", "d2", "f1", "f2", "x", "y"}

func c13FixView(r *Rng, roots []*MNode, sockets, trustedOnLinks bool) {
	// paths that other names are hard-linked to
	targets := map[string]bool{}
	var scan func(n *MNode)
	scan = func(n *MNode) {
		if os.FileMode(n.Stat.Mode)&os.ModeType == 0 && n.Stat.Linkname != "" {
			targets[n.Stat.Linkname] = true
		}
		for _, k := range n.Kids {
			scan(k)
		}
	}
	for _, n := range roots {
		scan(n)
	}
	var rec func(dir string, n *MNode)
	rec = func(dir string, n *MNode) {
		p := n.Name
		if dir != "" {
			p = dir + "/" + n.Name
		}
		m := os.FileMode(n.Stat.Mode)
		if sockets && m&os.ModeNamedPipe != 0 && r.Chance(40) {
			n.Stat.Mode = uint32(os.ModeSocket | 0755)
		}
		if trustedOnLinks && m&os.ModeSymlink != 0 && r.Chance(30) {
			n.Stat.Xattrs = map[string][]byte{"trusted.t": fillContent(r, 1+r.Intn(4))}
		}
		// file capabilities (security.capability) on regular files outside link groups
		// (the members of a group are separate Stat values of one inode)
		if m&os.ModeType == 0 && n.Stat.Linkname == "" && !targets[p] && r.Chance(15) {
			if n.Stat.Xattrs == nil {
				n.Stat.Xattrs = map[string][]byte{}
			}
			n.Stat.Xattrs[c13CapKey] = c13CapV2
		}
		// permission bits: every entry type also WITHOUT any execute bit (directories included: the
		// walk runs as root), with odd group/other bits, and with setuid/setgid/sticky; the names of
		// a link group are left alone (they are separate Stat values of one inode)
		if m&os.ModeSymlink == 0 && !(m&os.ModeType == 0 && (n.Stat.Linkname != "" || targets[p])) && r.Chance(35) {
			n.Stat.Mode = uint32(c13Perm(r, m&os.ModeType))
		}
		for _, k := range n.Kids {
			rec(p, k)
		}
	}
	for _, n := range roots {
		rec("", n)
	}
}

var c13Perms = []int{0644, 0600, 0640, 0444, 0, 0111, 0010, 0001, 0755, 0700, 0604, 0200, 0751}

func c13Perm(r *Rng, typ os.FileMode) os.FileMode {
	m := typ | os.FileMode(Pick(r, c13Perms))
	if r.Chance(25) {
		m |= os.ModeSetuid
	}
	if r.Chance(25) {
		m |= os.ModeSetgid
	}
	if r.Chance(25) {
		m |= os.ModeSticky
	}
	return m
}

// paths of a view, by class
type c13Paths struct {
	dirs, files, links, others, all []string
	kind                            map[string]string
}

func c13Collect(roots []*MNode) c13Paths {
	p := c13Paths{kind: map[string]string{}}
	var rec func(dir string, n *MNode)
	rec = func(dir string, n *MNode) {
		q := n.Name
		if dir != "" {
			q = dir + "/" + n.Name
		}
		m := os.FileMode(n.Stat.Mode)
		p.all = append(p.all, q)
		switch {
		case m.IsDir():
			p.dirs = append(p.dirs, q)
			p.kind[q] = "dir"
		case m&os.ModeSymlink != 0:
			p.links = append(p.links, q)
			p.kind[q] = "link"
		case m&os.ModeType == 0:
			p.files = append(p.files, q)
			p.kind[q] = "file"
		default:
			p.others = append(p.others, q)
			p.kind[q] = "other"
		}
		for _, k := range n.Kids {
			rec(q, k)
		}
	}
	for _, n := range roots {
		rec("", n)
	}
	return p
}

// no prefix (nor the path itself) may be a symlink of the view: that is C14's territory
func c13ThroughLink(p c13Paths, arg string) bool {
	cl := strings.Trim(filepath.Clean("/"+arg), "/")
	if cl == "" {
		return false
	}
	parts := strings.Split(cl, "/")
	for i := 1; i <= len(parts); i++ {
		if p.kind[strings.Join(parts[:i], "/")] == "link" {
			return true
		}
	}
	return false
}

var c13ModeStrs = []string{"u+x", "go-w", "a=rX", "u=rw,go=r", "0755", "04755", "+X", "g+s", "o+t,u-w", "=", "a+t", "ug=rwx,o=", "u=g", "go=u-w", "-x",
	"a+X", "u=rwX,go=rX", "a-X", "g=X", "o=X,u+s", "ug+s,o-r", "u-s,g-s,-t", "a=", "go=,u+X", "u=rwxs,g=rxs,o=t", "+t,g+X", "a-x,a+X", "u+X,u-w", "0644", "02640"}

// every option drawn independently (option COMBINATIONS: chown x mode x modestr x utime x
// dir-contents x always-replace), used for half of the cases
func c13GenOptsIndep(r *Rng, c15 bool) (c13Opts, string) {
	o := c13Opts{umask: Pick(r, []int{022, 0, 027, 077})}
	cls := "indep"
	if r.Chance(40) {
		o.chown = &[2]int{Pick(r, []int{0, 1, 100, 1000}), Pick(r, []int{0, 5, 200})}
		cls += "+chown"
	}
	if r.Chance(35) {
		m := Pick(r, []int{0755, 0700, 0644, 04755, 02755, 01777, 0, 0111})
		o.mode = &m
		cls += "+mode"
	}
	if r.Chance(35) {
		o.modeStr = Pick(r, c13ModeStrs)
		cls += "+modestr"
	}
	if r.Chance(40) {
		t := int64(1400000000+r.Intn(1000))*1e9 + int64(r.Intn(1e9))
		if r.Chance(20) {
			t = int64(r.Intn(3))
		}
		o.utime = &t
		cls += "+utime"
	}
	if r.Chance(35) {
		o.dirContents = true
		cls += "+dc"
	}
	if c15 && r.Chance(45) {
		o.replace = true
		cls += "+ar"
	}
	return o, cls
}

func c13GenOpts(r *Rng, c15 bool) (c13Opts, string) {
	if r.Chance(50) {
		return c13GenOptsIndep(r, c15)
	}
	o := c13Opts{umask: Pick(r, []int{022, 022, 0, 027})}
	cls := "none"
	switch r.Intn(9) {
	case 0:
		o.chown = &[2]int{Pick(r, []int{0, 1, 100, 1000}), Pick(r, []int{0, 5, 200})}
		cls = "chown"
	case 1:
		m := Pick(r, []int{0755, 0700, 0644, 04755, 02755, 01777, 0})
		o.mode = &m
		cls = "mode"
	case 2:
		o.modeStr = Pick(r, c13ModeStrs)
		cls = "modestr"
	case 3:
		t := int64(1400000000+r.Intn(1000))*1e9 + int64(r.Intn(1e9))
		o.utime = &t
		cls = "utime"
	case 4:
		o.chown = &[2]int{100, 200}
		m := Pick(r, []int{0700, 02755})
		o.mode = &m
		t := int64(1)
		o.utime = &t
		if r.Bool() {
			o.modeStr = Pick(r, c13ModeStrs)
		}
		cls = "all"
	}
	if r.Chance(30) {
		o.dirContents = true
		cls += "+dc"
	}
	if c15 && r.Chance(35) {
		o.replace = true
		cls += "+ar"
	}
	return o, cls
}

// choose (src, dst) arguments for the given views
func c13GenArgs(r *Rng, sp, dp c13Paths, o *c13Opts, c15 bool) (src, dst, cls string) {
	switch k := r.Intn(10); {
	case k < 3:
		src, cls = Pick(r, []string{"/", ".", "/.", ""}), "root"
	case k < 5 && len(sp.dirs) > 0:
		src, cls = Pick(r, sp.dirs), "subdir"
		if r.Chance(20) {
			src += "/"
		}
	case k < 7 && len(sp.files)+len(sp.others) > 0:
		src, cls = Pick(r, append(append([]string{}, sp.files...), sp.others...)), "file"
	case k < 8 && len(sp.links) > 0:
		src, cls = Pick(r, sp.links), "symlink"
	case k < 9:
		o.wild = true
		src, cls = Pick(r, []string{"*", "d*", "d*/f?", "d*/*", "?1", "*/*", "f*", "d1/*", "z*"}), "wild"
	default:
		if len(sp.all) > 0 {
			src, cls = Pick(r, sp.all), "any"
		} else {
			src, cls = "/", "root"
		}
		if r.Chance(10) {
			src, cls = "missing", "nosrc"
		}
	}
	for tries := 0; tries < 20; tries++ {
		switch k := r.Intn(10); {
		case k < 3:
			dst = Pick(r, []string{"/", ".", "", "/."})
		case k < 5 && len(dp.all) > 0:
			dst = Pick(r, dp.all)
		case k < 6 && len(dp.dirs) > 0:
			dst = Pick(r, dp.dirs) + "/"
		case k < 8:
			dst = Pick(r, c13Universe)
			if r.Chance(30) {
				dst += "/"
			}
		default:
			base := ""
			if len(dp.all) > 0 && r.Bool() {
				base = Pick(r, dp.all) + "/"
			}
			dst = base + Pick(r, []string{"n1", "n1/n2", "n1/n2/n3", "n1/", "n1/n2/", "d1/n", "x/y"})
		}
		if !c13ThroughLink(dp, dst) {
			break
		}
		dst = "/"
	}
	if c13ThroughLink(sp, filepath.Dir(filepath.Clean("/"+src))) {
		src = "/"
	}
	return
}

// a destination that holds nothing but a chain of existing directories (the landing path and
// its ancestors), with foreign owners and, often, the set-group-ID bit: entries created below
// them inherit the directory's group (and directories the bit) from the kernel, so the copy
// has to restore the source's owner itself
func c13Skeleton(r *Rng) []*MNode {
	names := []string{"n1", "n2", "n3"}
	depth := 1 + r.Intn(3)
	var top, cur *MNode
	for i := 0; i < depth; i++ {
		mode := uint32(os.ModeDir) | uint32(Pick(r, []int{0755, 0775, 0770, 0777}))
		if r.Chance(65) {
			mode |= uint32(os.ModeSetgid)
		}
		if r.Chance(15) {
			mode |= uint32(os.ModeSticky)
		}
		st := &types.Stat{Mode: mode, ModTime: int64(1500000000+r.Intn(1000000))*1e9 + int64(r.Intn(1e9)),
			Uid: uint32(Pick(r, []int{0, 0, 1, 1000})), Gid: uint32(Pick(r, []int{0, 5, 7, 200, 4242}))}
		n := &MNode{Name: names[i], Stat: st}
		if cur == nil {
			top = n
		} else {
			cur.Kids = []*MNode{n}
		}
		cur = n
	}
	return []*MNode{top}
}

// dst mode (0 real, 1 symlinked ancestor, 2 root is a symlink) + 3 * src mode
func c13RootMode(r *Rng) int {
	// (srcRoot itself a symlink is left out: rootPath returns the root unresolved for src "/",
	// so the LINK is what gets lstat'ed and copied - a caller error rather than a copy property)
	// likewise dstRoot itself a symlink is only used by the directed cases, which land below the
	// root: when the landing path IS the root, the link itself is what copyDirectoryOnly lstat's
	return Pick(r, []int{0, 1, 1}) + 3*Pick(r, []int{0, 0, 1})
}

func c13Case(r *Rng, c15 bool) (Sx, string, bool) {
	to := TreeOpts{MaxEntries: 10, MaxDepth: 3, Types: true, HardLinks: true, Xattrs: true, Owners: true}
	if c15 || r.Chance(50) {
		to.Names = c13Universe
	} else {
		to.Names = []string{"a", "b", "ab", "a-b", "a b", "a.b", "c", "d", "~", "\x01", "\x7f", "\x80", "é", "日本", "...", ".a"}
		to.BigFiles = r.Chance(20)
	}
	sv := GenView(r, to)
	c13FixView(r, sv, true, true)
	var dv []*MNode
	skel := false
	if c15 {
		to.MaxEntries = 8
		dv = GenView(r, to)
		c13FixView(r, dv, true, true)
	} else if r.Chance(35) {
		dv = c13Skeleton(r)
		skel = true
	}
	sp, dp := c13Collect(sv), c13Collect(dv)
	o, ocls := c13GenOpts(r, c15)
	src, dst, acls := c13GenArgs(r, sp, dp, &o, c15)
	if skel {
		// land at or below the END of the chain, so that nothing of the destination lies below
		// the landing path (C13 is about an otherwise empty destination)
		last := dv[0].Name
		for n := dv[0]; len(n.Kids) > 0; n = n.Kids[0] {
			last += "/" + n.Kids[0].Name
		}
		dst = last + Pick(r, []string{"", "/", "/new", "/new/", "/new/deeper"})
		acls += "+skel"
	}
	in := L(ViewSx(sv), ViewSx(dv), S(src), S(dst), o.Sx(), Bool(c15))
	// how the roots are named: real path / through a symlinked ancestor / the root itself a symlink
	if r.Chance(30) {
		rm := c13RootMode(r)
		if rm != 0 {
			in = L(ViewSx(sv), ViewSx(dv), S(src), S(dst), o.Sx(), Bool(c15), NI(rm))
			acls += fmt.Sprintf("+root%d", rm)
		}
	}
	return in, acls + "/" + ocls, len(sp.all) >= 2
}

// ---- directed cases: every type against every type at one path ----
var c13Kinds = []string{"dir", "file", "link", "fifo", "chr", "blk", "sock"}

func c13Node(kind, name string, r *Rng, child string) *MNode {
	st := &types.Stat{Mode: 0644, ModTime: int64(1600000000+r.Intn(1000000))*1e9 + int64(r.Intn(1e9)),
		Uid: uint32(Pick(r, []int{0, 1, 1000})), Gid: uint32(Pick(r, []int{0, 5}))}
	n := &MNode{Name: name, Stat: st}
	switch kind {
	case "dir":
		st.Mode = uint32(os.ModeDir) | uint32(Pick(r, []int{0755, 0700, 0711}))
		if r.Chance(30) {
			st.Mode |= uint32(os.ModeSetgid)
		}
		if r.Chance(40) {
			st.Xattrs = map[string][]byte{"user.k" + string(rune('a'+r.Intn(3))): fillContent(r, 1+r.Intn(3))}
		}
		if child != "" {
			n.Kids = []*MNode{c13Node("file", child, r, "")}
		}
	case "file":
		st.Mode = uint32(Pick(r, []int{0644, 0600, 0755, 0}))
		if r.Chance(20) {
			st.Mode |= uint32(os.ModeSetuid)
		}
		sz := Pick(r, sizesSmall)
		n.Content = fillContent(r, sz)
		st.Size = int64(sz)
		if r.Chance(40) {
			st.Xattrs = map[string][]byte{"user.k" + string(rune('a'+r.Intn(3))): fillContent(r, 1+r.Intn(3))}
		}
		if r.Chance(30) {
			if st.Xattrs == nil {
				st.Xattrs = map[string][]byte{}
			}
			st.Xattrs[c13CapKey] = c13CapV2
		}
	case "link":
		st.Mode = uint32(os.ModeSymlink | 0777)
		st.Linkname = Pick(r, []string{"a", "../a", "nonexistent", "."})
		st.Size = int64(len(st.Linkname))
	case "fifo":
		st.Mode = uint32(os.ModeNamedPipe | 0644)
	case "chr":
		st.Mode = uint32(os.ModeDevice|os.ModeCharDevice) | 0600
		st.Devmajor, st.Devminor = int64(1+r.Intn(5)), int64(r.Intn(300))
	case "blk":
		st.Mode = uint32(os.ModeDevice) | 0660
		st.Devmajor, st.Devminor = int64(7+r.Intn(3)), int64(r.Intn(5))
	case "sock":
		st.Mode = uint32(os.ModeSocket | 0755)
	}
	return n
}

func c13DirOf(name string, r *Rng, kids ...*MNode) *MNode {
	d := c13Node("dir", name, r, "")
	d.Kids = kids
	sortKids(d)
	return d
}

// source entry of type A and destination entry of type B at the same path, met (a) below a copied
// directory, (b) as the path named by the call, (c) through a trailing-separator dst,
// each with and without always-replace / dir-contents / an option set
func c15Directed(g *Gen) {
	r := g.Rng
	for _, a := range c13Kinds {
		for _, b := range c13Kinds {
			for v := 0; v < 6; v++ {
				var o c13Opts
				ocls := "none"
				if v%3 == 2 {
					o, ocls = c13GenOptsIndep(r, true)
				} else {
					o = c13Opts{umask: 022}
				}
				o.replace = v%2 == 1
				o.wild = false
				sv := []*MNode{c13DirOf("d", r, c13Node(a, "x", r, "c"), c13Node("file", "s", r, ""))}
				dv := []*MNode{c13DirOf("d", r, c13Node(b, "x", r, "y"), c13Node("file", "t", r, ""))}
				var src, dst, pos string
				switch v / 2 {
				case 0:
					src, dst, pos = "d", "/", "below"
				case 1:
					src, dst, pos = "d/x", "d/x", "named"
				default:
					src, dst, pos = "d/x", "d/", "into"
				}
				in := L(ViewSx(sv), ViewSx(dv), S(src), S(dst), o.Sx(), Bool(true))
				cls := fmt.Sprintf("directed/%s-over-%s/%s/%s", a, b, pos, ocls)
				if o.replace {
					cls += "+ar"
				}
				g.Emit(0x1501, in, true, cls)
			}
		}
	}
}

// every type alone and inside a directory into the empty destination, under an option set
func c13Directed(g *Gen) {
	r := g.Rng
	for _, a := range c13Kinds {
		for v := 0; v < 4; v++ {
			o, ocls := c13GenOptsIndep(r, false)
			o.wild = false
			sv := []*MNode{c13DirOf("d", r, c13Node(a, "x", r, "c"), c13Node("file", "s", r, ""))}
			src, dst := "d", Pick(r, []string{"/", "n", "n/", "n1/n2"})
			if v%2 == 1 {
				src = "d/x"
			}
			in := L(ViewSx(sv), ViewSx(nil), S(src), S(dst), o.Sx(), Bool(false))
			g.Emit(0x1301, in, true, "directed/"+a+"/"+ocls)
		}
		// the same into a chain of existing (often set-group-ID, foreign-group) directories:
		// landing inside the last one, on a new name below it, or merged into it (dir-contents);
		// with and without a Chown option, sources owned by the caller (0:0) and by others
		for v := 0; v < 4; v++ {
			o, ocls := c13GenOptsIndep(r, false)
			o.wild = false
			if v%2 == 0 {
				o.chown = nil
			}
			x := c13Node(a, "x", r, "c")
			if v < 2 {
				x.Stat.Uid, x.Stat.Gid = 0, 0
			}
			sv := []*MNode{c13DirOf("d", r, x, c13Node("file", "s", r, ""))}
			dv := c13Skeleton(r)
			last := "n1"
			for n := dv[0]; len(n.Kids) > 0; n = n.Kids[0] {
				last += "/" + n.Kids[0].Name
			}
			src, dst := Pick(r, []string{"d", "d/x"}), Pick(r, []string{last, last + "/", last + "/new", last + "/new/"})
			in := L(ViewSx(sv), ViewSx(dv), S(src), S(dst), o.Sx(), Bool(false))
			g.Emit(0x1301, in, true, "directed-skel/"+a+"/"+ocls)
		}
	}
}

// the Utime option, destination levels that MkdirAll has to create, and every way of naming the
// roots: created parents must carry the requested time whatever the root is called
// every mode string against source directories and files of every permission class (no execute bit
// at all, some, special bits), copied as a tree (d with a file, a sub-directory and a fifo) and alone
func c13DirectedModes(g *Gen) {
	r := g.Rng
	dperm := []os.FileMode{0644, 0600, 0640 | os.ModeSetgid, 0755, 0700 | os.ModeSticky, 0, 0444 | os.ModeSetuid, 0010}
	fperm := []os.FileMode{0644, 0755, 0600 | os.ModeSetuid, 0, 0640 | os.ModeSetgid, 0001, 0444 | os.ModeSticky}
	i := 0
	for _, ms := range c13ModeStrs {
		for _, dp := range dperm {
			i++
			o := c13Opts{umask: Pick(r, []int{022, 0, 027, 077}), modeStr: ms}
			ocls := "modestr"
			if i%5 == 0 {
				o.chown = &[2]int{Pick(r, []int{0, 1000}), Pick(r, []int{0, 5})}
				ocls += "+chown"
			}
			if i%7 == 0 {
				m := Pick(r, []int{0755, 0644, 02750})
				o.mode = &m
				ocls += "+mode"
			}
			d := c13DirOf("d", r, c13Node("file", "f", r, ""), c13DirOf("e", r, c13Node("file", "g", r, "")), c13Node("fifo", "p", r, ""))
			d.Stat.Mode = uint32(os.ModeDir | dp)
			d.Kids[0].Stat.Mode = uint32(Pick(r, dperm) | os.ModeDir)
			d.Kids[1].Stat.Mode = uint32(fperm[i%len(fperm)])
			d.Kids[2].Stat.Mode = uint32(os.ModeNamedPipe | Pick(r, fperm))
			d.Kids[0].Kids[0].Stat.Mode = uint32(Pick(r, fperm))
			src := Pick(r, []string{"d", "d", "d/f", "d/e", "/"})
			dst := Pick(r, []string{"n", "n/", "n1/n2"})
			if i%3 == 0 {
				o.dirContents = true
			}
			in := L(ViewSx([]*MNode{d}), ViewSx(nil), S(src), S(dst), o.Sx(), Bool(false))
			g.Emit(0x1301, in, true, "directed-modes/"+ocls)
		}
	}
}

func c13DirectedRoots(g *Gen) {
	r := g.Rng
	for rm := 0; rm < 6; rm++ {
		for v := 0; v < 3; v++ {
			t := int64(1400000000+r.Intn(1000))*1e9 + int64(r.Intn(1e9))
			o := c13Opts{umask: 022, utime: &t}
			if v == 2 {
				o.chown = &[2]int{100, 200}
			}
			sv := []*MNode{c13DirOf("d", r, c13Node("file", "x", r, ""), c13Node("link", "l", r, "")), c13Node("file", "f", r, "")}
			src := Pick(r, []string{"f", "d", "d/x"})
			dst := Pick(r, []string{"a/b/c/", "a/b/c", "a/"})
			in := L(ViewSx(sv), ViewSx(nil), S(src), S(dst), o.Sx(), Bool(false), NI(rm))
			g.Emit(0x1301, in, true, fmt.Sprintf("directed-roots/%d", rm))
		}
	}
}

// wildcard matches that collide in the destination: several source directories hold entries
// with the same few names and of different kinds (directory with files inside / file / symlink),
// link groups span files at any depth of different matches, always-replace mostly on: a later
// match replaces what an earlier one put there, including directories that hold the recorded
// copy of a link group
func c13CollideCase(r *Rng, c15 bool) (Sx, string) {
	pool := []string{"x", "y", "z"}
	nd := 2 + r.Intn(3)
	var roots []*MNode
	for i := 0; i < nd; i++ {
		var kids []*MNode
		for _, nm := range pool {
			if !r.Chance(65) {
				continue
			}
			switch k := r.Intn(100); {
			case k < 35:
				d := c13Node("dir", nm, r, "")
				for _, cn := range []string{"f", "g"} {
					if r.Chance(60) {
						d.Kids = append(d.Kids, c13Node("file", cn, r, ""))
					}
				}
				if r.Chance(30) {
					d.Kids = append(d.Kids, c13DirOf("s", r, c13Node("file", "h", r, "")))
				}
				sortKids(d)
				kids = append(kids, d)
			case k < 80:
				kids = append(kids, c13Node("file", nm, r, ""))
			default:
				kids = append(kids, c13Node("link", nm, r, ""))
			}
		}
		roots = append(roots, c13DirOf(fmt.Sprintf("d%d", i+1), r, kids...))
	}
	// regular files in walk order
	type fref struct {
		n *MNode
		p string
	}
	var files []fref
	var walk func(dir string, n *MNode)
	walk = func(dir string, n *MNode) {
		p := n.Name
		if dir != "" {
			p = dir + "/" + n.Name
		}
		if os.FileMode(n.Stat.Mode)&os.ModeType == 0 {
			files = append(files, fref{n, p})
		}
		for _, k := range n.Kids {
			walk(p, k)
		}
	}
	for _, n := range roots {
		walk("", n)
	}
	// one or two link groups over them (every later member names the first in walk order)
	used := map[int]bool{}
	for g := 0; g < 1+r.Intn(2) && len(files) >= 2; g++ {
		var idx []int
		for k := 0; k < 2+r.Intn(2); k++ {
			i := r.Intn(len(files))
			if !used[i] {
				used[i] = true
				idx = append(idx, i)
			}
		}
		if len(idx) < 2 {
			continue
		}
		sort.Ints(idx)
		first := files[idx[0]]
		delete(first.n.Stat.Xattrs, c13CapKey)
		for _, i := range idx[1:] {
			files[i].n.Stat = first.n.Stat.CloneVT()
			files[i].n.Content = first.n.Content
			files[i].n.Stat.Linkname = first.p
		}
	}
	var dv []*MNode
	if c15 && r.Chance(60) {
		dv = GenView(r, TreeOpts{MaxEntries: 5, MaxDepth: 2, Types: true, Names: []string{"x", "y", "z", "n"}, Owners: true})
	}
	o := c13Opts{umask: 022, wild: true, replace: r.Chance(75), dirContents: r.Chance(25)}
	if r.Chance(25) {
		t := int64(1400000000+r.Intn(1000)) * 1e9
		o.utime = &t
	}
	src := Pick(r, []string{"*/*", "d*/?", "*/x", "d?/*", "*/*"})
	dst := Pick(r, []string{"/", "/", "n", "n/"})
	if c13ThroughLink(c13Collect(dv), dst) {
		dst = "/"
	}
	cls := "collide"
	if o.replace {
		cls += "+ar"
	}
	if o.dirContents {
		cls += "+dc"
	}
	return L(ViewSx(roots), ViewSx(dv), S(src), S(dst), o.Sx(), Bool(c15)), cls
}

func c13Collide(g *Gen, kind uint64, c15 bool, n int) {
	for i := 0; i < n; i++ {
		in, cls := c13CollideCase(g.Rng, c15)
		g.Emit(kind, in, true, cls)
	}
}

// ---- large (sparse) files: sizes at and across the per-call limit of copy_file_range ----
const c13RWMax = int64(0x7ffff000) // MAX_RW_COUNT: what one copy_file_range / read / write call moves at most

func c13BigCase(r *Rng, size int64, inDir bool) Sx {
	var marks, probes []Sx
	seen := map[int64]bool{}
	addProbe := func(off int64) {
		if off < 0 {
			off = 0
		}
		if !seen[off] {
			seen[off] = true
			probes = append(probes, L(I64(off), NI(64)))
		}
	}
	mark := func(off int64, tag string) {
		if off < 0 || off >= size {
			return
		}
		marks = append(marks, L(I64(off), S(fmt.Sprintf("%s@%x:%s", tag, off, string(fillContent(r, 1+r.Intn(12)))))))
		addProbe(off - 32)
		addProbe(off)
	}
	mark(0, "head")
	for _, t := range []int64{c13RWMax, 1 << 31, 2 * c13RWMax, 1 << 32, 1 << 20, 32 * 1024} {
		mark(t-int64(1+r.Intn(40)), "before")
		mark(t, "at")
		mark(t+int64(1+r.Intn(5000)), "after")
	}
	mark(size-int64(1+r.Intn(30)), "tail")
	if size > 0 {
		mark(int64(r.Intn(int(min64(size, 1<<40)))), "any")
	}
	addProbe(size - 32)
	addProbe(size)
	return L(I64(size), L(marks...), L(probes...), Bool(inDir))
}

func min64(a, b int64) int64 {
	if a < b {
		return a
	}
	return b
}

func c13Big(g *Gen) {
	r := g.Rng
	small := []int64{0, 1, 4095, 4096, 65537, 1<<20 + 1}
	for i, sz := range small {
		g.Emit(0x1303, c13BigCase(r, sz, i%2 == 0), true, "big/small")
	}
	// one file across the limit in every run, the sweep in the thorough tier
	g.Emit(0x1303, c13BigCase(r, 1<<31+8192+int64(r.Intn(100)), r.Bool()), true, "big/over-limit")
	if g.Vol(0, 1) == 1 {
		for i, sz := range []int64{c13RWMax - 1, c13RWMax, c13RWMax + 1, 1 << 31, 1<<31 + 8192, 2 * c13RWMax, 2*c13RWMax + 1, 1<<32 + 1} {
			g.Emit(0x1303, c13BigCase(r, sz, i%2 == 1), true, "big/sweep")
		}
	}
}

// ---- wildcard bases and sources that are symlinks, FollowLinks off and on ----
func c13LinkTo(name, target string, r *Rng) *MNode {
	n := c13Node("link", name, r, "")
	n.Stat.Linkname = target
	n.Stat.Size = int64(len(target))
	return n
}

func c13WildLinkCase(r *Rng, c15 bool) (Sx, string) {
	names := []string{"a.conf", "b.conf", "c.txt", "sub"}
	mk := func(dn string) *MNode {
		var kids []*MNode
		for _, nm := range names {
			if r.Chance(70) {
				if nm == "sub" {
					kids = append(kids, c13DirOf(nm, r, c13Node("file", "x", r, "")))
				} else {
					kids = append(kids, c13Node("file", nm, r, ""))
				}
			}
		}
		return c13DirOf(dn, r, kids...)
	}
	relKids := []*MNode{mk("v1"), mk("v2")}
	if r.Chance(60) {
		relKids = append(relKids, c13LinkTo("cur", Pick(r, []string{"v1", "v2", "../rel/v2"}), r))
	}
	roots := []*MNode{c13DirOf("rel", r, relKids...),
		c13LinkTo("current", Pick(r, []string{"rel/v2", "rel/v1", "rel", "./rel/v2/"}), r)}
	if r.Chance(50) {
		roots = append(roots, c13LinkTo("lf", "rel/v1/a.conf", r))
	}
	if r.Chance(50) {
		roots = append(roots, c13LinkTo("dang", "nonexistent", r))
	}
	if r.Chance(50) {
		roots = append(roots, c13DirOf("conf", r, c13Node("file", "a.conf", r, ""), c13Node("file", "z", r, "")))
	}
	sort.Slice(roots, func(i, j int) bool { return roots[i].Name < roots[j].Name })
	src := Pick(r, []string{"current/*", "current/*.conf", "current/?*", "rel/cur/*", "rel/cur/*.conf", "current/sub/*", "c*/*",
		"lf/*", "dang/*", "conf/*", "conf/*.conf", "current/", "current", "rel/cur", "*/v2/*", "current/*/x", "rel/*/a.conf", "lf", "*",
		"rel/v?/*.conf", "cur*", "rel/c*"})
	o := c13Opts{umask: 022, wild: strings.ContainsAny(src, "*?") || r.Chance(30)}
	ocls := "none"
	if r.Chance(30) {
		o, ocls = c13GenOptsIndep(r, c15)
		o.wild = strings.ContainsAny(src, "*?") || r.Chance(30)
	}
	if c15 && r.Chance(40) {
		o.replace = true
	}
	var dv []*MNode
	dst := Pick(r, []string{"/", "etc", "etc/", "n/"})
	if c15 {
		dv = []*MNode{c13DirOf("etc", r, c13Node(Pick(r, []string{"file", "dir", "link"}), "a.conf", r, ""), c13Node("file", "keep", r, ""))}
		if r.Chance(30) {
			dv = append(dv, c13Node("file", "v2", r, ""))
		}
	}
	follow := r.Bool()
	cls := "wildlink/" + ocls
	fields := []Sx{ViewSx(roots), ViewSx(dv), S(src), S(dst), o.Sx(), Bool(c15)}
	if follow {
		fields = append(fields, NI(16))
		cls += "+follow"
	}
	return L(fields...), cls
}

// ---- backslash escapes in wildcard sources; names that contain [ * ? \ literally ----
var c13OddNames = []string{"[ab", "[", "x?z", "xyz", "x?", "a*", "a*b", "ab", "\\", "\\x", "a\\*", "*", "?", "[a]", "a", "x??"}

func c13EscapeCase(r *Rng, c15 bool) (Sx, string) {
	mk := func(nm string) *MNode {
		if r.Chance(30) {
			return c13DirOf(nm, r, c13Node("file", Pick(r, c13OddNames), r, ""), c13Node("file", "f", r, ""))
		}
		return c13Node(Pick(r, []string{"file", "file", "link", "fifo"}), nm, r, "")
	}
	pickNames := func(k int) []string {
		seen := map[string]bool{}
		var out []string
		for len(out) < k {
			nm := Pick(r, c13OddNames)
			if !seen[nm] {
				seen[nm] = true
				out = append(out, nm)
			}
		}
		sort.Strings(out)
		return out
	}
	var roots []*MNode
	for _, nm := range pickNames(3 + r.Intn(5)) {
		roots = append(roots, mk(nm))
	}
	var sub []*MNode
	for _, nm := range pickNames(2 + r.Intn(4)) {
		sub = append(sub, mk(nm))
	}
	roots = append(roots, c13DirOf("sub", r, sub...))
	sort.Slice(roots, func(i, j int) bool { return roots[i].Name < roots[j].Name })
	// an escaped metacharacter followed by real wildcards, escapes only, escaped backslash, plain
	pats := []string{"\\[*", "x\\??", "\\[", "a\\*", "a\\**", "\\**", "\\??", "\\?", "\\\\*", "\\\\", "\\[a]", "\\[a*", "x\\?z", "x\\?*",
		"*\\*", "*\\?*", "a\\*b", "?\\?", "\\a*", "x??", "*", "[a]", "a*\\", "\\x?z", "x\\??z"}
	p := Pick(r, pats)
	src := p
	switch r.Intn(4) {
	case 0:
		src = "sub/" + p
	case 1:
		src = p + "/" + Pick(r, []string{"*", "f", Pick(r, pats)})
	}
	o := c13Opts{umask: 022, wild: r.Chance(85)}
	ocls := "none"
	if r.Chance(25) {
		w := o.wild
		o, ocls = c13GenOptsIndep(r, c15)
		o.wild = w
	}
	if c15 && r.Chance(40) {
		o.replace = true
	}
	var dv []*MNode
	if c15 {
		dv = []*MNode{c13DirOf("n", r, c13Node(Pick(r, []string{"file", "dir"}), Pick(r, c13OddNames), r, ""))}
	}
	dst := Pick(r, []string{"/", "n", "n/"})
	return L(ViewSx(roots), ViewSx(dv), S(src), S(dst), o.Sx(), Bool(c15)), "escapes/" + ocls
}

func c13Escapes(g *Gen, kind uint64, c15 bool, n int) {
	for i := 0; i < n; i++ {
		in, cls := c13EscapeCase(g.Rng, c15)
		g.Emit(kind, in, true, cls)
	}
}

func c13WildLinks(g *Gen, kind uint64, c15 bool, n int) {
	for i := 0; i < n; i++ {
		in, cls := c13WildLinkCase(g.Rng, c15)
		g.Emit(kind, in, true, cls)
	}
}

// ---- kind 1502: include / exclude patterns, special bits on the directories that are only
// created as parents of something selected, populated destination, the copy applied twice ----
func c15SpecialDirs(r *Rng, n *MNode) {
	m := os.FileMode(n.Stat.Mode)
	if m.IsDir() {
		if r.Chance(50) {
			n.Stat.Mode |= uint32(Pick(r, []os.FileMode{os.ModeSetgid, os.ModeSticky, os.ModeSetuid, os.ModeSetgid | os.ModeSticky}))
		}
		for _, k := range n.Kids {
			c15SpecialDirs(r, k)
		}
	}
}

func c15Clone(n *MNode) *MNode {
	c := &MNode{Name: n.Name, Stat: n.Stat.CloneVT(), Content: append([]byte{}, n.Content...)}
	for _, k := range n.Kids {
		c.Kids = append(c.Kids, c15Clone(k))
	}
	return c
}

func c15Patterns(r *Rng, rels []string) (inc, exc []string, cls string) {
	if len(rels) == 0 {
		return nil, nil, "none"
	}
	var deep []string
	for _, p := range rels {
		if strings.Count(p, "/") >= 1 {
			deep = append(deep, p)
		}
	}
	p := Pick(r, rels)
	if len(deep) > 0 && r.Chance(70) {
		p = Pick(r, deep)
	}
	cs := strings.Split(p, "/")
	switch r.Intn(8) {
	case 0:
		return []string{p}, nil, "literal"
	case 1:
		return []string{"**/" + cs[len(cs)-1]}, nil, "**/name"
	case 2:
		if len(cs) >= 2 {
			cs2 := append([]string{}, cs...)
			cs2[r.Intn(len(cs2)-1)] = "*"
			return []string{strings.Join(cs2, "/")}, nil, "a/*/c"
		}
		return []string{"*/" + p}, nil, "*/p"
	case 3:
		return nil, []string{cs[0], "!" + p}, "exclude-with-exception"
	case 4:
		return []string{p}, []string{p + "/*"}, "dir-without-descendants"
	case 5:
		return []string{p + "/*"}, nil, "p/*"
	case 6:
		return []string{p, Pick(r, rels)}, []string{"**/" + Pick(r, c13Universe)}, "two+exclude"
	}
	return nil, []string{Pick(r, rels)}, "exclude"
}

func c15FilteredCase(r *Rng) (Sx, string) {
	var sv []*MNode
	if r.Chance(50) {
		to := TreeOpts{MaxEntries: 12, MaxDepth: 4, Types: true, HardLinks: true, Xattrs: true, Owners: true, Names: c13Universe}
		sv = GenView(r, to)
		c13FixView(r, sv, true, true)
	} else {
		// a chain of directories with something selectable at the bottom and beside it
		sv = []*MNode{c13DirOf("d1", r,
			c13DirOf("d2", r, c13Node("file", "f1", r, ""), c13Node(Pick(r, c13Kinds), "x", r, "y"), c13DirOf("d1", r, c13Node("file", "f2", r, ""))),
			c13Node("file", "f2", r, ""), c13Node(Pick(r, c13Kinds), "y", r, "f1")),
			c13Node("file", "f1", r, "")}
	}
	for _, n := range sv {
		c15SpecialDirs(r, n)
	}
	sp := c13Collect(sv)
	// the source: the root or one of its directories
	src, base := "/", ""
	if len(sp.dirs) > 0 && r.Chance(60) {
		base = Pick(r, sp.dirs)
		src = base
	}
	var rels []string
	for _, p := range sp.all {
		if base == "" {
			rels = append(rels, p)
		} else if strings.HasPrefix(p, base+"/") {
			rels = append(rels, p[len(base)+1:])
		}
	}
	// the destination: the resolved dst is an existing directory (the landing path is then the
	// same for both applications)
	var dv []*MNode
	switch r.Intn(3) {
	case 0: // only the landing directory
	case 1: // the source itself, partly, with other metadata (a previous copy, edited)
		for _, n := range sv {
			dv = append(dv, c15Clone(n))
		}
		c13FixView(r, dv, false, false)
		c13FixView(r, dv, false, false)
	default:
		to := TreeOpts{MaxEntries: 8, MaxDepth: 3, Types: true, HardLinks: true, Xattrs: true, Owners: true, Names: c13Universe}
		dv = GenView(r, to)
		c13FixView(r, dv, true, true)
	}
	dst := "/"
	dp := c13Collect(dv)
	if len(dp.dirs) > 0 && r.Chance(40) {
		dst = Pick(r, dp.dirs) + Pick(r, []string{"", "/"})
	}
	o, ocls := c13GenOpts(r, true)
	o.wild = false
	inc, exc, pcls := c15Patterns(r, rels)
	is, es := make([]Sx, len(inc)), make([]Sx, len(exc))
	for i, p := range inc {
		is[i] = S(p)
	}
	for i, p := range exc {
		es[i] = S(p)
	}
	return L(ViewSx(sv), ViewSx(dv), S(src), S(dst), o.Sx(), Bool(true), L(is...), L(es...)), "filtered/" + pcls + "/" + ocls
}

func c15Filtered(g *Gen, n int) {
	for i := 0; i < n; i++ {
		in, cls := c15FilteredCase(g.Rng)
		g.Emit(0x1502, in, true, cls)
	}
}

func c13OK(out Sx) bool {
	return len(out.L) >= 2 && out.L[0].Kind == 'l' && len(out.L[0].L) == 3 && out.L[0].L[0].Int() == 0
}

func genC13(g *Gen) {
	c13Directed(g)
	c13DirectedRoots(g)
	c13DirectedModes(g)
	c13Big(g)
	c13WildLinks(g, 0x1301, false, g.Vol(150, 3000))
	c13Escapes(g, 0x1301, false, g.Vol(200, 4000))
	c13Collide(g, 0x1301, false, g.Vol(100, 2000))
	n := g.Vol(1500, 30000)
	for i := 0; i < n; i++ {
		in, cls, big := c13Case(g.Rng, false)
		out := run1301(in)
		if c13OK(out) {
			cls += "/ok"
		} else {
			cls += "/err"
		}
		g.EmitWith(0x1301, in, out, big && c13OK(out), cls)
	}
	// mode strings against the real library
	frag := []string{"u", "g", "o", "a", "+", "-", "=", "r", "w", "x", "X", "s", "t", ",", "7", "5", "0", "4"}
	perms := []int{0, 0644, 0755, 0600, 0111, 0444, 04755, 02755, 01777, 07777, 0010, 0640, 02640, 04600, 01644, 0001}
	for _, s := range c13ModeStrs {
		for _, p := range perms {
			for _, d := range []bool{false, true} {
				g.Emit(0x1302, L(S(s), NI(p), Bool(d)), true, "mode-fixed")
			}
		}
	}
	m := g.Vol(20000, 300000)
	for i := 0; i < m; i++ {
		var sb strings.Builder
		for k := 1 + g.Rng.Intn(7); k > 0; k-- {
			sb.WriteString(Pick(g.Rng, frag))
		}
		g.Emit(0x1302, L(S(sb.String()), NI(g.Rng.Intn(4096)), Bool(g.Rng.Bool())), false, "mode-random")
	}
}

func genC15(g *Gen) {
	c15Directed(g)
	c13Collide(g, 0x1501, true, g.Vol(250, 5000))
	c13WildLinks(g, 0x1501, true, g.Vol(150, 3000))
	c13Escapes(g, 0x1501, true, g.Vol(250, 5000))
	c15Filtered(g, g.Vol(300, 6000))
	n := g.Vol(1500, 30000)
	for i := 0; i < n; i++ {
		in, cls, big := c13Case(g.Rng, true)
		out := run1301(in)
		if c13OK(out) {
			cls += "/ok"
		} else {
			cls += "/err"
		}
		g.EmitWith(0x1501, in, out, big, cls)
	}
}

var _ = types.Stat{}
