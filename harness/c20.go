package main

// C20 — wire encoding and framing (types/*_vtproto.pb.go, util/protostream.go) and the chunked
// metadata buffer (buffer.go, via the VerifBuffer hook).
//
// kinds (inputs are pure data, every runner recovers panics and runs under a watchdog):
//   2001 (sel value)            sel bit 0: Stat/Packet, bits 1..5: encode path, bit 6: nil xattr values -> (bytes size)
//   2002 (sel bytes)            sel 0 Stat, 1 Packet: UnmarshalVT into a fresh message
//                               -> (#1 value unknown.. size) | (#0) error
//   2003 (sel value)            generic runtime vs VT codec, both directions
//   2004 (mode packets lens)    util.NewProtoStream SendMsg*, then RecvMsg* over a fragmenting reader
//   2005 ((size seed)..)        fsutil.VerifBuffer
//   2007 (mode ((packets lens)..) schedule)  several protoStreams in one process, interleaved (c20_streams.go)
//   2008 (sel (op..))           histories on ONE Stat / Packet object: mutations, Reset, every encode path (c20_history.go)
//   2009 (mode recv lens send schedule)  one protoStream in both directions, gated (c20_duplex.go)
//   2006 (mode (stat..) [cut])  listing records (LE length + VT bytes) through the real buffer, parsed back (c20_listing.go)
// Harness-detected anomalies are encoded as output values no model can produce:
//   (#ffff msg) panic, (#fffe) hang, (#fffd what ..) aliasing / pooled-decode mismatch.

import (
	"bytes"
	"context"
	"errors"
	"fmt"
	"io"
	"runtime"
	"time"

	"github.com/tonistiigi/fsutil"
	"github.com/tonistiigi/fsutil/types"
	"github.com/tonistiigi/fsutil/util"
	"google.golang.org/protobuf/proto"
)

func init() {
	kinds[0x2001] = run2001
	kinds[0x2002] = run2002
	kinds[0x2003] = run2003
	kinds[0x2004] = run2004
	kinds[0x2005] = run2005
	props["C20"] = genC20
}

// ---------------------------------------------------------------- sx <-> values

// packet = (type opt id data), opt = () | (stat); type = int32 as two's complement mod 2^32
func PacketSx(p *types.Packet) Sx {
	opt := L()
	if p.Stat != nil {
		opt = L(StatSx(p.Stat))
	}
	return L(N(uint64(uint32(p.Type))), opt, N(uint64(p.ID)), B(append([]byte{}, p.Data...)))
}

func SxPacket(x Sx) *types.Packet {
	p := &types.Packet{Type: types.Packet_PacketType(int32(uint32(x.L[0].U64()))), ID: uint32(x.L[2].U64())}
	if len(x.L[1].L) == 1 {
		p.Stat = SxStat(x.L[1].L[0])
	}
	if len(x.L[3].B) > 0 {
		p.Data = append([]byte{}, x.L[3].B...)
	}
	return p
}

func guardedC20(f func() Sx) (out Sx) {
	done := make(chan Sx, 1)
	go func() {
		defer func() {
			if r := recover(); r != nil {
				done <- L(N(0xffff), S(fmt.Sprint(r)))
			}
		}()
		done <- f()
	}()
	t := time.NewTimer(10 * time.Second)
	defer t.Stop()
	select {
	case o := <-done:
		return o
	case <-t.C:
		return L(N(0xfffe))
	}
}

// ---------------------------------------------------------------- 2001 marshal
// sel: bit 0 = 0 Stat / 1 Packet; bits 1..5 = encode path; bit 6 (64) = xattr values of length 0 are nil
// instead of empty slices. Paths (every way the repository reaches an encoder):
//   0 MarshalVT               1 Marshal() = MarshalVTStrict      2 MarshalToSizedBufferVT(buf[SizeVT])
//   3 MarshalToSizedBufferVTStrict   4 MarshalToVT / Packet.MarshalTo(buf[Size()])   5 MarshalToVTStrict
//   6 (Packet) util.NewProtoStream(...).SendMsg: Size() + MarshalTo, minus the 4-byte header
// -> (bytes size): what the encoder wrote and what SizeVT()/Size() announced (for path 6 also the header
// value must equal it), (#0) on an encoder error. A panic is recovered by guardedC20.
func run2001(in Sx) Sx {
	return guardedC20(func() Sx {
		sel := in.L[0].Int()
		path := (sel >> 1) & 31
		nilVals := sel&64 != 0
		fix := func(s *types.Stat) {
			if s == nil || !nilVals {
				return
			}
			for k, v := range s.Xattrs {
				if len(v) == 0 {
					s.Xattrs[k] = nil
				}
			}
		}
		if sel&1 == 0 {
			s := SxStat(in.L[1])
			fix(s)
			return c20EncodeStat(s, path)
		}
		p := SxPacket(in.L[1])
		fix(p.Stat)
		return c20EncodePacket(p, path)
	})
}

// into a caller-provided buffer of the announced size; the encoders fill it from the end
func c20Sized(size int, enc func([]byte) (int, error)) ([]byte, error) {
	buf := make([]byte, size)
	n, err := enc(buf)
	if err != nil {
		return nil, err
	}
	if n < 0 || n > len(buf) {
		panic(fmt.Sprintf("encoder reports %d bytes written into a %d-byte buffer", n, len(buf)))
	}
	return buf[len(buf)-n:], nil
}

// one encoding of the CURRENT value of s on the given path -> (bytes size) | (#0)
func c20EncodeStat(s *types.Stat, path int) Sx {
	var b []byte
	var err error
	size := s.SizeVT()
	switch path {
	case 0:
		b, err = s.MarshalVT()
	case 1:
		b, err = s.Marshal()
	case 2:
		b, err = c20Sized(size, s.MarshalToSizedBufferVT)
	case 3:
		b, err = c20Sized(size, s.MarshalToSizedBufferVTStrict)
	case 4:
		b, err = c20Sized(size, s.MarshalToVT)
	default:
		b, err = c20Sized(size, s.MarshalToVTStrict)
	}
	if err != nil {
		return L(N(0))
	}
	return L(B(append([]byte{}, b...)), NI(size))
}

func c20EncodePacket(p *types.Packet, path int) Sx {
	var b []byte
	var err error
	size := p.Size()
	switch path {
	case 0:
		b, err = p.MarshalVT()
	case 1:
		b, err = p.Marshal()
	case 2:
		b, err = c20Sized(size, p.MarshalToSizedBufferVT)
	case 3:
		b, err = c20Sized(size, p.MarshalToSizedBufferVTStrict)
	case 4:
		b, err = c20Sized(size, p.MarshalTo)
	case 5:
		b, err = c20Sized(size, p.MarshalToVTStrict)
	default:
		var wbuf bytes.Buffer
		ws := util.NewProtoStream(context.Background(), nil, &wbuf)
		err = ws.SendMsg(p)
		if err == nil {
			w := wbuf.Bytes()
			if len(w) < 4 {
				return L(N(0xfffd), S("short-frame"))
			}
			if h := int(uint32(w[0])<<24 | uint32(w[1])<<16 | uint32(w[2])<<8 | uint32(w[3])); h != size {
				return L(N(0xfffd), S("header-differs-from-size"), NI(h), NI(size))
			}
			b = append([]byte{}, w[4:]...)
		}
	}
	if err != nil {
		return L(N(0))
	}
	return L(B(append([]byte{}, b...)), NI(size))
}

// the generator itself must not die when the real encoder panics on a generated value
func c20SafeBytes(f func() ([]byte, error)) (b []byte) {
	defer func() {
		if recover() != nil {
			b = nil
		}
	}()
	b, _ = f()
	return b
}

// ---------------------------------------------------------------- 2002 unmarshal
func statResult(s *types.Stat) string {
	return L(N(1), StatSx(s), B(s.ProtoReflect().GetUnknown()), NI(s.SizeVT())).String()
}

func packetResult(p *types.Packet) string {
	var su []byte
	if p.Stat != nil {
		su = p.Stat.ProtoReflect().GetUnknown()
	}
	return L(N(1), PacketSx(p), B(su), B(p.ProtoReflect().GetUnknown()), NI(p.SizeVT())).String()
}

var dirtyPacketBytes = func() []byte {
	p := &types.Packet{Type: types.PACKET_DATA, ID: 77, Data: bytes.Repeat([]byte{0xEE}, 300),
		Stat: &types.Stat{Path: "dirty", Mode: 0644, Xattrs: map[string][]byte{"user.dirty": []byte("x")}}}
	return c20SafeBytes(p.MarshalVT)
}()

func mustParse(s string) Sx {
	x, err := ParseSx(s)
	if err != nil {
		panic(err)
	}
	return x
}

func run2002(in Sx) Sx {
	return guardedC20(func() Sx {
		sel := in.L[0].Int()
		buf := append([]byte{}, in.L[1].B...)
		if sel == 0 {
			s := &types.Stat{}
			if err := s.UnmarshalVT(buf); err != nil {
				return L(N(0))
			}
			r1 := statResult(s)
			for i := range buf { // the decoded value must not alias the receive buffer
				buf[i] ^= 0xA5
			}
			if r2 := statResult(s); r2 != r1 {
				return L(N(0xfffd), S("alias"), mustParse(r1), mustParse(r2))
			}
			return mustParse(r1)
		}
		p := &types.Packet{}
		err := p.UnmarshalVT(buf)
		// the same bytes into a recycled pooled packet (as receive.go does: ResetVT keeps Data's capacity)
		q := types.PacketFromVTPool()
		_ = q.UnmarshalVT(dirtyPacketBytes)
		q.ResetVT()
		buf2 := append([]byte{}, in.L[1].B...)
		err2 := q.UnmarshalVT(buf2)
		if (err == nil) != (err2 == nil) {
			return L(N(0xfffd), S("pooled-error-differs"))
		}
		if err != nil {
			return L(N(0))
		}
		r1 := packetResult(p)
		for i := range buf {
			buf[i] ^= 0xA5
		}
		for i := range buf2 {
			buf2[i] ^= 0xA5
		}
		if r2 := packetResult(p); r2 != r1 {
			return L(N(0xfffd), S("alias"), mustParse(r1), mustParse(r2))
		}
		if r3 := packetResult(q); r3 != r1 {
			return L(N(0xfffd), S("pooled-differs"), mustParse(r1), mustParse(r3))
		}
		q.ReturnToVTPool()
		return mustParse(r1)
	})
}

// ---------------------------------------------------------------- 2003 generic runtime
// -> (gm gu vu): gm = generic deterministic Marshal: (#1 bytes) | (#0)
//                gu = generic Unmarshal of the VT bytes: (#1 value) | (#0)
//                vu = VT Unmarshal of the generic bytes: (#1 value) | (#0) | () when gm failed
func run2003(in Sx) Sx {
	return guardedC20(func() Sx {
		sel := in.L[0].Int()
		mo := proto.MarshalOptions{Deterministic: true}
		if sel == 0 {
			s := SxStat(in.L[1])
			vt, err := s.MarshalVT()
			if err != nil {
				return L(N(0xfffd), S("vt-marshal-error"))
			}
			gm, gu, vu := L(N(0)), L(N(0)), L()
			gb, gerr := mo.Marshal(s)
			if gerr == nil {
				gm = L(N(1), B(gb))
				var back types.Stat
				if err := back.UnmarshalVT(gb); err == nil {
					vu = L(N(1), StatSx(&back))
				} else {
					vu = L(N(0))
				}
			}
			var g types.Stat
			if err := proto.Unmarshal(vt, &g); err == nil {
				gu = L(N(1), StatSx(&g))
			}
			return L(gm, gu, vu)
		}
		p := SxPacket(in.L[1])
		vt, err := p.MarshalVT()
		if err != nil {
			return L(N(0xfffd), S("vt-marshal-error"))
		}
		gm, gu, vu := L(N(0)), L(N(0)), L()
		gb, gerr := mo.Marshal(p)
		if gerr == nil {
			gm = L(N(1), B(gb))
			var back types.Packet
			if err := back.UnmarshalVT(gb); err == nil {
				vu = L(N(1), PacketSx(&back))
			} else {
				vu = L(N(0))
			}
		}
		var g types.Packet
		if err := proto.Unmarshal(vt, &g); err == nil {
			gu = L(N(1), PacketSx(&g))
		}
		return L(gm, gu, vu)
	})
}

// ---------------------------------------------------------------- 2004 framing
// fragReader hands out the stream in pieces of the given lengths (a piece of length 0 is a
// Read returning 0, nil); after the list is exhausted the rest comes in one piece. It remembers
// every destination slice it was given so the harness can scribble over the pooled buffer.
type fragReader struct {
	data  []byte
	lens  []int
	flags []int // per piece, parallel to lens: 0 = nil, 1 = io.EOF, 2 = errC20Injected, reported by the Read that exhausts the piece
	cur   int   // bytes left in the current piece; -1 = need next piece
	curF  int   // flag of the current piece
	// eofWithData: the Read that delivers the final bytes of the data reports io.EOF in the same call
	// (allowed by the io.Reader contract; iotest.DataErrReader, decompressors, HTTP bodies do it)
	eofWithData bool
	given       [][]byte
}

var errC20Injected = errors.New("c20: injected read error")

func (r *fragReader) Read(p []byte) (int, error) {
	if r.cur < 0 {
		if len(r.data) == 0 {
			return 0, io.EOF
		}
		r.curF = 0
		if len(r.lens) > 0 {
			r.cur = r.lens[0]
			r.lens = r.lens[1:]
			if len(r.flags) > 0 {
				r.curF = r.flags[0]
				r.flags = r.flags[1:]
			}
			if r.cur > len(r.data) {
				r.cur = len(r.data)
			}
		} else {
			r.cur = len(r.data)
		}
	}
	n := len(p)
	if n > r.cur {
		n = r.cur
	}
	copy(p, r.data[:n])
	r.data = r.data[n:]
	r.cur -= n
	var err error
	if r.cur == 0 { // this Read exhausts the piece: its error comes with the data (not sticky)
		r.cur = -1
		switch r.curF {
		case 1:
			err = io.EOF
		case 2:
			err = errC20Injected
		}
		if err == nil && r.eofWithData && len(r.data) == 0 {
			err = io.EOF
		}
	}
	if n > 0 {
		r.given = append(r.given, p[:n])
	}
	return n, err
}

// mode: 0 fresh Packet per RecvMsg; 1 one Packet, ResetVT before every RecvMsg (receive.go);
//       bit 2 (4): the stream is truncated to `cut` bytes (4th input element)
//       bit 3 (8): the reader reports io.EOF together with the final bytes of the (cut) stream
// lens: a piece is #n (Read error nil) or (#n #flag): flag 1 = io.EOF, 2 = another error, reported by the
//       Read that exhausts the piece, together with its bytes (a piece of length 0: a Read returning (0, err))
// -> (full-stream (item..)) item = (packet) | (#0) for an error other than io.EOF (then stop)
func run2004(in Sx) Sx {
	return guardedC20(func() Sx {
		mode := in.L[0].Int()
		var wbuf bytes.Buffer
		ws := util.NewProtoStream(context.Background(), nil, &wbuf)
		for _, px := range in.L[1].L {
			if err := ws.SendMsg(SxPacket(px)); err != nil {
				return L(N(0xfffd), S("send-error"), S(err.Error()))
			}
		}
		stream := append([]byte{}, wbuf.Bytes()...)
		full := stream
		if mode&4 != 0 {
			cut := in.L[3].Int()
			if cut < len(stream) {
				stream = stream[:cut]
			}
		}
		lens := make([]int, len(in.L[2].L))
		flags := make([]int, len(in.L[2].L))
		for i, x := range in.L[2].L {
			if x.Kind == 'n' {
				lens[i] = x.Int()
			} else {
				lens[i] = x.L[0].Int()
				flags[i] = x.L[1].Int()
			}
		}
		fr := &fragReader{data: append([]byte{}, stream...), lens: lens, flags: flags, cur: -1, eofWithData: mode&8 != 0}
		rs := util.NewProtoStream(context.Background(), fr, nil)
		var early []string
		var got []*types.Packet
		var reused types.Packet
		failed := false
		for {
			var p *types.Packet
			if mode&1 == 0 {
				p = &types.Packet{}
			} else {
				reused.ResetVT()
				p = &reused
			}
			err := rs.RecvMsg(p)
			// scribble over whatever buffer the stream read into (the pooled buffer)
			for _, g := range fr.given {
				for i := range g {
					g[i] = 0xA5
				}
			}
			fr.given = fr.given[:0]
			if err == io.EOF {
				break
			}
			if err != nil {
				failed = true
				break
			}
			early = append(early, PacketSx(p).String())
			if mode&1 == 0 {
				got = append(got, p)
			}
		}
		// fresh packets are looked at again after all later reads reused the pool buffer
		for i, p := range got {
			if PacketSx(p).String() != early[i] {
				return L(N(0xfffd), S("alias"), NI(i))
			}
		}
		items := make([]Sx, 0, len(early)+1)
		for _, e := range early {
			items = append(items, L(mustParse(e)))
		}
		if failed {
			items = append(items, L(N(0)))
		}
		return L(B(full), L(items...))
	})
}

// ---------------------------------------------------------------- 2005 buffer
func recByte(seed, j int) byte { return byte(seed + j) }

func run2005(in Sx) Sx {
	return guardedC20(func() Sx {
		sizes := make([]int, len(in.L))
		seeds := make([]int, len(in.L))
		for i, x := range in.L {
			sizes[i] = x.L[0].Int()
			seeds[i] = x.L[1].Int()
		}
		out, chunks, err := fsutil.VerifBuffer(sizes, func(i int, b []byte) {
			if len(b) != sizes[i] {
				panic("alloc returned a slice of the wrong length")
			}
			for j := range b {
				b[j] = recByte(seeds[i], j)
			}
		})
		if err != nil {
			return L(N(0))
		}
		cs := make([]Sx, len(chunks))
		for i, c := range chunks {
			cs[i] = L(NI(c[0]), NI(c[1]))
		}
		return L(B(out), L(cs...))
	})
}

// ---------------------------------------------------------------- generators
var c20U32 = []uint32{0, 1, 2, 127, 128, 255, 0644, 0755 | 1<<31, 16383, 16384, 1<<21 - 1, 1 << 21, 1<<28 - 1, 1 << 28,
	1<<31 - 1, 1 << 31, 1<<32 - 1, 0xdeadbeef}
var c20I64 = []int64{0, 1, -1, 127, 128, 300, -128, 1<<31 - 1, 1 << 31, 1 << 32, 1<<35 - 1, 1 << 35, 1<<56 - 1, 1 << 56,
	1<<62 + 5, 1<<63 - 1, -1 << 63, -1<<63 + 1, -4096, 1700000000123456789}
var c20Names = []string{"", "a", "a/b", "dir/sub/file.txt", "é", "日本", "a\xffb", "\xff", "\xc0\x80", "\xed\xa0\x80",
	"\xf4\x90\x80\x80", "\xf0\x9f\x98\x80", "a\x00b", "\x80", "\xe2\x82", " ", "..", "/abs", "x\ny", "\x7f", "\xc2\xa0"}
var c20Keys = []string{"", "user.a", "user.b", "security.selinux", "trusted.overlay.opaque", "k", "\xff", "user.\xc3\x28",
	"user.é", "a", "b", "ab", "a\x00", "user.long" + string(bytes.Repeat([]byte{'k'}, 140))}

func genU32(r *Rng) uint32 {
	if r.Chance(70) {
		return Pick(r, c20U32)
	}
	return uint32(r.U64() >> uint(r.Intn(33)+31))
}

func genI64(r *Rng) int64 {
	if r.Chance(70) {
		return Pick(r, c20I64)
	}
	return int64(r.U64()) >> uint(r.Intn(64))
}

func genBlob(r *Rng, max int) []byte {
	n := 0
	switch r.Intn(6) {
	case 0:
		n = 0
	case 1:
		n = 1 + r.Intn(3)
	case 2:
		n = 120 + r.Intn(16) // around the 1-byte / 2-byte length boundary
	default:
		n = r.Intn(max + 1)
	}
	b := make([]byte, n)
	for i := range b {
		b[i] = byte(r.U64())
	}
	return b
}

func genName(r *Rng) string {
	switch r.Intn(10) {
	case 0:
		return string(genBlob(r, 40)) // random bytes, mostly invalid UTF-8
	case 1:
		return Pick(r, c20Names) + "/" + Pick(r, c20Names)
	case 2:
		return string(bytes.Repeat([]byte("p/"), 60+r.Intn(10))) // 2-byte length
	}
	return Pick(r, c20Names)
}

func genStat(r *Rng, big bool) *types.Stat {
	s := &types.Stat{}
	if r.Chance(3) {
		return s
	}
	sparse := r.Chance(30)
	keep := func() bool { return !sparse || r.Chance(35) }
	if keep() {
		s.Path = genName(r)
	}
	if keep() {
		s.Mode = genU32(r)
	}
	if keep() {
		s.Uid = genU32(r)
	}
	if keep() {
		s.Gid = genU32(r)
	}
	if keep() {
		s.Size = genI64(r)
	}
	if keep() {
		s.ModTime = genI64(r)
	}
	if keep() && r.Chance(50) {
		s.Linkname = genName(r)
	}
	if keep() && r.Chance(40) {
		s.Devmajor = genI64(r)
	}
	if keep() && r.Chance(40) {
		s.Devminor = genI64(r)
	}
	if r.Chance(45) {
		n := 1 + r.Intn(4)
		s.Xattrs = map[string][]byte{}
		for i := 0; i < n; i++ {
			k := Pick(r, c20Keys)
			if r.Chance(10) {
				k = string(genBlob(r, 12))
			}
			max := 40
			if big && r.Chance(10) {
				max = 40000
			}
			s.Xattrs[k] = genBlob(r, max)
		}
	}
	return s
}

// xattr maps whose entries have empty values (sent as empty or, with sel bit 6, nil slices), empty keys, and mixtures
var c20DirectedXattrs = []map[string][]byte{
	{"user.empty": {}},
	{"k": {}},
	{"": {}},
	{"": {1}},
	{"user.a": {}, "user.b": []byte("x"), "user.c": {}},
	{"user.a": []byte("v"), "user.b": {}},
	{"a": {}, "b": {}, "c": {}, "d": {}},
	{"user.full": []byte("value")},
}

var c20Types = []int32{0, 1, 2, 3, 4, 5, 127, 128, -1, 1<<31 - 1, -1 << 31, 300}

func genPacket(r *Rng, big bool) *types.Packet {
	p := &types.Packet{}
	switch r.Intn(12) {
	case 0:
		return p // the empty packet: zero bytes on the wire
	case 1:
		p.Type = types.PACKET_STAT
		p.Stat = genStat(r, big)
		return p
	case 2:
		p.Type = types.PACKET_REQ
		p.ID = genU32(r)
		return p
	case 3:
		p.Type = types.PACKET_DATA
		p.ID = genU32(r)
		max := 200
		if big {
			max = 70000
		}
		p.Data = genBlob(r, max)
		return p
	case 4:
		p.Type = types.PACKET_FIN
		return p
	case 5:
		p.Type = types.PACKET_ERR
		p.Data = []byte("error from sender: " + Pick(r, c20Names))
		return p
	}
	p.Type = types.Packet_PacketType(Pick(r, c20Types))
	if r.Chance(60) {
		p.Stat = genStat(r, big)
	}
	if r.Chance(50) {
		p.ID = genU32(r)
	}
	if r.Chance(50) {
		p.Data = genBlob(r, 200)
	}
	return p
}

func putUvarint(b []byte, v uint64) []byte {
	for v >= 0x80 {
		b = append(b, byte(v)|0x80)
		v >>= 7
	}
	return append(b, byte(v))
}

// unknown / odd fields to splice into encodings
func genOddField(r *Rng) []byte {
	var b []byte
	fn := uint64(Pick(r, []int{11, 12, 15, 16, 100, 2047, 1 << 20, 1<<28 + 3, 1<<29 - 1}))
	switch r.Intn(9) {
	case 0: // varint
		b = putUvarint(b, fn<<3|0)
		b = putUvarint(b, r.U64()>>uint(r.Intn(64)))
	case 1: // fixed64
		b = putUvarint(b, fn<<3|1)
		b = append(b, genBlob(r, 0)...)
		b = append(b, 1, 2, 3, 4, 5, 6, 7, 8)
	case 2: // bytes
		b = putUvarint(b, fn<<3|2)
		pl := genBlob(r, 20)
		b = putUvarint(b, uint64(len(pl)))
		b = append(b, pl...)
	case 3: // group with content
		b = putUvarint(b, fn<<3|3)
		b = putUvarint(b, 1<<3|0)
		b = putUvarint(b, 5)
		if r.Bool() {
			b = putUvarint(b, 7<<3|3)
			b = putUvarint(b, 7<<3|4)
		}
		b = putUvarint(b, fn<<3|4)
	case 4: // fixed32
		b = putUvarint(b, fn<<3|5)
		b = append(b, 9, 8, 7, 6)
	case 5: // known field number with another wire type
		kn := uint64(1 + r.Intn(10))
		b = putUvarint(b, kn<<3|uint64(Pick(r, []int{0, 1, 2, 5})))
		b = append(b, byte(r.Intn(4)), 1, 2, 3, 4, 5, 6, 7)
	case 6: // field number that only differs from a known one above bit 32 (int32 truncation)
		kn := uint64(1 + r.Intn(10))
		b = putUvarint(b, (kn|1<<32<<uint(r.Intn(20)))<<3|uint64(Pick(r, []int{0, 2})))
		b = putUvarint(b, uint64(r.Intn(3)))
	case 7: // 10-byte varint whose last byte carries dropped bits
		kn := uint64(Pick(r, []int{2, 5, 6, 8}))
		b = putUvarint(b, kn<<3)
		b = append(b, 0xff, 0xff, 0xff, 0xff, 0xff, 0xff, 0xff, 0xff, 0xff, byte(Pick(r, []int{0, 1, 2, 0x7f, 0x80})))
	case 8: // map entry oddities
		var e []byte
		switch r.Intn(6) {
		case 0: // value only
			e = append(e, 0x12, 1, 'v')
		case 1: // key only
			e = append(e, 0x0a, 1, 'k')
		case 2: // key twice, unknown field inside
			e = append(e, 0x0a, 1, 'k', 0x18, 5, 0x0a, 2, 'k', '2', 0x12, 0)
		case 3: // key with varint wire type: still parsed as length-delimited
			e = append(e, 0x08, 1, 'k')
		case 4: // key overruns the entry
			e = append(e, 0x0a, byte(2+r.Intn(6)), 'k')
		case 5: // unknown field overruns the entry
			e = append(e, 0x1a, 9, 'x')
		}
		b = append(b, 0x52)
		b = putUvarint(b, uint64(len(e)))
		b = append(b, e...)
	}
	return b
}

func mutate(r *Rng, b []byte) ([]byte, string) {
	b = append([]byte{}, b...)
	switch r.Intn(9) {
	case 0:
		if len(b) > 0 {
			b[r.Intn(len(b))] ^= 1 << uint(r.Intn(8))
		}
		return b, "mut-bitflip"
	case 1:
		if len(b) > 0 {
			b = b[:r.Intn(len(b))]
		}
		return b, "mut-truncate"
	case 2:
		i := r.Intn(len(b) + 1)
		b = append(b[:i:i], append(genOddField(r), b[i:]...)...)
		return b, "mut-insert-field" // may land inside a payload: fine
	case 3:
		if len(b) > 0 {
			i := r.Intn(len(b))
			b = append(b[:i:i], b[i+1:]...)
		}
		return b, "mut-delete-byte"
	case 4:
		if len(b) > 0 {
			b[r.Intn(len(b))] = byte(Pick(r, []int{0, 0x7f, 0x80, 0xff, 0x52, 0x0a, 0x12}))
		}
		return b, "mut-setbyte"
	case 5:
		return append(b, genOddField(r)...), "mut-append-field"
	case 6:
		return append(genOddField(r), b...), "mut-prepend-field"
	case 7:
		if len(b) > 1 {
			i := r.Intn(len(b) - 1)
			b[i], b[i+1] = b[i+1], b[i]
		}
		return b, "mut-swap"
	}
	i := r.Intn(len(b) + 1)
	b = append(b[:i:i], append([]byte{0xff, 0xff, 0xff, 0xff, 0xff, 0xff, 0xff, 0xff, 0xff, byte(r.Intn(3))}, b[i:]...)...)
	return b, "mut-bigvarint"
}

// hand-written byte strings: one per decoding rule
var c20Directed = []string{
	"", "00", "08", "0a", "0a00", "0a0161", "0a0261", "0a8000", "0a80808080808080808000", "0a8080808080808080808000",
	"0affffffffffffffffff01", "0affffffffffffffff7f", "0a80808080808080800161", // length 2^63 / negative
	"1000", "10ffffffffffffffffff01", "10ffffffffffffffffff7f", "10ffffffffffffffffffff01", "1080",
	"28ffffffffffffffffff01", "288080808080808080807f", // int64 with dropped high bits
	"0c", "0b0c", "0b", "0b0b0c0c", "0b0b0c", "5b0a01615c", "0b08015c", // groups
	"0d00000000", "0d000000", "0900000000000000ff", "09000000000000", "0e", "0f", // fixed32/64, wire types 6, 7
	"00", "0000", "0100", "0200", "8080808010", "808080801000", // field 0 / field number 2^31 / 2^32
	"8a808080800100", "8a8080808001016100", "8a80808080010161", "9080808080017b", // field number 1 / 2 + 2^32: truncation to int32
	"f8ffffff7f00", "f8ffffffff0000", "f8ffffff0f00", // field numbers 2^28-1.. 2^32-1
	"5200", "52020a00", "52021200", "5203120176", "52030a016b", "52060a016b120176", "5206120176 0a016b",
	"52040a016b0c", "52040a016b0b", "520508016b1001", "52030a026b", "52030a026b0a0161", "52020a0c52020a0852020a040a026162",
	"52021a09", "52031a0178", "52041a017878", "5202 0a05 0a03616263", "5201 0a", "5280", "52ff", "52ffffffffffffffffff01",
	"52060a016b1201760a0178", "52030a016b52030a016b", "52050a016b12015252050a016b120153", // last value wins per key
	"5a00", "58 00", "50 00", "0a01610a0162", "10011002", "3a00", "3a0178", "380100", "4001", "48ffffffffffffffffff01",
	"1a0578", "3001", "2001", "1801",
}

var c20DirectedPacket = []string{
	"", "0800", "0801", "08ffffffffffffffffff01", "0880808080f0ffffffff01", "08ffffffff0f", "08ffffffff1f", "0a00", "1200", "12020a00",
	"12030a0161", "12030a016112031001", "12030a01611200", "12040a016158", "1202 0a05", "1205 0a0161 0b0c", "1201", "12ff",
	"1800", "18ffffffff0f", "18ffffffff1f", "18ffffffffffffffffff01", "2200", "220161", "2202610a", "22016122016 2", "2a00", "2a0161", "2801",
	"0b0c", "0c", "120252001203520012", "12065204 0a026b6b", "1205 5203 0a0261", "1206 5203 0a0261 00",
	"12 0a 52 02 0a 05 0a 03 61 62 63", "2280", "22ffffffffffffffffff01", "10 01", "15 00000000", "11 0000000000000000",
}

func hexClean(s string) []byte {
	var out []byte
	var hi int = -1
	for _, c := range s {
		v := -1
		switch {
		case c >= '0' && c <= '9':
			v = int(c - '0')
		case c >= 'a' && c <= 'f':
			v = int(c-'a') + 10
		}
		if v < 0 {
			continue
		}
		if hi < 0 {
			hi = v
		} else {
			out = append(out, byte(hi<<4|v))
			hi = -1
		}
	}
	return out
}

func genC20(g *Gen) {
	r := g.Rng

	// ---- (1) structured values: marshal / size on EVERY encode path, (3) generic runtime
	// directed first: xattr values that are empty or nil (and friends), on every path, alone and inside a Packet
	for di, x := range c20DirectedXattrs {
		s := &types.Stat{Path: "d", Mode: 0644, Xattrs: x}
		if di%3 == 1 {
			s = &types.Stat{Xattrs: x}
		}
		for path := 0; path < 6; path++ {
			for _, nv := range []int{0, 64} {
				g.Emit(0x2001, L(NI(path<<1|nv), StatSx(s)), true, "marshal-stat-directed-xattrs")
			}
		}
		p := &types.Packet{Type: types.PACKET_STAT, Stat: s}
		for path := 0; path < 7; path++ {
			for _, nv := range []int{0, 64} {
				g.Emit(0x2001, L(NI(path<<1|1|nv), PacketSx(p)), true, "marshal-packet-directed-xattrs")
			}
		}
		g.Emit(0x2003, L(N(0), StatSx(s)), true, "generic-stat-directed-xattrs")
	}
	nVal := g.Vol(9000, 450000)
	for i := 0; i < nVal; i++ {
		big := i%200 == 0
		nv := 0
		if r.Chance(25) {
			nv = 64
		}
		if r.Bool() {
			s := genStat(r, big)
			sel := r.Intn(6)<<1 | nv
			nt := len(s.Xattrs) > 0 || s.Size < 0 || s.Path != ""
			g.Emit(0x2001, L(NI(sel), StatSx(s)), nt, fmt.Sprintf("marshal-stat-path%d", sel>>1&31))
			if i%2 == 0 {
				g.Emit(0x2003, L(N(0), StatSx(s)), nt, "generic-stat")
			}
		} else {
			p := genPacket(r, big)
			sel := r.Intn(7)<<1 | 1 | nv
			nt := p.Stat != nil || len(p.Data) > 0
			g.Emit(0x2001, L(NI(sel), PacketSx(p)), nt, fmt.Sprintf("marshal-packet-path%d", sel>>1&31))
			if i%2 == 0 {
				g.Emit(0x2003, L(N(1), PacketSx(p)), nt, "generic-packet")
			}
		}
	}

	// ---- (2) byte strings
	for _, h := range c20Directed {
		g.Emit(0x2002, L(N(0), B(hexClean(h))), true, "bytes-directed-stat")
		// the same bytes as a nested Stat, and merged after a first Stat field
		b := hexClean(h)
		if len(b) < 120 {
			nested := append([]byte{0x12, byte(len(b))}, b...)
			g.Emit(0x2002, L(N(1), B(nested)), true, "bytes-directed-nested")
			g.Emit(0x2002, L(N(1), B(append(append([]byte{0x12, 5, 0x0a, 1, 'p', 0x10, 7}, nested...), 0x18, 9))), true, "bytes-directed-merge")
		}
	}
	for _, h := range c20DirectedPacket {
		g.Emit(0x2002, L(N(1), B(hexClean(h))), true, "bytes-directed-packet")
	}
	nBytes := g.Vol(30000, 2500000)
	for i := 0; i < nBytes; i++ {
		sel := r.Intn(2)
		var base []byte
		if sel == 0 {
			base = c20SafeBytes(genStat(r, false).MarshalVT)
		} else {
			base = c20SafeBytes(genPacket(r, false).MarshalVT)
		}
		var b []byte
		cls := ""
		switch k := r.Intn(20); {
		case k == 0: // random bytes
			b = genBlob(r, 24)
			cls = "bytes-random"
		case k == 1: // random over the interesting alphabet
			n := r.Intn(16)
			for j := 0; j < n; j++ {
				b = append(b, byte(Pick(r, []int{0, 1, 2, 3, 4, 5, 8, 0x0a, 0x0b, 0x0c, 0x10, 0x12, 0x18, 0x22, 0x52, 0x7f, 0x80, 0x81, 0xff, 'a'})))
			}
			cls = "bytes-alphabet"
		case k == 2: // two encodings concatenated: merge semantics
			var other []byte
			if sel == 0 {
				other = c20SafeBytes(genStat(r, false).MarshalVT)
			} else {
				other = c20SafeBytes(genPacket(r, false).MarshalVT)
			}
			b = append(append([]byte{}, base...), other...)
			cls = "bytes-concat-merge"
		case k == 3: // valid, untouched
			b = base
			cls = "bytes-valid"
		case k < 8: // a few odd fields around a valid encoding
			b = base
			for j := 1 + r.Intn(3); j > 0; j-- {
				if r.Bool() {
					b = append(append([]byte{}, b...), genOddField(r)...)
				} else {
					b = append(genOddField(r), b...)
				}
			}
			cls = "bytes-odd-fields"
		default:
			b, cls = mutate(r, base)
			if r.Chance(30) {
				b, _ = mutate(r, b)
				cls = "mut-double"
			}
		}
		out := run2002(L(NI(sel), B(b)))
		accepted := len(out.L) > 0 && out.L[0].Kind == 'n' && out.L[0].U64() == 1
		g.EmitWith(0x2002, L(NI(sel), B(b)), out, len(b) > 0 && (accepted || cls != "bytes-random"), cls)
	}

	// ---- (4) framing
	c20GenPoolSweep(g) // directed: encoded sizes around every pool capacity (c20_pool.go); first, on a fresh pool
	nFrames := g.Vol(700, 30000)
	for i := 0; i < nFrames; i++ {
		big := i%25 == 0
		n := r.Intn(7)
		if i < 3 {
			n = i
		}
		var ps []Sx
		total := 0
		for j := 0; j < n; j++ {
			p := genPacket(r, big && j%2 == 0)
			if r.Chance(15) {
				p = &types.Packet{} // empty packets: zero-length frames
			}
			total += p.SizeVT() + 4
			ps = append(ps, PacketSx(p))
		}
		var lens []Sx
		cls := ""
		switch r.Intn(6) {
		case 0:
			cls = "frag-whole"
		case 1: // one byte at a time for a prefix, then the rest (keeps the case readable)
			k := total
			if k > 600 {
				k = 600
			}
			for j := 0; j < k; j++ {
				lens = append(lens, N(1))
			}
			cls = "frag-1byte"
		case 2:
			for left := total; left > 0; {
				c := 1 + r.Intn(7)
				lens = append(lens, NI(c))
				left -= c
			}
			cls = "frag-small"
		case 3:
			for left := total; left > 0; {
				c := r.Intn(5) // including empty reads
				lens = append(lens, NI(c))
				left -= c
				if len(lens) > 3000 {
					break
				}
			}
			cls = "frag-with-empty-reads"
		case 4:
			for left := total; left > 0; {
				c := 1 + r.Intn(40000)
				lens = append(lens, NI(c))
				left -= c
			}
			cls = "frag-large"
		case 5: // cut exactly at header / body boundaries +-1
			for left := total; left > 0; {
				c := Pick(r, []int{3, 4, 5, 1, 8, 32768, 32767, 32769})
				lens = append(lens, NI(c))
				left -= c
			}
			cls = "frag-boundaries"
		}
		mode := r.Intn(2)
		in := L(NI(mode), L(ps...), L(lens...))
		if r.Chance(12) && total > 0 { // truncated stream
			in = L(NI(mode|4), L(ps...), L(lens...), NI(r.Intn(total)))
			cls = "frag-truncated"
		}
		if big {
			cls += "-big"
		}
		g.Emit(0x2004, in, n >= 2 || big, cls)
		// the same packets and fragmentation through a reader that reports io.EOF together with the final bytes
		in.L[0] = NI(in.L[0].Int() | 8)
		g.Emit(0x2004, in, n >= 1, cls+"+eof-with-data")
	}
	c20GenReaderBehaviour(g) // errors reported together with data, at and off buffer boundaries (c20_reader.go)
	c20GenHistories(g)       // one object: size / encode / send, mutate, encode again ... (c20_history.go)
	c20GenDuplex(g)          // one stream, both directions, SendMsg forced between prefix fragments (c20_duplex.go)
	c20GenStreams(g)         // several streams in one process, RecvMsg calls interleaved by a gated reader (c20_streams.go)

	// ---- (5) buffer
	nBuf := g.Vol(150, 6000)
	for i := 0; i < nBuf; i++ {
		var recs []Sx
		cls := "buf-small"
		n := r.Intn(12)
		switch r.Intn(5) {
		case 0: // roll-over with mid-size records
			n = 3 + r.Intn(8)
			for j := 0; j < n; j++ {
				recs = append(recs, L(NI(4000+r.Intn(9000)), NI(r.Intn(256))))
			}
			cls = "buf-rollover"
		case 1: // records above the chunk size mixed with small ones
			for j := 0; j < 1+r.Intn(4); j++ {
				sz := Pick(r, []int{32768, 32769, 32767, 40000, 0, 1, 100, 65536})
				recs = append(recs, L(NI(sz), NI(r.Intn(256))))
			}
			cls = "buf-large-records"
		case 2: // exact fill
			recs = append(recs, L(NI(32768-r.Intn(3)), N(1)), L(NI(r.Intn(4)), N(2)), L(NI(r.Intn(3)), N(3)), L(N(0), N(4)))
			cls = "buf-exact-fill"
		default:
			for j := 0; j < n; j++ {
				recs = append(recs, L(NI(r.Intn(300)), NI(r.Intn(256))))
			}
		}
		g.Emit(0x2005, L(recs...), len(recs) >= 2, cls)
	}

	// ---- (6) listing file format (c20_listing.go)
	c20GenListing(g)

	// ---- supporting test (not a theorem): allocation of UnmarshalVT on adversarial input
	g.Note("alloc_probe", func() (m map[string]interface{}) {
		defer func() {
			if r := recover(); r != nil {
				m = map[string]interface{}{"panic": fmt.Sprint(r)}
			}
		}()
		return allocProbe()
	}())
}

// allocProbe measures what UnmarshalVT allocates for (a) a valid 64 KiB stat and (b) an input of
// the same size built from overrunning map entries.
func allocProbe() map[string]interface{} {
	measure := func(b []byte) (uint64, int, error) {
		var m0, m1 runtime.MemStats
		runtime.GC()
		runtime.ReadMemStats(&m0)
		var s types.Stat
		err := s.UnmarshalVT(b)
		runtime.ReadMemStats(&m1)
		return m1.TotalAlloc - m0.TotalAlloc, len(s.Xattrs), err
	}
	valid := c20SafeBytes((&types.Stat{Path: "p", Xattrs: map[string][]byte{"user.big": make([]byte, 64<<10)}}).MarshalVT)
	m := 4000
	tail := []byte{0x0a}
	T := 36000
	tail = putUvarint(tail, uint64(T))
	tail = append(tail, make([]byte, T)...)
	var in []byte
	for i := 0; i < m; i++ {
		rem := (m-i-1)*7 + len(tail) - i%50
		in = append(in, 0x52, 5, 0x0a, byte(rem&0x7f|0x80), byte((rem>>7)&0x7f|0x80), byte((rem>>14)&0x7f|0x80), byte(rem>>21))
	}
	in = append(in, tail...)
	a1, _, e1 := measure(valid)
	a2, n2, e2 := measure(in)
	return map[string]interface{}{
		"valid_input_bytes": len(valid), "valid_alloc_bytes": a1, "valid_err": fmt.Sprint(e1),
		"overrun_input_bytes": len(in), "overrun_alloc_bytes": a2, "overrun_entries": n2, "overrun_err": fmt.Sprint(e2),
	}
}
