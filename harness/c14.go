package main

import (
	"context"
	"fmt"
	"os"
	"os/exec"
	"path/filepath"
	"syscall"

	fscopy "github.com/tonistiigi/fsutil/copy"
)

func init() {
	kinds[0x1401] = run1401
	props["C14"] = genC14
	internals["c14-child"] = c14Child
}

// input: (srcView dstView outsideView srcArg dstArg (followLinks wildcards alwaysReplace dirContents))
// Layout inside a private jail J (the copy runs in a child process chrooted into J, so that
// absolute symlink targets are meaningful and an escape can only reach the sentinel tree):
//
//	/outside  sentinel tree (contents tagged "O:")      /srcroot  source root ("S:")      /dstroot  destination root ("D:")
//
// output: (err_class outside_before outside_after jailroot_before jailroot_after srcroot_before srcroot_after dst_after)
func run1401(in Sx) Sx {
	jail := WorkDir("c14-")
	defer os.RemoveAll(jail)
	os.Chmod(jail, 0755)
	for _, d := range []string{"outside", "srcroot", "dstroot"} {
		if err := os.Mkdir(filepath.Join(jail, d), 0755); err != nil {
			panic(err)
		}
	}
	if err := Materialize(SxView(in.L[2]), filepath.Join(jail, "outside")); err != nil {
		return L(N(9), S("outside: "+err.Error()))
	}
	if err := Materialize(SxView(in.L[0]), filepath.Join(jail, "srcroot")); err != nil {
		return L(N(9), S("srcroot: "+err.Error()))
	}
	if err := Materialize(SxView(in.L[1]), filepath.Join(jail, "dstroot")); err != nil {
		return L(N(9), S("dstroot: "+err.Error()))
	}
	snap := func(sub string) Sx {
		s, err := SnapshotRaw(filepath.Join(jail, sub), true)
		if err != nil {
			return L(S("snapshot error: " + err.Error()))
		}
		return RawListSx(s)
	}
	top := func() Sx { // top level of the jail: names, types, link targets (not below the three roots)
		es, _ := os.ReadDir(jail)
		var out []Sx
		for _, e := range es {
			fi, _ := os.Lstat(filepath.Join(jail, e.Name()))
			t := ""
			if fi.Mode()&os.ModeSymlink != 0 {
				t, _ = os.Readlink(filepath.Join(jail, e.Name()))
			}
			st := fi.Sys().(*syscall.Stat_t)
			out = append(out, L(S(e.Name()), N(uint64(st.Mode)), N(uint64(st.Uid)), N(uint64(st.Gid)), N(st.Ino), S(t), I64(st.Mtim.Sec*1e9+st.Mtim.Nsec)))
		}
		return L(out...)
	}
	// the destination root's own entry changes when the copy writes into it; exclude its mtime from "top"
	outBefore, topBefore, srcBefore := snap("outside"), top(), snap("srcroot")
	inf := filepath.Join(jail, ".case.sx")
	outf := filepath.Join(jail, ".result.sx")
	if err := os.WriteFile(inf, []byte(in.String()), 0600); err != nil {
		panic(err)
	}
	topBefore = top()
	exe, _ := os.Executable()
	cmd := exec.Command(exe, "internal", "c14-child", jail, "/.case.sx", "/.result.sx")
	b, err := cmd.CombinedOutput()
	errClassV := N(7)
	if err == nil {
		if data, rerr := os.ReadFile(outf); rerr == nil {
			if o, perr := ParseSx(string(data)); perr == nil {
				errClassV = o
			}
		}
	} else {
		errClassV = L(N(8), S(err.Error()+": "+string(b)))
	}
	os.Remove(outf)
	topAfter := top()
	return L(errClassV, outBefore, snap("outside"), topBefore, topAfter, srcBefore, snap("srcroot"), snap("dstroot"))
}

func c14Child(args []string) {
	jail, inf, outf := args[0], args[1], args[2]
	if err := syscall.Chroot(jail); err != nil {
		fmt.Fprintln(os.Stderr, "chroot:", err)
		os.Exit(3)
	}
	if err := os.Chdir("/"); err != nil {
		os.Exit(3)
	}
	data, err := os.ReadFile(inf)
	if err != nil {
		os.Exit(4)
	}
	in, err := ParseSx(string(data))
	if err != nil {
		os.Exit(4)
	}
	srcArg, dstArg := in.L[3].Str(), in.L[4].Str()
	o := in.L[5]
	var opts []fscopy.Opt
	ci := fscopy.CopyInfo{FollowLinks: o.L[0].IsTrue(), AllowWildcards: o.L[1].IsTrue(),
		AlwaysReplaceExistingDestPaths: o.L[2].IsTrue(), CopyDirContents: o.L[3].IsTrue()}
	opts = append(opts, fscopy.WithCopyInfo(ci))
	res := N(0)
	func() {
		defer func() {
			if r := recover(); r != nil {
				res = N(2)
			}
		}()
		if err := fscopy.Copy(context.Background(), "/srcroot", srcArg, "/dstroot", dstArg, opts...); err != nil {
			res = N(1)
		}
	}()
	os.WriteFile(outf, []byte(res.String()), 0600)
}

var c14Targets = []string{
	"/outside", "/outside/f", "/outside/d", "../outside", "../outside/f", "../../outside/d", "../../../outside/f",
	"a", "/a", "b/c", "..", "/", ".", "loop", "nonexistent", "/nonexistent/x", "a/../../outside/f", "d/../../outside",
	// dangling, but the parent exists outside: creating through the link would make a new outside file
	"/outside/new", "../outside/new2", "/outside/d/new3", "../../outside/d/new4", "/new5", "../new6",
}

// view with symlinks to the targets above sprinkled over a small name universe
func genSymView(r *Rng, tag string, names []string, n int) []*MNode {
	v := GenView(r, TreeOpts{MaxEntries: n, MaxDepth: 3, Names: names, Types: false})
	var rec func(ns []*MNode) []*MNode
	cnt := 0
	rec = func(ns []*MNode) []*MNode {
		for i, k := range ns {
			cnt++
			if os.FileMode(k.Stat.Mode)&os.ModeType == 0 {
				k.Content = []byte(fmt.Sprintf("%s:%d:%x", tag, cnt, r.U64()))
				k.Stat.Size = int64(len(k.Content))
			}
			if r.Chance(30) {
				st := k.Stat.CloneVT()
				st.Mode = uint32(os.ModeSymlink | 0777)
				st.Linkname = Pick(r, c14Targets)
				st.Xattrs = nil
				ns[i] = &MNode{Name: k.Name, Stat: st}
				continue
			}
			k.Kids = rec(k.Kids)
		}
		return ns
	}
	return rec(v)
}

func genC14(g *Gen) {
	c14GenRootPath(g)
	c14GenCopy(g)
	n := g.Vol(1500, 25000)
	names := []string{"a", "b", "c", "d", "f", "loop", "l"}
	outsideView := func(r *Rng) []*MNode {
		mk := func(name string, content string) *MNode {
			return &MNode{Name: name, Stat: SxStat(StatSx(nil_stat(0644, int64(len(content))))), Content: []byte(content)}
		}
		d := &MNode{Name: "d", Stat: nil_stat(uint32(os.ModeDir|0755), 0)}
		d.Kids = []*MNode{mk("a", "O:da"), mk("f", "O:df")}
		return []*MNode{mk("a", "O:a"), d, mk("f", "O:f")}
	}
	args := []string{"/", ".", "a", "b", "d", "l", "a/b", "a/..", "../outside", "/../outside/f", "l/f", "d/f", "*", "?/*", "a/", "loop", "../../outside/d"}
	for i := 0; i < n; i++ {
		r := g.Rng
		src := genSymView(r, "S", names, 3+r.Intn(8))
		dst := genSymView(r, "D", names, r.Intn(8))
		if r.Chance(25) {
			dst = nil
		}
		srcArg, dstArg := Pick(r, args), Pick(r, args)
		o := L(Bool(r.Chance(50)), Bool(r.Chance(30)), Bool(r.Chance(30)), Bool(r.Chance(30)))
		in := L(ViewSx(src), ViewSx(dst), ViewSx(outsideView(r)), S(srcArg), S(dstArg), o)
		links := 0
		for _, st := range WalkEntries(src) {
			if os.FileMode(st.Mode)&os.ModeSymlink != 0 {
				links++
			}
		}
		for _, st := range WalkEntries(dst) {
			if os.FileMode(st.Mode)&os.ModeSymlink != 0 {
				links++
			}
		}
		out := g.Emit(0x1401, in, links >= 2, fmt.Sprintf("follow=%v wild=%v", o.L[0].IsTrue(), o.L[1].IsTrue()))
		if len(out.L) > 0 && out.L[0].Kind == 'n' {
			switch out.L[0].Int() {
			case 0:
				g.classes["copy-ok"]++
			case 1:
				g.classes["copy-error"]++
			}
		}
	}
}
