package main

// The transport dimension of C06 / C07.
//
// fsutil.Send / fsutil.Receive are given "a Stream"; the documented protocol says nothing
// about how that stream moves a packet, so a conforming endpoint must behave the same over
// every legal transport.  What a transport may legally do with the bytes of a frame once
// Packet.Unmarshal has returned differs a lot, and an endpoint that keeps references into
// the frame (zero-copy decoding) only misbehaves over some of them:
//
//	0  marshalling stream, every message is decoded (Packet.Unmarshal) from its own fresh slice
//	   that nobody touches again (what the in-tree tests and benchmarks do)
//	1  marshalling stream, ONE receive buffer per endpoint, reused for every frame:
//	   Packet.Marshal on send, Packet.Unmarshal of the reused buffer on receive (the wire.go
//	   entry points every real transport uses); the buffer is overwritten by the next frame only
//	2  as 1, and the used part of the buffer is scribbled over when the next RecvMsg begins
//	3  as 1, and the buffer is scribbled over as soon as Unmarshal has returned, before RecvMsg
//	   returns (legal: util.NewProtoStream puts its buffer back into a process-wide sync.Pool at
//	   that very moment, any other stream of the process may fill it immediately)
//	4  the library's own util.NewProtoStream (4-byte length prefix, pooled 32 KiB receive
//	   buffer) over an in-memory byte pipe; the reference peer speaks the same framing by hand
//
// In every mode SendMsg marshals before it returns (a sender may reuse its DATA buffer) and
// the two endpoints share no memory.  The boundary events are still taken by tapStream; the In
// event is decoded from the frame's bytes into a fresh packet (transports 0-3: hook OnDecoded at
// the moment Unmarshal has returned; transport 4: the frame the byte pipe has just handed to
// protostream), so that the trace shows what the peer sent - independently of what the endpoint's
// own packet object (reused? reset?) holds after the transport has decoded into it.

import (
	"context"
	"encoding/binary"
	"io"
	"sync"

	"github.com/pkg/errors"
	"github.com/tonistiigi/fsutil"
	"github.com/tonistiigi/fsutil/types"
	"github.com/tonistiigi/fsutil/util"
)

const c0607Transports = 5

// what the reference peers need from their endpoint
type c0607Conn interface {
	fsutil.Stream
	CloseSend()
}

// c0607Wire is one connection: the endpoint handed to the real code, the endpoint of the
// reference peer, tear-down of both directions and the misuse counter.
type c0607Wire struct {
	Real     fsutil.Stream
	Peer     c0607Conn
	TearDown func()
	frameOf  func() []byte // transport 4: the frame most recently read by the real endpoint
}

func c0607NewWire(ctx context.Context, transport, capacity int) *c0607Wire {
	link := &c0607Link{down: make(chan struct{})}
	switch transport {
	case 4:
		toPeer := &c0607BytePipe{ctx: ctx, link: link, ch: make(chan []byte, capacity)}
		toReal := &c0607BytePipe{ctx: ctx, link: link, ch: make(chan []byte, capacity)}
		real := util.NewProtoStream(ctx, toReal, toPeer)
		peer := &c0607FrameEndpoint{ctx: ctx, r: toPeer, w: toReal}
		return &c0607Wire{Real: real, Peer: peer, TearDown: link.tearDown, frameOf: toReal.lastFrame}
	default:
		if transport < 0 || transport > 3 {
			transport = 0
		}
		c1 := make(chan []byte, capacity)
		c2 := make(chan []byte, capacity)
		real := &c0607BufEndpoint{ctx: ctx, link: link, recv: c2, send: c1, reuse: transport > 0, scribble: transport - 1}
		peer := &c0607BufEndpoint{ctx: ctx, link: link, recv: c1, send: c2, reuse: transport > 0, scribble: transport - 1}
		return &c0607Wire{Real: real, Peer: peer, TearDown: link.tearDown}
	}
}

// c0607TapOn puts the tap (boundary events, overlap counters, holds) between the real code
// and its endpoint.
func c0607TapOn(w *c0607Wire, tap *Tap, holds []c0607Hold) *tapStream {
	ts := &tapStream{inner: w.Real, tap: tap, frameOf: w.frameOf, holds: holds, dataSeen: map[uint32]bool{},
		entered: make(chan struct{}, 1), stop: make(chan struct{})}
	if be, ok := w.Real.(*c0607BufEndpoint); ok {
		ts.innerRecordsIn = true
		be.OnDecoded = ts.recordIn
	}
	return ts
}

type c0607Link struct {
	down     chan struct{}
	downOnce sync.Once
}

func (l *c0607Link) tearDown() { l.downOnce.Do(func() { close(l.down) }) }
func (l *c0607Link) isDown() bool {
	select {
	case <-l.down:
		return true
	default:
		return false
	}
}

// ---------------------------------------------------------------- transports 1-3

const c0607ScribbleByte = '#'

func c0607Scribble(b []byte) {
	for i := range b {
		b[i] = c0607ScribbleByte
	}
}

type c0607BufEndpoint struct {
	ctx        context.Context
	link       *c0607Link
	recv, send chan []byte
	closeOne   sync.Once
	reuse      bool   // one receive buffer for all frames (otherwise a fresh slice per frame)
	scribble   int    // reuse only: 0 never, 1 when the next RecvMsg begins, 2 as soon as Unmarshal has returned
	rbuf       []byte // THE receive buffer
	used       int
	OnDecoded  func(frame []byte) // called with the frame's own bytes when Unmarshal has returned nil
}

var _ c0607Conn = &c0607BufEndpoint{}

func (e *c0607BufEndpoint) Context() context.Context { return e.ctx }
func (e *c0607BufEndpoint) CloseSend()               { e.closeOne.Do(func() { close(e.send) }) }

func (e *c0607BufEndpoint) SendMsg(m interface{}) (err error) {
	p, ok := m.(interface{ Marshal() ([]byte, error) })
	if !ok {
		return errors.Errorf("invalid msg: %#v", m)
	}
	if e.link.isDown() {
		return ErrTornDown
	}
	dt, err := p.Marshal()
	if err != nil {
		return err
	}
	defer func() {
		if r := recover(); r != nil { // send on closed channel
			err = io.ErrClosedPipe
		}
	}()
	select {
	case <-e.link.down:
		return ErrTornDown
	case <-e.ctx.Done():
		return e.ctx.Err()
	case e.send <- dt:
		return nil
	}
}

func (e *c0607BufEndpoint) RecvMsg(m interface{}) error {
	u, ok := m.(interface{ Unmarshal([]byte) error })
	if !ok {
		return errors.Errorf("invalid msg: %#v", m)
	}
	if e.reuse && e.scribble == 1 {
		c0607Scribble(e.rbuf[:e.used])
		e.used = 0
	}
	var dt []byte
	select {
	case <-e.link.down:
		return ErrTornDown
	case <-e.ctx.Done():
		return e.ctx.Err()
	case dt, ok = <-e.recv:
		if !ok {
			return io.EOF
		}
	}
	if !e.reuse {
		e.rbuf = make([]byte, len(dt))
	} else if cap(e.rbuf) < len(dt) || e.rbuf == nil {
		if e.scribble != 0 {
			c0607Scribble(e.rbuf[:cap(e.rbuf)])
		}
		n := 2 * len(dt)
		if n < 4096 {
			n = 4096
		}
		e.rbuf = make([]byte, n)
	}
	buf := e.rbuf[:len(dt)]
	copy(buf, dt)
	e.used = len(dt)
	err := u.Unmarshal(buf)
	if err == nil && e.OnDecoded != nil {
		e.OnDecoded(dt)
	}
	if e.reuse && e.scribble == 2 {
		c0607Scribble(buf)
		e.used = 0
	}
	return err
}

// ---------------------------------------------------------------- transport 4

// one direction of an in-memory byte connection; every Write is one chunk, at most
// `capacity` chunks are in flight (util.NewProtoStream writes one whole frame per SendMsg)
type c0607BytePipe struct {
	ctx      context.Context
	link     *c0607Link
	ch       chan []byte
	cur      []byte
	last     []byte // the chunk most recently taken by Read (one whole frame, length prefix included)
	lmu      sync.Mutex
	closeOne sync.Once
}

// lastFrame: the body of the frame most recently handed to the reader
func (p *c0607BytePipe) lastFrame() []byte {
	p.lmu.Lock()
	defer p.lmu.Unlock()
	if len(p.last) < 4 {
		return nil
	}
	return p.last[4:]
}

func (p *c0607BytePipe) Close() { p.closeOne.Do(func() { close(p.ch) }) }

func (p *c0607BytePipe) Write(b []byte) (n int, err error) {
	if p.link.isDown() {
		return 0, ErrTornDown
	}
	cp := append([]byte(nil), b...)
	defer func() {
		if r := recover(); r != nil {
			n, err = 0, io.ErrClosedPipe
		}
	}()
	select {
	case <-p.link.down:
		return 0, ErrTornDown
	case <-p.ctx.Done():
		return 0, p.ctx.Err()
	case p.ch <- cp:
		return len(b), nil
	}
}

func (p *c0607BytePipe) Read(b []byte) (int, error) {
	if p.link.isDown() {
		return 0, ErrTornDown
	}
	for len(p.cur) == 0 {
		select {
		case <-p.link.down:
			return 0, ErrTornDown
		case <-p.ctx.Done():
			return 0, p.ctx.Err()
		case c, ok := <-p.ch:
			if !ok {
				return 0, io.EOF
			}
			p.cur = c
			p.lmu.Lock()
			p.last = c
			p.lmu.Unlock()
		}
	}
	n := copy(b, p.cur)
	p.cur = p.cur[n:]
	return n, nil
}

// the reference peer's end of transport 4: the framing of util/protostream.go written by
// hand, a fresh slice per frame, copying decoder (it must not share the library's pool)
type c0607FrameEndpoint struct {
	ctx context.Context
	r   *c0607BytePipe
	w   *c0607BytePipe
}

var _ c0607Conn = &c0607FrameEndpoint{}

func (e *c0607FrameEndpoint) Context() context.Context { return e.ctx }
func (e *c0607FrameEndpoint) CloseSend()               { e.w.Close() }

func (e *c0607FrameEndpoint) SendMsg(m interface{}) error {
	p, ok := m.(*types.Packet)
	if !ok {
		return errors.Errorf("invalid msg: %#v", m)
	}
	dt, err := p.MarshalVT()
	if err != nil {
		return err
	}
	b := make([]byte, 4+len(dt))
	binary.BigEndian.PutUint32(b[:4], uint32(len(dt)))
	copy(b[4:], dt)
	_, err = e.w.Write(b)
	return err
}

func (e *c0607FrameEndpoint) RecvMsg(m interface{}) error {
	p, ok := m.(*types.Packet)
	if !ok {
		return errors.Errorf("invalid msg: %#v", m)
	}
	var h [4]byte
	if _, err := io.ReadFull(e.r, h[:]); err != nil {
		return err
	}
	body := make([]byte, binary.BigEndian.Uint32(h[:]))
	if _, err := io.ReadFull(e.r, body); err != nil {
		return err
	}
	p.ResetVT()
	return p.UnmarshalVT(body)
}
