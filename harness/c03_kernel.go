package main

// kind 0301: a syscall sequence executed by the kernel inside the jail (cwd = root = jail).
// Ops (see Glue/C03G.step_0301):
//  1 lstat p | 2 stat p | 3 readlink p | 4 readdir p | 5 mkdir p mode | 6 mknod p typ mode rdev
//  7 symlink target p | 8 link old new | 9 open(O_WRONLY[|O_CREAT]) p creat mode + pwrite off data
//  10 unlink p | 11 rmdir p | 12 os.RemoveAll p | 13 rename old new | 14 chmod p mode
//  15 lchown p uid gid | 16 utimensat(NOFOLLOW) p ns | 17 lsetxattr p key value | 18 chdir p

import (
	"os"
	"sort"
	"strings"
	"syscall"
	"time"

	"golang.org/x/sys/unix"
)

func c03Errno(err error) Sx {
	if err == nil {
		return L()
	}
	for {
		switch e := err.(type) {
		case syscall.Errno:
			return L(N(uint64(e)))
		case *os.PathError:
			err = e.Err
		case *os.LinkError:
			err = e.Err
		case *os.SyscallError:
			err = e.Err
		default:
			return L(N(9999), S(err.Error()))
		}
	}
}

func child0301(in Sx) Sx {
	t0 := time.Now().UnixNano() - 2e9
	var res []Sx
	for _, op := range in.L {
		res = append(res, c03ExecOp(op, t0))
	}
	unix.Chdir("/")
	return L(L(res...), c03Snapshot("/", t0))
}

// c03ExecOp lets the kernel execute one op of the table above (also used to build the
// initial file system of kind 0302).
func c03ExecOp(op Sx, t0 int64) Sx {
	{
		a := op.L
		str := func(i int) string { return a[i].Str() }
		var r Sx
		switch a[0].Int() {
		case 1, 2:
			var st unix.Stat_t
			var err error
			if a[0].Int() == 1 {
				err = unix.Lstat(str(1), &st)
			} else {
				err = unix.Stat(str(1), &st)
			}
			if err != nil {
				r = c03Errno(err)
			} else if a[0].Int() == 1 {
				r = L(N(0), c03Inode(str(1), &st, t0))
			} else {
				r = L(N(0), c03InodeFollow(str(1), &st, t0))
			}
		case 3:
			buf := make([]byte, 4096)
			n, err := unix.Readlink(str(1), buf)
			if err != nil {
				r = c03Errno(err)
			} else {
				r = L(N(0), B(buf[:n]))
			}
		case 4:
			fd, err := unix.Open(str(1), unix.O_RDONLY|unix.O_DIRECTORY, 0)
			if err != nil {
				r = c03Errno(err)
			} else {
				f := os.NewFile(uintptr(fd), str(1))
				names, _ := f.Readdirnames(-1)
				f.Close()
				sort.Strings(names)
				xs := make([]Sx, len(names))
				for i, n := range names {
					xs[i] = S(n)
				}
				r = L(N(0), L(xs...))
			}
		case 5:
			r = c03Errno(unix.Mkdir(str(1), uint32(a[2].U64())))
		case 6:
			r = c03Errno(unix.Mknod(str(1), uint32(a[2].U64()|a[3].U64()), int(a[4].U64())))
		case 7:
			r = c03Errno(unix.Symlink(str(1), str(2)))
		case 8:
			r = c03Errno(os.Link(str(1), str(2)))
		case 9:
			flags := unix.O_WRONLY | unix.O_NONBLOCK | unix.O_CLOEXEC
			if a[2].IsTrue() {
				flags |= unix.O_CREAT
			}
			fd, err := unix.Open(str(1), flags, uint32(a[3].U64()))
			if err != nil {
				r = c03Errno(err)
			} else {
				if len(a[5].B) > 0 {
					_, err = unix.Pwrite(fd, a[5].B, int64(a[4].U64()))
				}
				unix.Close(fd)
				r = c03Errno(err)
			}
		case 19: // open(O_WRONLY|O_CREAT|O_TRUNC) and a write at offset 0
			fd, err := unix.Open(str(1), unix.O_WRONLY|unix.O_NONBLOCK|unix.O_CLOEXEC|unix.O_CREAT|unix.O_TRUNC, uint32(a[2].U64()))
			if err != nil {
				r = c03Errno(err)
			} else {
				if len(a[3].B) > 0 {
					_, err = unix.Pwrite(fd, a[3].B, 0)
				}
				unix.Close(fd)
				r = c03Errno(err)
			}
		case 10:
			r = c03Errno(unix.Unlink(str(1)))
		case 11:
			r = c03Errno(unix.Rmdir(str(1)))
		case 12:
			// os.RemoveAll opens the parent directory with os.Open after a failed Remove: when
			// that parent is a FIFO the open blocks for ever, a device node gives ENXIO.  Outside
			// the validated domain: answered ENOTDIR (what the failed Remove reported) without the call.
			if c03ParentIsSpecial(str(1)) {
				r = L(N(uint64(syscall.ENOTDIR)))
			} else {
				r = c03Errno(os.RemoveAll(str(1)))
			}
		case 13:
			r = c03Errno(unix.Rename(str(1), str(2)))
		case 14:
			r = c03Errno(unix.Chmod(str(1), uint32(a[2].U64())))
		case 15:
			r = c03Errno(os.Lchown(str(1), int(uint32(a[2].U64())), int(uint32(a[3].U64()))))
		case 16:
			ts := unix.NsecToTimespec(int64(a[2].U64()))
			r = c03Errno(unix.UtimesNanoAt(unix.AT_FDCWD, str(1), []unix.Timespec{ts, ts}, unix.AT_SYMLINK_NOFOLLOW))
		case 17:
			r = c03Errno(unix.Lsetxattr(str(1), str(2), a[3].B, 0))
		case 18:
			r = c03Errno(unix.Chdir(str(1)))
		default:
			r = L(S("bad-op"))
		}
		return r
	}
}

// stat(2) result: the record of the followed inode (xattrs read with following calls)
func c03InodeFollow(p string, st *unix.Stat_t, t0 int64) Sx {
	return c03InodeX(p, st, t0, true)
}

func listXattrsFollow(p string) map[string][]byte {
	sz, err := unix.Listxattr(p, nil)
	if err != nil || sz <= 0 {
		return nil
	}
	buf := make([]byte, sz)
	sz, err = unix.Listxattr(p, buf)
	if err != nil {
		return nil
	}
	out := map[string][]byte{}
	start := 0
	for i := 0; i < sz; i++ {
		if buf[i] == 0 {
			k := string(buf[start:i])
			start = i + 1
			v := make([]byte, 65536)
			n, err := unix.Getxattr(p, k, v)
			if err == nil {
				out[k] = v[:n]
			}
		}
	}
	return out
}

func c03ParentIsSpecial(p string) bool {
	for len(p) > 1 && p[len(p)-1] == '/' {
		p = p[:len(p)-1]
	}
	dir := "."
	if i := strings.LastIndexByte(p, '/'); i == 0 {
		dir = "/"
	} else if i > 0 {
		dir = p[:i]
	}
	var st unix.Stat_t
	if unix.Stat(dir, &st) != nil {
		return false
	}
	t := st.Mode & unix.S_IFMT
	return t == unix.S_IFIFO || t == unix.S_IFCHR || t == unix.S_IFBLK || t == unix.S_IFSOCK
}
