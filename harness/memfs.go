package main

import (
	"bytes"
	"context"
	"io"
	gofs "io/fs"
	"os"
	"path/filepath"
	"strings"
	"syscall"

	"github.com/pkg/errors"
	"github.com/tonistiigi/fsutil"
	"github.com/tonistiigi/fsutil/types"
)

// MNode mirrors FS.Model.Tree.node: (name stat content (child ...)).
type MNode struct {
	Name    string
	Stat    *types.Stat // Path is ignored; Walk reports the joined path
	Content []byte
	Kids    []*MNode
}

func (n *MNode) Sx() Sx {
	kids := make([]Sx, len(n.Kids))
	for i, k := range n.Kids {
		kids[i] = k.Sx()
	}
	st := n.Stat.CloneVT()
	st.Path = ""
	return L(S(n.Name), StatSx(st), B(n.Content), L(kids...))
}

func ViewSx(roots []*MNode) Sx {
	out := make([]Sx, len(roots))
	for i, r := range roots {
		out[i] = r.Sx()
	}
	return L(out...)
}

func SxNode(x Sx) *MNode {
	n := &MNode{Name: x.L[0].Str(), Stat: SxStat(x.L[1]), Content: append([]byte{}, x.L[2].B...)}
	for _, k := range x.L[3].L {
		n.Kids = append(n.Kids, SxNode(k))
	}
	return n
}

func SxView(x Sx) []*MNode {
	var out []*MNode
	for _, k := range x.L {
		out = append(out, SxNode(k))
	}
	return out
}

func (n *MNode) IsDir() bool { return os.FileMode(n.Stat.Mode).IsDir() }

// MemFS is a synthetic fsutil.FS over a tree value, with the Walk semantics of the real
// fs.Walk (filepath.WalkDir: target itself reported unless it is the root, children in
// stored order, SkipDir on a directory skips its contents, SkipDir on a non-directory skips
// the rest of its parent directory, SkipAll stops) and optional fault hooks.
type MemFS struct {
	Roots    []*MNode
	WalkHook func(idx int, path string) error // called before each reported entry
	OpenHook func(path string) error          // non-nil error => Open fails
	ReadHook func(path string, off int) error // called before each Read
	ChunkLen int                              // max bytes returned per Read (0 = all)
	walkIdx  int
}

var _ fsutil.FS = &MemFS{}

func (m *MemFS) lookup(p string) *MNode {
	p = filepath.Clean("/" + p)
	if p == "/" {
		return nil
	}
	parts := strings.Split(strings.TrimPrefix(p, "/"), "/")
	kids := m.Roots
	var cur *MNode
	for _, part := range parts {
		cur = nil
		for _, k := range kids {
			if k.Name == part {
				cur = k
				break
			}
		}
		if cur == nil {
			return nil
		}
		kids = cur.Kids
	}
	return cur
}

var errSkipRest = errors.New("skip rest of directory")

func (m *MemFS) Walk(ctx context.Context, target string, fn gofs.WalkDirFunc) error {
	t := filepath.Clean("/" + target)
	var err error
	if t == "/" {
		err = m.walkKids(ctx, "", m.Roots, fn)
	} else {
		n := m.lookup(t)
		if n == nil {
			return nil // real fs.Walk: callback sees ENOENT, converts it to SkipDir, WalkDir returns nil
		}
		err = m.walkNode(ctx, filepath.Dir(strings.TrimPrefix(t, "/")), n, fn)
	}
	if err == filepath.SkipDir || err == filepath.SkipAll || err == errSkipRest {
		return nil
	}
	return err
}

func (m *MemFS) walkKids(ctx context.Context, dir string, kids []*MNode, fn gofs.WalkDirFunc) error {
	for _, k := range kids {
		if err := m.walkNode(ctx, dir, k, fn); err != nil {
			if err == errSkipRest {
				return nil
			}
			return err
		}
	}
	return nil
}

func (m *MemFS) walkNode(ctx context.Context, dir string, n *MNode, fn gofs.WalkDirFunc) error {
	p := n.Name
	if dir != "" && dir != "." {
		p = dir + "/" + n.Name
	}
	select {
	case <-ctx.Done():
		return ctx.Err()
	default:
	}
	if m.WalkHook != nil {
		idx := m.walkIdx
		m.walkIdx++
		if err := m.WalkHook(idx, p); err != nil {
			return err
		}
	}
	st := n.Stat.CloneVT()
	st.Path = p
	err := fn(p, &fsutil.DirEntryInfo{Stat: st}, nil)
	if err != nil {
		// the real fs.Walk converts a not-exist / not-a-directory error of the callback into SkipDir
		if errors.Is(err, os.ErrNotExist) || errors.Is(err, syscall.ENOTDIR) {
			err = filepath.SkipDir
		}
		if err == filepath.SkipDir {
			if n.IsDir() {
				return nil
			}
			return errSkipRest
		}
		return err
	}
	if n.IsDir() {
		return m.walkKids(ctx, p, n.Kids, fn)
	}
	return nil
}

func (m *MemFS) Open(p string) (io.ReadCloser, error) {
	if m.OpenHook != nil {
		if err := m.OpenHook(p); err != nil {
			return nil, err
		}
	}
	n := m.lookup(p)
	if n == nil {
		return nil, errors.WithStack(&os.PathError{Op: "open", Path: p, Err: syscall.ENOENT})
	}
	return &memReader{m: m, path: p, r: bytes.NewReader(n.Content)}, nil
}

type memReader struct {
	m    *MemFS
	path string
	r    *bytes.Reader
	off  int
}

func (r *memReader) Read(b []byte) (int, error) {
	if r.m.ReadHook != nil {
		if err := r.m.ReadHook(r.path, r.off); err != nil {
			return 0, err
		}
	}
	if r.m.ChunkLen > 0 && len(b) > r.m.ChunkLen {
		b = b[:r.m.ChunkLen]
	}
	n, err := r.r.Read(b)
	r.off += n
	return n, err
}

func (r *memReader) Close() error { return nil }

// WalkEntries returns the canonical listing of the view (what FS.Model.Tree.walk_root computes).
func WalkEntries(roots []*MNode) []*types.Stat {
	var out []*types.Stat
	m := &MemFS{Roots: roots}
	m.Walk(context.Background(), "/", func(p string, d gofs.DirEntry, err error) error {
		fi, _ := d.Info()
		out = append(out, fi.Sys().(*types.Stat))
		return nil
	})
	return out
}
