package main

import (
	"context"
	"io"
	"strings"
	"sync"
	"time"

	"github.com/tonistiigi/fsutil"
	"github.com/tonistiigi/fsutil/types"
)

// Tap records what crosses the boundary of ONE endpoint (the real fsutil.Send or
// fsutil.Receive call under test), in one global order, in the event vocabulary of
// FS.Model.AccEvents:
//
//	Out p       recorded when the endpoint CALLS SendMsg(p) (dropped again if the call fails)
//	In p        recorded when RecvMsg RETURNS p to the endpoint
//	InEof       RecvMsg returned io.EOF
//	Fault       a stream operation failed otherwise / an injected FS fault fired / ctx cancelled
//	Progress    progress callback
//	Return      the call returned
//
// Recording at call start (Out) and at return (In) makes the order respect causality at the
// endpoint: whatever the endpoint does because of a packet comes after that packet's In
// event, and whatever the peer does because of a packet comes after that packet's Out event.
// (StreamPair.Log() appends after the channel operation and can therefore show an answer
// before the packet that caused it; it is not used for acceptor traces.)
type tapEvent struct {
	kind    int // 0 Out, 1 In, 2 InEof, 3 Fault, 4 Progress, 5 Return
	pkt     *types.Packet
	n       uint64
	flag    bool
	dropped bool
}

type Tap struct {
	mu   sync.Mutex
	ev   []tapEvent
	last time.Time // when the latest event was recorded
}

func (t *Tap) add(e tapEvent) int {
	t.mu.Lock()
	defer t.mu.Unlock()
	t.ev = append(t.ev, e)
	t.last = time.Now()
	return len(t.ev) - 1
}

// Idle: how long nothing has crossed the boundary (since start when nothing has yet).
func (t *Tap) Idle(start time.Time) time.Duration {
	t.mu.Lock()
	defer t.mu.Unlock()
	if t.last.IsZero() {
		return time.Since(start)
	}
	return time.Since(t.last)
}

// c0607Await waits for the real call to return.  It gives up (false) when the call has
// been running for c0607Watchdog, or when nothing at all has crossed its boundary for
// c0607IdleWatchdog: a deadlocked endpoint is silent, a slow one (loaded machine) is not.
func c0607Await(done <-chan struct{}, tap *Tap) bool {
	start := time.Now()
	tick := time.NewTicker(50 * time.Millisecond)
	defer tick.Stop()
	for {
		select {
		case <-done:
			return true
		case <-tick.C:
			if time.Since(start) > c0607Watchdog || tap.Idle(start) > c0607IdleWatchdog {
				return false
			}
		}
	}
}

func (t *Tap) drop(i int) {
	t.mu.Lock()
	t.ev[i].dropped = true
	t.mu.Unlock()
}

func (t *Tap) Fault()                 { t.add(tapEvent{kind: 3}) }
func (t *Tap) Progress(n int, l bool) { t.add(tapEvent{kind: 4, n: uint64(n), flag: l}) }
func (t *Tap) Return(ok bool)         { t.add(tapEvent{kind: 5, flag: ok}) }
func (t *Tap) Events() []tapEvent {
	t.mu.Lock()
	defer t.mu.Unlock()
	return append([]tapEvent{}, t.ev...)
}

// CloneVT copies string HEADERS; the strings of a packet decoded without copying are views
// into the transport's receive buffer and would change under the tap as well.  The tap keeps
// its own bytes, so that the trace shows what crossed the boundary at that moment.
func c0607DeepClone(p *types.Packet) *types.Packet {
	q := p.CloneVT()
	if q.Stat != nil {
		q.Stat.Path = strings.Clone(q.Stat.Path)
		q.Stat.Linkname = strings.Clone(q.Stat.Linkname)
		if q.Stat.Xattrs != nil {
			xs := make(map[string][]byte, len(q.Stat.Xattrs))
			for k, v := range q.Stat.Xattrs {
				xs[strings.Clone(k)] = append([]byte{}, v...)
			}
			q.Stat.Xattrs = xs
		}
	}
	return q
}

type tapStream struct {
	inner fsutil.Stream
	tap   *Tap
	// the inner endpoint reports each decoded packet itself (c0607BufEndpoint.OnDecoded: at the
	// moment Unmarshal has returned, before the transport reuses its receive buffer)
	innerRecordsIn bool
}

var _ fsutil.Stream = &tapStream{}

func (s *tapStream) Context() context.Context { return s.inner.Context() }

func (s *tapStream) SendMsg(m interface{}) error {
	p, ok := m.(*types.Packet)
	if !ok {
		return s.inner.SendMsg(m)
	}
	i := s.tap.add(tapEvent{kind: 0, pkt: c0607DeepClone(p)})
	err := s.inner.SendMsg(m)
	if err != nil {
		s.tap.drop(i)
		s.tap.Fault()
	}
	return err
}

func (s *tapStream) RecvMsg(m interface{}) error {
	err := s.inner.RecvMsg(m)
	switch {
	case err == nil:
		if p, ok := m.(*types.Packet); ok && !s.innerRecordsIn {
			s.tap.add(tapEvent{kind: 1, pkt: c0607DeepClone(p)})
		}
	case err == io.EOF:
		s.tap.add(tapEvent{kind: 2})
	default:
		s.tap.Fault()
	}
	return err
}

// ---- Sx encoding (FS.Model.AccEvents.dec_pkt / dec_event) ----
func pktSx(p *types.Packet) Sx {
	switch p.Type {
	case types.PACKET_STAT:
		if p.Stat == nil {
			return L(N(0))
		}
		return L(N(0), StatSx(p.Stat))
	case types.PACKET_REQ:
		return L(N(1), N(uint64(p.ID)))
	case types.PACKET_DATA:
		return L(N(2), N(uint64(p.ID)), B(p.Data))
	case types.PACKET_FIN:
		return L(N(3))
	case types.PACKET_ERR:
		return L(N(4), B(p.Data))
	}
	return L(N(0xff), N(uint64(p.Type)))
}

// traceSx encodes the events up to and including Return; the second result counts stream
// operations the endpoint still attempted after its call had returned (leaked goroutines).
func traceSx(evs []tapEvent) (Sx, int) {
	out := make([]Sx, 0, len(evs))
	returned := false
	late := 0
	for _, e := range evs {
		if returned {
			if e.kind <= 2 {
				late++
			}
			continue
		}
		if e.dropped {
			continue
		}
		switch e.kind {
		case 0, 1:
			out = append(out, L(NI(e.kind), pktSx(e.pkt)))
		case 2, 3:
			out = append(out, L(NI(e.kind)))
		case 4:
			out = append(out, L(N(4), N(e.n), Bool(e.flag)))
		case 5:
			out = append(out, L(N(5), Bool(e.flag)))
			returned = true
		}
	}
	return L(out...), late
}
