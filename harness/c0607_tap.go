package main

import (
	"context"
	"io"
	"strings"
	"sync"
	"sync/atomic"
	"time"

	"github.com/tonistiigi/fsutil"
	"github.com/tonistiigi/fsutil/types"
)

// Tap records what crosses the boundary of ONE endpoint (the real fsutil.Send or
// fsutil.Receive call under test), in one global order, in the event vocabulary of
// FS.Model.AccEvents:
//
//	Out p       recorded when the endpoint CALLS SendMsg(p) (dropped again if the call fails)
//	In p        recorded when RecvMsg RETURNS to the endpoint; p is decoded from the frame into a
//	            fresh packet (what the peer sent), not read off the endpoint's packet object
//	InEof       RecvMsg returned io.EOF
//	Fault       a stream operation failed otherwise / an injected FS fault fired / ctx cancelled
//	Progress    progress callback
//	Return      the call returned
//
// Recording at call start (Out) and at return (In) makes the order respect causality at the
// endpoint: whatever the endpoint does because of a packet comes after that packet's In
// event, and whatever the peer does because of a packet comes after that packet's Out event.
// (StreamPair.Log() appends after the channel operation and can therefore show an answer
// before the packet that caused it; it is not used for acceptor traces.)
type tapEvent struct {
	kind    int // 0 Out, 1 In, 2 InEof, 3 Fault, 4 Progress, 5 Return
	pkt     *types.Packet
	n       uint64
	flag    bool
	dropped bool
}

type Tap struct {
	mu   sync.Mutex
	ev   []tapEvent
	last time.Time // when the latest event was recorded
}

func (t *Tap) add(e tapEvent) int {
	t.mu.Lock()
	defer t.mu.Unlock()
	t.ev = append(t.ev, e)
	t.last = time.Now()
	return len(t.ev) - 1
}

// Idle: how long nothing has crossed the boundary (since start when nothing has yet).
func (t *Tap) Idle(start time.Time) time.Duration {
	t.mu.Lock()
	defer t.mu.Unlock()
	if t.last.IsZero() {
		return time.Since(start)
	}
	return time.Since(t.last)
}

// c0607Await waits for the real call to return.  It gives up (false) when the call has
// been running for c0607Watchdog, or when nothing at all has crossed its boundary for
// c0607IdleWatchdog: a deadlocked endpoint is silent, a slow one (loaded machine) is not.
func c0607Await(done <-chan struct{}, tap *Tap) bool {
	start := time.Now()
	tick := time.NewTicker(50 * time.Millisecond)
	defer tick.Stop()
	for {
		select {
		case <-done:
			return true
		case <-tick.C:
			if time.Since(start) > c0607Watchdog || tap.Idle(start) > c0607IdleWatchdog {
				return false
			}
		}
	}
}

func (t *Tap) drop(i int) {
	t.mu.Lock()
	t.ev[i].dropped = true
	t.mu.Unlock()
}

func (t *Tap) Fault()                 { t.add(tapEvent{kind: 3}) }
func (t *Tap) Progress(n int, l bool) { t.add(tapEvent{kind: 4, n: uint64(n), flag: l}) }
func (t *Tap) Return(ok bool)         { t.add(tapEvent{kind: 5, flag: ok}) }
func (t *Tap) Events() []tapEvent {
	t.mu.Lock()
	defer t.mu.Unlock()
	return append([]tapEvent{}, t.ev...)
}

// CloneVT copies string HEADERS; the strings of a packet decoded without copying are views
// into the transport's receive buffer and would change under the tap as well.  The tap keeps
// its own bytes, so that the trace shows what crossed the boundary at that moment.
func c0607DeepClone(p *types.Packet) *types.Packet {
	q := p.CloneVT()
	if q.Stat != nil {
		q.Stat.Path = strings.Clone(q.Stat.Path)
		q.Stat.Linkname = strings.Clone(q.Stat.Linkname)
		if q.Stat.Xattrs != nil {
			xs := make(map[string][]byte, len(q.Stat.Xattrs))
			for k, v := range q.Stat.Xattrs {
				xs[strings.Clone(k)] = append([]byte{}, v...)
			}
			q.Stat.Xattrs = xs
		}
	}
	return q
}

// A hold keeps one SendMsg of the endpoint under test in flight (it is not forwarded to the
// transport yet) until another SendMsg ENTERS on the same stream - which a conforming endpoint
// never does: fsutil.Stream is not safe for concurrent SendMsg, both endpoints serialise their
// writers - or until the endpoint has been quiet for c0607HoldQuiet.  Which send is held is
// chosen by what is sent, not by a schedule-dependent index:
//
//	kind 0: the STAT packet number N (0-based, the end marker included)
//	kind 1: the first DATA packet of id N
//	kind 2: the FIN packet
//	kind 3: the REQ packet number N (0-based)
type c0607Hold struct{ Kind, N int }

const c0607HoldQuiet = 40 * time.Millisecond

type tapStream struct {
	inner fsutil.Stream
	tap   *Tap
	// frameOf returns the bytes of the frame the inner endpoint has just decoded (transport 4:
	// read at the byte pipe).  The In event is decoded from them into a FRESH packet: the trace
	// shows what the peer sent, whatever the endpoint's own (possibly reused, possibly not
	// reset) packet object makes of it.
	frameOf func() []byte
	// the inner endpoint reports each frame itself (c0607BufEndpoint.OnDecoded: at the moment
	// Unmarshal has returned, before the transport reuses its receive buffer)
	innerRecordsIn bool

	inSend, inRecv             int32
	sendOverlaps, recvOverlaps int32 // calls that entered while another one of the same kind was in flight
	holds                      []c0607Hold
	hmu                        sync.Mutex
	nStat, nReq                int
	dataSeen                   map[uint32]bool
	entered                    chan struct{}
	stop                       chan struct{}
	stopOnce                   sync.Once
	lastRecv                   int64 // UnixNano of the latest RecvMsg return
}

var _ fsutil.Stream = &tapStream{}

func (s *tapStream) Context() context.Context { return s.inner.Context() }

// Stop ends every hold (tear-down of the case).
func (s *tapStream) Stop() { s.stopOnce.Do(func() { close(s.stop) }) }

func (s *tapStream) Overlaps() (int, int) {
	return int(atomic.LoadInt32(&s.sendOverlaps)), int(atomic.LoadInt32(&s.recvOverlaps))
}

func (s *tapStream) held(p *types.Packet) bool {
	if len(s.holds) == 0 {
		return false
	}
	s.hmu.Lock()
	defer s.hmu.Unlock()
	kind, n := -1, 0
	switch p.Type {
	case types.PACKET_STAT:
		kind, n = 0, s.nStat
		s.nStat++
	case types.PACKET_DATA:
		if !s.dataSeen[p.ID] {
			s.dataSeen[p.ID] = true
			kind, n = 1, int(p.ID)
		}
	case types.PACKET_FIN:
		kind = 2
	case types.PACKET_REQ:
		kind, n = 3, s.nReq
		s.nReq++
	}
	for _, h := range s.holds {
		if h.Kind == kind && (kind == 2 || h.N == n) {
			return true
		}
	}
	return false
}

func (s *tapStream) hold() {
	start := time.Now()
	for {
		select {
		case <-s.entered:
			return
		case <-s.stop:
			return
		case <-time.After(4 * time.Millisecond):
			ref := start
			if lr := time.Unix(0, atomic.LoadInt64(&s.lastRecv)); lr.After(ref) {
				ref = lr
			}
			if time.Since(ref) > c0607HoldQuiet || time.Since(start) > time.Second {
				return
			}
		}
	}
}

func (s *tapStream) SendMsg(m interface{}) error {
	if atomic.AddInt32(&s.inSend, 1) > 1 {
		atomic.AddInt32(&s.sendOverlaps, 1)
		select {
		case s.entered <- struct{}{}:
		default:
		}
	}
	defer atomic.AddInt32(&s.inSend, -1)
	p, ok := m.(*types.Packet)
	if !ok {
		return s.inner.SendMsg(m)
	}
	i := s.tap.add(tapEvent{kind: 0, pkt: c0607DeepClone(p)})
	if s.held(p) {
		s.hold()
	}
	err := s.inner.SendMsg(m)
	if err != nil {
		s.tap.drop(i)
		s.tap.Fault()
	}
	return err
}

// recordIn decodes the frame into a fresh packet (a frame of length 0 is the empty STAT).
func (s *tapStream) recordIn(frame []byte) {
	q := &types.Packet{}
	if err := q.UnmarshalVT(append([]byte(nil), frame...)); err != nil {
		s.tap.Fault()
		return
	}
	s.tap.add(tapEvent{kind: 1, pkt: q})
}

func (s *tapStream) RecvMsg(m interface{}) error {
	if atomic.AddInt32(&s.inRecv, 1) > 1 {
		atomic.AddInt32(&s.recvOverlaps, 1)
	}
	defer atomic.AddInt32(&s.inRecv, -1)
	err := s.inner.RecvMsg(m)
	atomic.StoreInt64(&s.lastRecv, time.Now().UnixNano())
	switch {
	case err == nil:
		if !s.innerRecordsIn {
			s.recordIn(s.frameOf())
		}
	case err == io.EOF:
		s.tap.add(tapEvent{kind: 2})
	default:
		s.tap.Fault()
	}
	return err
}

// ---- Sx encoding (FS.Model.AccEvents.dec_pkt / dec_event) ----
func pktSx(p *types.Packet) Sx {
	switch p.Type {
	case types.PACKET_STAT:
		if p.Stat == nil {
			return L(N(0))
		}
		return L(N(0), StatSx(p.Stat))
	case types.PACKET_REQ:
		return L(N(1), N(uint64(p.ID)))
	case types.PACKET_DATA:
		return L(N(2), N(uint64(p.ID)), B(p.Data))
	case types.PACKET_FIN:
		return L(N(3))
	case types.PACKET_ERR:
		return L(N(4), B(p.Data))
	}
	return L(N(0xff), N(uint64(p.Type)))
}

// traceSx encodes the events up to and including Return; the second result counts stream
// operations the endpoint still attempted after its call had returned (leaked goroutines).
func traceSx(evs []tapEvent) (Sx, int) {
	out := make([]Sx, 0, len(evs))
	returned := false
	late := 0
	for _, e := range evs {
		if returned {
			if e.kind <= 2 {
				late++
			}
			continue
		}
		if e.dropped {
			continue
		}
		switch e.kind {
		case 0, 1:
			out = append(out, L(NI(e.kind), pktSx(e.pkt)))
		case 2, 3:
			out = append(out, L(NI(e.kind)))
		case 4:
			out = append(out, L(N(4), N(e.n), Bool(e.flag)))
		case 5:
			out = append(out, L(N(5), Bool(e.flag)))
			returned = true
		}
	}
	return L(out...), late
}
