package main

import (
	"os"
	"path/filepath"
	"sort"
	"syscall"

	"github.com/pkg/errors"
	"github.com/tonistiigi/fsutil/types"
	"golang.org/x/sys/unix"
)

// unixMode converts Go FileMode bits (as stored in types.Stat.Mode) to st_mode bits.
func unixMode(m os.FileMode) uint32 {
	u := uint32(m.Perm())
	if m&os.ModeSetuid != 0 {
		u |= syscall.S_ISUID
	}
	if m&os.ModeSetgid != 0 {
		u |= syscall.S_ISGID
	}
	if m&os.ModeSticky != 0 {
		u |= syscall.S_ISVTX
	}
	switch {
	case m&os.ModeDir != 0:
		u |= syscall.S_IFDIR
	case m&os.ModeSymlink != 0:
		u |= syscall.S_IFLNK
	case m&os.ModeNamedPipe != 0:
		u |= syscall.S_IFIFO
	case m&os.ModeSocket != 0:
		u |= syscall.S_IFSOCK
	case m&os.ModeDevice != 0 && m&os.ModeCharDevice != 0:
		u |= syscall.S_IFCHR
	case m&os.ModeDevice != 0:
		u |= syscall.S_IFBLK
	default:
		u |= syscall.S_IFREG
	}
	return u
}

func lutimes(p string, ns int64) error {
	ts := unix.NsecToTimespec(ns)
	return unix.UtimesNanoAt(unix.AT_FDCWD, p, []unix.Timespec{ts, ts}, unix.AT_SYMLINK_NOFOLLOW)
}

// Materialize writes a view to disk under dir (which must exist and be empty), as root:
// all entry types, owners, modes incl. special bits, ns mtimes, xattrs, hard links
// (a regular node with Linkname != "" is linked to that path).
func Materialize(roots []*MNode, dir string) error {
	var rec func(base, rel string, n *MNode) error
	rec = func(base, rel string, n *MNode) error {
		p := filepath.Join(base, n.Name)
		r := n.Name
		if rel != "" {
			r = rel + "/" + n.Name
		}
		m := os.FileMode(n.Stat.Mode)
		um := unixMode(m)
		switch {
		case m.IsDir():
			if err := os.Mkdir(p, 0700); err != nil {
				return err
			}
			for _, k := range n.Kids {
				if err := rec(p, r, k); err != nil {
					return err
				}
			}
		case m&os.ModeSymlink != 0:
			if err := os.Symlink(n.Stat.Linkname, p); err != nil {
				return err
			}
		case m&os.ModeNamedPipe != 0, m&os.ModeDevice != 0, m&os.ModeSocket != 0:
			dev := int(unix.Mkdev(uint32(n.Stat.Devmajor), uint32(n.Stat.Devminor)))
			if err := unix.Mknod(p, um, dev); err != nil {
				return errors.Wrapf(err, "mknod %s", p)
			}
		default:
			if n.Stat.Linkname != "" {
				if err := os.Link(filepath.Join(dir, n.Stat.Linkname), p); err != nil {
					return err
				}
				return nil // shares the inode: metadata already set through the first member
			}
			if err := os.WriteFile(p, n.Content, 0600); err != nil {
				return err
			}
		}
		for k, v := range n.Stat.Xattrs {
			if err := unix.Lsetxattr(p, k, v, 0); err != nil {
				return errors.Wrapf(err, "lsetxattr %s %s", p, k)
			}
		}
		if os.Getuid() == 0 { // an unprivileged materialiser owns everything it creates
			if err := os.Lchown(p, int(n.Stat.Uid), int(n.Stat.Gid)); err != nil {
				return err
			}
		}
		if m&os.ModeSymlink == 0 {
			if err := unix.Chmod(p, um&07777); err != nil {
				return err
			}
		}
		return lutimes(p, n.Stat.ModTime)
	}
	for _, n := range roots {
		if err := rec(dir, "", n); err != nil {
			return err
		}
	}
	return nil
}

// RawEntry is an independent lstat/readlink/llistxattr record of one entry on disk.
type RawEntry struct {
	Path    string
	Mode    uint32 // st_mode
	Uid     uint32
	Gid     uint32
	Size    int64
	MtimeNs int64
	Rdev    uint64
	Ino     uint64
	Nlink   uint64
	Target  string
	Xattrs  map[string][]byte
	Content []byte
}

// SnapshotRaw lists everything below dir (not dir itself) in path order (directory
// before its contents, siblings bytewise by name), with its own syscalls only.
func SnapshotRaw(dir string, withContent bool) ([]RawEntry, error) {
	var out []RawEntry
	var rec func(abs, rel string) error
	rec = func(abs, rel string) error {
		// never open something that is not a directory: a broken implementation can leave a fifo
		// where the root was, and open(2) on it would block forever
		var rst unix.Stat_t
		if err := unix.Lstat(abs, &rst); err != nil {
			return err
		}
		if rst.Mode&syscall.S_IFMT != syscall.S_IFDIR {
			return errors.Errorf("%s: not a directory", abs)
		}
		f, err := os.OpenFile(abs, os.O_RDONLY|syscall.O_DIRECTORY|syscall.O_NOFOLLOW|syscall.O_NONBLOCK, 0)
		if err != nil {
			return err
		}
		names, err := f.Readdirnames(-1)
		f.Close()
		if err != nil {
			return err
		}
		sort.Strings(names)
		for _, name := range names {
			p := filepath.Join(abs, name)
			r := name
			if rel != "" {
				r = rel + "/" + name
			}
			var st unix.Stat_t
			if err := unix.Lstat(p, &st); err != nil {
				return err
			}
			e := RawEntry{Path: r, Mode: st.Mode, Uid: st.Uid, Gid: st.Gid, Size: st.Size,
				MtimeNs: st.Mtim.Sec*1e9 + st.Mtim.Nsec, Rdev: uint64(st.Rdev), Ino: st.Ino, Nlink: uint64(st.Nlink)}
			if st.Mode&syscall.S_IFMT == syscall.S_IFLNK {
				t, err := os.Readlink(p)
				if err != nil {
					return err
				}
				e.Target = t
			}
			e.Xattrs = listXattrs(p)
			if withContent && st.Mode&syscall.S_IFMT == syscall.S_IFREG {
				b, err := os.ReadFile(p)
				if err != nil {
					return err
				}
				e.Content = b
			}
			out = append(out, e)
			if st.Mode&syscall.S_IFMT == syscall.S_IFDIR {
				if err := rec(p, r); err != nil {
					return err
				}
			}
		}
		return nil
	}
	return out, rec(dir, "")
}

func listXattrs(p string) map[string][]byte {
	sz, err := unix.Llistxattr(p, nil)
	if err != nil || sz <= 0 {
		return nil
	}
	buf := make([]byte, sz)
	sz, err = unix.Llistxattr(p, buf)
	if err != nil {
		return nil
	}
	out := map[string][]byte{}
	start := 0
	for i := 0; i < sz; i++ {
		if buf[i] == 0 {
			k := string(buf[start:i])
			start = i + 1
			vs, err := unix.Lgetxattr(p, k, nil)
			if err != nil {
				continue
			}
			v := make([]byte, vs)
			if vs > 0 {
				if _, err := unix.Lgetxattr(p, k, v); err != nil {
					continue
				}
			}
			out[k] = v
		}
	}
	if len(out) == 0 {
		return nil
	}
	return out
}

// RawSx: (path mode uid gid size mtime rdev ino nlink target ((k v)...) content)
func (e RawEntry) Sx() Sx {
	keys := make([]string, 0, len(e.Xattrs))
	for k := range e.Xattrs {
		keys = append(keys, k)
	}
	sort.Strings(keys)
	xs := make([]Sx, 0, len(keys))
	for _, k := range keys {
		xs = append(xs, L(S(k), B(e.Xattrs[k])))
	}
	return L(S(e.Path), N(uint64(e.Mode)), N(uint64(e.Uid)), N(uint64(e.Gid)), I64(e.Size), I64(e.MtimeNs),
		N(e.Rdev), N(e.Ino), N(e.Nlink), S(e.Target), L(xs...), B(e.Content))
}

var _ = types.Stat{}

// WorkDir returns a fresh scratch directory for this run (removed by ./check at the end).
func WorkDir(prefix string) string {
	base := os.Getenv("VERIF_WORK")
	if base == "" {
		base = os.TempDir()
	}
	d, err := os.MkdirTemp(base, prefix)
	if err != nil {
		panic(err)
	}
	return d
}
