package main

// C18 — FollowLinks: real fsutil.FollowLinks over a synthetic FS (and over the real disk FS)
// against the extracted model, the independent resolver and the specification oracle.

import (
	"context"
	"fmt"
	"io"
	gofs "io/fs"
	"os"
	"path/filepath"
	"sort"
	"strings"
	"syscall"
	"time"
	"unicode/utf8"

	"github.com/pkg/errors"
	"github.com/tonistiigi/fsutil"
	"github.com/tonistiigi/fsutil/types"
)

func init() {
	kinds[0x1801] = run1801
	kinds[0x1802] = run1802
	kinds[0x1803] = run1803
	kinds[0x1804] = run1804
	kinds[0x1805] = run1805
	kinds[0x1806] = run1806
	props["C18"] = genC18
}

// c18FS is MemFS seen through what the real fs.Walk adds on top of filepath.WalkDir: an
// ENOENT / ENOTDIR error returned by the callback is turned into SkipDir (fs.go, the deferred
// isNotExist check).  It also counts walks: every iteration of the resolver's loop walks at
// least once, so a walk budget turns a runaway resolution into a value before the stack dies.
type c18FS struct {
	m     *MemFS
	walks int
	extra int // budget added for the size of the input (c18Extra)
}

type c18Budget struct{}

// the generated trees have at most a dozen entries and three requests: no legitimate resolution
// needs 150 walks (measured over the thorough tier); 3000 keeps a runaway case at ~0.1 s
const c18WalkBudget = 3000

func (f *c18FS) Walk(ctx context.Context, target string, fn gofs.WalkDirFunc) error {
	f.walks++
	if f.walks > c18WalkBudget+f.extra {
		panic(c18Budget{})
	}
	return f.m.Walk(ctx, target, func(p string, d gofs.DirEntry, err error) (ret error) {
		ret = fn(p, d, err)
		if ret != nil && (errors.Is(ret, os.ErrNotExist) || errors.Is(ret, syscall.ENOTDIR)) {
			ret = filepath.SkipDir
		}
		return ret
	})
}

func (f *c18FS) Open(p string) (io.ReadCloser, error) { return f.m.Open(p) }

// c18Budgeted: any FS under a walk budget (the real disk FS has no other bound: a resolver
// that lost its cycle guard would recurse until the stack is gone and take the harness with it)
type c18Budgeted struct {
	fs    fsutil.FS
	walks int
	extra int
}

const c18DiskWalkBudget = 3000

func (f *c18Budgeted) Walk(ctx context.Context, target string, fn gofs.WalkDirFunc) error {
	f.walks++
	if f.walks > c18DiskWalkBudget+f.extra {
		panic(c18Budget{})
	}
	return f.fs.Walk(ctx, target, fn)
}

func (f *c18Budgeted) Open(p string) (io.ReadCloser, error) { return f.fs.Open(p) }

// c18Follow runs the real FollowLinks under a watchdog.
// (#0 nil? (path ...)) | (#1 msg) error | (#2) hang / walk budget exhausted | (#3 msg) panic
func c18Follow(fs fsutil.FS, reqs []string) Sx {
	done := make(chan Sx, 1)
	go func() {
		defer func() {
			if r := recover(); r != nil {
				if _, ok := r.(c18Budget); ok {
					done <- L(N(2))
					return
				}
				done <- L(N(3), S(fmt.Sprint(r)))
			}
		}()
		res, err := fsutil.FollowLinks(fs, reqs)
		if err != nil {
			if os.Getenv("C18_DEBUG") != "" {
				fmt.Fprintf(os.Stderr, "ERR: %+v\n", err)
			}
			done <- L(N(1), S(errClass18(err)))
			return
		}
		out := make([]Sx, len(res))
		for i, p := range res {
			out[i] = S(p)
		}
		done <- L(N(0), Bool(res == nil), L(out...))
	}()
	select {
	case v := <-done:
		return v
	case <-time.After(5 * time.Second):
		return L(N(2))
	}
}

func errClass18(err error) string {
	switch {
	case errors.Is(err, syscall.ENOTDIR):
		return "ENOTDIR"
	case errors.Is(err, os.ErrNotExist):
		return "ENOENT"
	case errors.Is(err, syscall.EBADMSG):
		return "EBADMSG"
	}
	return "other"
}

// c18Extra: walks granted on top of the constant budget, proportional to the size of the case:
// a legitimate resolution walks a few times per request component and per link met, and a tree
// has at most as many links as entries.
func c18Extra(roots []*MNode, reqs []string) int {
	n := 0
	var count func(l []*MNode)
	count = func(l []*MNode) {
		for _, k := range l {
			n++
			count(k.Kids)
		}
	}
	count(roots)
	for _, q := range reqs {
		n += 1 + strings.Count(q, "/")
	}
	return 40 * n
}

func c18Case(in Sx) ([]*MNode, []string) {
	roots := SxView(in.L[0])
	var reqs []string
	for _, r := range in.L[1].L {
		reqs = append(reqs, r.Str())
	}
	return roots, reqs
}

func run1801(in Sx) Sx {
	roots, reqs := c18Case(in)
	return c18Follow(&c18FS{m: &MemFS{Roots: roots}, extra: c18Extra(roots, reqs)}, reqs)
}

// the same view on disk, resolved through the real NewFS
func run1804(in Sx) Sx {
	roots, reqs := c18Case(in)
	dir := WorkDir("c18-")
	defer os.RemoveAll(dir)
	if err := Materialize(roots, dir); err != nil {
		return L(N(1), S("materialize"))
	}
	fs, err := fsutil.NewFS(dir)
	if err != nil {
		return L(N(1), S("newfs"))
	}
	return c18Follow(&c18Budgeted{fs: fs, extra: c18Extra(roots, reqs)}, reqs)
}

func run1802(in Sx) Sx {
	ok, _ := filepath.Match(in.L[0].Str(), in.L[1].Str())
	return L(Bool(ok))
}

func run1803(in Sx) Sx {
	var l []string
	for _, s := range in.L {
		l = append(l, s.Str())
	}
	sorted := append([]string{}, l...)
	sort.Strings(sorted)
	d := fsutil.VerifDedupePaths(sorted)
	out := make([]Sx, len(d))
	for i, s := range d {
		out[i] = S(s)
	}
	cw := make([]Sx, len(l))
	for i, s := range l {
		cw[i] = Bool(fsutil.VerifContainsWildcards(s))
	}
	return L(L(out...), Bool(d == nil), L(cw...))
}

// end to end: what a walk of NewFilterFS(view, FollowPaths: reqs) reports
func run1805(in Sx) (out Sx) {
	roots, reqs := c18Case(in)
	done := make(chan Sx, 1)
	go func() {
		defer func() {
			if r := recover(); r != nil {
				done <- L(N(3), S(fmt.Sprint(r)))
			}
		}()
		ffs, err := fsutil.NewFilterFS(&c18FS{m: &MemFS{Roots: roots}, extra: c18Extra(roots, reqs)}, &fsutil.FilterOpt{FollowPaths: reqs})
		if err != nil {
			done <- L(N(1), S("newfilterfs"))
			return
		}
		var paths []Sx
		err = ffs.Walk(context.Background(), "", func(p string, d gofs.DirEntry, err error) error {
			if err != nil {
				return err
			}
			paths = append(paths, S(p))
			return nil
		})
		if err != nil {
			done <- L(N(1), S("walk"))
			return
		}
		// what FollowLinks itself answers for the same requests (the include set that was merged)
		fl := c18Follow(&c18FS{m: &MemFS{Roots: roots}, extra: c18Extra(roots, reqs)}, reqs)
		done <- L(N(0), L(paths...), fl)
	}()
	select {
	case v := <-done:
		return v
	case <-time.After(5 * time.Second):
		return L(N(2))
	}
}

// ---------------------------------------------------------------- kind 1806: the transfer itself
// input = (view (req ...) ((alias first) ...)): the view is written to disk, except that every
// entry listed as an alias is created as a further NAME (hard link, link(2) without following)
// of the symlink at path `first` - the view holds both as symlinks with the same target.  The
// tree is then sent through the real NewFS -> NewFilterFS(FollowPaths: reqs) -> Send / Receive
// into an empty directory, and the copy is read back with plain lstat/readlink/readfile.
// out = (#0 copy-view) | (#1 msg) | (#2) hang
func c18WithoutAliases(roots []*MNode, prefix string, alias map[string]bool) []*MNode {
	var out []*MNode
	for _, n := range roots {
		p := n.Name
		if prefix != "" {
			p = prefix + "/" + n.Name
		}
		if alias[p] {
			continue
		}
		c := *n
		c.Kids = c18WithoutAliases(n.Kids, p, alias)
		out = append(out, &c)
	}
	return out
}

// c18ReadTree: an independent reading of a directory as a view (type, permission bits, link
// target, content; nothing else is compared by the oracle)
func c18ReadTree(dir string) ([]*MNode, error) {
	des, err := os.ReadDir(dir)
	if err != nil {
		return nil, err
	}
	var out []*MNode
	for _, de := range des {
		p := filepath.Join(dir, de.Name())
		fi, err := os.Lstat(p)
		if err != nil {
			return nil, err
		}
		n := &MNode{Name: de.Name(), Stat: &types.Stat{Mode: uint32(fi.Mode() & (os.ModeType | os.ModePerm))}}
		switch {
		case fi.IsDir():
			if n.Kids, err = c18ReadTree(p); err != nil {
				return nil, err
			}
		case fi.Mode()&os.ModeSymlink != 0:
			if n.Stat.Linkname, err = os.Readlink(p); err != nil {
				return nil, err
			}
		case fi.Mode().IsRegular():
			if n.Content, err = os.ReadFile(p); err != nil {
				return nil, err
			}
			n.Stat.Size = int64(len(n.Content))
		}
		out = append(out, n)
	}
	sort.Slice(out, func(a, b int) bool { return out[a].Name < out[b].Name })
	return out, nil
}

// c18NewFilterFS: NewFilterFS(fs, FollowPaths) with the resolver under the walk budget; (nil, nil)
// when the budget was exhausted.  The budget counter is reset for the walk of the transfer.
func c18NewFilterFS(fs fsutil.FS, reqs []string, extra int) (res fsutil.FS, err error) {
	b := &c18Budgeted{fs: fs, extra: extra}
	defer func() {
		if r := recover(); r != nil {
			if _, ok := r.(c18Budget); ok {
				res, err = nil, nil
				return
			}
			panic(r)
		}
	}()
	res, err = fsutil.NewFilterFS(b, &fsutil.FilterOpt{FollowPaths: reqs})
	b.walks = -1 << 40
	return res, err
}

func run1806(in Sx) (out Sx) {
	defer func() {
		if r := recover(); r != nil {
			out = L(N(1), S("panic: "+fmt.Sprint(r)))
		}
	}()
	roots, reqs := c18Case(in)
	alias := map[string]bool{}
	for _, a := range in.L[2].L {
		alias[a.L[0].Str()] = true
	}
	base := WorkDir("c18t-")
	defer os.RemoveAll(base)
	src, dst := filepath.Join(base, "src"), filepath.Join(base, "dst")
	if err := os.Mkdir(src, 0755); err != nil {
		return L(N(1), S("mkdir"))
	}
	if err := os.Mkdir(dst, 0755); err != nil {
		return L(N(1), S("mkdir"))
	}
	if err := Materialize(c18WithoutAliases(roots, "", alias), src); err != nil {
		return L(N(1), S("materialize"))
	}
	for _, a := range in.L[2].L {
		if err := os.Link(filepath.Join(src, a.L[1].Str()), filepath.Join(src, a.L[0].Str())); err != nil {
			return L(N(1), S("link"))
		}
	}
	fs, err := fsutil.NewFS(src)
	if err != nil {
		return L(N(1), S("newfs"))
	}
	// FollowLinks runs inside NewFilterFS: under the walk budget; the transfer walks the plain FS
	ffs, err := c18NewFilterFS(fs, reqs, c18Extra(roots, reqs))
	if err != nil {
		return L(N(1), S("newfilterfs"))
	}
	if ffs == nil {
		return L(N(2))
	}
	res := RunTransfer(TransferCfg{Src: ffs, Dest: dst, Timeout: 10 * time.Second})
	if res.Hung {
		return L(N(2))
	}
	if res.SendErr != nil || res.RecvErr != nil {
		return L(N(1), S("transfer"))
	}
	copyv, err := c18ReadTree(dst)
	if err != nil {
		return L(N(1), S("readtree"))
	}
	return L(N(0), ViewSx(copyv))
}

// ---------------------------------------------------------------- generator

type c18Entry struct {
	path  string
	node  *MNode
	isDir bool
	isLnk bool
}

var c18Names = []string{"a", "b", "c", "d", "e", "f", "l", "m", "self", "a!", "a*", "ab", "é", "x y", "a-b", "a.b", "日本", "\x80", "[a]", "a?", "!x", " x", "a\\b"}

// c18DotNames: names that BEGIN with dots but are not the special "." / "..": one, two or three
// dots alone or followed by bytes below '/' ('!', '-', ' '), above it (digits, letters, '~', a
// non-ASCII byte) and by further dots.  Lexical normalisation must treat them as ordinary names
// at the root and deeper, in requests and in link targets.
var c18DotNames = func() []string {
	var out []string
	for _, pre := range []string{".", "..", "..."} {
		for _, suf := range []string{"", "a", "d", "-", "!", " b", "0", "~", "\xc3\xa9", ".a", "a.", "l"} {
			n := pre + suf
			if n == "." || n == ".." {
				continue
			}
			out = append(out, n)
		}
	}
	return out
}()

// c18ForeignNames: a letter or digits, ':' and/or '\\' in every position of a name
var c18ForeignNames = func() []string {
	out := []string{":", "::", "con", "nul", "\\\\srv"}
	for _, a := range []string{"c", "C", "10", "a-b", ""} {
		for _, sep := range []string{":", ":\\", "\\"} {
			for _, b := range []string{"", "x", "30:00", "d"} {
				if n := a + sep + b; n != ":" && n != "\\" {
					out = append(out, n)
				}
			}
		}
	}
	return out
}()

// c18Pool: the name pool of a case. dots: about half of the picks are dot-prefixed names.
func c18Pool(r *Rng, rich, dots bool) []string {
	names := c18Names[:9]
	if rich {
		names = c18Names
	}
	out := names
	if dots {
		out = append([]string{}, names[:5]...)
		for i := 0; i < 5; i++ {
			out = append(out, Pick(r, c18DotNames))
		}
	}
	// names with bytes that are special on OTHER platforms and must be ordinary here: ':' (volume
	// separator: "c:", "C:x", a time stamp), '\\' (separator), drive-like and device-like names
	if r.Chance(35) {
		out = append([]string{}, out...)
		keep := len(out) / 2
		if keep < 3 {
			keep = len(out)
		}
		out = out[:keep]
		for i := 3 + r.Intn(3); i > 0; i-- {
			out = append(out, Pick(r, c18ForeignNames))
		}
	}
	// names that are byte-prefixes of one another WITHOUT a separator at the boundary (lib / lib64,
	// a / a. / a-): "inside" must mean "below", not "starts with"
	if r.Chance(50) {
		out = append([]string{}, out...)
		for i := 1 + r.Intn(2); i > 0; i-- {
			b := Pick(r, out)
			out = append(out, b+Pick(r, []string{"64", ".", "-", "0", "b", "!", "~x"}))
		}
	}
	return out
}

func c18Rel(fromDir, to string) string {
	// lexical relative path from directory fromDir to to (both relative to the root, "" = root)
	var f, t []string
	if fromDir != "" {
		f = strings.Split(fromDir, "/")
	}
	if to != "" {
		t = strings.Split(to, "/")
	}
	i := 0
	for i < len(f) && i < len(t) && f[i] == t[i] {
		i++
	}
	var parts []string
	for k := i; k < len(f); k++ {
		parts = append(parts, "..")
	}
	parts = append(parts, t[i:]...)
	if len(parts) == 0 {
		return "."
	}
	return strings.Join(parts, "/")
}

func c18Parent(p string) string {
	i := strings.LastIndex(p, "/")
	if i < 0 {
		return ""
	}
	return p[:i]
}

// c18GenView: small trees whose links point at things that exist.
func c18GenView(r *Rng, names []string, clean bool) ([]*MNode, []c18Entry) {
	root := &MNode{Name: "", Stat: &types.Stat{Mode: uint32(os.ModeDir | 0755)}}
	type dref struct {
		n     *MNode
		path  string
		depth int
	}
	dirs := []dref{{root, "", 0}}
	var ents []c18Entry
	n := 2 + r.Intn(9)
	for i := 0; i < n; i++ {
		d := Pick(r, dirs)
		name := Pick(r, names)
		dup := false
		for _, k := range d.n.Kids {
			if k.Name == name {
				dup = true
			}
		}
		if dup {
			continue
		}
		p := name
		if d.path != "" {
			p = d.path + "/" + name
		}
		node := &MNode{Name: name, Stat: &types.Stat{Mode: 0644}}
		e := c18Entry{path: p, node: node}
		switch k := r.Intn(100); {
		case k < 35 && d.depth < 3:
			node.Stat.Mode = uint32(os.ModeDir | 0755)
			dirs = append(dirs, dref{node, p, d.depth + 1})
			e.isDir = true
		case k < 75:
			node.Stat.Mode = uint32(os.ModeSymlink | 0777)
			e.isLnk = true
		default:
			node.Content = []byte(p)
			node.Stat.Size = int64(len(p))
		}
		d.n.Kids = append(d.n.Kids, node)
		ents = append(ents, e)
	}
	// link targets
	all := []string{""}
	for _, e := range ents {
		all = append(all, e.path)
	}
	for _, e := range ents {
		if !e.isLnk {
			continue
		}
		dir := c18Parent(e.path)
		to := Pick(r, all)
		var t string
		k := r.Intn(100)
		if clean && ((k >= 50 && k < 56) || (k >= 70 && k < 75)) {
			k = r.Intn(50) // no ".." after a name in clean mode
		}
		switch {
		case k < 30:
			t = c18Rel(dir, to)
		case k < 42:
			t = "/" + to
		case k < 50:
			t = c18Rel(dir, c18Parent(to))
		case k < 56: // ".."-laden: through the target and back
			t = c18Rel(dir, to) + "/../" + Pick(r, names)
		case k < 62: // beyond the root
			t = strings.Repeat("../", 1+r.Intn(4)) + to
		case k < 66:
			t = "/" + strings.Repeat("../", 1+r.Intn(2)) + to
		case k < 70:
			t = Pick(r, []string{".", "..", "/", "./", "../", "../..", "//"})
		case k < 75:
			t = Pick(r, []string{"zz", "zz/..", "zz/../a", "/zz/y", "a/zz"})
		case k < 80: // itself / sibling: cycles and chains
			t = e.node.Name
			if r.Bool() {
				t = Pick(r, names)
			}
		case k < 84:
			t = c18Rel(dir, to) + "/"
		case k < 88:
			t = strings.Replace(c18Rel(dir, to), "/", "//", 1) + "/."
		case k < 92:
			t = Pick(r, []string{"*", "a*", "?", "*/a", "/d/*", "a?", "[a]", "[a]/b", "a[*"})
		case k < 94:
			t = ""
		default:
			t = c18Rel(dir, to) + "/" + Pick(r, names)
		}
		e.node.Stat.Linkname = t
		e.node.Stat.Size = int64(len(t))
	}
	sortKids(root)
	return root.Kids, ents
}

func c18GenReqs(r *Rng, ents []c18Entry, names []string, clean bool) ([]string, string) {
	var all, links []string
	for _, e := range ents {
		all = append(all, e.path)
		if e.isLnk {
			links = append(links, e.path)
		}
	}
	if len(all) == 0 {
		all = []string{"a"}
	}
	if len(links) == 0 {
		links = all
	}
	// paths with at least two components: real ones, and real ones reached through a link to
	// one of their ancestors (l -> d gives l/x for d/x)
	var deep []string
	for _, e := range ents {
		if strings.Contains(e.path, "/") {
			deep = append(deep, e.path)
			for _, l := range ents {
				if l.isLnk && strings.HasPrefix(e.path, strings.TrimPrefix(l.node.Stat.Linkname, "/")+"/") && !strings.Contains(l.path, "/") {
					deep = append(deep, l.path+strings.TrimPrefix(e.path, strings.TrimPrefix(l.node.Stat.Linkname, "/")))
				}
			}
		}
	}
	if len(deep) == 0 {
		deep = all
	}
	n := 1 + r.Intn(3)
	if r.Chance(4) {
		n = 0
	}
	var reqs []string
	cls := ""
	for i := 0; i < n; i++ {
		var q, c string
		k := r.Intn(100)
		if clean && ((k >= 48 && k < 54) || (k >= 75 && k < 80) || (k >= 88 && k < 95)) {
			k = r.Intn(48) // no deliberate revisit, inner "..", middle wildcard in clean mode
		}
		switch {
		case k < 18:
			q, c = Pick(r, all), "existing"
		case k < 34:
			q, c = Pick(r, links), "link"
		case k < 48:
			q, c = Pick(r, links)+"/"+Pick(r, names), "through-link"
		case k < 54: // the same link twice: revisit with a new remainder
			l := Pick(r, links)
			q, c = l+"/"+filepath.Base(l)+"/"+Pick(r, names), "link-twice"
		case k < 59:
			q, c = Pick(r, all)+"/"+Pick(r, names)+"/"+Pick(r, names), "deeper"
		case k < 63:
			q, c = Pick(r, []string{"zz", "zz/y", "a/zz/y"}), "missing"
		case k < 68:
			q, c = strings.Repeat("../", 1+r.Intn(3))+Pick(r, all), "dotdot-root"
		case k < 72:
			q, c = "/"+Pick(r, all), "abs"
		case k < 75:
			q, c = Pick(r, []string{".", "", "/", "./", "..", "a/.."}), "root"
		case k < 80:
			q, c = Pick(r, all)+"/../"+Pick(r, names), "dotdot-inner"
		case k < 88: // wildcard in the last component
			d := c18Parent(Pick(r, all))
			w := Pick(r, []string{"*", "?", "a*", "*l*", "??", "[a-c]", "[^a]*", "\\a", "s?lf"})
			q, c = w, "wild-last"
			if d != "" {
				q = d + "/" + w
			}
		case k < 95: // wildcard in a middle component
			w := Pick(r, []string{"*", "?", "a*", "[d-f]"})
			q, c = w+"/"+Pick(r, names), "wild-mid"
			if r.Chance(60) { // aim at an existing entry: replace one middle component by a wildcard
				// that the real name matches (any pattern, or one derived from the name itself)
				parts := strings.Split(Pick(r, deep), "/")
				if len(parts) >= 2 {
					j := r.Intn(len(parts) - 1)
					if r.Bool() {
						w = c18PatternFor(r, parts[j])
					}
					parts[j] = w
					q = strings.Join(parts, "/")
				}
			} else if r.Chance(40) {
				q = Pick(r, names) + "/" + q
			}
		case k < 97:
			q, c = Pick(r, all)+"/", "trailing-slash"
		default:
			q, c = strings.Replace(Pick(r, all), "/", "//", 1)+"/.", "unclean"
		}
		reqs = append(reqs, q)
		if i == 0 {
			cls = c
		}
	}
	if n == 0 {
		cls = "none"
	}
	return reqs, cls
}

// c18PatternFor: a glob pattern without escapes that matches the given name: its first byte
// kept and the rest replaced by '*', every byte replaced by '?', or a class around the first byte.
func c18PatternFor(r *Rng, name string) string {
	if name == "" || strings.ContainsAny(name, "*?[\\") || name[0] >= 0x80 {
		return "*"
	}
	switch r.Intn(3) {
	case 0:
		return name[:1] + "*"
	case 1:
		if utf8.ValidString(name) {
			return strings.Repeat("?", utf8.RuneCountInString(name))
		}
		return "*"
	}
	if c := name[0]; (c >= 'a' && c <= 'z') || (c >= '0' && c <= '9') {
		return "[" + name[:1] + "]*"
	}
	return name[:1] + "*"
}

// c18AddAliases: further names for some of the symlinks of the view - in the same directory or
// in another one - entered into the view as symlinks with the same target text.  Returns the
// (alias, first) pairs and requests that select both names (directly or through the alias).
func c18AddAliases(r *Rng, roots *[]*MNode, ents []c18Entry, names []string) ([][2]string, []string) {
	var links []c18Entry
	dirs := map[string]*MNode{}
	dirPaths := []string{""}
	for _, e := range ents {
		if e.isLnk {
			links = append(links, e)
		}
		if e.isDir {
			dirs[e.path] = e.node
			dirPaths = append(dirPaths, e.path)
		}
	}
	var out [][2]string
	var reqs []string
	if len(links) == 0 || r.Chance(20) {
		return nil, nil
	}
	n := 1 + r.Intn(2)
	for i := 0; i < n; i++ {
		l := Pick(r, links)
		d := c18Parent(l.path)
		if r.Chance(35) {
			d = Pick(r, dirPaths)
		}
		kids := roots
		if d != "" {
			kids = &dirs[d].Kids
		}
		name := Pick(r, names)
		if r.Bool() {
			name = l.node.Name + Pick(r, []string{"2", "~", ".lnk", "0"})
		}
		if strings.Contains(name, "[") {
			continue
		}
		dup := false
		for _, k := range *kids {
			if k.Name == name {
				dup = true
			}
		}
		if dup {
			continue
		}
		p := name
		if d != "" {
			p = d + "/" + name
		}
		*kids = append(*kids, &MNode{Name: name, Stat: l.node.Stat.CloneVT()})
		ks := *kids
		sort.Slice(ks, func(a, b int) bool { return ks[a].Name < ks[b].Name })
		out = append(out, [2]string{p, l.path})
		reqs = append(reqs, l.path, p)
		if r.Chance(30) {
			reqs = append(reqs, p+"/"+Pick(r, names))
		}
	}
	return out, reqs
}

type c18Big struct {
	roots     []*MNode
	reqs      []string
	cls       string
	e2e, disk bool
}

func c18Lnk(name, target string) *MNode {
	return &MNode{Name: name, Stat: &types.Stat{Mode: uint32(os.ModeSymlink | 0777), Linkname: target, Size: int64(len(target))}}
}

func c18File(name string) *MNode {
	return &MNode{Name: name, Content: []byte(name), Stat: &types.Stat{Mode: 0644, Size: int64(len(name))}}
}

// c18BigCases: reps rounds over the size ladder.  Sizes are perturbed by the PRNG so that the
// counts are not the same in every run; every threshold is approached from both sides.
func c18BigCases(r *Rng, reps int) []c18Big {
	var out []c18Big
	near := func(t int) int { return t - 2 + r.Intn(5) } // t-2 .. t+2
	for rep := 0; rep < reps; rep++ {
		// many requests, each an ordinary one-hop link to one of a few files, below a directory or at the root
		for _, t := range []int{40, 255, 256, 300 + r.Intn(100), 1000 + 24*rep} {
			n := near(t)
			dir := &MNode{Name: "d", Stat: &types.Stat{Mode: uint32(os.ModeDir | 0755)}}
			atRoot := r.Bool()
			var roots []*MNode
			var reqs []string
			nfiles := 1 + r.Intn(3)
			for i := 0; i < nfiles; i++ {
				f := c18File(fmt.Sprintf("t%d", i))
				if atRoot {
					roots = append(roots, f)
				} else {
					dir.Kids = append(dir.Kids, f)
				}
			}
			for i := 0; i < n; i++ {
				name := fmt.Sprintf("l%04d", i)
				l := c18Lnk(name, fmt.Sprintf("t%d", i%nfiles))
				if atRoot {
					roots = append(roots, l)
					reqs = append(reqs, name)
				} else {
					dir.Kids = append(dir.Kids, l)
					reqs = append(reqs, "d/"+name)
				}
			}
			if !atRoot {
				roots = append(roots, dir)
			}
			for a := len(reqs) - 1; a > 0; a-- {
				b := r.Intn(a + 1)
				reqs[a], reqs[b] = reqs[b], reqs[a]
			}
			root := &MNode{Kids: roots}
			sortKids(root)
			out = append(out, c18Big{root.Kids, reqs, fmt.Sprintf("fanout-%d", t), t <= 400, t == 256})
		}
		// one long chain c0 -> c1 -> ... -> file, requested at its head (and once in the middle)
		for _, t := range []int{40, 100 + r.Intn(100), 255, 256, 300} {
			k := near(t)
			roots := []*MNode{c18File("end")}
			for i := 0; i < k; i++ {
				tgt := fmt.Sprintf("c%04d", i+1)
				if i == k-1 {
					tgt = "end"
				}
				if r.Chance(30) {
					tgt = "/" + tgt
				}
				roots = append(roots, c18Lnk(fmt.Sprintf("c%04d", i), tgt))
			}
			root := &MNode{Kids: roots}
			sortKids(root)
			reqs := []string{"c0000"}
			if r.Bool() {
				reqs = append(reqs, fmt.Sprintf("c%04d", k/2))
			}
			out = append(out, c18Big{root.Kids, reqs, fmt.Sprintf("chain-%d", t), true, false})
		}
		// a wildcard over many links whose targets are links again
		for _, t := range []int{128, 255, 300} {
			n := near(t)
			dir := &MNode{Name: "d", Stat: &types.Stat{Mode: uint32(os.ModeDir | 0755)}}
			roots := []*MNode{c18File("end")}
			for i := 0; i < n; i++ {
				dir.Kids = append(dir.Kids, c18Lnk(fmt.Sprintf("l%04d", i), fmt.Sprintf("../m%04d", i)))
				roots = append(roots, c18Lnk(fmt.Sprintf("m%04d", i), "end"))
			}
			roots = append(roots, dir)
			root := &MNode{Kids: roots}
			sortKids(root)
			out = append(out, c18Big{root.Kids, []string{"d/l*"}, fmt.Sprintf("wild-%d", t), true, false})
		}
	}
	return out
}

func c18Input(roots []*MNode, reqs []string) Sx {
	rs := make([]Sx, len(reqs))
	for i, q := range reqs {
		rs[i] = S(q)
	}
	return L(ViewSx(roots), L(rs...))
}

// c18Materialisable: the view can be written to disk (no empty link target) and every symlink
// on a walked path is one the resolver notices.  A name containing '[' is read as a pattern that
// does not match its own text; on disk the resolver then lstat()s THROUGH such a symlink (the OS
// follows it, ELOOP or a host path), which a view-only FS cannot show.
func c18Materialisable(ents []c18Entry) bool {
	for _, e := range ents {
		if e.isLnk && e.node.Stat.Linkname == "" {
			return false
		}
		if strings.Contains(e.node.Name, "[") {
			return false
		}
	}
	return true
}

func c18Outcome(out Sx) string {
	switch out.L[0].Int() {
	case 0:
		if out.L[1].IsTrue() {
			return "nil"
		}
		return fmt.Sprintf("n%d", minInt(len(out.L[2].L), 4))
	case 1:
		return "error"
	case 2:
		return "hang"
	}
	return "panic"
}

func minInt(a, b int) int {
	if a < b {
		return a
	}
	return b
}

func genC18(g *Gen) {
	r := g.Rng
	// (a) FollowLinks over MemFS
	nA := g.Vol(5000, 60000)
	for i := 0; i < nA; i++ {
		rich := i%3 == 2
		clean := i%5 < 2
		dots := i%4 == 3
		names := c18Pool(r, rich, dots)
		roots, ents := c18GenView(r, names, clean)
		reqs, cls := c18GenReqs(r, ents, names, clean)
		if clean {
			cls = "clean-" + cls
		}
		if dots {
			cls = "dots-" + cls
		}
		in := c18Input(roots, reqs)
		out := run1801(in)
		nlinks := 0
		for _, e := range ents {
			if e.isLnk {
				nlinks++
			}
		}
		oc := c18Outcome(out)
		nontriv := nlinks > 0 && (oc == "nil" || (out.L[0].Int() == 0 && len(out.L[2].L) >= 2))
		g.EmitWith(0x1801, in, out, nontriv, "mem/"+cls+"/"+oc)
		// (b) the same case on disk through the real NewFS (a sample)
		if i%8 == 0 && c18Materialisable(ents) {
			g.Emit(0x1804, in, nontriv, "disk/"+oc)
		}
		// (c) end to end through NewFilterFS (a sample)
		if i%4 == 1 || strings.HasSuffix(cls, "wild-mid") {
			g.Emit(0x1805, in, nontriv, "filter/"+oc)
		}
	}
	// (c2) the transfer itself, on disk, with symlink inodes that have several names
	nT := g.Vol(260, 6000)
	for i := 0; i < nT; i++ {
		rich := i%3 == 2
		names := c18Pool(r, rich, i%4 == 3)
		roots, ents := c18GenView(r, names, true)
		if !c18Materialisable(ents) {
			continue
		}
		reqs, cls := c18GenReqs(r, ents, names, true)
		aliases, areqs := c18AddAliases(r, &roots, ents, names)
		reqs = append(reqs, areqs...)
		al := make([]Sx, len(aliases))
		for k, a := range aliases {
			al[k] = L(S(a[0]), S(a[1]))
		}
		in := L(ViewSx(roots), c18Input(roots, reqs).L[1], L(al...))
		g.Emit(0x1806, in, len(aliases) > 0, fmt.Sprintf("transfer/%s/alias%d", cls, minInt(len(aliases), 2)))
	}
	// (c3) LARGE inputs: counts around the thresholds a hidden per-call limit would have (40 = the
	// kernel's, 255/256 = EvalSymlinks', 1000/1024): many requests that are each a one-hop link,
	// long chains, a wildcard over many links whose targets are links again
	for _, c := range c18BigCases(r, g.Vol(1, 4)) {
		in := c18Input(c.roots, c.reqs)
		out := run1801(in)
		oc := c18Outcome(out)
		g.EmitWith(0x1801, in, out, true, "big/"+c.cls+"/"+oc)
		if c.e2e {
			g.Emit(0x1805, in, true, "big-filter/"+c.cls)
		}
		if c.disk {
			g.Emit(0x1804, in, true, "big-disk/"+c.cls)
		}
	}
	// (d) filepath.Match against go_match
	pat := []string{"a", "b", "*", "?", "[", "]", "-", "^", "\\", "é", "\x80", "\xe6", ".", "c", "日", "a-c", "[a-c]", "[^b]", "**"}
	nam := []string{"a", "b", "c", "é", "日", "\x80", "\xe6\x97", ".", "-", "*", "?", "[", "]", "ab", "\\", "^", "x y"}
	nM := g.Vol(6000, 200000)
	for i := 0; i < nM; i++ {
		var p, n strings.Builder
		for k := r.Intn(6); k > 0; k-- {
			p.WriteString(Pick(r, pat))
		}
		for k := r.Intn(5); k > 0; k-- {
			n.WriteString(Pick(r, nam))
		}
		out := g.Emit(0x1802, L(S(p.String()), S(n.String())), strings.ContainsAny(p.String(), "*?["), "match")
		_ = out
	}
	for _, p := range c18Names {
		for _, n := range c18Names {
			g.Emit(0x1802, L(S(p), S(n)), false, "match-names")
		}
	}
	// (e) sort.Strings + dedupePaths + containsWildcards
	pool := []string{"a", "a/b", "a!", "a!/x", "a/b/c", "b", ".", "ab", "a-b", "a b", "a/", "", "/", "/a", "a*", "a\\*", "\\", "a?", "[", "é", "a//b", "..", "../a", "a.b", "a0"}
	nD := g.Vol(3000, 100000)
	for i := 0; i < nD; i++ {
		var l []Sx
		seen := map[string]bool{}
		for k := r.Intn(6); k > 0; k-- {
			s := Pick(r, pool)
			if !seen[s] { // r.resolved is a set
				seen[s] = true
				l = append(l, S(s))
			}
		}
		g.Emit(0x1803, L(l...), len(l) >= 2, "dedupe")
	}
}

// vh internal c18case <kind-hex> <entry>... -- <req>...   prints a corpus line.
// entry: "p/" directory, "p->target" symlink, "p" regular file (parents must come first).
func init() {
	internals["c18case"] = func(args []string) {
		kind := args[0]
		root := &MNode{Name: "", Stat: &types.Stat{Mode: uint32(os.ModeDir | 0755)}}
		i := 1
		for ; i < len(args) && args[i] != "--"; i++ {
			a := args[i]
			node := &MNode{Stat: &types.Stat{Mode: 0644}}
			p := a
			if k := strings.Index(a, "->"); k >= 0 {
				p = a[:k]
				node.Stat.Mode = uint32(os.ModeSymlink | 0777)
				node.Stat.Linkname = a[k+2:]
				node.Stat.Size = int64(len(node.Stat.Linkname))
			} else if strings.HasSuffix(a, "/") {
				p = strings.TrimSuffix(a, "/")
				node.Stat.Mode = uint32(os.ModeDir | 0755)
			} else {
				node.Content = []byte(p)
				node.Stat.Size = int64(len(p))
			}
			parent := root
			parts := strings.Split(p, "/")
			for _, c := range parts[:len(parts)-1] {
				var nx *MNode
				for _, k := range parent.Kids {
					if k.Name == c {
						nx = k
					}
				}
				if nx == nil {
					panic("parent missing: " + a)
				}
				parent = nx
			}
			node.Name = parts[len(parts)-1]
			parent.Kids = append(parent.Kids, node)
		}
		sortKids(root)
		var reqs []string
		if i < len(args) {
			reqs = args[i+1:]
		}
		fmt.Printf("%s\t%s\n", kind, c18Input(root.Kids, reqs).String())
	}
}
