package main

// C20, kind 2004 — directed sweep of encoded packet sizes around every capacity the 32 KiB buffer pool
// of util/protostream.go can hand out.
//
// The random framing cases only hit "small" and "clearly larger than the pool" packets. Off-by-header
// mistakes in the pooled-buffer logic (fits-in-pool test vs. the 4-byte length prefix, `<` vs `<=`,
// slicing to size vs size+4) only show for encoded sizes within a few bytes of the capacity C of the
// buffer the pool returns: C = 32768 for a fresh pool, and C = (size of an earlier oversized frame)
// [+4] once such a buffer has been put back. So:
//   (a) one packet, every encoded size in [32768-8, 32768+12]            (fresh pool: run FIRST)
//   (b) one packet, every encoded size around 2*32768
//   (c) a larger packet of size B first, then every size in [B-8, B+12]   (pool now holds cap B / B+4)
//   (d) a much larger packet first, then the 32 KiB window again          (pool hands out the big one)
// each through SendMsg AND RecvMsg (run2004 sends, then receives), fresh and reused (ResetVT) receive
// packets, whole-stream and boundary-cut reads. A panic is recovered by guardedC20 and encoded as
// (#ffff msg), which the glue judges specification-false (a sendable packet must round-trip).
// No PRNG draws: the random framing cases that follow are unchanged.

import (
	"fmt"

	"github.com/tonistiigi/fsutil/types"
)

const c20PoolCap = 32 * 1 << 10 // util/protostream.go bufPool New

// a PACKET_DATA whose encoding is exactly `size` bytes (size >= 16)
func c20PacketOfSize(size int, id uint32) *types.Packet {
	p := &types.Packet{Type: types.Packet_PACKET_DATA, ID: id}
	n := size - 8
	if n < 0 {
		n = 0
	}
	for k := 0; k < 8; k++ {
		d := make([]byte, n)
		for j := range d {
			d[j] = byte(j*31 + int(id))
		}
		p.Data = d
		diff := size - p.SizeVT()
		if diff == 0 {
			return p
		}
		n += diff
		if n < 0 {
			n = 0
		}
	}
	panic(fmt.Sprintf("c20PacketOfSize: cannot hit %d", size))
}

// read sizes that cut at the header / pool boundaries
func c20PoolLens(variant, total int) []Sx {
	var lens []Sx
	switch variant % 4 {
	case 0: // whole stream
	case 1: // header alone, then pool-sized reads
		lens = append(lens, N(4))
		for left := total - 4; left > 0; left -= c20PoolCap {
			lens = append(lens, NI(c20PoolCap))
		}
	case 2: // one byte short of the pool, then 1, 1, 1 ...
		lens = append(lens, NI(c20PoolCap-1), N(1), N(1), N(1), N(1), N(1), N(1), N(1), N(1))
	case 3: // 3 (short header), 2, then pool+1 pieces
		lens = append(lens, N(3), N(2))
		for left := total - 5; left > 0; left -= c20PoolCap + 1 {
			lens = append(lens, NI(c20PoolCap+1))
		}
	}
	return lens
}

func c20EmitSizes(g *Gen, sizes []int, variant int, cls string) {
	var ps []Sx
	total := 0
	for i, s := range sizes {
		ps = append(ps, PacketSx(c20PacketOfSize(s, uint32(1+i))))
		total += s + 4
	}
	mode := variant & 1
	g.Emit(0x2004, L(NI(mode), L(ps...), L(c20PoolLens(variant/2, total)...)), true, cls)
}

func c20GenPoolSweep(g *Gen) {
	lo, hi := 8, 12
	if g.Thorough() {
		lo, hi = 40, 40
	}
	v := 0
	// (a) around the fresh pool buffer — first, while the pool is still untouched in this process
	for s := c20PoolCap - lo; s <= c20PoolCap+hi; s++ {
		c20EmitSizes(g, []int{s}, v, "pool-sweep-1x")
		v++
	}
	// twice in one stream: the second Get sees what the first call put back
	for s := c20PoolCap - 5; s <= c20PoolCap+5; s++ {
		c20EmitSizes(g, []int{s, s}, v, "pool-sweep-1x-twice")
		v++
	}
	// (b) around twice the pool buffer
	for s := 2*c20PoolCap - lo; s <= 2*c20PoolCap+hi; s++ {
		c20EmitSizes(g, []int{s}, v, "pool-sweep-2x")
		v++
	}
	// (c) a larger packet first: the pool now holds a buffer of that packet's size (+4)
	firsts := []int{40000}
	if g.Thorough() {
		firsts = []int{32769, 32780, 40000, 65536, 100000}
	}
	for _, b := range firsts {
		for s := b - lo; s <= b+hi; s++ {
			c20EmitSizes(g, []int{b, s}, v, "pool-sweep-after-larger")
			v++
		}
	}
	// (d) a much larger packet first, then the 32 KiB window (served from the big buffer)
	for s := c20PoolCap - 5; s <= c20PoolCap+5; s++ {
		c20EmitSizes(g, []int{70000, s}, v, "pool-sweep-1x-after-larger")
		v++
	}
	// (e) small packets between boundary packets
	c20EmitSizes(g, []int{c20PoolCap - 3, 16, c20PoolCap, 17, c20PoolCap + 1, 18, c20PoolCap - 4}, v, "pool-sweep-mixed")
}
