package main

// C17 — tar export round-trips the filesystem view.
//
//	1701  (view chunklen)                       real fsutil.WriteTar(MemFS(view)) -> archive/tar Reader
//	1702  (view (incl...) (excl...) reset)      same through fsutil.NewFilterFS (optionally WithHardlinkReset);
//	                                            output also carries the filtered listing of an independent walk
//	1703  (view)                                WriteTar -> own extractor into WorkDir -> SnapshotRaw
//	1705  (((dirstat view)...))                 fsutil.SubDirFS over several MemFS mounts -> WriteTar
//	1704  (view (mapexcl...) (incl...) (excl...) [((src dst)...) [layer]]) view materialised on disk (+ extra hard links);
//	                                            layer: which FS layers sit between the on-disk walker and WriteTar (c17DiskLayers) fsutil.NewFS(dir) -> NewFilterFS with a
//	                                            Map function excluding the listed paths (+ patterns) -> WriteTar;
//	                                            output (snapshot listed-paths archive-result pattern-table)
//
// archive result:  (#0 (member...) trailer-ok) | (#1 completed-callbacks) WriteTar error
//
//	| (#2 members-read errmsg) reader rejected the stream | (#ffff) panic | (#fffe) hang
//
// member: (name typeflag mode uid gid size mtime-sec linkname devmajor devminor ((k v)...) payload
//
//	gomode nsec uname gname)   — xattrs = PAXRecords SCHILY.xattr.*, gomode = hdr.FileInfo().Mode()
import (
	"archive/tar"
	"bytes"
	"context"
	"fmt"
	"io"
	gofs "io/fs"
	"os"
	"path/filepath"
	"sort"
	"strings"
	"time"
	"unicode/utf8"

	"github.com/tonistiigi/fsutil"
	"github.com/tonistiigi/fsutil/types"
	"golang.org/x/sys/unix"
)

func init() {
	kinds[0x1701] = run1701
	kinds[0x1702] = run1702
	kinds[0x1703] = run1703
	kinds[0x1704] = run1704
	kinds[0x1705] = run1705
	props["C17"] = genC17
}

// countFS counts the walk callbacks that returned nil (= members completely handled by WriteTar).
type countFS struct {
	fsutil.FS
	completed int
}

func (c *countFS) Walk(ctx context.Context, target string, fn gofs.WalkDirFunc) error {
	return c.FS.Walk(ctx, target, func(p string, d gofs.DirEntry, err error) error {
		e := fn(p, d, err)
		if e == nil {
			c.completed++
		}
		return e
	})
}

const xattrPrefix = "SCHILY.xattr."

type tarMember struct {
	hdr     *tar.Header
	payload []byte
}

var c17LastFormats = map[string]bool{} // formats chosen by archive/tar in the last run (evidence histogram only)
var c17LastErr string

// writeTarBytes runs the real WriteTar under a watchdog.
func writeTarBytes(fs fsutil.FS) (data []byte, completed int, status string, err error) {
	cfs := &countFS{FS: fs}
	var buf bytes.Buffer
	type res struct {
		err error
		pan interface{}
	}
	done := make(chan res, 1)
	ctx, cancel := context.WithCancel(context.Background())
	defer cancel()
	go func() {
		var r res
		defer func() {
			if p := recover(); p != nil {
				r.pan = p
			}
			done <- r
		}()
		r.err = fsutil.WriteTar(ctx, cfs, &buf)
	}()
	select {
	case r := <-done:
		if r.pan != nil {
			return nil, 0, "panic", fmt.Errorf("%v", r.pan)
		}
		if r.err != nil {
			return buf.Bytes(), cfs.completed, "error", r.err
		}
		return buf.Bytes(), cfs.completed, "ok", nil
	case <-time.After(10 * time.Second):
		return nil, 0, "hang", nil
	}
}

func readTar(data []byte) (ms []tarMember, err error) {
	tr := tar.NewReader(bytes.NewReader(data))
	for {
		h, e := tr.Next()
		if e == io.EOF {
			return ms, nil
		}
		if e != nil {
			return ms, e
		}
		p, e := io.ReadAll(tr)
		if e != nil {
			return ms, e
		}
		ms = append(ms, tarMember{h, p})
	}
}

func trailerOK(data []byte) bool {
	if len(data) < 1024 || len(data)%512 != 0 {
		return false
	}
	for _, b := range data[len(data)-1024:] {
		if b != 0 {
			return false
		}
	}
	return true
}

func memberSx(m tarMember) Sx {
	h := m.hdr
	var keys []string
	for k := range h.PAXRecords {
		if strings.HasPrefix(k, xattrPrefix) {
			keys = append(keys, k)
		}
	}
	sort.Strings(keys)
	xs := make([]Sx, 0, len(keys))
	for _, k := range keys {
		xs = append(xs, L(S(k[len(xattrPrefix):]), S(h.PAXRecords[k])))
	}
	return L(S(h.Name), N(uint64(h.Typeflag)), I64(h.Mode), I64(int64(h.Uid)), I64(int64(h.Gid)), I64(h.Size),
		I64(h.ModTime.Unix()), S(h.Linkname), I64(h.Devmajor), I64(h.Devminor), L(xs...), B(m.payload),
		N(uint64(uint32(h.FileInfo().Mode()))), NI(h.ModTime.Nanosecond()), S(h.Uname), S(h.Gname))
}

func archiveResult(fs fsutil.FS) (Sx, []tarMember, []byte) {
	c17LastFormats = map[string]bool{}
	c17LastErr = ""
	data, completed, status, err := writeTarBytes(fs)
	switch status {
	case "panic":
		c17LastErr = err.Error()
		return L(N(0xffff)), nil, nil
	case "hang":
		return L(N(0xfffe)), nil, nil
	case "error":
		c17LastErr = err.Error()
		if os.Getenv("C17_DEBUG") != "" {
			fmt.Fprintf(os.Stderr, "WriteTar error after %d members: %v\n", completed, err)
		}
		return L(N(1), NI(completed)), nil, data
	}
	ms, rerr := readTar(data)
	if rerr != nil {
		c17LastErr = rerr.Error()
		return L(N(2), NI(len(ms)), S(rerr.Error())), nil, data
	}
	out := make([]Sx, len(ms))
	for i, m := range ms {
		out[i] = memberSx(m)
		c17LastFormats[m.hdr.Format.String()] = true
	}
	return L(N(0), L(out...), Bool(trailerOK(data))), ms, data
}

func run1701(in Sx) (out Sx) {
	defer func() {
		if r := recover(); r != nil {
			out = L(N(0xffff))
		}
	}()
	roots := SxView(in.L[0])
	fs := &MemFS{Roots: roots, ChunkLen: in.L[1].Int()}
	out, _, _ = archiveResult(fs)
	return out
}

func sxStrings17(x Sx) []string {
	var out []string
	for _, s := range x.L {
		out = append(out, s.Str())
	}
	return out
}

func buildFiltered(roots []*MNode, incl, excl []string, reset bool) (fsutil.FS, error) {
	var fs fsutil.FS = &MemFS{Roots: roots, ChunkLen: 4096}
	opt := &fsutil.FilterOpt{}
	if len(incl) > 0 {
		opt.IncludePatterns = incl
	}
	if len(excl) > 0 {
		opt.ExcludePatterns = excl
	}
	fs, err := fsutil.NewFilterFS(fs, opt)
	if err != nil {
		return nil, err
	}
	if reset {
		fs = fsutil.WithHardlinkReset(fs)
	}
	return fs, nil
}

// output: ((stat...) archive-result pattern-table) ; (() (#9)) when the patterns are rejected
func run1702(in Sx) (out Sx) {
	defer func() {
		if r := recover(); r != nil {
			out = L(L(), L(N(0xffff)))
		}
	}()
	roots := SxView(in.L[0])
	incl, excl, reset := sxStrings17(in.L[1]), sxStrings17(in.L[2]), in.L[3].IsTrue()
	fs1, err := buildFiltered(roots, incl, excl, reset)
	if err != nil {
		return L(L(), L(N(9)))
	}
	var listing []Sx
	err = fs1.Walk(context.Background(), "/", func(p string, d gofs.DirEntry, err error) error {
		if err != nil {
			return err
		}
		fi, err := d.Info()
		if err != nil {
			return err
		}
		st := fi.Sys().(*types.Stat)
		if st.Path != p {
			return fmt.Errorf("walk path %q != stat path %q", p, st.Path)
		}
		listing = append(listing, StatSx(st))
		return nil
	})
	if err != nil {
		return L(L(), L(N(8), S(err.Error())))
	}
	fs2, _ := buildFiltered(SxView(in.L[0]), incl, excl, reset)
	res, _, _ := archiveResult(fs2)
	// third element: the real single-pattern match results ((cleanedPattern path bool) ...) for every
	// pattern and every path (and path prefix) of the view — lets the glue decide whether a failing Open
	// is the known walk/Open disagreement of moby/patternmatcher (C10's table, see c10.go)
	pt := pmatchTable(append(append([]string{}, incl...), excl...), withPrefixes(viewPaths(roots)))
	return L(L(listing...), res, L(pt...))
}

// ---- kind 1704: the real on-disk walker under a filter with a Map table ---------------------

// c17InfoFS is a consumer in front of the FS that asks every entry for its Info() before handing it on
// (as any wrapper that looks at the stat does): Info() must be repeatable.
type c17InfoFS struct{ fsutil.FS }

func (c c17InfoFS) Walk(ctx context.Context, target string, fn gofs.WalkDirFunc) error {
	return c.FS.Walk(ctx, target, func(p string, d gofs.DirEntry, err error) error {
		if err == nil && d != nil {
			if _, ierr := d.Info(); ierr != nil {
				return ierr
			}
		}
		return fn(p, d, err)
	})
}

// c17DiskLayers builds the FS handed to WriteTar over the on-disk walker.  layer & 15:
//
//	0 NewFilterFS(NewFS, {Map, patterns})     1 NewFS alone (no filter layer at all)
//	2 WithHardlinkReset(NewFS)                3 NewFilterFS(NewFS, nil)  (= NewFS)
//	4 NewFilterFS(NewFS, &FilterOpt{})        5 WithHardlinkReset(NewFilterFS(NewFS, {Map, patterns}))
//
// layer & 16: an Info()-calling consumer (c17InfoFS) on top.  Layers 1-4 ignore the Map table and the patterns.
func c17DiskLayers(root string, layer int, mexcl map[string]bool, incl, excl []string) (fsutil.FS, error) {
	var fs fsutil.FS
	var err error
	switch layer & 15 {
	case 0:
		fs, err = c17DiskFiltered(root, mexcl, incl, excl)
	case 5:
		fs, err = c17DiskFiltered(root, mexcl, incl, excl)
		if err == nil {
			fs = fsutil.WithHardlinkReset(fs)
		}
	default:
		fs, err = fsutil.NewFS(root)
		if err != nil {
			return nil, err
		}
		switch layer & 15 {
		case 2:
			fs = fsutil.WithHardlinkReset(fs)
		case 3:
			fs, err = fsutil.NewFilterFS(fs, nil)
		case 4:
			fs, err = fsutil.NewFilterFS(fs, &fsutil.FilterOpt{})
		}
	}
	if err != nil {
		return nil, err
	}
	if layer&16 != 0 {
		fs = c17InfoFS{fs}
	}
	return fs, nil
}

func c17DiskFiltered(root string, mexcl map[string]bool, incl, excl []string) (fsutil.FS, error) {
	base, err := fsutil.NewFS(root)
	if err != nil {
		return nil, err
	}
	opt := &fsutil.FilterOpt{Map: func(p string, _ *types.Stat) fsutil.MapResult {
		if mexcl[p] {
			return fsutil.MapResultExclude
		}
		return fsutil.MapResultKeep
	}}
	if len(incl) > 0 {
		opt.IncludePatterns = incl
	}
	if len(excl) > 0 {
		opt.ExcludePatterns = excl
	}
	return fsutil.NewFilterFS(base, opt)
}

// output: (snapshot (path...) archive-result pattern-table) | (#9) patterns rejected | (#fffd msg) set-up
// failed | (#ffff msg) panic.  snapshot = independent lstat records with file contents (RawEntry.Sx),
// taken before fsutil touches the directory.
func run1704(in Sx) (out Sx) {
	defer func() {
		if r := recover(); r != nil {
			out = L(N(0xffff), S(fmt.Sprint(r)))
		}
	}()
	roots := SxView(in.L[0])
	mexcl := map[string]bool{}
	for _, p := range sxStrings17(in.L[1]) {
		mexcl[p] = true
	}
	incl, excl := sxStrings17(in.L[2]), sxStrings17(in.L[3])
	dir := WorkDir("c17f")
	defer os.RemoveAll(dir)
	root := filepath.Join(dir, "r")
	if err := os.Mkdir(root, 0755); err != nil {
		return L(N(0xfffd), S(err.Error()))
	}
	if err := Materialize(roots, root); err != nil {
		return L(N(0xfffd), S(err.Error()))
	}
	if len(in.L) > 4 { // extra hard links (src dst): second names of fifos, devices, symlinks (linkat does not follow)
		for _, e := range in.L[4].L {
			if err := os.Link(filepath.Join(root, e.L[0].Str()), filepath.Join(root, e.L[1].Str())); err != nil {
				return L(N(0xfffd), S(err.Error()))
			}
		}
	}
	raw, err := SnapshotRaw(root, true)
	if err != nil {
		return L(N(0xfffd), S(err.Error()))
	}
	snap := make([]Sx, len(raw))
	var allPaths []string
	for i, e := range raw {
		snap[i] = e.Sx()
		allPaths = append(allPaths, e.Path)
	}
	layer := 0
	if len(in.L) > 5 {
		layer = in.L[5].Int()
	}
	if l := layer & 15; l >= 1 && l <= 4 { // no filter layer: nothing is excluded
		mexcl, incl, excl = map[string]bool{}, nil, nil
	}
	fs1, err := c17DiskLayers(root, layer&15, mexcl, incl, excl) // paths only: this walk never asks for Info()
	if err != nil {
		return L(N(9))
	}
	var listed []Sx
	err = fs1.Walk(context.Background(), "/", func(p string, d gofs.DirEntry, err error) error {
		if err != nil {
			return err
		}
		listed = append(listed, S(p))
		return nil
	})
	if err != nil {
		return L(N(0xfffd), S("independent walk: "+err.Error()))
	}
	fs2, err := c17DiskLayers(root, layer, mexcl, incl, excl)
	if err != nil {
		return L(N(9))
	}
	res, _, _ := archiveResult(fs2)
	pt := pmatchTable(append(append([]string{}, incl...), excl...), withPrefixes(allPaths))
	return L(L(snap...), L(listed...), res, L(pt...))
}

// c17AddLinkGroup puts a hard-link group of 2-4 names with non-empty content into the view (all names in
// one directory, or the later names in a directory created for them at the end of the root) and returns the
// paths of its names in walk order.  Kids stay sorted bytewise, so the first name is materialised first.
func c17AddLinkGroup(r *Rng, roots []*MNode, tag string) ([]*MNode, []string) {
	size := Pick(r, []int{1, 5, 511, 512, 513, 4096, 40000, 80000})
	content := fillContent(r, size)
	st := &types.Stat{Mode: uint32(Pick(r, []os.FileMode{0644, 0600, 0755, 0444 | os.ModeSetuid})), Uid: uint32(r.Intn(3)) * 500,
		Gid: uint32(r.Intn(2)) * 7, Size: int64(size), ModTime: 1500000000_000000000 + int64(r.Intn(1000000))*1000}
	n := 2 + r.Intn(3)
	// where: the root, or an existing directory of the root level
	var dirs []*MNode
	for _, k := range roots {
		if os.FileMode(k.Stat.Mode).IsDir() {
			dirs = append(dirs, k)
		}
	}
	var parent *MNode
	prefix := ""
	if len(dirs) > 0 && r.Chance(50) {
		parent = Pick(r, dirs)
		prefix = parent.Name + "/"
	}
	used := map[string]bool{}
	kidsOf := func() []*MNode {
		if parent != nil {
			return parent.Kids
		}
		return roots
	}
	for _, k := range kidsOf() {
		used[k.Name] = true
	}
	for _, k := range roots {
		used["/"+k.Name] = true
	}
	var names []string
	for i := 0; len(names) < n && i < 26; i++ {
		nm := fmt.Sprintf("%s%c%s", tag, 'a'+i, Pick(r, []string{"", "", ".txt", " x", "é"}))
		if !used[nm] {
			names = append(names, nm)
			used[nm] = true
		}
	}
	sort.Strings(names)
	first := prefix + names[0]
	var paths []string
	var add []*MNode
	for i, nm := range names {
		s := st.CloneVT()
		if i > 0 {
			s.Linkname = first
		}
		add = append(add, &MNode{Name: nm, Stat: s, Content: content})
		paths = append(paths, prefix+nm)
	}
	byName := func(l []*MNode) {
		sort.Slice(l, func(i, j int) bool { return l[i].Name < l[j].Name })
	}
	// optionally move the last name into a new directory that sorts after everything at the root
	var far *MNode
	if len(add) >= 3 && r.Chance(40) && !used["/~"+tag] {
		last := add[len(add)-1]
		add = add[:len(add)-1]
		far = &MNode{Name: "~" + tag, Stat: &types.Stat{Mode: uint32(os.ModeDir | 0755), ModTime: 1400000000_000000000}, Kids: []*MNode{last}}
		paths[len(paths)-1] = far.Name + "/" + last.Name
	}
	if parent != nil {
		parent.Kids = append(parent.Kids, add...)
		byName(parent.Kids)
	} else {
		roots = append(roots, add...)
	}
	if far != nil {
		roots = append(roots, far)
	}
	byName(roots)
	// the far directory must come after the first name in materialisation order
	if far != nil {
		seen, okOrder := false, false
		walkNodes(roots, func(p string, nd *MNode) {
			if p == first {
				seen = true
			}
			if p == paths[len(paths)-1] {
				okOrder = seen
			}
		})
		if !okOrder { // a root entry sorts after "~": keep the group without its far member
			for i, k := range roots {
				if k == far {
					roots = append(roots[:i:i], roots[i+1:]...)
					break
				}
			}
			paths = paths[:len(paths)-1]
		}
	}
	return roots, paths
}

// ---- kind 1705: composite view (SubDirFS) --------------------------------------------------

// output: archive result | (#9) SubDirFS rejected the mounts
func run1705(in Sx) (out Sx) {
	defer func() {
		if r := recover(); r != nil {
			out = L(N(0xffff))
		}
	}()
	var dirs []fsutil.Dir
	for _, m := range in.L[0].L {
		dirs = append(dirs, fsutil.Dir{Stat: SxStat(m.L[0]), FS: &MemFS{Roots: SxView(m.L[1]), ChunkLen: 4096}})
	}
	fs, err := fsutil.SubDirFS(dirs)
	if err != nil {
		return L(N(9))
	}
	out, _, _ = archiveResult(fs)
	return out
}

func c17SortKids(l []*MNode) { sort.Slice(l, func(i, j int) bool { return l[i].Name < l[j].Name }) }

// c17EnsureFile puts a regular file with the given bytes at path p of the view, creating the directories on
// the way; false when a non-directory is in the way or the path is already taken.
func c17EnsureFile(roots *[]*MNode, p string, content []byte, mode uint32) bool {
	parts := strings.Split(p, "/")
	kids := roots
	for i, name := range parts {
		var found *MNode
		for _, k := range *kids {
			if k.Name == name {
				found = k
			}
		}
		last := i == len(parts)-1
		if last {
			if found != nil {
				return false
			}
			*kids = append(*kids, &MNode{Name: name, Stat: &types.Stat{Mode: mode, Size: int64(len(content)), ModTime: 1234567890_000000000}, Content: content})
			c17SortKids(*kids)
			return true
		}
		if found == nil {
			found = &MNode{Name: name, Stat: &types.Stat{Mode: uint32(os.ModeDir | 0755), ModTime: 1234567890_000000000}}
			*kids = append(*kids, found)
			c17SortKids(*kids)
		} else if !os.FileMode(found.Stat.Mode).IsDir() {
			return false
		}
		kids = &found.Kids
	}
	return false
}

// c17AddSpecialLinkGroup adds a fifo / character / block device with two or three names (one inode) at the
// root of a MemFS view: the later names carry Linkname = first name, as the walker's inode map reports them.
func c17AddSpecialLinkGroup(r *Rng, roots []*MNode, tag string) []*MNode {
	used := map[string]bool{}
	for _, k := range roots {
		used[k.Name] = true
	}
	mode := Pick(r, []os.FileMode{os.ModeNamedPipe | 0644, os.ModeDevice | os.ModeCharDevice | 0600, os.ModeDevice | 0660})
	st := &types.Stat{Mode: uint32(mode), Uid: uint32(r.Intn(2)) * 1000, Gid: uint32(r.Intn(2)) * 5, ModTime: 1500000000_000000000 + int64(r.Intn(1000))*1000000}
	if mode&os.ModeDevice != 0 {
		st.Devmajor, st.Devminor = int64(1+r.Intn(250)), int64(r.Intn(250))
	}
	first := ""
	for i, n := 0, 2+r.Intn(2); i < 26 && n > 0; i++ {
		nm := fmt.Sprintf("%s%c", tag, 'a'+i)
		if used[nm] {
			continue
		}
		c := st.CloneVT()
		if first == "" {
			first = nm
		} else {
			c.Linkname = first
		}
		roots = append(roots, &MNode{Name: nm, Stat: c})
		n--
	}
	c17SortKids(roots)
	return roots
}

// ---- extraction ---------------------------------------------------------------------------

// extractTar is this harness' own extractor: what a consumer of the archive does with the
// members (directories' metadata last, because populating them changes their mtime).
func extractTar(ms []tarMember, dir string) error {
	type later struct {
		p string
		m tarMember
	}
	var dirs []later
	meta := func(p string, m tarMember) error {
		h := m.hdr
		for k, v := range h.PAXRecords {
			if strings.HasPrefix(k, xattrPrefix) {
				if err := unix.Lsetxattr(p, k[len(xattrPrefix):], []byte(v), 0); err != nil {
					return fmt.Errorf("lsetxattr %s %s: %v", p, k, err)
				}
			}
		}
		if err := os.Lchown(p, h.Uid, h.Gid); err != nil {
			return err
		}
		if h.Typeflag != tar.TypeSymlink {
			if err := unix.Chmod(p, unixMode(h.FileInfo().Mode())&07777); err != nil {
				return err
			}
		}
		return lutimes(p, h.ModTime.UnixNano())
	}
	for _, m := range ms {
		h := m.hdr
		p := filepath.Join(dir, h.Name)
		if !strings.HasPrefix(p, dir+"/") {
			return fmt.Errorf("member name escapes: %q", h.Name)
		}
		switch h.Typeflag {
		case tar.TypeDir:
			if err := os.Mkdir(p, 0700); err != nil {
				return err
			}
			dirs = append(dirs, later{p, m})
			continue
		case tar.TypeReg:
			if err := os.WriteFile(p, m.payload, 0600); err != nil {
				return err
			}
		case tar.TypeLink:
			if err := os.Link(filepath.Join(dir, h.Linkname), p); err != nil {
				return err
			}
			continue // shares the inode: metadata came with the first member
		case tar.TypeSymlink:
			if err := os.Symlink(h.Linkname, p); err != nil {
				return err
			}
		case tar.TypeChar, tar.TypeBlock, tar.TypeFifo:
			um := unixMode(h.FileInfo().Mode())
			if err := unix.Mknod(p, um, int(unix.Mkdev(uint32(h.Devmajor), uint32(h.Devminor)))); err != nil {
				return fmt.Errorf("mknod %s: %v", p, err)
			}
		default:
			return fmt.Errorf("unexpected typeflag %q", h.Typeflag)
		}
		if err := meta(p, m); err != nil {
			return err
		}
	}
	for i := len(dirs) - 1; i >= 0; i-- {
		if err := meta(dirs[i].p, dirs[i].m); err != nil {
			return err
		}
	}
	return nil
}

// rawC17Sx: (path st_mode uid gid size mtime-ns rdev linkgroup nlink target ((k v)...) content) with
// size 0 for directories (file-system specific), nlink 0 for directories, linkgroup = index of the
// first snapshot entry with the same inode.
func rawC17Sx(es []RawEntry) Sx {
	first := map[uint64]int{}
	out := make([]Sx, len(es))
	for i, e := range es {
		if _, ok := first[e.Ino]; !ok {
			first[e.Ino] = i
		}
		isDir := e.Mode&unix.S_IFMT == unix.S_IFDIR
		size, nlink := e.Size, e.Nlink
		if isDir {
			size, nlink = 0, 0
		}
		keys := make([]string, 0, len(e.Xattrs))
		for k := range e.Xattrs {
			keys = append(keys, k)
		}
		sort.Strings(keys)
		xs := make([]Sx, 0, len(keys))
		for _, k := range keys {
			xs = append(xs, L(S(k), B(e.Xattrs[k])))
		}
		out[i] = L(S(e.Path), N(uint64(e.Mode)), N(uint64(e.Uid)), N(uint64(e.Gid)), I64(size), I64(e.MtimeNs),
			N(e.Rdev), NI(first[e.Ino]), N(nlink), S(e.Target), L(xs...), B(e.Content))
	}
	return L(out...)
}

// output: (#0 (raw...)) | (#1 completed) | (#2 n msg) | (#3 msg) extraction failed | (#ffff)
func run1703(in Sx) (out Sx) {
	defer func() {
		if r := recover(); r != nil {
			out = L(N(0xffff), S(fmt.Sprint(r)))
		}
	}()
	roots := SxView(in.L[0])
	res, ms, _ := archiveResult(&MemFS{Roots: roots, ChunkLen: 32 * 1024})
	if res.L[0].U64() != 0 {
		return res
	}
	dir := WorkDir("c17x")
	defer os.RemoveAll(dir)
	if err := extractTar(ms, dir); err != nil {
		c17LastErr = err.Error()
		return L(N(3), S(err.Error()))
	}
	snap, err := SnapshotRaw(dir, true)
	if err != nil {
		return L(N(3), S(err.Error()))
	}
	return L(N(0), rawC17Sx(snap))
}

// ---- generator ------------------------------------------------------------------------------

func walkNodes(roots []*MNode, fn func(path string, n *MNode)) {
	var rec func(dir string, ns []*MNode)
	rec = func(dir string, ns []*MNode) {
		for _, n := range ns {
			p := n.Name
			if dir != "" {
				p = dir + "/" + n.Name
			}
			fn(p, n)
			rec(p, n.Kids)
		}
	}
	rec("", roots)
}

func isRegularMode(m uint32) bool { return os.FileMode(m)&os.ModeType == 0 }

// syncLinks re-copies the metadata of every hard-link member from the member it names
// (same inode = same metadata and content), after the view was post-processed.
func syncLinks(roots []*MNode) {
	byPath := map[string]*MNode{}
	walkNodes(roots, func(p string, n *MNode) { byPath[p] = n })
	walkNodes(roots, func(p string, n *MNode) {
		if n.Stat.Linkname != "" && isRegularMode(n.Stat.Mode) {
			if t := byPath[n.Stat.Linkname]; t != nil && t != n {
				ln := n.Stat.Linkname
				n.Stat = t.Stat.CloneVT()
				n.Stat.Linkname = ln
				n.Content = t.Content
			}
		}
	})
}

var c17Uids = []uint32{0, 1000, 2097151, 2097152, 3000000, 4294967295}
var c17Mtimes = []int64{
	0, 1, 499999999, 500000000, 999999999, 1000000000, 1600000000_500000000, 1600000000_499999999,
	1600000000_999999999, -1, -500000000, -500000001, -1500000000, -86400_000000001,
	8589934591_000000000, 8589934591_500000000, 8589934592_000000000, 9000000000_123456789,
}
var c17LinkTargets = []string{
	"é/日本", "\xff\xfe", strings.Repeat("t/", 60) + "x", strings.Repeat("u", 101), strings.Repeat("v", 100),
	"/abs/" + strings.Repeat("w", 300),
}
var c17Names = append(append([]string{}, NamePool...), "\xff\xfe", "a=b", "x\ny", "PaxHeaders.0", "@LongLink",
	strings.Repeat("n", 100), strings.Repeat("m", 101), strings.Repeat("é", 60))

// c17Mutate post-processes a generated view towards the distinctions that matter for tar:
// PAX-only owners, mtimes at rounding boundaries / before 1970 / beyond 2^33 s, long and
// non-ASCII link targets, device numbers at the octal limit, empty and NUL xattr values.
func c17Mutate(r *Rng, roots []*MNode, onDisk bool) {
	walkNodes(roots, func(p string, n *MNode) {
		st := n.Stat
		m := os.FileMode(st.Mode)
		if r.Chance(25) {
			st.Uid = Pick(r, c17Uids)
		}
		if r.Chance(25) {
			st.Gid = Pick(r, c17Uids)
		}
		if r.Chance(35) {
			st.ModTime = Pick(r, c17Mtimes)
		}
		if m&os.ModeSymlink != 0 && r.Chance(30) {
			st.Linkname = Pick(r, c17LinkTargets)
			st.Size = int64(len(st.Linkname))
		}
		if m&os.ModeDevice != 0 && r.Chance(30) {
			st.Devmajor = int64(Pick(r, []int{0, 4095, 2097151}))
			st.Devminor = int64(Pick(r, []int{0, 255, 1048575, 2097151}))
			if onDisk { // the kernel's dev_t has 12 major / 20 minor bits
				st.Devmajor &= 4095
				st.Devminor &= 1048575
			}
		}
		if len(st.Xattrs) > 0 && r.Chance(30) {
			st.Xattrs["user.empty"] = []byte{}
		}
		if len(st.Xattrs) > 0 && r.Chance(20) {
			st.Xattrs["user.big"] = fillContent(r, 300+r.Intn(3000))
		}
		if len(st.Xattrs) > 0 && r.Chance(15) {
			st.Xattrs["user.é x\n"] = []byte("v=1\n\x00é")
		}
		if onDisk && len(st.Xattrs) > 0 && m&os.ModeType != 0 && !m.IsDir() {
			// user.* xattrs are refused by the kernel on special files: use trusted.*
			nx := map[string][]byte{}
			for k, v := range st.Xattrs {
				nx["trusted."+strings.TrimPrefix(k, "user.")] = v
			}
			st.Xattrs = nx
		}
	})
	syncLinks(roots)
}

func c17ViewStats(roots []*MNode) (n, payload, links, special, big int) {
	walkNodes(roots, func(p string, nd *MNode) {
		n++
		m := os.FileMode(nd.Stat.Mode)
		switch {
		case m&os.ModeType == 0 && nd.Stat.Linkname != "":
			links++
		case m&os.ModeType == 0 && len(nd.Content) > 0:
			payload++
			if len(nd.Content) > 32768 {
				big++
			}
		case !m.IsDir() && m&os.ModeType != 0:
			special++
		}
	})
	return
}

func c17Class(prefix string, out Sx) string {
	res := out
	if len(out.L) >= 2 && out.L[0].Kind == 'l' {
		res = out.L[1]
	}
	if len(res.L) == 0 || res.L[0].Kind != 'n' {
		return prefix + "-?"
	}
	switch res.L[0].U64() {
	case 0:
		f := "ustar"
		if c17LastFormats["GNU"] {
			f = "gnu"
		}
		if c17LastFormats["PAX"] {
			f = "pax"
			if c17LastFormats["GNU"] {
				f = "pax+gnu"
			}
		}
		return prefix + "-" + f
	case 1:
		return prefix + "-writeerr"
	}
	return prefix + "-other"
}

func c17GenView(r *Rng, big bool) []*MNode {
	o := TreeOpts{MaxEntries: 4 + r.Intn(14), MaxDepth: 4, Names: c17Names, Types: r.Chance(85), HardLinks: r.Chance(60),
		Xattrs: r.Chance(60), BigFiles: big, Owners: true, LongNames: r.Chance(40)}
	return GenView(r, o)
}

func genC17(g *Gen) {
	r := g.Rng
	// (a) plain views
	nPlain := g.Vol(220, 4500)
	for i := 0; i < nPlain; i++ {
		roots := c17GenView(r, i%4 == 0)
		if r.Chance(70) {
			c17Mutate(r, roots, false)
		}
		speclinks := r.Chance(20)
		if speclinks { // a fifo / device inode with several names
			roots = c17AddSpecialLinkGroup(r, roots, "sp")
		}
		chunk := Pick(r, []int{0, 1, 7, 512, 4096, 32 * 1024})
		if i%4 == 0 && chunk == 1 {
			chunk = 1000
		}
		in := L(ViewSx(roots), NI(chunk))
		out := run1701(in)
		n, payload, links, special, _ := c17ViewStats(roots)
		nt := out.L[0].U64() == 0 && n >= 3 && payload >= 1 && (links+special) >= 1
		cls := c17Class("plain", out)
		if speclinks {
			cls += "-speclinks"
		}
		g.EmitWith(0x1701, in, out, nt, cls)
	}
	// (b) views outside the well-formed domain: WriteTar must fail, never write a wrong archive
	nBad := g.Vol(60, 1200)
	for i := 0; i < nBad; i++ {
		roots := c17GenView(r, false)
		var nodes []*MNode
		walkNodes(roots, func(p string, n *MNode) { nodes = append(nodes, n) })
		victim := Pick(r, nodes)
		st := victim.Stat
		cls := "bad-"
		switch r.Intn(9) {
		case 0: // Size larger than the bytes Open serves
			if isRegularMode(st.Mode) {
				st.Size = int64(len(victim.Content)) + int64(1+r.Intn(600))
			}
			cls += "size-long"
		case 1: // Size smaller than the bytes Open serves
			if isRegularMode(st.Mode) && len(victim.Content) > 1 {
				st.Size = int64(1 + r.Intn(len(victim.Content)-1))
			}
			cls += "size-short"
		case 2:
			st.Size = -int64(1 + r.Intn(5))
			cls += "size-negative"
		case 3:
			st.Mode = uint32(os.ModeSocket | 0755)
			cls += "socket"
		case 4:
			st.Mode = uint32(Pick(r, []os.FileMode{os.ModeIrregular | 0644, os.ModeCharDevice | 0644}))
			cls += "irregular"
		case 5:
			if st.Xattrs == nil {
				st.Xattrs = map[string][]byte{}
			}
			st.Xattrs[Pick(r, []string{"user.a=b", "=", "user.x\x00y"})] = []byte("v")
			cls += "xattr-key"
		case 6:
			st.Devmajor = Pick(r, []int64{2097152, -1, 1 << 56, -(1 << 56) - 1, (1 << 56) - 1})
			if r.Bool() {
				st.Devminor, st.Devmajor = st.Devmajor, 0
			}
			cls += "devnum"
		case 7: // a size that is declared but no content (zero bytes served)
			if isRegularMode(st.Mode) {
				victim.Content = nil
				st.Size = int64(1 + r.Intn(3))
			}
			cls += "size-nocontent"
		case 8: // link name on a non-regular, non-symlink entry
			st.Linkname = "a"
			cls += "linkname-on-any"
		}
		in := L(ViewSx(roots), NI(Pick(r, []int{0, 3, 4096})))
		out := run1701(in)
		g.EmitWith(0x1701, in, out, false, cls)
	}
	// (c) filtered views
	nFilt := g.Vol(90, 1800)
	for i := 0; i < nFilt; i++ {
		roots := c17GenView(r, false)
		if r.Chance(50) {
			c17Mutate(r, roots, false)
		}
		if r.Chance(15) {
			roots = c17AddSpecialLinkGroup(r, roots, "sp")
		}
		var paths []string
		walkNodes(roots, func(p string, n *MNode) { paths = append(paths, p) })
		pat := func() string {
			p := Pick(r, paths)
			switch r.Intn(6) {
			case 0:
				return filepath.Dir(p) + "/*"
			case 1:
				return "**/" + filepath.Base(p)
			case 2:
				return "!" + p
			}
			return p
		}
		ok := func(p string) bool { // patterns the matcher would misread are not the subject here
			return !strings.ContainsAny(strings.TrimPrefix(strings.ReplaceAll(strings.ReplaceAll(p, "**/", ""), "/*", ""), "!"), "*?[]\\\n") &&
				!strings.HasPrefix(p, "./") && !strings.HasPrefix(p, "!.") && p != "." && utf8.ValidString(p)
		}
		var incl, excl []Sx
		for k := r.Intn(3); k > 0; k-- {
			if p := pat(); ok(p) {
				incl = append(incl, S(p))
			}
		}
		for k := r.Intn(3); k > 0; k-- {
			if p := pat(); ok(p) {
				excl = append(excl, S(p))
			}
		}
		reset := r.Chance(75)
		in := L(ViewSx(roots), L(incl...), L(excl...), Bool(reset))
		out := run1702(in)
		nt := len(out.L) >= 2 && len(out.L[1].L) > 0 && out.L[1].L[0].U64() == 0 && len(out.L[0].L) >= 2 &&
			len(out.L[0].L) < len(paths)
		g.EmitWith(0x1702, in, out, nt, c17Class(map[bool]string{true: "filt-reset", false: "filt-raw"}[reset], out))
	}
	// (d) extraction onto disk
	nDisk := g.Vol(40, 800)
	for i := 0; i < nDisk; i++ {
		roots := c17GenView(r, i%5 == 0)
		c17Mutate(r, roots, true)
		walkNodes(roots, func(p string, n *MNode) { // mtimes the file system can store exactly; kernel dev_t range
			if n.Stat.ModTime > 8589934591_000000000 {
				n.Stat.ModTime = 1700000000_500000000
			}
		})
		c17DiskSafe(roots)
		syncLinks(roots)
		in := L(ViewSx(roots))
		out := run1703(in)
		n, payload, links, special, _ := c17ViewStats(roots)
		nt := out.L[0].U64() == 0 && n >= 3 && payload >= 1 && (links+special) >= 1
		g.EmitWith(0x1703, in, out, nt, c17Class("disk", out))
	}
	// (e) the real on-disk walker under a filter whose Map function excludes entries AFTER they were stat'ed:
	// hard-link groups of non-empty files whose first name in walk order is map-excluded (the next name must
	// be promoted to the group's regular member with all its bytes), also combined with patterns
	nDiskF := g.Vol(56, 1100)
	for i := 0; i < nDiskF; i++ {
		roots := c17GenView(r, false)
		if r.Chance(60) {
			c17Mutate(r, roots, true)
		}
		walkNodes(roots, func(p string, n *MNode) {
			if n.Stat.ModTime > 8589934591_000000000 {
				n.Stat.ModTime = 1700000000_500000000
			}
		})
		c17DiskSafe(roots)
		syncLinks(roots)
		var groups [][]string
		ng := 1 + r.Intn(2)
		for k := 0; k < ng; k++ {
			var ps []string
			roots, ps = c17AddLinkGroup(r, roots, fmt.Sprintf("hl%d", k))
			groups = append(groups, ps)
		}
		var paths, files []string
		walkNodes(roots, func(p string, n *MNode) {
			paths = append(paths, p)
			if !os.FileMode(n.Stat.Mode).IsDir() {
				files = append(files, p)
			}
		})
		mex := map[string]bool{}
		firstExcluded := false
		for _, ps := range groups {
			switch k := r.Intn(10); {
			case k < 7: // the first name
				mex[ps[0]] = true
				firstExcluded = firstExcluded || len(ps) >= 2
			case k < 8 && len(ps) >= 3: // the first two names
				mex[ps[0]], mex[ps[1]] = true, true
				firstExcluded = true
			case k < 9: // a later name only
				mex[ps[len(ps)-1]] = true
			}
		}
		if r.Chance(30) && len(files) > 0 {
			mex[Pick(r, files)] = true
		}
		var mexl []Sx
		for _, p := range paths {
			if mex[p] {
				mexl = append(mexl, S(p))
			}
		}
		var incl, excl []Sx
		if r.Chance(30) {
			p := Pick(r, paths)
			cand := Pick(r, []string{p, filepath.Dir(p) + "/*", "**/" + filepath.Base(p)})
			if !strings.ContainsAny(strings.ReplaceAll(strings.ReplaceAll(cand, "**/", ""), "/*", ""), "*?[]\\\n!") &&
				!strings.HasPrefix(cand, ".") && utf8.ValidString(cand) {
				if r.Chance(70) {
					excl = append(excl, S(cand))
				} else {
					incl = append(incl, S(cand))
				}
			}
		}
		// second names for fifos / devices / symlinks of the view (the materialiser links regular files only)
		var extras []Sx
		if r.Chance(50) {
			var specials []string
			walkNodes(roots, func(p string, n *MNode) {
				if m := os.FileMode(n.Stat.Mode); m&os.ModeType != 0 && !m.IsDir() {
					specials = append(specials, p)
				}
			})
			if len(specials) == 0 {
				roots = append(roots, &MNode{Name: "spq", Stat: &types.Stat{Mode: uint32(os.ModeNamedPipe | 0640), ModTime: 1500000000_000000000}})
				c17SortKids(roots)
				specials = []string{"spq"}
			}
			taken := map[string]bool{}
			for _, p := range paths {
				taken[p] = true
			}
			for k := 1 + r.Intn(2); k > 0; k-- {
				src := Pick(r, specials)
				dst := src + Pick(r, []string{"~2", ".lnk", "+"})
				if r.Chance(30) {
					dst = "0" + filepath.Base(src) // a name that sorts BEFORE most: the new name becomes the first one
				}
				if len(filepath.Base(dst)) > 200 || taken[dst] {
					continue
				}
				taken[dst] = true
				extras = append(extras, L(S(src), S(dst)))
				if r.Chance(40) { // ... and the name the walker sees first is excluded by the Map function
					first := src
					if dst < src {
						first = dst
					}
					mexl = append(mexl, S(first))
				}
			}
		}
		// which layers sit between the walker and WriteTar: the Map/pattern filter (as above), none at all (the raw
		// walker's entries reach WriteTar's own hard-link reset and WriteTar itself: several Info() consumers per
		// entry), a caller-side reset, a nil / empty filter, reset over filter; optionally one more Info() consumer
		layer := 0
		if i%5 >= 3 || r.Chance(15) {
			layer = Pick(r, []int{1, 1, 2, 3, 4, 5})
		}
		if r.Chance(25) {
			layer |= 16
		}
		if l := layer & 15; l >= 1 && l <= 4 {
			mexl, incl, excl, firstExcluded = nil, nil, nil, false
		}
		in := L(ViewSx(roots), L(mexl...), L(incl...), L(excl...), L(extras...), NI(layer))
		out := run1704(in)
		nt := (firstExcluded || (layer&15 >= 1 && layer&15 <= 4)) && len(out.L) == 4 && len(out.L[2].L) > 0 && out.L[2].L[0].U64() == 0 && len(out.L[1].L) >= 3
		cls := "diskf-?"
		if len(out.L) == 4 {
			cls = c17Class("diskf", out.L[2])
		}
		if firstExcluded {
			cls += "-first-excluded"
		}
		if len(extras) > 0 {
			cls += "-speclinks"
		}
		cls += fmt.Sprintf("-L%d", layer&15)
		if layer&16 != 0 {
			cls += "i"
		}
		g.EmitWith(0x1704, in, out, nt, cls)
	}
	// (f) composite views: SubDirFS over several mounts whose names are related (one a proper string prefix
	// of another, so that "short/" + rest-of-long + "/p" is a path of the short mount that looks like long/p
	// with a separator missing), with and without a file at that shifted path, of equal or different size
	nSub := g.Vol(40, 800)
	alphabet := []string{"a", "b", "m", "0", "-", "+", ".", " ", "é", "A", "_"}
	word := func(n int) string {
		w := ""
		for i := 0; i < n; i++ {
			w += Pick(r, alphabet)
		}
		return w
	}
	for i := 0; i < nSub; i++ {
		type mount struct {
			name  string
			roots []*MNode
		}
		var ms []*mount
		names := map[string]bool{}
		add := func(n string) *mount {
			if n == "" || n == "." || n == ".." || names[n] {
				return nil
			}
			names[n] = true
			roots := GenView(r, TreeOpts{MaxEntries: 2 + r.Intn(7), MaxDepth: 3, Names: c17Names, Types: r.Chance(60), HardLinks: r.Chance(50),
				Xattrs: r.Chance(30), Owners: true})
			if r.Chance(40) {
				c17Mutate(r, roots, false)
			}
			m := &mount{n, roots}
			ms = append(ms, m)
			return m
		}
		type rel struct {
			short, long *mount
			rest        string
		}
		var rels []rel
		base := add(word(1 + r.Intn(2)))
		if base == nil {
			continue
		}
		cur := base
		for k := 1 + r.Intn(2); k > 0; k-- {
			t := word(1 + r.Intn(2))
			from := cur
			if r.Chance(30) {
				from = base
			}
			if t == "." || t == ".." {
				continue
			}
			if m := add(from.name + t); m != nil {
				rels = append(rels, rel{from, m, t})
				cur = m
			}
		}
		if r.Chance(50) {
			add(word(1 + r.Intn(3)))
		}
		related := false
		for _, rl := range rels {
			// a non-empty regular file of the longer-named mount ...
			var files []string
			var sizes []int
			walkNodes(rl.long.roots, func(p string, n *MNode) {
				if isRegularMode(n.Stat.Mode) && n.Stat.Linkname == "" && len(n.Content) > 0 {
					files = append(files, p)
					sizes = append(sizes, len(n.Content))
				}
			})
			if len(files) == 0 {
				c := fillContent(r, 1+r.Intn(600))
				if !c17EnsureFile(&rl.long.roots, "f"+word(1), c, 0644) {
					continue
				}
				walkNodes(rl.long.roots, func(p string, n *MNode) {
					if isRegularMode(n.Stat.Mode) && n.Stat.Linkname == "" && len(n.Content) > 0 {
						files = append(files, p)
						sizes = append(sizes, len(n.Content))
					}
				})
			}
			if len(files) == 0 {
				continue
			}
			related = true
			j := r.Intn(len(files))
			// ... and, in the shorter-named mount, the path that a missing separator would turn it into
			switch k := r.Intn(10); {
			case k < 4: // same size, different bytes
				c17EnsureFile(&rl.short.roots, rl.rest+"/"+files[j], fillContent(r, sizes[j]), 0600)
			case k < 7: // different size
				c17EnsureFile(&rl.short.roots, rl.rest+"/"+files[j], fillContent(r, sizes[j]+1+r.Intn(5)), 0600)
			}
		}
		var msx []Sx
		for _, m := range ms {
			st := &types.Stat{Path: m.name, Mode: uint32(os.ModeDir | Pick(r, []os.FileMode{0755, 0700, 0555 | os.ModeSticky})), Uid: uint32(r.Intn(2)) * 1000,
				Gid: uint32(r.Intn(2)) * 5, ModTime: 1600000000_000000000 + int64(r.Intn(1000))*999999}
			msx = append(msx, L(StatSx(st), ViewSx(m.roots)))
		}
		for k := len(msx) - 1; k > 0; k-- { // SubDirFS sorts the mounts itself
			j := r.Intn(k + 1)
			msx[k], msx[j] = msx[j], msx[k]
		}
		in := L(L(msx...))
		out := run1705(in)
		nt := related && len(out.L) > 0 && out.L[0].U64() == 0 && len(ms) >= 2
		cls := c17Class("subdir", out)
		if related {
			cls += "-prefix-names"
		}
		g.EmitWith(0x1705, in, out, nt, cls)
	}
}

// c17DiskSafe removes what ext4 cannot hold (names > 255 bytes never occur; xattrs on symlinks are not
// generated; user.* on special files was renamed by c17Mutate) and what mknod needs.
func c17DiskSafe(roots []*MNode) {
	walkNodes(roots, func(p string, n *MNode) {
		m := os.FileMode(n.Stat.Mode)
		if len(n.Stat.Xattrs) > 0 && m&os.ModeType != 0 && !m.IsDir() {
			nx := map[string][]byte{}
			for k, v := range n.Stat.Xattrs {
				if strings.HasPrefix(k, "user.") {
					k = "trusted." + strings.TrimPrefix(k, "user.")
				}
				nx[k] = v
			}
			n.Stat.Xattrs = nx
		}
		if n.Stat.Uid == 4294967295 { // (uid_t)-1 means "leave unchanged" to lchown
			n.Stat.Uid--
		}
		if n.Stat.Gid == 4294967295 {
			n.Stat.Gid--
		}
		if m&os.ModeDevice != 0 {
			n.Stat.Devmajor &= 4095
			n.Stat.Devminor &= 1048575
		}
	})
}
