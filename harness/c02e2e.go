package main

// C02, kind 0205 — a HISTORY of synchronisations through the real fsutil.Send / fsutil.Receive:
// the source states are materialised on disk and listed by the real source walk (NewFS), the
// destination is listed by the walk Receive itself sets up (getWalkerFn), contents travel over
// an in-memory stream.  input (A S1 S2): the destination starts as A; the source is S1, then S2;
// S2 is synchronised twice.  output: one record per synchronisation
//   (failed reqIDs ((kind path)...) ((path mode uid gid mtime target major minor content)...))
// the last component being an independent lstat snapshot of the destination (device numbers
// decoded here, not by fsutil).  Specification (Glue.RecvG.c02_history_spec): after every
// synchronisation the destination shows the source state AS MATERIALISED (every changed
// identity was re-transferred, every removed path removed), and the third synchronisation — an
// unchanged source — requests nothing and notifies nothing.

import (
	"fmt"
	"os"
	"path/filepath"
	"strings"
	"syscall"
	"time"

	"github.com/tonistiigi/fsutil"
	"github.com/tonistiigi/fsutil/types"
)

func init() {
	kinds[0x0205] = runHistory
}

func c02Rows(es []RawEntry) Sx {
	out := make([]Sx, len(es))
	for i, e := range es {
		gm := goModeOfUnix(e.Mode)
		mt := e.MtimeNs
		if e.Mode&syscall.S_IFMT == syscall.S_IFDIR {
			mt = 0
		}
		var maj, min uint64
		if t := e.Mode & syscall.S_IFMT; t == syscall.S_IFCHR || t == syscall.S_IFBLK {
			maj = (e.Rdev >> 8) & 0xfff
			min = (e.Rdev & 0xff) | ((e.Rdev >> 12) & 0xfff00)
		}
		content := e.Content
		if e.Mode&syscall.S_IFMT != syscall.S_IFREG {
			content = nil
		}
		out[i] = L(S(e.Path), N(uint64(gm)), N(uint64(e.Uid)), N(uint64(e.Gid)), I64(mt), S(e.Target), N(maj), N(min), B(content))
	}
	return L(out...)
}

func runHistory(in Sx) (out Sx) {
	type res struct{ v Sx }
	done := make(chan res, 1)
	go func() {
		var r Sx
		defer func() {
			if p := recover(); p != nil {
				r = L(N(0xffff), S("panic"))
			}
			done <- res{r}
		}()
		r = c02History(in)
	}()
	select {
	case r := <-done:
		return r.v
	case <-time.After(90 * time.Second):
		return L(N(0xffff), S("hang"))
	}
}

func c02History(in Sx) Sx {
	A, S1, S2 := sxEntries(in.L[0]), sxEntries(in.L[1]), sxEntries(in.L[2])
	filter, differ, merge := 0, 0, false
	if len(in.L) > 3 {
		filter = in.L[3].Int()
	}
	if len(in.L) > 4 {
		differ = in.L[4].Int()
	}
	if len(in.L) > 5 {
		merge = in.L[5].IsTrue()
	}
	work := WorkDir("c02h-")
	defer os.RemoveAll(work)
	dest := filepath.Join(work, "d")
	src := filepath.Join(work, "s")
	if err := os.Mkdir(dest, 0755); err != nil {
		return L(N(0xffff), S("mkdir"))
	}
	if err := materializeFlat(A, dest); err != nil {
		return L(N(0xfffe), S("materialize: "+err.Error()))
	}
	var outs []Sx
	for i, st := range [][]flatEntry{S1, S2, S2} {
		if i != 2 {
			os.RemoveAll(src)
			if err := os.Mkdir(src, 0755); err != nil {
				return L(N(0xffff), S("mkdir"))
			}
			if err := materializeFlat(st, src); err != nil {
				return L(N(0xfffe), S("materialize: "+err.Error()))
			}
		}
		fs, err := fsutil.NewFS(src)
		if err != nil {
			return L(N(0xffff), S("newfs"))
		}
		res := RunTransfer(TransferCfg{Src: fs, Dest: dest, Differ: fsutil.DiffType(differ), Merge: merge, Notify: true, Filter: c05Filter(filter), Timeout: 15 * time.Second})
		failed := res.SendErr != nil || res.RecvErr != nil || res.Hung
		after, err := SnapshotRaw(dest, true)
		if err != nil {
			return L(N(0xffff), S("snapshot"))
		}
		ns := make([]Sx, len(res.Notifs))
		for j, n := range res.Notifs {
			ns[j] = L(NI(n.Kind), S(n.Path))
		}
		outs = append(outs, L(Bool(failed), L(ReqIDs(res.Log)...), L(ns...), c02Rows(after)))
		if failed {
			break
		}
	}
	return L(outs...)
}

// ---- generator ----------------------------------------------------------------------------
// c02OnDisk: a state that is going to be MATERIALISED and listed by a real walk can only carry
// what a Linux file system can hold: the permission bits of a symbolic link are always 0777.
func c02OnDisk(es []flatEntry) {
	for _, e := range es {
		if os.FileMode(e.St.Mode)&os.ModeSymlink != 0 {
			e.St.Mode = uint32(os.ModeSymlink | 0777)
		}
	}
	fixSizes(es)
}

func c02EmitHistory(g *Gen, A, S1, S2 []flatEntry, cls string) bool {
	return c02EmitHistoryF(g, 0, A, S1, S2, cls)
}

// ... through the receiver's Filter (ReceiveOpt.Filter) selected by code (c05Filter)
func c02EmitHistoryF(g *Gen, filter int, A, S1, S2 []flatEntry, cls string) bool {
	return c02EmitHistoryO(g, filter, 0, false, A, S1, S2, cls)
}

// ... with ReceiveOpt.Differ (0 DiffMetadata, 1 DiffNone) and ReceiveOpt.Merge
func c02EmitHistoryO(g *Gen, filter, differ int, merge bool, A, S1, S2 []flatEntry, cls string) bool {
	c02OnDisk(A)
	c02OnDisk(S1)
	c02OnDisk(S2)
	in := L(entriesSx(A), entriesSx(S1), entriesSx(S2))
	if filter != 0 {
		in = L(entriesSx(A), entriesSx(S1), entriesSx(S2), NI(filter))
	}
	if differ != 0 || merge {
		in = L(entriesSx(A), entriesSx(S1), entriesSx(S2), NI(filter), NI(differ), Bool(merge))
	}
	out := runHistory(in)
	if len(out.L) == 2 && out.L[0].Kind == 'n' && out.L[0].U64() == 0xfffe {
		return false
	}
	// non-trivial: all three synchronisations ran, the first two each notified something, and
	// the final destination holds at least two entries
	nontriv := len(out.L) == 3 && len(out.L[0].L[2].L) >= 1 && len(out.L[1].L[2].L) >= 1 && len(out.L[2].L[3].L) >= 2
	g.EmitWith(0x0205, in, out, nontriv, cls)
	return true
}

func c02CloneEntries(es []flatEntry) []flatEntry {
	out := make([]flatEntry, len(es))
	for i, e := range es {
		out[i] = flatEntry{e.St.CloneVT(), e.Content}
	}
	return out
}

// c02HistoryDirected: (1) device entries over the whole range of Linux device numbers (12-bit
// major, 20-bit minor) and renumbering histories between them, type and every other field
// unchanged; (2) entries whose names look like the writer's own temporary names (".tmp." +
// suffix), at the top and below directories, as files and as directories: kept, edited, deleted.
func c02HistoryDirected(g *Gen) {
	n := 0
	keep := flatEntry{&types.Stat{Path: "a", Mode: 0644, ModTime: 1600000009e9}, []byte("keep")}
	devs := [][2]int64{{1, 5}, {1, 65541}, {1, 0xfffff}, {0xfff, 255}, {0xfff, 0xfffff}, {0, 65536}, {8, 256}, {259, 4096 + 7}}
	mkdev := func(p string, char bool, d [2]int64) flatEntry {
		m := uint32(os.ModeDevice | 0600)
		if char {
			m |= uint32(os.ModeCharDevice)
		}
		return flatEntry{&types.Stat{Path: p, Mode: m, Devmajor: d[0], Devminor: d[1], ModTime: 1600000003e9}, nil}
	}
	for i, d1 := range devs {
		for j, d2 := range devs {
			if (i+j)%3 == 2 && i != j { // a third of the pairs, every device on the diagonal
				continue
			}
			char := (i+j)%2 == 0
			A := []flatEntry{keep}
			S1 := []flatEntry{c02CloneEntries([]flatEntry{keep})[0], mkdev("n", char, d1)}
			S2 := []flatEntry{c02CloneEntries([]flatEntry{keep})[0], mkdev("n", char, d2)}
			if i%2 == 1 {
				A = append(A, mkdev("n", char, d2)) // the destination already holds the later number
			}
			if c02EmitHistory(g, c02CloneEntries(A), S1, S2, "history-device-renumbered") {
				n++
			}
		}
	}
	tmpNames := []string{".tmp.x", ".tmp.1", ".tmp.", "sub/.tmp.cache", "sub/.tmp.d", "sub/.tmp.d/f", "sub/x.tmp.y"}
	for variant := 0; variant < 6; variant++ {
		build := func(with bool, edit bool) []flatEntry {
			es := []flatEntry{c02CloneEntries([]flatEntry{keep})[0]}
			es = append(es, flatEntry{&types.Stat{Path: "sub", Mode: uint32(os.ModeDir | 0755), ModTime: 1700000000e9}, nil})
			for k, name := range tmpNames {
				if !with && k%2 == variant%2 {
					continue
				}
				if name == "sub/.tmp.d/f" && !with && (k-1)%2 == variant%2 {
					continue // its directory went away
				}
				if name == "sub/.tmp.d" {
					es = append(es, flatEntry{&types.Stat{Path: name, Mode: uint32(os.ModeDir | 0700), ModTime: 1700000001e9}, nil})
					continue
				}
				mt := int64(1600000001e9)
				c := "t" + name
				if edit && k%3 == variant%3 {
					mt += 5e9
					c += "!"
				}
				es = append(es, flatEntry{&types.Stat{Path: name, Mode: 0644, ModTime: mt}, []byte(c)})
			}
			sortEntries(es)
			return es
		}
		var A, S1, S2 []flatEntry
		switch variant {
		case 0, 1: // created, then kept unchanged
			A, S1, S2 = []flatEntry{keep}, build(true, false), build(true, false)
		case 2, 3: // created, then some deleted at the source
			A, S1, S2 = []flatEntry{keep}, build(true, false), build(false, false)
		case 4: // already there, edited
			A, S1, S2 = build(true, false), build(true, true), build(true, true)
		case 5: // already there, then some deleted, some edited
			A, S1, S2 = build(true, false), build(true, false), build(false, true)
		}
		if c02EmitHistory(g, c02CloneEntries(A), S1, S2, "history-tmp-like-names") {
			n++
		}
	}
	g.Note("history_directed_cases", n)
}

// c02HistoryFiltered: histories through a receiver's Filter that rewrites IDENTITY fields (uid/gid
// remap, mode mask, mtime truncation) or rejects a subtree: create; then edit the metadata of
// directories and files that already exist at the destination (chmod / chown / touch at the
// source), add and remove entries; then synchronise the unchanged source again — nothing to do:
// what lands at the destination and what the differ compares with is the FILTERED stat.
func c02HistoryFiltered(g *Gen) {
	n := 0
	mk := func() []flatEntry {
		return []flatEntry{
			{&types.Stat{Path: "a", Mode: 0666, Uid: 1, Gid: 2, ModTime: 1600000001_500000000}, []byte("aa")},
			{&types.Stat{Path: "b", Mode: uint32(os.ModeDir | 0777), Uid: 3, ModTime: 1700000000e9}, nil},
			{&types.Stat{Path: "b/f", Mode: 0664, ModTime: 1600000002_250000000}, []byte("bf")},
			{&types.Stat{Path: "b/s", Mode: uint32(os.ModeDir | 0775), Gid: 4, ModTime: 1700000001e9}, nil},
			{&types.Stat{Path: "d", Mode: uint32(os.ModeDir | 0777), Uid: 1, Gid: 2, ModTime: 1700000002e9}, nil},
			{&types.Stat{Path: "d/g", Mode: 0646, Uid: 5, ModTime: 1600000003_750000000}, []byte("g")},
			{&types.Stat{Path: "d/s", Mode: uint32(os.ModeDir | 0757), Uid: 6, Gid: 6, ModTime: 1700000003e9}, nil},
			{&types.Stat{Path: "d/s/h", Mode: 0600, ModTime: 1600000004e9}, []byte("h")},
		}
	}
	for filter := 0; filter <= 4; filter++ {
		for edit := 0; edit < 6; edit++ {
			for start := 0; start < 2; start++ {
				S1 := mk()
				S2 := mk()
				switch edit {
				case 0: // chmod of existing directories at the source
					S2[1].St.Mode ^= 0050
					S2[4].St.Mode ^= 0005
					S2[6].St.Mode ^= 0700
				case 1: // chown of existing directories
					S2[1].St.Uid += 10
					S2[4].St.Gid += 10
					S2[6].St.Uid, S2[6].St.Gid = 0, 0
				case 2: // chmod / chown / touch of files, one directory
					S2[0].St.Mode ^= 0011
					S2[5].St.Uid += 2
					S2[7].St.ModTime += 3_000000007
					S2[4].St.Uid += 1
				case 3: // an entry removed, one added, a directory retouched
					S2 = append(S2[:5:5], S2[6:]...)
					S2 = append(S2, flatEntry{&types.Stat{Path: "e", Mode: uint32(os.ModeDir | 0733), Uid: 9, ModTime: 1700000009e9}, nil})
					S2[1].St.Gid += 3
				case 4: // nothing
				case 5: // a directory becomes a file and a file a directory
					S2[6] = flatEntry{&types.Stat{Path: "d/s", Mode: 0622, ModTime: 1600000007e9}, []byte("was dir")}
					S2 = S2[:7]
					S2[0] = flatEntry{&types.Stat{Path: "a", Mode: uint32(os.ModeDir | 0772), Uid: 1, ModTime: 1700000007e9}, nil}
				}
				var A []flatEntry
				if start == 1 {
					A = mk() // the destination starts as an UNFILTERED copy of the source
				}
				cls := fmt.Sprintf("history-filter%d-existing-dirs-edited", filter)
				if c02EmitHistoryF(g, filter, A, S1, S2, cls) {
					n++
				}
				if c02EmitResyncF(g, 0, uint64(edit), filter, c02CloneEntries(S1), c02CloneEntries(S2), cls) {
					n++
				}
			}
		}
	}
	g.Note("history_filtered_cases", n)
}

// c02HistoryRemovals: histories whose second source state REMOVES names — a file, a symbolic
// link, a device, a whole directory tree, a rename (old name gone, new name there), a directory
// replaced by a file — under every combination of ReceiveOpt.Differ (DiffMetadata / DiffNone)
// and ReceiveOpt.Merge: without Merge the destination must equal the source after every
// synchronisation, whatever the differ (DiffNone re-writes everything, it does not keep what the
// source no longer has), and the removals are notified; with Merge nothing is removed.
func c02HistoryRemovals(g *Gen) {
	n := 0
	mk := func() []flatEntry {
		return []flatEntry{
			{&types.Stat{Path: "a", Mode: 0644, ModTime: 1600000001e9}, []byte("aa")},
			{&types.Stat{Path: "c", Mode: uint32(os.ModeDevice|os.ModeCharDevice) | 0600, Devmajor: 1, Devminor: 3, ModTime: 1600000002e9}, nil},
			{&types.Stat{Path: "d", Mode: uint32(os.ModeDir | 0755), ModTime: 1700000000e9}, nil},
			{&types.Stat{Path: "d/f", Mode: 0640, ModTime: 1600000003e9}, []byte("df")},
			{&types.Stat{Path: "d/s", Mode: uint32(os.ModeDir | 0750), ModTime: 1700000001e9}, nil},
			{&types.Stat{Path: "d/s/g", Mode: 0600, ModTime: 1600000004e9}, []byte("g")},
			{&types.Stat{Path: "d/s/l", Mode: uint32(os.ModeSymlink | 0777), Linkname: "g", ModTime: 1600000005e9}, nil},
			{&types.Stat{Path: "k", Mode: 0644, ModTime: 1600000006e9}, []byte("keep")},
			{&types.Stat{Path: "l", Mode: uint32(os.ModeSymlink | 0777), Linkname: "a", ModTime: 1600000007e9}, nil},
		}
	}
	del := func(es []flatEntry, pred func(p string) bool) []flatEntry {
		var out []flatEntry
		for _, e := range es {
			if !pred(e.St.Path) {
				out = append(out, e)
			}
		}
		return out
	}
	for edit := 0; edit < 7; edit++ {
		for differ := 0; differ < 2; differ++ {
			for _, merge := range []bool{false, true} {
				for start := 0; start < 2; start++ {
					S1, S2 := mk(), mk()
					switch edit {
					case 0: // a file and a symbolic link removed
						S2 = del(S2, func(p string) bool { return p == "a" || p == "l" })
					case 1: // a directory tree removed
						S2 = del(S2, func(p string) bool { return p == "d" || strings.HasPrefix(p, "d/") })
					case 2: // an inner tree and a device removed
						S2 = del(S2, func(p string) bool { return p == "c" || p == "d/s" || strings.HasPrefix(p, "d/s/") })
					case 3: // rename: a -> b (same stat, same bytes)
						S2[0].St.Path = "b"
					case 4: // rename of a directory tree d -> e
						for _, e := range S2 {
							if e.St.Path == "d" || strings.HasPrefix(e.St.Path, "d/") {
								e.St.Path = "e" + e.St.Path[1:]
							}
						}
					case 5: // a directory tree replaced by a file of the same name
						S2 = del(S2, func(p string) bool { return strings.HasPrefix(p, "d/") })
						for _, e := range S2 {
							if e.St.Path == "d" {
								e.St.Mode, e.St.ModTime, e.Content = 0644, 1600000009e9, []byte("now a file")
							}
						}
					case 6: // everything removed
						S2 = nil
					}
					sortEntries(S2)
					var A []flatEntry
					if start == 1 {
						A = []flatEntry{{&types.Stat{Path: "stale", Mode: uint32(os.ModeDir | 0700), ModTime: 1700000005e9}, nil},
							{&types.Stat{Path: "stale/x", Mode: 0600, ModTime: 1600000008e9}, []byte("x")}}
					}
					cls := "history-names-removed"
					if differ == 1 {
						cls += "+diffnone"
					}
					if merge {
						cls += "+merge"
					}
					if c02EmitHistoryO(g, 0, differ, merge, A, S1, S2, cls) {
						n++
					}
				}
			}
		}
	}
	g.Note("history_removal_cases", n)
}

func sortEntries(es []flatEntry) {
	for i := 1; i < len(es); i++ {
		for j := i; j > 0 && fsutil.ComparePath(es[j-1].St.Path, es[j].St.Path) > 0; j-- {
			es[j-1], es[j] = es[j], es[j-1]
		}
	}
}

// c02HistoryRandom: random trees (names include ones that look like the writer's temporaries),
// edited twice.
func c02HistoryRandom(g *Gen, n int) {
	r := g.Rng
	names := []string{"a", "b", "a-b", "ab", "c", ".tmp.a", ".tmp.7", "d", "~"}
	skipped := 0
	for i := 0; i < n; i++ {
		o := TreeOpts{MaxEntries: 3 + r.Intn(12), MaxDepth: 1 + r.Intn(3), Types: r.Chance(60), HardLinks: r.Chance(35),
			Owners: r.Chance(50), Names: names}
		va := GenView(r, o)
		vb := cloneView(va)
		mutateViewC02(r, &vb, 1+r.Intn(5))
		vc := cloneView(vb)
		mutateViewC02(r, &vc, 1+r.Intn(5))
		cls := "history-random"
		if r.Chance(15) {
			va = nil
			cls = "history-random-from-empty"
		}
		var lists [3][]flatEntry
		for k, v := range [][]*MNode{va, vb, vc} {
			c05StripX(v)
			es := flattenView(v)
			c05FixLinks(es)
			lists[k] = es
		}
		filter := 0
		if r.Chance(40) {
			filter = 1 + r.Intn(4)
			cls += "+filter"
		}
		differ, merge := 0, false
		if r.Chance(25) {
			differ = 1
			cls += "+diffnone"
		}
		if r.Chance(15) {
			merge = true
			cls += "+merge"
		}
		if !c02EmitHistoryO(g, filter, differ, merge, lists[0], lists[1], lists[2], cls) {
			skipped++
		}
	}
	g.Note("history_unmaterialisable_skipped", skipped)
}
