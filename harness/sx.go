package main

import (
	"encoding/hex"
	"fmt"
	"math/big"
	"strings"
)

// Sx mirrors FS.Sx.sx: number | bytes | list.
type Sx struct {
	Kind byte // 'n', 'b', 'l'
	N    *big.Int
	B    []byte
	L    []Sx
}

func N(v uint64) Sx      { return Sx{Kind: 'n', N: new(big.Int).SetUint64(v)} }
func NI(v int) Sx        { return N(uint64(v)) }
func NBig(v *big.Int) Sx { return Sx{Kind: 'n', N: v} }
func B(b []byte) Sx      { return Sx{Kind: 'b', B: b} }
func S(s string) Sx      { return Sx{Kind: 'b', B: []byte(s)} }
func L(items ...Sx) Sx   { return Sx{Kind: 'l', L: items} }
func Bool(b bool) Sx {
	if b {
		return N(1)
	}
	return N(0)
}

// I64 encodes a signed 64-bit value as its two's complement (mod 2^64).
func I64(v int64) Sx { return N(uint64(v)) }

func (s Sx) String() string {
	var sb strings.Builder
	s.write(&sb)
	return sb.String()
}

func (s Sx) write(sb *strings.Builder) {
	switch s.Kind {
	case 'n':
		sb.WriteByte('#')
		sb.WriteString(s.N.Text(16))
	case 'b':
		sb.WriteByte('x')
		sb.WriteString(hex.EncodeToString(s.B))
	default:
		sb.WriteByte('(')
		for i, x := range s.L {
			if i > 0 {
				sb.WriteByte(' ')
			}
			x.write(sb)
		}
		sb.WriteByte(')')
	}
}

func (s Sx) U64() uint64  { return s.N.Uint64() }
func (s Sx) Int() int     { return int(s.N.Int64()) }
func (s Sx) IsTrue() bool { return s.N.Sign() != 0 }
func (s Sx) Str() string  { return string(s.B) }

func ParseSx(in string) (Sx, error) {
	p := &sxParser{s: in}
	v, err := p.value()
	if err != nil {
		return Sx{}, err
	}
	return v, nil
}

type sxParser struct {
	s   string
	pos int
}

func (p *sxParser) skip() {
	for p.pos < len(p.s) && p.s[p.pos] == ' ' {
		p.pos++
	}
}

func (p *sxParser) tokenEnd() int {
	e := p.pos
	for e < len(p.s) && p.s[e] != ' ' && p.s[e] != ')' && p.s[e] != '(' {
		e++
	}
	return e
}

func (p *sxParser) value() (Sx, error) {
	p.skip()
	if p.pos >= len(p.s) {
		return Sx{}, fmt.Errorf("eof")
	}
	switch p.s[p.pos] {
	case '(':
		p.pos++
		items := []Sx{}
		for {
			p.skip()
			if p.pos >= len(p.s) {
				return Sx{}, fmt.Errorf("unclosed")
			}
			if p.s[p.pos] == ')' {
				p.pos++
				return Sx{Kind: 'l', L: items}, nil
			}
			v, err := p.value()
			if err != nil {
				return Sx{}, err
			}
			items = append(items, v)
		}
	case '#':
		p.pos++
		e := p.tokenEnd()
		n, ok := new(big.Int).SetString(p.s[p.pos:e], 16)
		if !ok {
			return Sx{}, fmt.Errorf("bad number")
		}
		p.pos = e
		return Sx{Kind: 'n', N: n}, nil
	case 'x':
		p.pos++
		e := p.tokenEnd()
		b, err := hex.DecodeString(p.s[p.pos:e])
		if err != nil {
			return Sx{}, err
		}
		p.pos = e
		return Sx{Kind: 'b', B: b}, nil
	}
	return Sx{}, fmt.Errorf("bad char %q at %d", p.s[p.pos], p.pos)
}
