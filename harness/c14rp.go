package main

// C14, kind 1403: copy.rootPath / continuity fs.RootPath (through the verif hook VerifRootPath)
// on a generated jail tree vs the model Model/RootPath.v over the file-system model Model/Fs.v.
//
// input : (ops root path follow)   ops = syscalls in the encoding of kind 0301 (mkdir / symlink /
//                                   open+pwrite) that build the tree inside an empty jail
// output: (op-results snapshot rp)  rp = (0 resolved-path) | (1 errno) | (1 999) "too many links"
//
// The case runs in a child process chroot-ed into a private, empty directory: absolute symlink
// targets are relative to the jail and nothing can reach the sandbox outside it.

import (
	"bufio"
	"errors"
	"fmt"
	"io"
	"os"
	"os/exec"
	"path/filepath"
	"strings"
	"sync"
	"syscall"
	"time"

	fscopy "github.com/tonistiigi/fsutil/copy"
	"golang.org/x/sys/unix"
)

func init() {
	kinds[0x1403] = run1403
	internals["c14w"] = c14WorkerMain
	c14ChildKinds["1403"] = c14rpChild
}

// ---------------------------------------------------------------- jailed worker
// One persistent child process ("internal c14w <base>") chroot-ed into <base>; for every case
// it makes a fresh empty directory <base>/j (mode 0755), chroots into it (cwd "/", umask 0),
// runs the case, and leaves again through a saved descriptor.  A dead or hanging worker is an
// output value; the next case starts a new worker.
type c14Worker struct {
	cmd *exec.Cmd
	in  io.WriteCloser
	out *bufio.Reader
}

var (
	c14mu   sync.Mutex
	c14w    *c14Worker
	c14base string
)

var c14ChildKinds = map[string]func(Sx) Sx{}

func c14Start() (*c14Worker, error) {
	if c14base == "" {
		c14base = WorkDir("c14w-")
	}
	exe, err := os.Executable()
	if err != nil {
		return nil, err
	}
	cmd := exec.Command(exe, "internal", "c14w", c14base)
	cmd.Stderr = os.Stderr
	in, err := cmd.StdinPipe()
	if err != nil {
		return nil, err
	}
	out, err := cmd.StdoutPipe()
	if err != nil {
		return nil, err
	}
	if err := cmd.Start(); err != nil {
		return nil, err
	}
	return &c14Worker{cmd: cmd, in: in, out: bufio.NewReaderSize(out, 1<<20)}, nil
}

func (w *c14Worker) kill() {
	w.in.Close()
	w.cmd.Process.Kill()
	w.cmd.Wait()
}

func c14Call(kind string, in Sx) Sx {
	c14mu.Lock()
	defer c14mu.Unlock()
	if c14w == nil {
		w, err := c14Start()
		if err != nil {
			return L(S("worker-start-failed"), S(err.Error()))
		}
		c14w = w
	}
	w := c14w
	if _, err := fmt.Fprintf(w.in, "%s\t%s\n", kind, in.String()); err != nil {
		w.kill()
		c14w = nil
		return L(S("worker-dead"))
	}
	type reply struct {
		line string
		err  error
	}
	ch := make(chan reply, 1)
	go func() {
		line, err := w.out.ReadString('\n')
		ch <- reply{line, err}
	}()
	select {
	case r := <-ch:
		if r.err != nil {
			w.kill()
			c14w = nil
			return L(S("worker-dead"))
		}
		out, err := ParseSx(strings.TrimRight(r.line, "\n"))
		if err != nil {
			return L(S("worker-bad-reply"))
		}
		return out
	case <-time.After(25 * time.Second):
		w.kill()
		c14w = nil
		return L(S("hang"))
	}
}

func c14WorkerMain(args []string) {
	if len(args) != 1 {
		os.Exit(2)
	}
	syscall.Umask(0)
	if err := unix.Chdir(args[0]); err != nil {
		panic(err)
	}
	if err := unix.Chroot("."); err != nil {
		panic(err)
	}
	basefd, err := unix.Open(".", unix.O_RDONLY|unix.O_DIRECTORY, 0)
	if err != nil {
		panic(err)
	}
	leave := func() {
		unix.Fchdir(basefd)
		unix.Chroot(".")
	}
	rd := bufio.NewReaderSize(os.Stdin, 1<<20)
	wr := bufio.NewWriter(os.Stdout)
	for {
		line, err := rd.ReadString('\n')
		if err != nil {
			return
		}
		parts := strings.SplitN(strings.TrimRight(line, "\n"), "\t", 2)
		var out Sx
		in, perr := ParseSx(parts[1])
		fn := c14ChildKinds[parts[0]]
		switch {
		case perr != nil:
			out = L(S("bad-input"))
		case fn == nil:
			out = L(S("bad-kind"))
		default:
			out = func() (out Sx) {
				leave()
				os.RemoveAll("j")
				if err := unix.Mkdir("j", 0755); err != nil {
					return L(S("jail-mkdir"), S(err.Error()))
				}
				if err := unix.Chroot("j"); err != nil {
					return L(S("jail-chroot"), S(err.Error()))
				}
				unix.Chdir("/")
				defer func() {
					if r := recover(); r != nil {
						out = L(S("panic"), S(fmt.Sprint(r)))
					}
					leave()
					os.RemoveAll("j")
				}()
				return fn(in)
			}()
		}
		wr.WriteString(out.String())
		wr.WriteByte('\n')
		wr.Flush()
	}
}

func run1403(in Sx) Sx { return c14Call("1403", in) }

func c14ErrCode(err error) Sx {
	if err == nil {
		return N(0)
	}
	if strings.Contains(err.Error(), "too many links") {
		return N(999)
	}
	var en syscall.Errno
	if errors.As(err, &en) {
		return N(uint64(en))
	}
	return N(998)
}

func c14rpChild(in Sx) Sx {
	built := child0301(in.L[0]) // (results snapshot), taken before RootPath runs (it only reads)
	p, err := fscopy.VerifRootPath(in.L[1].Str(), in.L[2].Str(), in.L[3].IsTrue())
	rp := L(N(0), S(p))
	if err != nil {
		rp = L(N(1), c14ErrCode(err))
	}
	cw := L()
	if in.L[3].IsTrue() {
		cw = c14ChrootCwd(in.L[1].Str(), filepath.Join("/", in.L[2].Str()))
	}
	return L(built.L[0], built.L[1], rp, cw)
}

// chroot(root); chdir(p); getcwd(): the kernel's own "as if root were /" (the worker leaves the
// nested chroot through its saved descriptor)
func c14ChrootCwd(root, p string) Sx {
	if err := unix.Chroot(root); err != nil {
		return L(N(1), c14ErrCode(err))
	}
	unix.Chdir("/")
	if err := unix.Chdir(p); err != nil {
		return L(N(1), c14ErrCode(err))
	}
	wd, err := syscall.Getwd()
	if err != nil {
		return L(N(1), c14ErrCode(err))
	}
	return L(N(0), S(wd))
}

// ---------------------------------------------------------------- generator
var c14rpNames = []string{"a", "b", "c", "d", "l", "m"}

func c14rpTarget(r *Rng, root string, dirs []string) string {
	switch r.Intn(10) {
	case 0:
		return Pick(r, []string{"/", ".", "..", "/o", "/o/d", "../o", "../../o/f", "/r", "l", "m", "/nonexistent/x"})
	case 1, 2:
		if len(dirs) > 0 {
			// an existing directory: its path inside root (absolute as seen by a process chroot-ed there)
			return "/" + strings.TrimPrefix(strings.TrimPrefix(Pick(r, dirs), strings.TrimSuffix(root, "/")), "/")
		}
	}
	n := 1 + r.Intn(3)
	var cs []string
	for i := 0; i < n; i++ {
		switch {
		case r.Chance(22):
			cs = append(cs, "..")
		case r.Chance(8):
			cs = append(cs, ".")
		case r.Chance(4):
			cs = append(cs, "")
		default:
			cs = append(cs, Pick(r, c14rpNames))
		}
	}
	t := strings.Join(cs, "/")
	if r.Chance(30) {
		t = "/" + t
	}
	if r.Chance(8) {
		t += "/"
	}
	if t == "" {
		t = "."
	}
	return t
}

// ops building a tree below root (and an "outside" area /o when root is not "/")
func c14rpTree(r *Rng, root string, n int) (ops []Sx, links int, linkPaths []string) {
	mkdir := func(p string) { ops = append(ops, L(N(5), S(p), N(0755))) }
	file := func(p, content string) {
		ops = append(ops, L(N(9), S(p), Bool(true), N(0644), N(0), S(content)))
	}
	if root != "/" {
		acc := ""
		for _, c := range strings.Split(strings.TrimPrefix(root, "/"), "/") {
			acc += "/" + c
			mkdir(acc)
		}
		mkdir("/o")
		mkdir("/o/d")
		file("/o/f", "O:f")
		ops = append(ops, L(N(7), S("d"), S("/o/l")))
		ops = append(ops, L(N(7), S("zzz"), S("/o/d/b")))
	}
	dirs := []string{root}
	used := map[string]bool{}
	for i := 0; i < n; i++ {
		d := Pick(r, dirs)
		p := strings.TrimSuffix(d, "/") + "/" + Pick(r, c14rpNames)
		if used[p] {
			continue
		}
		used[p] = true
		switch x := r.Intn(100); {
		case x < 35:
			mkdir(p)
			dirs = append(dirs, p)
		case x < 48:
			file(p, "S:"+p)
		default:
			t := c14rpTarget(r, root, dirs)
			if len(linkPaths) > 0 && r.Chance(25) {
				// a link to a link (as seen from inside root), sometimes followed by ".."
				t = Pick(r, linkPaths)
				if r.Chance(40) {
					t += "/.."
				}
			}
			ops = append(ops, L(N(7), S(t), S(p)))
			links++
			linkPaths = append(linkPaths, "/"+strings.TrimPrefix(strings.TrimPrefix(p, strings.TrimSuffix(root, "/")), "/"))
		}
	}
	return
}

func c14rpPath(r *Rng) string {
	n := 1 + r.Intn(4)
	var cs []string
	for i := 0; i < n; i++ {
		switch {
		case r.Chance(15):
			cs = append(cs, "..")
		case r.Chance(5):
			cs = append(cs, ".")
		case r.Chance(3):
			cs = append(cs, "")
		default:
			cs = append(cs, Pick(r, c14rpNames))
		}
	}
	p := strings.Join(cs, "/")
	if r.Chance(25) {
		p = "/" + p
	}
	if r.Chance(10) {
		p += "/"
	}
	return p
}

func c14GenRootPath(g *Gen) {
	n := g.Vol(1200, 30000)
	for i := 0; i < n; i++ {
		r := g.Rng
		root := Pick(r, []string{"/", "/r", "/r", "/r/s"})
		ops, links, linkPaths := c14rpTree(r, root, 4+r.Intn(10))
		follow := r.Chance(65)
		path := c14rpPath(r)
		if len(linkPaths) > 0 && r.Chance(30) {
			path = Pick(r, linkPaths) + Pick(r, []string{"", "/..", "/../" + Pick(r, c14rpNames), "/" + Pick(r, c14rpNames)})
		}
		in := L(L(ops...), S(root), S(path), Bool(follow))
		out := kinds[0x1403](in)
		if !g.Thorough() && len(out.L) == 4 && len(out.L[2].L) == 2 && out.L[2].L[0].Int() == 1 && out.L[2].L[1].Int() == 999 {
			// "too many links" after 256 passes over a path that GROWS with every pass costs the
			// extracted model tens of seconds: the quick tier keeps only the cases whose link
			// targets are single components (the path cannot grow); the thorough tier runs all,
			// and corpus/C14/rootpath-growing-loop.case holds one growing loop.
			multi := false
			for _, op := range ops {
				if op.L[0].Int() == 7 && strings.Contains(strings.Trim(op.L[1].Str(), "/"), "/") {
					multi = true
				}
			}
			if multi {
				continue
			}
		}
		g.EmitWith(0x1403, in, out, links >= 2, fmt.Sprintf("rootpath follow=%v", follow))
		if len(out.L) == 4 && len(out.L[2].L) == 2 {
			if follow && out.L[2].L[0].Int() == 0 && len(out.L[3].L) == 2 {
				// how often RootPath agrees with the kernel's chroot resolution (directories only)
				if out.L[3].L[0].Int() == 0 {
					want := filepath.Join(root, out.L[3].L[1].Str())
					if want == out.L[2].L[1].Str() {
						g.classes["rootpath=chroot"]++
					} else {
						g.classes["rootpath<>chroot"]++
					}
				} else {
					g.classes["rootpath-ok-but-chroot-errno"]++
				}
			}
			if out.L[2].L[0].Int() == 0 {
				g.classes["rootpath-ok"]++
			} else {
				g.classes[fmt.Sprintf("rootpath-err-%d", out.L[2].L[1].Int())]++
			}
		}
	}
}
