package main

// C14, kind 1405 (supporting, thorough tier + corpus): the real copy.Copy of a kind-1404 input run
// under `strace -f`, reporting the flavour (follow / no-follow) of every path-taking metadata
// syscall issued between two marker calls around Copy.
//
// input : as kind 1404
// output: (output-of-1404 ((call nofollow path [onlink]) ...))   call = "chown" | "chmod" | "utimes" | "setxattr"
//         nofollow = 1: lchown, lsetxattr, fchownat / fchmodat / utimensat with AT_SYMLINK_NOFOLLOW
//         onlink (chmod only) = 1 when the path names a symlink at the time of the call: the latest
//         creating call for that path inside the window was symlink(at); without one, the path is a
//         symlink in the before-snapshot
// The specification (Glue run_1405, theorem metadata_calls_nofollow): chown, utimes and setxattr calls
// are no-follow; a following chmod names something that is not a symlink.

import (
	"bufio"
	"os"
	"os/exec"
	"regexp"
	"strings"
)

const c14MarkBegin, c14MarkEnd = "/.c14-copy-begin", "/.c14-copy-end"

func init() {
	kinds[0x1405] = c14Trace
}

var c14reCall = regexp.MustCompile(`^(\d+)\s+(\w+)\((.*)$`)
var c14reStr = regexp.MustCompile(`"((?:[^"\\]|\\.)*)"`)

func c14Unquote(s string) string {
	var b []byte
	for i := 0; i < len(s); i++ {
		if s[i] == '\\' && i+1 < len(s) {
			i++
			switch s[i] {
			case 'n':
				b = append(b, '\n')
			case 't':
				b = append(b, '\t')
			case 'x':
				if i+2 < len(s) {
					var v byte
					for _, c := range []byte(s[i+1 : i+3]) {
						v <<= 4
						switch {
						case c >= '0' && c <= '9':
							v |= c - '0'
						case c >= 'a' && c <= 'f':
							v |= c - 'a' + 10
						}
					}
					b = append(b, v)
					i += 2
				}
			default:
				b = append(b, s[i])
			}
		} else {
			b = append(b, s[i])
		}
	}
	return string(b)
}

func c14Trace(in Sx) Sx {
	exe, err := os.Executable()
	if err != nil {
		return L(S("no-exe"))
	}
	tf, err := os.CreateTemp("", "c14st-")
	if err != nil {
		return L(S("no-temp"))
	}
	tf.Close()
	defer os.Remove(tf.Name())
	// the traced run starts its own jailed worker: give it a private TMPDIR and remove it afterwards
	td, err := os.MkdirTemp("", "c14st-d-")
	if err != nil {
		return L(S("no-temp"))
	}
	defer os.RemoveAll(td)
	cmd := exec.Command("strace", "-f", "-qq", "-xx", "-s", "4096", "-o", tf.Name(),
		"-e", "trace=chown,lchown,fchownat,chmod,fchmodat,utimensat,utimes,futimesat,utime,setxattr,lsetxattr,access,faccessat,faccessat2,"+
			"symlink,symlinkat,mkdir,mkdirat,mknod,mknodat,link,linkat,open,openat,creat",
		exe, "run", "1404", in.String())
	cmd.Env = append(os.Environ(), "TMPDIR="+td)
	outb, err := cmd.Output()
	if err != nil {
		return L(S("strace-failed"), S(err.Error()))
	}
	parts := strings.Split(strings.TrimRight(string(outb), "\n"), "\t")
	if len(parts) != 3 {
		return L(S("bad-1404-output"))
	}
	out1404, err := ParseSx(parts[2])
	if err != nil {
		return L(S("bad-1404-sx"))
	}
	f, err := os.Open(tf.Name())
	if err != nil {
		return L(S("no-trace"))
	}
	defer f.Close()
	var evs []Sx
	inside := map[string]bool{}
	// is the path a symlink now?  before-snapshot, then the creating calls seen
	isLink := map[string]bool{}
	if len(out1404.L) >= 2 {
		for _, e := range out1404.L[1].L {
			if len(e.L) == 3 && len(e.L[2].L) > 0 && e.L[2].L[0].U64()&0xf000 == 0xa000 {
				isLink["/"+e.L[0].Str()] = true
			}
		}
	}
	sc := bufio.NewScanner(f)
	sc.Buffer(make([]byte, 1<<20), 1<<26)
	for sc.Scan() {
		m := c14reCall.FindStringSubmatch(sc.Text())
		if m == nil {
			continue
		}
		pid, call, args := m[1], m[2], m[3]
		strs := c14reStr.FindAllStringSubmatch(args, -1)
		if len(strs) == 0 {
			continue
		}
		path := c14Unquote(strs[0][1])
		switch call {
		case "access", "faccessat", "faccessat2":
			if path == c14MarkBegin {
				inside[pid] = true
			}
			if path == c14MarkEnd {
				inside[pid] = false
			}
			continue
		}
		if !inside[pid] {
			continue
		}
		last := c14Unquote(strs[len(strs)-1][1])
		switch call {
		case "symlink", "symlinkat":
			if len(strs) >= 2 {
				isLink[last] = true
			}
			continue
		case "mkdir", "mkdirat", "mknod", "mknodat", "creat":
			isLink[path] = false
			continue
		case "link", "linkat":
			if len(strs) >= 2 {
				isLink[last] = isLink[path] // a hard link to a symlink is a symlink
			}
			continue
		case "open", "openat":
			if strings.Contains(args, "O_CREAT") {
				isLink[path] = false
			}
			continue
		}
		nofollow := strings.Contains(args, "AT_SYMLINK_NOFOLLOW")
		kind := ""
		switch call {
		case "lchown":
			kind, nofollow = "chown", true
		case "chown":
			kind, nofollow = "chown", false
		case "fchownat":
			kind = "chown"
		case "chmod":
			kind, nofollow = "chmod", false
		case "fchmodat", "fchmodat2":
			kind = "chmod"
		case "utimensat":
			kind = "utimes"
		case "utimes", "futimesat", "utime":
			kind, nofollow = "utimes", false
		case "lsetxattr":
			kind, nofollow = "setxattr", true
		case "setxattr":
			kind, nofollow = "setxattr", false
		default:
			continue
		}
		if kind == "chmod" {
			evs = append(evs, L(S(kind), Bool(nofollow), S(path), Bool(isLink[path])))
		} else {
			evs = append(evs, L(S(kind), Bool(nofollow), S(path)))
		}
	}
	return L(out1404, L(evs...))
}
