package main

// C20, kind 2004 — the reader-behaviour dimension of the framing correspondence.
//
// io.Reader may return n > 0 together with an error. io.ReadFull (hence RecvMsg) must count a Read that
// completes the buffer even when it reports io.EOF or another error, and must fail when an error arrives
// before the buffer is complete. Besides the "+eof-with-data" variant of every random framing case
// (c20.go) this generator places errors deliberately:
//   reader-eof-last          every fragmentation style, io.EOF with the final bytes; streams ending in a
//                            small packet, an empty packet (zero-length frame), a packet above the pool
//   reader-err-last          another error with the final bytes
//   reader-flags-at-bounds   pieces cut exactly at header ends and body ends, each reported with a random
//                            error: every Read completes a buffer, nothing may be lost
//   reader-err-midstream     one piece at a random position carries io.EOF / another error (also (0, err))
//   reader-eof-at-cut        truncated stream whose last piece is delivered with io.EOF
// The model (Model/Framing.v read_fullx_from) predicts every outcome; the specification demands the whole
// sequence when errors come only with the last piece, and "a prefix of what was sent, then at most one
// error" otherwise.

import (
	"github.com/tonistiigi/fsutil/types"
)

func c20Piece(n, flag int) Sx {
	if flag == 0 {
		return NI(n)
	}
	return L(NI(n), NI(flag))
}

func c20GenReaderBehaviour(g *Gen) {
	r := g.Rng
	n := g.Vol(500, 20000)
	for i := 0; i < n; i++ {
		big := i%40 == 0
		k := 1 + r.Intn(5)
		var pkts []*types.Packet
		for j := 0; j < k; j++ {
			p := genPacket(r, false)
			if r.Chance(20) {
				p = &types.Packet{}
			}
			pkts = append(pkts, p)
		}
		// what the stream ends with matters: a small packet, the empty packet, or one above the pool
		switch r.Intn(4) {
		case 0:
			pkts[k-1] = &types.Packet{}
		case 1:
			pkts[k-1] = &types.Packet{Type: types.Packet_PACKET_FIN}
		case 2:
			if big {
				pkts[k-1] = c20PacketOfSize(c20PoolCap+1+r.Intn(30000), 7)
			}
		}
		var ps []Sx
		var sizes []int
		total := 0
		for _, p := range pkts {
			ps = append(ps, PacketSx(p))
			sizes = append(sizes, p.SizeVT())
			total += p.SizeVT() + 4
		}
		// a plain fragmentation
		plain := func() []int {
			var l []int
			switch r.Intn(5) {
			case 0: // whole
			case 1:
				m := total
				if m > 400 {
					m = 400
				}
				for j := 0; j < m; j++ {
					l = append(l, 1)
				}
			case 2:
				for left := total; left > 0; {
					c := 1 + r.Intn(9)
					l = append(l, c)
					left -= c
				}
			case 3:
				for left := total; left > 0 && len(l) < 2000; {
					c := r.Intn(4)
					l = append(l, c)
					left -= c
				}
			case 4:
				for left := total; left > 0; {
					c := Pick(r, []int{3, 4, 5, 1, 8, 32768, 32767, 32769})
					l = append(l, c)
					left -= c
				}
			}
			return l
		}
		mode := r.Intn(2)
		var lens []Sx
		cls := ""
		var extra []Sx
		switch r.Intn(5) {
		case 0:
			for _, c := range plain() {
				lens = append(lens, NI(c))
			}
			mode |= 8
			cls = "reader-eof-last"
		case 1: // another error with the final bytes: pieces must add up exactly
			l := plain()
			sum := 0
			var out []int
			for _, c := range l {
				if sum+c >= total {
					break
				}
				out = append(out, c)
				sum += c
			}
			for _, c := range out {
				lens = append(lens, NI(c))
			}
			lens = append(lens, c20Piece(total-sum, 2))
			cls = "reader-err-last"
		case 2:
			for _, s := range sizes {
				lens = append(lens, c20Piece(4, r.Intn(3)))
				if s > 0 {
					lens = append(lens, c20Piece(s, r.Intn(3)))
				}
			}
			cls = "reader-flags-at-bounds"
		case 3:
			l := plain()
			if len(l) == 0 {
				l = []int{total / 2, total}
			}
			at := r.Intn(len(l))
			for j, c := range l {
				if j == at {
					lens = append(lens, c20Piece(c, 1+r.Intn(2)))
					if r.Chance(30) {
						lens = append(lens, c20Piece(0, 1+r.Intn(2)))
					}
				} else {
					lens = append(lens, NI(c))
				}
			}
			cls = "reader-err-midstream"
		case 4:
			for _, c := range plain() {
				lens = append(lens, NI(c))
			}
			mode |= 4 | 8
			cut := r.Intn(total + 1)
			if r.Chance(40) { // cut exactly at a frame / header boundary
				off := 0
				for _, s := range sizes {
					if r.Chance(40) {
						break
					}
					off += 4
					if r.Chance(25) {
						break
					}
					off += s
				}
				cut = off
			}
			extra = append(extra, NI(cut))
			cls = "reader-eof-at-cut"
		}
		if big {
			cls += "-big"
		}
		in := append([]Sx{NI(mode), L(ps...), L(lens...)}, extra...)
		g.Emit(0x2004, L(in...), true, cls)
	}
}
