package main

// C02 — incremental minimality, abstract layer: the REAL doubleWalkDiff (hook
// VerifDoubleWalkDiff) and the REAL sameFile (hook VerifSameFile) on in-memory listings.

import (
	"context"
	"fmt"
	"os"
	"sort"
	"strings"
	"time"

	"github.com/tonistiigi/fsutil"
	"github.com/tonistiigi/fsutil/types"
)

func init() {
	kinds[0x0201] = run0201
	kinds[0x0202] = run0202
	props["C02"] = genC02
}

// filters selectable by code (mirrors Glue.C02G.flt_of)
func diffFilter(code int) fsutil.FilterFunc {
	switch code {
	case 1:
		return func(p string, s *types.Stat) bool { s.Uid, s.Gid = 0, 0; return true }
	case 2:
		return func(p string, s *types.Stat) bool { s.ModTime = 0; return true }
	case 3:
		return func(p string, s *types.Stat) bool { s.Mode &= uint32(os.ModeDir) - 1; return true }
	}
	return nil
}

func sxStats(x Sx) []*types.Stat {
	out := make([]*types.Stat, len(x.L))
	for i, s := range x.L {
		out[i] = SxStat(s)
	}
	return out
}

func statsSx(l []*types.Stat) Sx {
	out := make([]Sx, len(l))
	for i, s := range l {
		out[i] = StatSx(s)
	}
	return L(out...)
}

// runDiffHook: the real doubleWalkDiff on two listings with a change recorder.
func runDiffHook(differ, filter int, a, b []*types.Stat) (out Sx) {
	type res struct{ v Sx }
	done := make(chan res, 1)
	ctx, cancel := context.WithCancel(context.Background())
	defer cancel()
	go func() {
		var rec []Sx
		var r Sx
		defer func() {
			if p := recover(); p != nil {
				r = L(N(0xffff), S(fmt.Sprint("panic: ", p)))
			}
			done <- res{r}
		}()
		err := fsutil.VerifDoubleWalkDiff(ctx, a, b, diffFilter(filter), fsutil.DiffType(differ),
			func(k fsutil.ChangeKind, p string, fi os.FileInfo, err error) error {
				var st *types.Stat
				if fi != nil {
					st, _ = fi.Sys().(*types.Stat)
				}
				rec = append(rec, L(NI(int(k)), S(p), StatSx(st)))
				return err
			})
		if err != nil {
			r = L(N(0xffff), S("error"))
			return
		}
		r = L(rec...)
	}()
	select {
	case r := <-done:
		return r.v
	case <-time.After(10 * time.Second):
		cancel()
		return L(N(0xffff), S("hang"))
	}
}

// input (differ filter (stat...) (stat...))
func run0201(in Sx) Sx {
	return runDiffHook(in.L[0].Int(), in.L[1].Int(), sxStats(in.L[2]), sxStats(in.L[3]))
}

// input (differ statA statB)
func run0202(in Sx) (out Sx) {
	defer func() {
		if p := recover(); p != nil {
			out = L(N(0xffff))
		}
	}()
	same, err := fsutil.VerifSameFile(SxStat(in.L[1]), SxStat(in.L[2]), fsutil.DiffType(in.L[0].Int()))
	if err != nil {
		return L(N(0xffff))
	}
	return L(Bool(same))
}

// ---- the small universe ------------------------------------------------------------------
// paths {a, a/x, a/x/y, a-b, b, b/y, c}; "a-b" sorts after "a/..." in path order but between
// "a" and "a/x" bytewise.
type uNode struct {
	path string
	kids []*uNode
}

var c02Universe = []*uNode{
	{"a", []*uNode{{"a/x", []*uNode{{"a/x/y", nil}}}}},
	{"a-b", nil},
	{"b", []*uNode{{"b/y", nil}}},
	{"c", nil},
}

// variants: 0 dir, 1 file v1, 2 file v2 (different mtime), 3 symlink
func c02Variant(path string, v int) *types.Stat {
	switch v {
	case 0:
		return &types.Stat{Path: path, Mode: uint32(os.ModeDir | 0755), ModTime: 1700000000e9}
	case 1:
		return &types.Stat{Path: path, Mode: 0644, Size: 3, ModTime: 1600000000e9}
	case 2:
		return &types.Stat{Path: path, Mode: 0644, Size: 3, ModTime: 1600000001e9}
	}
	return &types.Stat{Path: path, Mode: uint32(os.ModeSymlink | 0777), Size: 1, Linkname: "t", ModTime: 1600000000e9}
}

// all parent-closed listings of a forest, in path order (the forest is stored in path order)
func c02Listings(forest []*uNode, nvar int) [][]*types.Stat {
	if len(forest) == 0 {
		return [][]*types.Stat{nil}
	}
	n := forest[0]
	var heads [][]*types.Stat
	heads = append(heads, nil) // absent
	for v := 1; v < nvar; v++ {
		heads = append(heads, []*types.Stat{c02Variant(n.path, v)})
	}
	for _, sub := range c02Listings(n.kids, nvar) {
		heads = append(heads, append([]*types.Stat{c02Variant(n.path, 0)}, sub...))
	}
	rest := c02Listings(forest[1:], nvar)
	var out [][]*types.Stat
	for _, h := range heads {
		for _, r := range rest {
			l := append(append([]*types.Stat{}, h...), r...)
			out = append(out, l)
		}
	}
	return out
}

func emit0201(g *Gen, differ, filter int, a, b []*types.Stat, class string) {
	in := L(NI(differ), NI(filter), statsSx(a), statsSx(b))
	out := run0201(in)
	// non-trivial: at least one delete reported and one entry of A not reported at all
	// (suppressed below a removed root or unchanged), or a modify next to an unchanged entry
	dels, mods, adds := 0, 0, 0
	if len(out.L) > 0 && !(out.L[0].Kind == 'n') {
		for _, c := range out.L {
			switch c.L[0].Int() {
			case 0:
				adds++
			case 1:
				mods++
			case 2:
				dels++
			}
		}
	}
	nontriv := len(a) >= 2 && len(b) >= 1 && (dels+mods) >= 1 && (dels+mods) < len(a)
	g.EmitWith(0x0201, in, out, nontriv, class)
}

// ---- random larger listings from tree views ---------------------------------------------
func cloneView(ns []*MNode) []*MNode {
	out := make([]*MNode, len(ns))
	for i, n := range ns {
		out[i] = &MNode{Name: n.Name, Stat: n.Stat.CloneVT(), Content: n.Content, Kids: cloneView(n.Kids)}
	}
	return out
}

func allNodes(ns []*MNode, acc *[]*MNode, parents map[*MNode]*[]*MNode, holder *[]*MNode) {
	for _, n := range ns {
		*acc = append(*acc, n)
		parents[n] = holder
		allNodes(n.Kids, acc, parents, &n.Kids)
	}
}

// pathSort sorts siblings the way the protocol orders them (bytewise by name) recursively.
func pathSortView(ns []*MNode) {
	sort.Slice(ns, func(a, b int) bool { return ns[a].Name < ns[b].Name })
	for _, n := range ns {
		pathSortView(n.Kids)
	}
}

// mutateViewC02 applies k random edits to a view (in place): touch, resize, chmod, chown, delete
// subtree, add entry, type swaps, link target change, device renumbering.
func mutateViewC02(r *Rng, roots *[]*MNode, k int) {
	for i := 0; i < k; i++ {
		var nodes []*MNode
		parents := map[*MNode]*[]*MNode{}
		allNodes(*roots, &nodes, parents, roots)
		if len(nodes) == 0 {
			*roots = append(*roots, &MNode{Name: Pick(r, NamePool), Stat: &types.Stat{Mode: 0644, ModTime: 1}})
			continue
		}
		n := Pick(r, nodes)
		m := os.FileMode(n.Stat.Mode)
		switch r.Intn(12) {
		case 0:
			n.Stat.ModTime += int64(1 + r.Intn(5))
		case 1:
			if !m.IsDir() {
				n.Stat.Size += int64(1 + r.Intn(3))
			} else {
				n.Stat.Size += 4096 // directory sizes are not part of the identity
			}
		case 2:
			n.Stat.Mode ^= uint32(1 << uint(r.Intn(9)))
		case 3:
			n.Stat.Uid += uint32(1 + r.Intn(3))
		case 4:
			n.Stat.Gid += uint32(1 + r.Intn(3))
		case 5: // delete subtree
			h := parents[n]
			for j, x := range *h {
				if x == n {
					*h = append((*h)[:j:j], (*h)[j+1:]...)
					break
				}
			}
		case 6: // add an entry next to / below
			nn := &MNode{Name: Pick(r, NamePool), Stat: &types.Stat{Mode: 0644, Size: int64(r.Intn(4)), ModTime: int64(1600000000+r.Intn(1000)) * 1e9}}
			if r.Chance(30) {
				nn.Stat = &types.Stat{Mode: uint32(os.ModeDir | 0755), ModTime: 5}
			}
			h := parents[n]
			if m.IsDir() && r.Bool() {
				h = &n.Kids
			}
			dup := false
			for _, x := range *h {
				if x.Name == nn.Name {
					dup = true
				}
			}
			if !dup {
				*h = append(*h, nn)
			}
		case 7: // directory -> file (drops the subtree from the view)
			if m.IsDir() {
				n.Stat = &types.Stat{Mode: 0600, Size: 2, ModTime: 77e9}
				n.Kids = nil
			}
		case 8: // non-directory -> directory
			if !m.IsDir() {
				n.Stat = &types.Stat{Mode: uint32(os.ModeDir | 0700), ModTime: 78e9}
				n.Content = nil
				if r.Bool() {
					n.Kids = []*MNode{{Name: Pick(r, NamePool), Stat: &types.Stat{Mode: 0644, ModTime: 9}}}
				}
			}
		case 9:
			if m&os.ModeSymlink != 0 || n.Stat.Linkname != "" {
				n.Stat.Linkname += "x"
			} else {
				n.Stat.ModTime++
			}
		case 10:
			if m&os.ModeDevice != 0 {
				if r.Bool() {
					n.Stat.Devmajor++
				} else {
					n.Stat.Devminor++
				}
			} else {
				n.Stat.Xattrs = map[string][]byte{"user.q": {1}} // xattrs are not part of the identity
			}
		case 11: // rename (delete + add elsewhere in order); sibling names stay unique
			h := parents[n]
			cand := Pick(r, NamePool)
			for tries := 0; ; tries++ {
				clash := false
				for _, x := range *h {
					if x != n && x.Name == cand {
						clash = true
					}
				}
				if !clash {
					break
				}
				cand += "~r"
			}
			n.Name = cand
		}
	}
	pathSortView(*roots)
}

func genC02(g *Gen) {
	r := g.Rng
	// (a) the small universe
	l3 := c02Listings(c02Universe, 3) // dir, file v1, file v2
	l4 := c02Listings(c02Universe, 4) // + symlink
	g.Note("universe_listings_3_variants", len(l3))
	g.Note("universe_listings_4_variants", len(l4))
	if g.Thorough() {
		// complete over 3 variants, DiffMetadata, no filter
		for _, a := range l3 {
			for _, b := range l3 {
				emit0201(g, 0, 0, a, b, "universe3-complete")
			}
		}
		g.Note("universe3_complete_pairs", len(l3)*len(l3))
	}
	nSample := g.Vol(24000, 400000)
	for i := 0; i < nSample; i++ {
		a, b := Pick(r, l4), Pick(r, l4)
		differ, filter := 0, 0
		if r.Chance(10) {
			differ = 1
		}
		if r.Chance(15) {
			filter = 1 + r.Intn(2)
		}
		emit0201(g, differ, filter, a, b, "universe4-sampled")
	}
	// every listing against itself and against the empty listing (both ways), 4 variants
	for i, a := range l4 {
		if !g.Thorough() && i%5 != 0 {
			continue
		}
		emit0201(g, 0, 0, a, a, "universe4-self")
		emit0201(g, 1, 0, a, a, "universe4-self-diffnone")
		emit0201(g, 0, 0, a, nil, "universe4-to-empty")
		emit0201(g, 0, 0, nil, a, "universe4-from-empty")
	}

	// (b) random larger listings from tree views, B = edited copy of A or an unrelated view
	nRandom := g.Vol(1500, 40000)
	maxLen := 0
	for i := 0; i < nRandom; i++ {
		o := TreeOpts{MaxEntries: 6 + r.Intn(40), MaxDepth: 1 + r.Intn(5), Types: true, HardLinks: r.Chance(40), Owners: r.Chance(50), Xattrs: r.Chance(20)}
		if r.Chance(10) {
			o.MaxEntries = 200
		}
		if r.Chance(50) {
			o.Names = []string{"a", "b", "a-b", "a b", "a.b", "ab", "c", "\x01", "~"}
		}
		va := GenView(r, o)
		var vb []*MNode
		cls := "random-edited"
		if r.Chance(80) {
			vb = cloneView(va)
			mutateViewC02(r, &vb, 1+r.Intn(8))
		} else {
			vb = GenView(r, o)
			cls = "random-unrelated"
		}
		a, b := WalkEntries(va), WalkEntries(vb)
		if len(a) > 200 {
			a = WalkEntries(va[:len(va)/2])
		}
		if len(a) > maxLen {
			maxLen = len(a)
		}
		differ, filter := 0, 0
		if r.Chance(8) {
			differ = 1
		}
		if r.Chance(15) {
			filter = 1 + r.Intn(2)
		}
		emit0201(g, differ, filter, a, b, cls)
	}
	g.Note("random_max_listing_len", maxLen)

	// (c) malformed stream: unsorted / not parent-closed / duplicate paths / dir-bit filter.
	// The specification does not apply (verdict only compares model and implementation).
	nBad := g.Vol(1500, 30000)
	for i := 0; i < nBad; i++ {
		a := append([]*types.Stat{}, Pick(r, l4)...)
		b := append([]*types.Stat{}, Pick(r, l4)...)
		filter := 0
		cls := "malformed"
		switch r.Intn(5) {
		case 0:
			if len(a) >= 2 {
				x, y := r.Intn(len(a)), r.Intn(len(a))
				a[x], a[y] = a[y], a[x]
			}
		case 1:
			if len(b) >= 2 {
				x, y := r.Intn(len(b)), r.Intn(len(b))
				b[x], b[y] = b[y], b[x]
			}
		case 2: // drop an entry (possibly a parent)
			if len(b) >= 1 {
				x := r.Intn(len(b))
				b = append(b[:x:x], b[x+1:]...)
			}
			if len(a) >= 1 && r.Bool() {
				x := r.Intn(len(a))
				a = append(a[:x:x], a[x+1:]...)
			}
		case 3: // duplicate
			if len(a) >= 1 {
				x := r.Intn(len(a))
				a = append(a[:x+1], a[x:]...)
			}
		case 4:
			filter = 3
			cls = "malformed-filter-clears-dir-bit"
		}
		emit0201(g, 0, filter, a, b, cls)
	}

	// (d) sameFile on stat pairs: equal, differing in exactly one field, differing in several
	base := []*types.Stat{
		{Path: "p", Mode: 0644, Uid: 1, Gid: 2, Size: 10, ModTime: 1600000000e9},
		{Path: "p", Mode: uint32(os.ModeDir | 0755), Uid: 1, Gid: 2, Size: 4096, ModTime: 1600000000e9},
		{Path: "p", Mode: uint32(os.ModeSymlink | 0777), Size: 1, Linkname: "t", ModTime: 5},
		{Path: "p", Mode: uint32(os.ModeDevice|os.ModeCharDevice) | 0600, Devmajor: 1, Devminor: 3, ModTime: 5},
		{Path: "p", Mode: 0644, Size: 0, Linkname: "first", ModTime: 5},
		{Path: "p", Mode: uint32(os.ModeNamedPipe | 0644), ModTime: 5},
	}
	fields := []string{"mode", "uid", "gid", "size", "mtime", "linkname", "devmajor", "devminor", "xattrs", "path", "type"}
	tweak := func(s *types.Stat, f string) {
		switch f {
		case "mode":
			s.Mode ^= 0100
		case "uid":
			s.Uid++
		case "gid":
			s.Gid++
		case "size":
			s.Size++
		case "mtime":
			s.ModTime++
		case "linkname":
			s.Linkname += "z"
		case "devmajor":
			s.Devmajor++
		case "devminor":
			s.Devminor++
		case "xattrs":
			s.Xattrs = map[string][]byte{"user.a": {1}}
		case "path":
			s.Path += "q"
		case "type":
			s.Mode ^= uint32(os.ModeDir)
		}
	}
	for _, differ := range []int{0, 1} {
		for _, s := range base {
			g.Emit(0x0202, L(NI(differ), StatSx(s), StatSx(s)), false, "samefile-equal")
			for _, f := range fields {
				t := s.CloneVT()
				tweak(t, f)
				g.Emit(0x0202, L(NI(differ), StatSx(s), StatSx(t)), true, "samefile-one-field-"+f)
				g.Emit(0x0202, L(NI(differ), StatSx(t), StatSx(s)), true, "samefile-one-field-"+f)
			}
		}
	}
	nPairs := g.Vol(3000, 60000)
	for i := 0; i < nPairs; i++ {
		s := Pick(r, base).CloneVT()
		t := s.CloneVT()
		for k := r.Intn(3); k > 0; k-- {
			tweak(t, Pick(r, fields))
		}
		if r.Chance(20) {
			t = Pick(r, base).CloneVT()
		}
		g.Emit(0x0202, L(NI(r.Intn(2)), StatSx(s), StatSx(t)), true, "samefile-random")
	}
	_ = strings.Join

	// (e) the real DiskWriter behind the real diff on a scratch directory (see c05.go)
	c05TmpNames(g, 0x0203) // first: see there
	c05SpecialLinks(g, func(A, Bl []flatEntry, cls string) {
		c05EmitCase(g, 0x0203, 0, 0, uint64(g.Rng.Intn(3)), c02CloneEntries(A), c02CloneEntries(Bl), cls)
		c02EmitResync(g, 0, 0, c02CloneEntries(A), c02CloneEntries(Bl), cls)
		c02EmitHistory(g, c02CloneEntries(A), c02CloneEntries(Bl), c02CloneEntries(Bl), cls)
		c02EmitHistory(g, nil, c02CloneEntries(A), c02CloneEntries(Bl), cls+"-as-history")
	})
	c05LinkMeta(g, 0x0203)
	genRecvCases(g, 0x0203, g.Vol(500, 8000), false)

	// (f) the same twice: after a synchronisation, a second synchronisation of the unchanged
	// source finds nothing to do (kind 0204)
	c02ResyncDirected(g)
	genRecvCases(g, 0x0204, g.Vol(300, 5000), false)

	// (g) histories through the real Send/Receive, source and destination listed by the real
	// walks (kind 0205)
	c02HistoryDirected(g)
	c02HistoryFiltered(g)
	c02HistoryRemovals(g)
	c02HistoryRandom(g, g.Vol(150, 3000))
}
