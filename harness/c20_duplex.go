package main

// C20, kind 2009 — ONE protoStream used in both directions at the same time.
//
//   2009 (mode recv-packets lens send-packets schedule)  ->  ((incoming-stream (item..)) (frame..))
//
// fsutil uses the same Stream for RecvMsg (its own goroutine) and SendMsg (other goroutines). Whatever a
// stream keeps between calls must not be shared between the two directions. The incoming side is the
// gated fragmenting reader of kind 2007 (lens as in 2004: the 4-byte prefix can be delivered in 1..3 byte
// fragments); the receive loop runs in its own goroutine and parks before every piece. `schedule` is a list
// of 0 = let the receiver consume one more piece, 1 = call SendMsg with the next send-packet on the SAME
// stream (synchronously, while the receiver is parked, e.g. between two fragments of a prefix). Sends left
// over are done after the schedule, then the receiver runs to completion. Each SendMsg writes into a
// buffer of its own: (frame..) are the bytes each call wrote. mode bit 0: reused receive Packet (ResetVT).
// Oracle: the receiver gets exactly the incoming packets, every sent frame is the intact frame of its packet.

import (
	"bytes"
	"context"
	"io"

	"github.com/tonistiigi/fsutil/types"
	"github.com/tonistiigi/fsutil/util"
)

func init() {
	kinds[0x2009] = run2009
}

func run2009(in Sx) Sx {
	return guardedC20(func() Sx {
		mode := in.L[0].Int()
		var wbuf bytes.Buffer
		ws := util.NewProtoStream(context.Background(), nil, &wbuf)
		for _, px := range in.L[1].L {
			if err := ws.SendMsg(SxPacket(px)); err != nil {
				return L(N(0xfffd), S("send-error"), S(err.Error()))
			}
		}
		full := append([]byte{}, wbuf.Bytes()...)
		lens := make([]int, len(in.L[2].L))
		flags := make([]int, len(in.L[2].L))
		for j, x := range in.L[2].L {
			if x.Kind == 'n' {
				lens[j] = x.Int()
			} else {
				lens[j] = x.L[0].Int()
				flags[j] = x.L[1].Int()
			}
		}
		g := &c20Gated{
			fr:    &fragReader{data: append([]byte{}, full...), lens: lens, flags: flags, cur: -1},
			ev:    make(chan int),
			grant: make(chan struct{}),
		}
		var out bytes.Buffer
		stream := util.NewProtoStream(context.Background(), g, &out)
		rs := &c20StreamRes{}
		done := false
		go func() {
			defer func() {
				if r := recover(); r != nil {
					rs.panic = "panic"
					if e, ok := r.(error); ok {
						rs.panic = e.Error()
					} else if s, ok := r.(string); ok {
						rs.panic = s
					}
				}
				g.ev <- 1
			}()
			var reused types.Packet
			for {
				var p *types.Packet
				if mode&1 == 0 {
					p = &types.Packet{}
				} else {
					reused.ResetVT()
					p = &reused
				}
				err := stream.RecvMsg(p)
				if err == io.EOF {
					return
				}
				if err != nil {
					rs.failed = true
					return
				}
				rs.early = append(rs.early, PacketSx(p).String())
			}
		}()
		if e := <-g.ev; e == 1 {
			done = true
		}
		stepRecv := func() {
			if done {
				return
			}
			g.grant <- struct{}{}
			if e := <-g.ev; e == 1 {
				done = true
			}
		}
		sends := in.L[3].L
		var frames []Sx
		si := 0
		var anomaly *Sx
		sendNext := func() {
			if si >= len(sends) || anomaly != nil {
				return
			}
			out.Reset()
			if err := stream.SendMsg(SxPacket(sends[si])); err != nil {
				a := L(N(0xfffd), S("send-error"), S(err.Error()))
				anomaly = &a
			}
			frames = append(frames, B(append([]byte{}, out.Bytes()...)))
			si++
		}
		for _, x := range in.L[4].L {
			if x.Int() == 0 {
				stepRecv()
			} else {
				sendNext()
			}
		}
		for si < len(sends) && anomaly == nil {
			sendNext()
		}
		for !done {
			stepRecv()
		}
		if rs.panic != "" {
			return L(N(0xffff), S(rs.panic))
		}
		if anomaly != nil {
			return *anomaly
		}
		items := make([]Sx, 0, len(rs.early)+1)
		for _, e := range rs.early {
			items = append(items, L(mustParse(e)))
		}
		if rs.failed {
			items = append(items, L(N(0)))
		}
		return L(L(B(full), L(items...)), L(frames...))
	})
}

// ---------------------------------------------------------------- generator
func c20GenDuplex(g *Gen) {
	r := g.Rng
	pk := func(size int, id uint32) *types.Packet {
		if size <= 0 {
			return &types.Packet{}
		}
		return c20PacketOfSize(size, id)
	}
	emit := func(mode int, recv []int, hdrSplit []int, sends []int, sched []int, cls string) {
		var rp, sp, lens, ss []Sx
		for i, s := range recv {
			rp = append(rp, PacketSx(pk(s, uint32(3+i))))
			for _, h := range hdrSplit { // the prefix in fragments, then the body in one piece
				lens = append(lens, NI(h))
			}
			if s > 0 {
				lens = append(lens, NI(s))
			}
		}
		for i, s := range sends {
			sp = append(sp, PacketSx(pk(s, uint32(200+i))))
		}
		for _, x := range sched {
			ss = append(ss, NI(x))
		}
		g.Emit(0x2009, L(NI(mode), L(rp...), L(lens...), L(sp...), L(ss...)), true, cls)
	}
	splits := [][]int{{1, 3}, {2, 2}, {3, 1}, {1, 1, 1, 1}, {4}, {1, 1, 2}}
	sendSizes := []int{0, 16, 300, 70008}
	v := 0
	// directed: k receiver pieces, one send (inside or next to a prefix window), the rest
	for _, sp := range splits {
		for _, ss := range sendSizes {
			for k := 1; k <= 3; k++ {
				sched := append(append([]int{}, make([]int, k)...), 1)
				emit(v&1, []int{17, 0, 300}, sp, []int{ss, 16}, sched, "duplex-send-in-prefix-window")
				v++
			}
		}
	}
	// random
	n := g.Vol(150, 6000)
	rs := []int{0, 16, 17, 255, 256, 300, 65536 + 9}
	for i := 0; i < n; i++ {
		var recv, sends, sched []int
		for j := 1 + r.Intn(3); j > 0; j-- {
			x := Pick(r, rs)
			if x > 60000 && !r.Chance(25) {
				x = 300
			}
			recv = append(recv, x)
		}
		for j := 1 + r.Intn(3); j > 0; j-- {
			x := Pick(r, sendSizes)
			if x > 60000 && !r.Chance(30) {
				x = 300
			}
			sends = append(sends, x)
		}
		for j := 1 + r.Intn(14); j > 0; j-- {
			sched = append(sched, r.Intn(3)/2) // two thirds receiver steps
		}
		emit(r.Intn(2), recv, Pick(r, splits), sends, sched, "duplex-random")
	}
}
