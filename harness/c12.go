package main

import (
	"os"
	"path/filepath"
	"sort"
	"strings"

	"github.com/tonistiigi/fsutil"
	"github.com/tonistiigi/fsutil/types"
)

func init() {
	kinds[0x1201] = run1201
	kinds[0x1202] = run1202
	kinds[0x1203] = run1203
	props["C12"] = genC12
}

func statInfoFor(path string, isDir bool) os.FileInfo {
	mode := uint32(0644)
	if isDir {
		mode = uint32(os.ModeDir | 0755)
	}
	return &fsutil.StatInfo{Stat: &types.Stat{Path: path, Mode: mode}}
}

// real fsutil.Validator on a sequence; () = accepted, (#i) = first rejected index, (#ffff i) = panic at i
func run1201(in Sx) (out Sx) {
	v := &fsutil.Validator{}
	idx := 0
	defer func() {
		if r := recover(); r != nil {
			out = L(N(0xffff), NI(idx))
		}
	}()
	for i, it := range in.L {
		idx = i
		kind := fsutil.ChangeKind(it.L[0].Int())
		p := it.L[1].Str()
		if err := v.HandleChange(kind, p, statInfoFor(p, it.L[2].IsTrue()), nil); err != nil {
			return L(NI(i))
		}
	}
	return L()
}

func cmpCode(c int) Sx {
	switch {
	case c < 0:
		return N(0)
	case c == 0:
		return N(1)
	}
	return N(2)
}

func run1202(in Sx) Sx {
	return L(cmpCode(fsutil.ComparePath(in.L[0].Str(), in.L[1].Str())))
}

func run1203(in Sx) Sx {
	p := in.L[0].Str()
	return L(S(filepath.Clean(p)), Bool(filepath.IsAbs(p)), S(filepath.Dir(p)), S(filepath.Base(p)))
}

var c12Alphabet = []string{
	"a", "a/b", "a/b/c", "a-b", "a b", "a.b", "a0", "b", "ab", ".", "..", "../a", "a/..", "a/../..",
	"/a", "a/", "a//b", "./a", "", "a/./b", "a/c", "b/a", "a/b/..", "...", "a/..b", "..a",
}

func vitem(kind int, p string, isDir bool) Sx { return L(NI(kind), S(p), Bool(isDir)) }

func genC12(g *Gen) {
	// (a) exhaustive over the alphabet x {dir, file, delete} with pruning of rejected prefixes
	maxLen := g.Vol(3, 4)
	type it struct {
		kind int
		p    string
		dir  bool
	}
	var items []it
	for _, p := range c12Alphabet {
		items = append(items, it{0, p, true}, it{0, p, false}, it{2, p, true})
	}
	var rec func(prefix []Sx)
	exhaustive := 0
	rec = func(prefix []Sx) {
		if len(prefix) >= maxLen {
			return
		}
		for _, x := range items {
			seq := append(append([]Sx{}, prefix...), vitem(x.kind, x.p, x.dir))
			in := L(seq...)
			out := run1201(in)
			nontriv := len(seq) >= 2 && (len(out.L) == 0 || (len(out.L) == 1 && out.L[0].Int() >= 1))
			cls := "exh-accept"
			if len(out.L) != 0 {
				cls = "exh-reject"
			}
			g.EmitWith(0x1201, in, out, nontriv, cls)
			exhaustive++
			if len(out.L) == 0 {
				rec(seq)
			}
		}
	}
	rec(nil)
	g.Note("exhaustive_sequences", exhaustive)
	g.Note("exhaustive_max_len", maxLen)

	// (b) random longer sequences grown from valid walks with one mutation
	nRandom := g.Vol(20000, 400000)
	names := []string{"a", "b", "ab", "a-b", "a b", "a.b", "a0", "c", "~", "\x01", "\x80", "é", "A", "0", "..."}
	for i := 0; i < nRandom; i++ {
		r := g.Rng
		// random tree as a set of paths
		set := map[string]bool{} // path -> isdir
		var dirs = []string{""}
		n := 1 + r.Intn(12)
		for j := 0; j < n; j++ {
			d := Pick(r, dirs)
			nm := Pick(r, names)
			p := nm
			if d != "" {
				p = d + "/" + nm
			}
			if _, ok := set[p]; ok {
				continue
			}
			isDir := r.Chance(45)
			set[p] = isDir
			if isDir && strings.Count(p, "/") < 4 {
				dirs = append(dirs, p)
			}
		}
		var paths []string
		for p := range set {
			paths = append(paths, p)
		}
		sort.Slice(paths, func(a, b int) bool { return fsutil.ComparePath(paths[a], paths[b]) < 0 })
		var seq []Sx
		for _, p := range paths {
			kind := 0
			if r.Chance(10) {
				kind = 1
			} else if r.Chance(8) {
				kind = 2
			}
			seq = append(seq, vitem(kind, p, set[p]))
		}
		cls := "rnd-valid"
		switch m := r.Intn(10); {
		case m == 0 && len(seq) >= 2: // swap two
			a, b := r.Intn(len(seq)), r.Intn(len(seq))
			seq[a], seq[b] = seq[b], seq[a]
			cls = "rnd-swap"
		case m == 1 && len(seq) >= 2: // drop one (possibly a parent)
			a := r.Intn(len(seq))
			seq = append(seq[:a:a], seq[a+1:]...)
			cls = "rnd-drop"
		case m == 2: // replace by junk
			a := r.Intn(len(seq))
			seq[a] = vitem(0, Pick(r, c12Alphabet), r.Bool())
			cls = "rnd-junk"
		case m == 3: // duplicate
			a := r.Intn(len(seq))
			seq = append(seq[:a+1], seq[a:]...)
			cls = "rnd-dup"
		case m == 4: // flip dir bit
			a := r.Intn(len(seq))
			seq[a] = L(seq[a].L[0], seq[a].L[1], Bool(!seq[a].L[2].IsTrue()))
			cls = "rnd-flipdir"
		case m == 5: // sort bytewise instead of path-wise
			sort.Slice(seq, func(a, b int) bool { return seq[a].L[1].Str() < seq[b].L[1].Str() })
			cls = "rnd-bytewise"
		}
		in := L(seq...)
		out := run1201(in)
		nontriv := len(seq) >= 2 && (len(out.L) == 0 || (len(out.L) == 1 && out.L[0].Int() >= 1))
		g.EmitWith(0x1201, in, out, nontriv, cls)
	}

	// (b2) deep chains: nested directories well past every growth step of the validator's stack
	// (initial capacity 10, then doubling), followed by a tail that returns to some ancestor level
	// with the same name again, a smaller / larger sibling, a file of the same name, or a child of a
	// directory that was left.  Deterministic, plus a few random ones.
	r := g.Rng
	c12Deep := func(depth int, names []string, tail int, level int) Sx {
		var seq []Sx
		cur := ""
		var prefixes []string
		for d := 0; d < depth; d++ {
			n := names[d%len(names)]
			if cur == "" {
				cur = n
			} else {
				cur = cur + "/" + n
			}
			prefixes = append(prefixes, cur)
			seq = append(seq, vitem(0, cur, true))
		}
		if level >= len(prefixes) {
			level = len(prefixes) - 1
		}
		at := prefixes[level]
		parent := ""
		if i := strings.LastIndex(at, "/"); i >= 0 {
			parent = at[:i+1]
		}
		base := at[len(parent):]
		switch tail {
		case 0: // the same directory again
			seq = append(seq, vitem(0, at, true))
		case 1: // a file with the same name
			seq = append(seq, vitem(0, at, false))
		case 2: // a smaller sibling
			seq = append(seq, vitem(0, parent+"!"+base, r.Bool()))
		case 3: // a larger sibling (valid), then the directory again (invalid)
			seq = append(seq, vitem(0, parent+base+"~", false), vitem(0, at, true))
		case 4: // child of the deepest directory, then a larger sibling at the chosen level (valid)
			seq = append(seq, vitem(0, cur+"/zz", false), vitem(0, parent+base+"~", true), vitem(0, parent+base+"~/k", false))
		case 5: // child of a directory that was left
			seq = append(seq, vitem(0, parent+base+"~", false), vitem(0, at+"/late", false))
		}
		return L(seq...)
	}
	for _, depth := range []int{1, 2, 5, 9, 10, 11, 12, 20, 21, 22, 23, 42, 43, 44, 45, 87, 88, 89} {
		for tail := 0; tail < 6; tail++ {
			for _, level := range []int{depth - 1, depth - 2, depth / 2, 0} {
				if level < 0 {
					continue
				}
				in := c12Deep(depth, []string{"m"}, tail, level)
				out := run1201(in)
				g.EmitWith(0x1201, in, out, depth >= 2, "deep-chain")
			}
		}
	}
	for i := 0; i < g.Vol(300, 6000); i++ {
		depth := 1 + r.Intn(100)
		in := c12Deep(depth, []string{"a", "a-b", "b", "é", "a b"}, r.Intn(6), r.Intn(depth))
		out := run1201(in)
		g.EmitWith(0x1201, in, out, depth >= 2, "deep-chain-rnd")
	}

	// (c) ComparePath: all alphabet pairs + random byte strings sharing a prefix
	for _, p := range c12Alphabet {
		for _, q := range c12Alphabet {
			g.Emit(0x1202, L(S(p), S(q)), p != q && len(p) > 0 && len(q) > 0, "cmp-alpha")
		}
	}
	// exhaustive over every pair of bytes at the first difference (any per-byte ranking anomaly,
	// e.g. a byte that ties with or sorts below the separator, shows up here)
	for c1 := 0; c1 < 256; c1++ {
		for c2 := 0; c2 < 256; c2++ {
			p := []byte{'a', byte(c1), 'z'}
			q := []byte{'a', byte(c2), 'a'}
			g.Emit(0x1202, L(B(p), B(q)), c1 != c2 && (c1 == '/' || c2 == '/'), "cmp-bytepairs")
		}
	}
	bytesPool := []byte{0x00, 0x01, ' ', '-', '.', '/', '0', 'a', 'b', '~', 0x80, 0xff}
	nPairs := g.Vol(20000, 400000)
	for i := 0; i < nPairs; i++ {
		r := g.Rng
		mk := func(n int) []byte {
			b := make([]byte, n)
			for k := range b {
				b[k] = Pick(r, bytesPool)
			}
			return b
		}
		pre := mk(r.Intn(5))
		p := append(append([]byte{}, pre...), mk(r.Intn(5))...)
		q := append(append([]byte{}, pre...), mk(r.Intn(5))...)
		nt := len(p) > len(pre) && len(q) > len(pre) && p[len(pre)] != q[len(pre)] && (p[len(pre)] == '/' || q[len(pre)] == '/')
		g.Emit(0x1202, L(B(p), B(q)), nt, "cmp-random")
	}

	// (d) Clean / IsAbs / Dir / Base against the Go standard library
	for _, p := range c12Alphabet {
		g.Emit(0x1203, L(S(p)), true, "clean-alpha")
	}
	frag := []string{"a", "b", ".", "..", "/", "//", "ab", "...", "-"}
	nClean := g.Vol(5000, 100000)
	for i := 0; i < nClean; i++ {
		var sb strings.Builder
		for k := g.Rng.Intn(7); k > 0; k-- {
			sb.WriteString(Pick(g.Rng, frag))
			if g.Rng.Chance(60) {
				sb.WriteByte('/')
			}
		}
		g.Emit(0x1203, L(S(sb.String())), strings.Contains(sb.String(), ".."), "clean-random")
	}
}
