package main

// C03 — receiver containment.
//   kind 0301: Gallina FS model vs the Linux kernel (random syscall sequences).
//   kind 0302: the real fsutil.Receive fed by a scripted hostile sender.
// Every case runs in a child process of the harness that is chroot-ed into a private jail
// directory below WorkDir(): absolute paths / symlink targets are relative to the jail, and
// nothing the code under test does can reach the sandbox outside the jail.

import (
	"bufio"
	"fmt"
	"io"
	"os"
	"os/exec"
	"sort"
	"strings"
	"sync"
	"syscall"
	"time"

	"golang.org/x/sys/unix"
)

func init() {
	kinds[0x0301] = func(in Sx) Sx { return c03Call(0x0301, in) }
	kinds[0x0302] = func(in Sx) Sx { return c03Call(0x0302, in) }
	props["C03"] = genC03
	internals["c03w"] = c03WorkerMain
}

// ---------------------------------------------------------------- parent side
type c03Worker struct {
	cmd    *exec.Cmd
	in     io.WriteCloser
	out    *bufio.Reader
	stderr *c03Buf
}

// what the worker wrote to stderr (a Go panic trace when the code under test killed it)
type c03Buf struct {
	mu sync.Mutex
	b  []byte
}

func (b *c03Buf) Write(p []byte) (int, error) {
	b.mu.Lock()
	defer b.mu.Unlock()
	if len(b.b) < 1<<20 {
		b.b = append(b.b, p...)
	}
	return len(p), nil
}

func (b *c03Buf) String() string {
	b.mu.Lock()
	defer b.mu.Unlock()
	return string(b.b)
}

var (
	c03mu   sync.Mutex
	c03w    *c03Worker
	c03base string
)

func c03Start() (*c03Worker, error) {
	if c03base == "" {
		c03base = WorkDir("c03-")
	}
	exe, err := os.Executable()
	if err != nil {
		return nil, err
	}
	cmd := exec.Command(exe, "internal", "c03w", c03base)
	eb := &c03Buf{}
	cmd.Stderr = eb
	in, err := cmd.StdinPipe()
	if err != nil {
		return nil, err
	}
	out, err := cmd.StdoutPipe()
	if err != nil {
		return nil, err
	}
	if err := cmd.Start(); err != nil {
		return nil, err
	}
	return &c03Worker{cmd: cmd, in: in, out: bufio.NewReaderSize(out, 1<<20), stderr: eb}, nil
}

func (w *c03Worker) kill() {
	w.in.Close()
	w.cmd.Process.Kill()
	w.cmd.Wait()
}

// c03Call runs one case in the jailed worker; a dead or hanging worker is an output value.
func c03Call(kind uint64, in Sx) Sx {
	c03mu.Lock()
	defer c03mu.Unlock()
	out := c03Call1(fmt.Sprintf("%x", kind), in)
	if kind == 0x0302 && len(out.L) == 1 && out.L[0].Str() == "worker-dead" {
		// the receiver killed its process: a fresh worker reports what the jail looks like now
		class := "9"
		if os.Getenv("C03DEBUG") != "" {
			fmt.Fprintln(os.Stderr, "c03 worker died:", c03lastStderr)
		}
		if strings.Contains(c03lastStderr, "closed channel") {
			class = "3"
		} else if n := len(c03lastStderr); n > 0 {
			fmt.Fprintln(os.Stderr, "c03 worker died:", c03lastStderr[max(0, n-1500):])
		}
		return c03Call1("302p"+class, in)
	}
	return out
}

var c03lastStderr string

func c03Call1(kind string, in Sx) Sx {
	if c03w == nil {
		w, err := c03Start()
		if err != nil {
			return L(S("worker-start-failed"), S(err.Error()))
		}
		c03w = w
	}
	w := c03w
	if _, err := fmt.Fprintf(w.in, "%s\t%s\n", kind, in.String()); err != nil {
		w.kill()
		c03w = nil
		return L(S("worker-dead"))
	}
	type reply struct {
		line string
		err  error
	}
	ch := make(chan reply, 1)
	go func() {
		line, err := w.out.ReadString('\n')
		ch <- reply{line, err}
	}()
	select {
	case r := <-ch:
		if r.err != nil {
			w.kill()
			c03lastStderr = w.stderr.String()
			c03w = nil
			return L(S("worker-dead"))
		}
		line := strings.TrimRight(r.line, "\n")
		if strings.HasSuffix(line, c03RetireMark) {
			// the case left a goroutine of the code under test behind (blocked in a system call):
			// the answer is valid, the worker is not reused
			line = strings.TrimSuffix(line, c03RetireMark)
			w.kill()
			c03w = nil
		}
		out, err := ParseSx(line)
		if err != nil {
			return L(S("worker-bad-reply"))
		}
		return out
	case <-time.After(25 * time.Second):
		w.kill()
		c03w = nil
		return L(S("hang"))
	}
}

// ---------------------------------------------------------------- child side
var c03basefd int

const c03RetireMark = "\tretire"

var c03Tainted bool // set by a case after which receiver goroutines are still around

func c03WorkerMain(args []string) {
	if len(args) != 1 {
		os.Exit(2)
	}
	syscall.Umask(0)
	if err := unix.Chdir(args[0]); err != nil {
		panic(err)
	}
	if err := unix.Chroot("."); err != nil {
		panic(err)
	}
	fd, err := unix.Open(".", unix.O_RDONLY|unix.O_DIRECTORY, 0)
	if err != nil {
		panic(err)
	}
	c03basefd = fd
	rd := bufio.NewReaderSize(os.Stdin, 1<<20)
	wr := bufio.NewWriter(os.Stdout)
	for {
		line, err := rd.ReadString('\n')
		if err != nil {
			return
		}
		parts := strings.SplitN(strings.TrimRight(line, "\n"), "\t", 2)
		var out Sx
		in, perr := ParseSx(parts[1])
		switch {
		case perr != nil:
			out = L(S("bad-input"))
		case parts[0] == "301":
			out = c03InJail(func() Sx { return child0301(in) })
		case parts[0] == "302":
			out = c03InJail(func() Sx { return child0302(in) })
		case strings.HasPrefix(parts[0], "302p"):
			out = c03Post0302(int(parts[0][4] - '0'))
		default:
			out = L(S("bad-kind"))
		}
		wr.WriteString(out.String())
		if c03Tainted {
			wr.WriteString(c03RetireMark)
		}
		wr.WriteByte('\n')
		wr.Flush()
		if c03Tainted {
			time.Sleep(10 * time.Second) // the parent kills this process
			return
		}
	}
}

// c03InJail runs fn with the process root and cwd set to a fresh empty directory (mode 0755).
func c03InJail(fn func() Sx) (out Sx) {
	leave := func() {
		unix.Fchdir(c03basefd)
		unix.Chroot(".")
	}
	leave()
	os.RemoveAll("j")
	if err := unix.Mkdir("j", 0755); err != nil {
		return L(S("jail-mkdir"), S(err.Error()))
	}
	if err := unix.Chroot("j"); err != nil {
		return L(S("jail-chroot"), S(err.Error()))
	}
	unix.Chdir("/")
	defer func() {
		if r := recover(); r != nil {
			out = L(S("panic"), S(fmt.Sprint(r)))
		}
		leave()
		os.RemoveAll("j")
	}()
	return fn()
}

// ---------------------------------------------------------------- snapshots
const c03NowMark = uint64(1<<63 - 1)

// inode record in the exchange format of Glue/C03G.enc_inode:
// (type mode uid gid mtime rdev target xattrs content); mtimes >= t0 are "now".
func c03Inode(p string, st *unix.Stat_t, t0 int64) Sx { return c03InodeX(p, st, t0, false) }

func c03InodeX(p string, st *unix.Stat_t, t0 int64, follow bool) Sx {
	typ := uint64(st.Mode & unix.S_IFMT)
	mt := uint64(st.Mtim.Sec*1e9 + st.Mtim.Nsec)
	if st.Mtim.Sec*1e9+st.Mtim.Nsec >= t0 {
		mt = c03NowMark
	}
	var rdev uint64
	target := ""
	var content []byte
	switch typ {
	case unix.S_IFLNK:
		target, _ = os.Readlink(p)
	case unix.S_IFREG:
		content, _ = os.ReadFile(p)
	case unix.S_IFCHR, unix.S_IFBLK:
		rdev = uint64(st.Rdev)
	}
	xa := listXattrs(p)
	if follow {
		xa = listXattrsFollow(p)
	}
	keys := make([]string, 0, len(xa))
	for k := range xa {
		keys = append(keys, k)
	}
	sort.Strings(keys)
	xs := make([]Sx, 0, len(keys))
	for _, k := range keys {
		xs = append(xs, L(S(k), B(xa[k])))
	}
	return L(N(typ), N(uint64(st.Mode&07777)), N(uint64(st.Uid)), N(uint64(st.Gid)), N(mt), N(rdev),
		S(target), L(xs...), B(content))
}

// c03Snapshot: ((path class inode) ...) of root itself (path "") and everything below it,
// directory before contents, siblings bytewise; class = index of the first entry with the same inode.
func c03Snapshot(root string, t0 int64) Sx {
	var out []Sx
	seen := map[uint64]int{}
	add := func(abs, rel string) (isDir bool) {
		var st unix.Stat_t
		if err := unix.Lstat(abs, &st); err != nil {
			return false
		}
		cls, ok := seen[st.Ino]
		if !ok {
			cls = len(out)
			seen[st.Ino] = cls
		}
		out = append(out, L(S(rel), NI(cls), c03Inode(abs, &st, t0)))
		return st.Mode&unix.S_IFMT == unix.S_IFDIR
	}
	var rec func(abs, rel string)
	rec = func(abs, rel string) {
		f, err := os.Open(abs)
		if err != nil {
			return
		}
		names, _ := f.Readdirnames(-1)
		f.Close()
		sort.Strings(names)
		for _, name := range names {
			a := strings.TrimSuffix(abs, "/") + "/" + name
			r := name
			if rel != "" {
				r = rel + "/" + name
			}
			if add(a, r) {
				rec(a, r)
			}
		}
	}
	if add(root, "") {
		rec(root, "")
	}
	return L(out...)
}
