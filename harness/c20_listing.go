package main

// C20, kind 2006 — the byte format of the metadata listing (dest/.fsutil-metadata).
//
//   2006 (mode (stat..) [cut])  ->  (file parse)
//
// Writer: the three statements of receive.go (case PACKET_STAT, metadataTransfer) executed with the REAL
// pieces — types.Stat.SizeVT, binary.LittleEndian.PutUint32, types.Stat.MarshalToSizedBufferVT — into
// slices handed out by the REAL chunked buffer (fsutil.VerifBuffer = buffer.alloc / buffer.WriteTo).
// Reader: the loop of receive_test.go:parseFSMetadata with the real types.Stat.Unmarshal; a short
// header / short record (a slice-bounds panic in that loop) and a decoding error are reported as (#0).
// mode bit 0: the file is cut to [cut] bytes before it is parsed (file in the output is the full file).
// The end-to-end tie (real Receive writing the real file) is C19's correspondence run.

import (
	"encoding/binary"

	"github.com/tonistiigi/fsutil"
	"github.com/tonistiigi/fsutil/types"
)

func init() {
	kinds[0x2006] = run2006
}

func c20ParseListing(dt []byte) Sx {
	var items []Sx
	for len(dt) > 0 {
		if len(dt) < 4 {
			return L(N(0))
		}
		n := int(binary.LittleEndian.Uint32(dt[:4]))
		dt = dt[4:]
		if n > len(dt) {
			return L(N(0))
		}
		var s types.Stat
		if err := s.Unmarshal(dt[:n]); err != nil {
			return L(N(0))
		}
		items = append(items, StatSx(s.CloneVT()))
		dt = dt[n:]
	}
	return L(N(1), L(items...))
}

func run2006(in Sx) Sx {
	return guardedC20(func() Sx {
		mode := in.L[0].Int()
		stats := make([]*types.Stat, len(in.L[1].L))
		sizes := make([]int, len(stats))
		for i, x := range in.L[1].L {
			stats[i] = SxStat(x)
			sizes[i] = stats[i].SizeVT() + 4
		}
		var ferr error
		file, _, err := fsutil.VerifBuffer(sizes, func(i int, dt []byte) {
			n := stats[i].SizeVT()
			binary.LittleEndian.PutUint32(dt[0:4], uint32(n))
			if _, e := stats[i].MarshalToSizedBufferVT(dt[4:]); e != nil {
				ferr = e
			}
		})
		if err != nil || ferr != nil {
			return L(N(0))
		}
		parsed := file
		if mode&1 != 0 && len(in.L) > 2 {
			if cut := in.L[2].Int(); cut < len(file) {
				parsed = file[:cut]
			}
		}
		return L(B(file), c20ParseListing(parsed))
	})
}

func c20GenListing(g *Gen) {
	r := g.Rng
	n := g.Vol(400, 20000)
	for i := 0; i < n; i++ {
		big := i%20 == 0
		k := r.Intn(7)
		if i < 3 {
			k = i
		}
		var ss []Sx
		total := 0
		for j := 0; j < k; j++ {
			s := genStat(r, big && j%2 == 1)
			if r.Chance(10) {
				s = &types.Stat{} // empty record: 00 00 00 00
			}
			total += s.SizeVT() + 4
			ss = append(ss, StatSx(s))
		}
		cls := "listing"
		if big {
			cls = "listing-big"
		}
		in := L(N(0), L(ss...))
		if r.Chance(15) && total > 0 {
			in = L(N(1), L(ss...), NI(r.Intn(total)))
			cls += "-truncated"
		}
		g.Emit(0x2006, in, k >= 2, cls)
	}
}
