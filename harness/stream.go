package main

import (
	"context"
	"io"
	"sync"
	"sync/atomic"

	"github.com/pkg/errors"
	"github.com/tonistiigi/fsutil"
	"github.com/tonistiigi/fsutil/types"
)

// PipeStream is one endpoint of an in-memory fsutil.Stream pair. Packets are marshalled on
// SendMsg and unmarshalled on RecvMsg (like a real transport: no aliasing between peers).
// Every packet that crosses is logged with a global sequence number; the pair can be torn
// down (every pending and later operation fails), and the sending side can be closed (EOF
// for the peer after draining). Overlapping SendMsg / RecvMsg calls on one endpoint are counted.
type PipeStream struct {
	name     string
	ctx      context.Context
	recv     chan []byte
	send     chan []byte
	pair     *StreamPair
	inSend   int32
	inRecv   int32
	closeOne sync.Once
	// Gate, when set, is called before every operation ("send"/"recv") and may block or fail.
	Gate func(op string, p *types.Packet) error
}

type LoggedPacket struct {
	Seq  int
	From string // "s" (sender endpoint) or "r" (receiver endpoint)
	P    *types.Packet
}

type StreamPair struct {
	A, B      *PipeStream // A = sender's endpoint, B = receiver's endpoint
	mu        sync.Mutex
	log       []LoggedPacket
	down      chan struct{}
	downOnce  sync.Once
	downErr   error
	Overlaps  int32 // number of times two SendMsg (or two RecvMsg) were in flight on one endpoint
	NoLogData bool  // keep only lengths of DATA payloads in the log
}

var ErrTornDown = errors.New("stream torn down")

func NewStreamPair(ctx context.Context, capacity int) *StreamPair {
	c1 := make(chan []byte, capacity)
	c2 := make(chan []byte, capacity)
	sp := &StreamPair{down: make(chan struct{})}
	sp.A = &PipeStream{name: "s", ctx: ctx, recv: c2, send: c1, pair: sp}
	sp.B = &PipeStream{name: "r", ctx: ctx, recv: c1, send: c2, pair: sp}
	return sp
}

func (sp *StreamPair) TearDown(err error) {
	sp.downOnce.Do(func() {
		if err == nil {
			err = ErrTornDown
		}
		sp.downErr = err
		close(sp.down)
	})
}

func (sp *StreamPair) Log() []LoggedPacket {
	sp.mu.Lock()
	defer sp.mu.Unlock()
	return append([]LoggedPacket{}, sp.log...)
}

var _ fsutil.Stream = &PipeStream{}

func (s *PipeStream) Context() context.Context { return s.ctx }

// CloseSend makes the peer see io.EOF once it has drained what was sent.
func (s *PipeStream) CloseSend() { s.closeOne.Do(func() { close(s.send) }) }

func (s *PipeStream) SendMsg(m interface{}) (err error) {
	p, ok := m.(*types.Packet)
	if !ok {
		return errors.Errorf("invalid msg: %#v", m)
	}
	if atomic.AddInt32(&s.inSend, 1) > 1 {
		atomic.AddInt32(&s.pair.Overlaps, 1)
	}
	defer atomic.AddInt32(&s.inSend, -1)
	select {
	case <-s.pair.down:
		return s.pair.downErr
	default:
	}
	if s.Gate != nil {
		if err := s.Gate("send", p); err != nil {
			return err
		}
	}
	dt, err := p.MarshalVT()
	if err != nil {
		return err
	}
	defer func() {
		if r := recover(); r != nil { // send on closed channel
			err = io.ErrClosedPipe
		}
	}()
	select {
	case <-s.pair.down:
		return s.pair.downErr
	case <-s.ctx.Done():
		return s.ctx.Err()
	case s.send <- dt:
		cp := p.CloneVT()
		s.pair.mu.Lock()
		if s.pair.NoLogData && cp.Type == types.PACKET_DATA {
			cp.Data = make([]byte, len(cp.Data))
		}
		s.pair.log = append(s.pair.log, LoggedPacket{Seq: len(s.pair.log), From: s.name, P: cp})
		s.pair.mu.Unlock()
		return nil
	}
}

func (s *PipeStream) RecvMsg(m interface{}) error {
	p, ok := m.(*types.Packet)
	if !ok {
		return errors.Errorf("invalid msg: %#v", m)
	}
	if atomic.AddInt32(&s.inRecv, 1) > 1 {
		atomic.AddInt32(&s.pair.Overlaps, 1)
	}
	defer atomic.AddInt32(&s.inRecv, -1)
	if s.Gate != nil {
		if err := s.Gate("recv", nil); err != nil {
			return err
		}
	}
	select {
	case <-s.pair.down:
		return s.pair.downErr
	case <-s.ctx.Done():
		return s.ctx.Err()
	case dt, ok := <-s.recv:
		if !ok {
			return io.EOF
		}
		return p.UnmarshalVT(dt)
	}
}
