module verif/harness

go 1.21

require (
	github.com/moby/patternmatcher v0.5.0
	github.com/opencontainers/go-digest v1.0.0
	github.com/pkg/errors v0.9.1
	github.com/tonistiigi/dchapes-mode v0.0.0-20250318174251-73d941a28323
	github.com/tonistiigi/fsutil v0.0.0
	golang.org/x/sys v0.11.0
	google.golang.org/protobuf v1.31.0
)

require (
	github.com/containerd/continuity v0.4.1 // indirect
	github.com/planetscale/vtprotobuf v0.6.0 // indirect
	github.com/sirupsen/logrus v1.8.1 // indirect
	golang.org/x/sync v0.1.0 // indirect
)

replace github.com/tonistiigi/fsutil => /repo
