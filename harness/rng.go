package main

// splitmix64: the single PRNG every generator draws from.
type Rng struct{ s uint64 }

// The state is a mixed image of the seed: with state = seed*G + c, seeds k and k+1 produced the same stream
// shifted by one draw.
func NewRng(seed uint64) *Rng {
	r := &Rng{s: seed ^ 0x5851F42D4C957F2D}
	r.s = r.U64() ^ (seed << 32)
	return r
}

func (r *Rng) U64() uint64 {
	r.s += 0x9E3779B97F4A7C15
	z := r.s
	z = (z ^ (z >> 30)) * 0xBF58476D1CE4E5B9
	z = (z ^ (z >> 27)) * 0x94D049BB133111EB
	return z ^ (z >> 31)
}

func (r *Rng) Intn(n int) int {
	if n <= 0 {
		return 0
	}
	return int(r.U64() % uint64(n))
}

func (r *Rng) Bool() bool        { return r.U64()&1 == 1 }
func (r *Rng) Chance(p int) bool { return r.Intn(100) < p } // p percent

func Pick[T any](r *Rng, xs []T) T { return xs[r.Intn(len(xs))] }

func (r *Rng) Fork() *Rng { return &Rng{s: r.U64()} }
