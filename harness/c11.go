package main

import (
	"bytes"
	"context"
	"io"
	gofs "io/fs"
	"os"
	"path/filepath"

	"github.com/tonistiigi/fsutil"
	"github.com/tonistiigi/fsutil/types"
)

func init() {
	kinds[0x1101] = run1101
	kinds[0x1102] = run1102
	props["C11"] = genC11
}

// input: (view includes excludes); output: (send_err recv_err hung stats_announced dest_raw opens)
func run1102(in Sx) Sx {
	view := SxView(in.L[0])
	var inc, exc []string
	for _, p := range in.L[1].L {
		inc = append(inc, p.Str())
	}
	for _, p := range in.L[2].L {
		exc = append(exc, p.Str())
	}
	ffs, err := fsutil.NewFilterFS(&MemFS{Roots: view}, &fsutil.FilterOpt{IncludePatterns: inc, ExcludePatterns: exc})
	if err != nil {
		return L(N(9), N(9), N(0), L(), L(), L())
	}
	work := WorkDir("c11-")
	defer os.RemoveAll(work)
	dest := filepath.Join(work, "dest")
	if err := os.Mkdir(dest, 0755); err != nil {
		panic(err)
	}
	res := RunTransfer(TransferCfg{Src: ffs, Dest: dest, StreamCap: 16})
	var announced []Sx
	for _, lp := range res.Log {
		if lp.From == "s" && lp.P.Type == types.PACKET_STAT && lp.P.Stat != nil {
			announced = append(announced, StatSx(lp.P.Stat))
		}
	}
	snap, err := SnapshotRaw(dest, true)
	if err != nil {
		return L(N(9), N(9), N(0), L(), L(), L())
	}
	// Open every regular file of the FULL view through the same filtered FS
	var opens []Sx
	var rec func(dir string, ns []*MNode)
	rec = func(dir string, ns []*MNode) {
		for _, n := range ns {
			p := n.Name
			if dir != "" {
				p = dir + "/" + n.Name
			}
			if os.FileMode(n.Stat.Mode)&os.ModeType == 0 {
				rc, err := ffs.Open(p)
				opened, same := false, false
				if err == nil {
					b, rerr := io.ReadAll(rc)
					rc.Close()
					opened = true
					same = rerr == nil && bytes.Equal(b, n.Content)
				}
				opens = append(opens, L(S(p), Bool(opened), Bool(same)))
			}
			rec(p, n.Kids)
		}
	}
	rec("", view)
	return L(errClass(res.SendErr), errClass(res.RecvErr), Bool(res.Hung), L(announced...), RawListSx(snap), L(opens...))
}

// input: (view); output: (stats reported by the real WithHardlinkReset(MemFS).Walk, real Hardlinks validator verdict)
func run1101(in Sx) Sx {
	view := SxView(in.L[0])
	fs := fsutil.WithHardlinkReset(&MemFS{Roots: view})
	var out []Sx
	var stats []*types.Stat
	err := fs.Walk(context.Background(), "/", func(p string, d gofs.DirEntry, err error) error {
		if err != nil {
			return err
		}
		fi, err := d.Info()
		if err != nil {
			return err
		}
		st := fi.Sys().(*types.Stat)
		out = append(out, StatSx(st))
		stats = append(stats, st)
		return nil
	})
	if err != nil {
		return L(L(), L(N(0xffff)))
	}
	hv := &fsutil.Hardlinks{}
	verdict := L()
	for i, st := range stats {
		if err := hv.HandleChange(fsutil.ChangeKindAdd, st.Path, &fsutil.StatInfo{Stat: st}, nil); err != nil {
			verdict = L(NI(i))
			break
		}
	}
	return L(L(out...), verdict)
}

// dropNodes removes random nodes (files, and whole directories) from a view: what filters do.
func dropNodes(r *Rng, ns []*MNode, pct int) ([]*MNode, int) {
	var out []*MNode
	dropped := 0
	for _, n := range ns {
		if r.Chance(pct) {
			dropped++
			continue
		}
		c := &MNode{Name: n.Name, Stat: n.Stat.CloneVT(), Content: n.Content}
		if n.IsDir() {
			var d int
			c.Kids, d = dropNodes(r, n.Kids, pct)
			dropped += d
		}
		out = append(out, c)
	}
	return out, dropped
}

func genC11(g *Gen) {
	n := g.Vol(3000, 60000)
	small := []string{"a", "b", "ab", "a-b", "c", "d", "e"}
	for i := 0; i < n; i++ {
		r := g.Rng
		o := TreeOpts{MaxEntries: 4 + r.Intn(12), MaxDepth: 3, Names: small, Types: r.Chance(30), HardLinks: true}
		v := GenView(r, o)
		if r.Chance(50) { // more link groups: relink extra files to existing sources
			var files []*MNode
			var walk func(dir string, ns []*MNode)
			paths := map[*MNode]string{}
			walk = func(dir string, ns []*MNode) {
				for _, k := range ns {
					p := k.Name
					if dir != "" {
						p = dir + "/" + k.Name
					}
					paths[k] = p
					if os.FileMode(k.Stat.Mode)&os.ModeType == 0 {
						files = append(files, k)
					}
					walk(p, k.Kids)
				}
			}
			walk("", v)
			for j := 1; j < len(files); j++ {
				if files[j].Stat.Linkname == "" && r.Chance(40) {
					src := files[r.Intn(j)]
					if src.Stat.Linkname == "" {
						files[j].Stat = src.Stat.CloneVT()
						files[j].Content = src.Content
						files[j].Stat.Linkname = paths[src]
					}
				}
			}
		}
		links := 0
		for _, st := range WalkEntries(v) {
			if st.Linkname != "" && os.FileMode(st.Mode)&os.ModeSymlink == 0 {
				links++
			}
		}
		filtered, dropped := dropNodes(r, v, 25)
		cls := "no-links"
		if links > 0 {
			cls = "links"
			if dropped > 0 {
				cls = "links+dropped"
			}
		}
		g.Emit(0x1101, L(ViewSx(filtered)), links > 0 && dropped > 0, cls)
	}

	// end-to-end: filtered views (no '!' patterns here: the late-shadow behaviour of the incremental
	// matcher (known finding K1) is judged by C10; with it walk and Open may legitimately differ)
	pats := []string{"a", "b", "ab", "a-b", "c", "d", "e", "a/*", "a/**", "*", "**/a", "?", "a*", "*/b", "d/e", "[a-c]", "a/b"}
	m := g.Vol(600, 8000)
	for i := 0; i < m; i++ {
		r := g.Rng
		o := TreeOpts{MaxEntries: 4 + r.Intn(12), MaxDepth: 3, Names: small, Types: r.Chance(30), HardLinks: true, Owners: true}
		v := GenView(r, o)
		var inc, exc []Sx
		for k := r.Intn(3); k > 0; k-- {
			inc = append(inc, S(Pick(r, pats)))
		}
		for k := r.Intn(3); k > 0; k-- {
			exc = append(exc, S(Pick(r, pats)))
		}
		cls := "e2e-unfiltered"
		if len(inc)+len(exc) > 0 {
			cls = "e2e-filtered"
		}
		links := 0
		for _, st := range WalkEntries(v) {
			if st.Linkname != "" && os.FileMode(st.Mode)&os.ModeSymlink == 0 {
				links++
			}
		}
		g.Emit(0x1102, L(ViewSx(v), L(inc...), L(exc...)), links > 0 && len(inc)+len(exc) > 0, cls)
	}
}
