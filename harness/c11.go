package main

import (
	"bytes"
	"context"
	"io"
	gofs "io/fs"
	"os"
	"path/filepath"
	"sort"
	"strings"

	"github.com/moby/patternmatcher"
	"github.com/tonistiigi/fsutil"
	"github.com/tonistiigi/fsutil/types"
)

func init() {
	kinds[0x1101] = run1101
	kinds[0x1102] = run1102
	kinds[0x1103] = run1103
	kinds[0x1104] = run1104
	kinds[0x1105] = run1105
	props["C11"] = genC11
}

// input: (view includes excludes); output: (send_err recv_err hung stats_announced dest_raw opens ptable)
// ptable = real single-pattern answers for every (pattern, path or ancestor) of the view: lets the
// glue decide whether the case lies in the late-shadow domain of the incremental matcher (K1)
func run1102(in Sx) Sx {
	defer quietStderr()()
	view := SxView(in.L[0])
	var inc, exc []string
	for _, p := range in.L[1].L {
		inc = append(inc, p.Str())
	}
	for _, p := range in.L[2].L {
		exc = append(exc, p.Str())
	}
	var follow []string
	if len(in.L) > 3 {
		follow = sxStrings(in.L[3])
	}
	if len(follow) == 0 {
		follow = nil
	}
	// c18FS: MemFS with the real walker's treatment of ENOENT / ENOTDIR returned by a callback
	// (FollowLinks walks sub-targets through the FS it is given)
	ffs, err := fsutil.NewFilterFS(&c18FS{m: &MemFS{Roots: view}}, &fsutil.FilterOpt{IncludePatterns: inc, ExcludePatterns: exc, FollowPaths: follow})
	if err != nil {
		return L(N(9), N(9), N(0), L(), L(), L(), L())
	}
	work := WorkDir("c11-")
	defer os.RemoveAll(work)
	dest := filepath.Join(work, "dest")
	if err := os.Mkdir(dest, 0755); err != nil {
		panic(err)
	}
	res := RunTransfer(TransferCfg{Src: ffs, Dest: dest, StreamCap: 16})
	var announced []Sx
	for _, lp := range res.Log {
		if lp.From == "s" && lp.P.Type == types.PACKET_STAT && lp.P.Stat != nil {
			announced = append(announced, StatSx(lp.P.Stat))
		}
	}
	snap, err := SnapshotRaw(dest, true)
	if err != nil {
		return L(N(9), N(9), N(0), L(), L(), L(), L())
	}
	// Open every regular file of the FULL view through the same filtered FS
	var opens []Sx
	var rec func(dir string, ns []*MNode)
	rec = func(dir string, ns []*MNode) {
		for _, n := range ns {
			p := n.Name
			if dir != "" {
				p = dir + "/" + n.Name
			}
			if os.FileMode(n.Stat.Mode)&os.ModeType == 0 {
				rc, err := ffs.Open(p)
				opened, same := false, false
				if err == nil {
					b, rerr := io.ReadAll(rc)
					rc.Close()
					opened = true
					same = rerr == nil && bytes.Equal(b, n.Content)
				}
				opens = append(opens, L(S(p), Bool(opened), Bool(same)))
			}
			rec(p, n.Kids)
		}
	}
	rec("", view)
	raws := append(append([]string{}, inc...), exc...)
	fl := L()
	if follow != nil { // what the real FollowLinks answers: the targets NewFilterFS merged
		fl = c18Follow(&c18FS{m: &MemFS{Roots: view}}, follow)
		raws = append(raws, c11Targets(fl)...)
	}
	tbl := pmatchTable(raws, withPrefixes(viewPaths(view)))
	return L(errClass(res.SendErr), errClass(res.RecvErr), Bool(res.Hung), L(announced...), RawListSx(snap), L(opens...), L(tbl...), fl)
}

// the paths in a c18Follow answer (#0 nil? (path ...))
func c11Targets(fl Sx) []string {
	if len(fl.L) == 3 && fl.L[0].U64() == 0 {
		return sxStrings(fl.L[2])
	}
	return nil
}

// kind 1104: kind 1103 for a FilterOpt that combines IncludePatterns / ExcludePatterns with
// FollowPaths (no map function): the include list NewFilterFS assembles is order-sensitive.
// input: (view include-raw exclude-raw follow-raw)
// output: (#ffff) | (#0 fl exc ptable calls opens vverdict hverdict), fl = the real FollowLinks answer
func run1104(in Sx) Sx {
	defer quietStderr()()
	return guardedC10(func() Sx {
		view := SxView(in.L[0])
		inc, exc, follow := sxStrings(in.L[1]), sxStrings(in.L[2]), sxStrings(in.L[3])
		if len(follow) == 0 {
			follow = nil
		}
		ffs, err := fsutil.NewFilterFS(&c18FS{m: &MemFS{Roots: view}}, &fsutil.FilterOpt{IncludePatterns: inc, ExcludePatterns: exc, FollowPaths: follow})
		if err != nil {
			return L(N(0xffff))
		}
		fs := fsutil.WithHardlinkReset(ffs)
		var calls []Sx
		var stats []*types.Stat
		bad := false
		err = fs.Walk(context.Background(), "/", func(p string, d gofs.DirEntry, err error) error {
			if err != nil {
				return err
			}
			fi, err := d.Info()
			if err != nil {
				return err
			}
			st := fi.Sys().(*types.Stat).CloneVT()
			if st.Path != p {
				bad = true
			}
			calls = append(calls, StatSx(st))
			stats = append(stats, st)
			return nil
		})
		if err != nil || bad {
			return L(N(0xfffc))
		}
		var opens []Sx
		var rec func(dir string, ns []*MNode)
		rec = func(dir string, ns []*MNode) {
			for _, n := range ns {
				p := n.Name
				if dir != "" {
					p = dir + "/" + n.Name
				}
				if os.FileMode(n.Stat.Mode)&os.ModeType == 0 {
					allowed := 0
					if rc, err := fs.Open(p); err == nil {
						b, rerr := io.ReadAll(rc)
						rc.Close()
						allowed = 2
						if rerr == nil && bytes.Equal(b, n.Content) {
							allowed = 1
						}
					}
					opens = append(opens, L(S(p), NI(allowed)))
				}
				rec(p, n.Kids)
			}
		}
		rec("", view)
		es, err2 := patsSx(exc)
		if err2 != nil {
			return L(N(0xfffb))
		}
		fl := L()
		raws := append(append([]string{}, inc...), exc...)
		if follow != nil {
			fl = c18Follow(&c18FS{m: &MemFS{Roots: view}}, follow)
			raws = append(raws, c11Targets(fl)...)
		}
		tbl := pmatchTable(raws, withPrefixes(viewPaths(view)))
		v := &fsutil.Validator{}
		hv := &fsutil.Hardlinks{}
		return L(N(0), fl, es, L(tbl...), L(calls...), L(opens...), c11Verdict(stats, v.HandleChange), c11Verdict(stats, hv.HandleChange))
	})
}

// c11Verdict feeds a STAT sequence to a fresh real validator: () accepted, (#i) first rejected index
func c11Verdict(stats []*types.Stat, h func(kind fsutil.ChangeKind, p string, fi os.FileInfo, err error) error) Sx {
	for i, st := range stats {
		if err := h(fsutil.ChangeKindAdd, st.Path, &fsutil.StatInfo{Stat: st}, nil); err != nil {
			return L(NI(i))
		}
	}
	return L()
}

// kind 1103: what Send puts on the wire for a filtered source, without the transfer:
// input: (view include-raw exclude-raw maptable)
// output: (#ffff) NewFilterFS failed
//       | (#0 inc exc ptable calls opens vverdict hverdict)
//   calls  = stats reported by the real WithHardlinkReset(NewFilterFS(MemFS(view), opt)).Walk
//   opens  = ((path allowed) ...) for every regular file of the FULL view, in walk order: allowed = 1 the
//            same FS opens it and serves the node's bytes, 0 Open fails, 2 Open serves other bytes
//   vverdict / hverdict = the real order validator / hard-link validator on calls
func run1103(in Sx) Sx {
	defer quietStderr()()
	return guardedC10(func() Sx {
		view := SxView(in.L[0])
		inc, exc := sxStrings(in.L[1]), sxStrings(in.L[2])
		ffs, err := fsutil.NewFilterFS(&MemFS{Roots: view}, &fsutil.FilterOpt{IncludePatterns: inc, ExcludePatterns: exc, Map: mapFromTable(in.L[3])})
		if err != nil {
			return L(N(0xffff))
		}
		fs := fsutil.WithHardlinkReset(ffs)
		var calls []Sx
		var stats []*types.Stat
		bad := false
		err = fs.Walk(context.Background(), "/", func(p string, d gofs.DirEntry, err error) error {
			if err != nil {
				return err
			}
			fi, err := d.Info()
			if err != nil {
				return err
			}
			st := fi.Sys().(*types.Stat).CloneVT()
			if st.Path != p {
				bad = true
			}
			calls = append(calls, StatSx(st))
			stats = append(stats, st)
			return nil
		})
		if err != nil || bad {
			return L(N(0xfffc))
		}
		var opens []Sx
		var rec func(dir string, ns []*MNode)
		rec = func(dir string, ns []*MNode) {
			for _, n := range ns {
				p := n.Name
				if dir != "" {
					p = dir + "/" + n.Name
				}
				if os.FileMode(n.Stat.Mode)&os.ModeType == 0 {
					allowed := 0
					if rc, err := fs.Open(p); err == nil {
						b, rerr := io.ReadAll(rc)
						rc.Close()
						allowed = 2
						if rerr == nil && bytes.Equal(b, n.Content) {
							allowed = 1
						}
					}
					opens = append(opens, L(S(p), NI(allowed)))
				}
				rec(p, n.Kids)
			}
		}
		rec("", view)
		is, err1 := patsSx(inc)
		es, err2 := patsSx(exc)
		if err1 != nil || err2 != nil {
			return L(N(0xfffb))
		}
		tbl := pmatchTable(append(append([]string{}, inc...), exc...), withPrefixes(viewPaths(view)))
		v := &fsutil.Validator{}
		hv := &fsutil.Hardlinks{}
		return L(N(0), is, es, L(tbl...), L(calls...), L(opens...), c11Verdict(stats, v.HandleChange), c11Verdict(stats, hv.HandleChange))
	})
}

// input: (view); output: (stats reported by the real WithHardlinkReset(MemFS).Walk, real Hardlinks validator verdict)
func run1101(in Sx) Sx {
	view := SxView(in.L[0])
	fs := fsutil.WithHardlinkReset(&MemFS{Roots: view})
	var out []Sx
	var stats []*types.Stat
	err := fs.Walk(context.Background(), "/", func(p string, d gofs.DirEntry, err error) error {
		if err != nil {
			return err
		}
		fi, err := d.Info()
		if err != nil {
			return err
		}
		st := fi.Sys().(*types.Stat)
		out = append(out, StatSx(st))
		stats = append(stats, st)
		return nil
	})
	if err != nil {
		return L(L(), L(N(0xffff)))
	}
	hv := &fsutil.Hardlinks{}
	verdict := L()
	for i, st := range stats {
		if err := hv.HandleChange(fsutil.ChangeKindAdd, st.Path, &fsutil.StatInfo{Stat: st}, nil); err != nil {
			verdict = L(NI(i))
			break
		}
	}
	return L(L(out...), verdict)
}


// ---- kind 1105: an ON-DISK source walked by the real NewFS, first names of link groups hidden AFTER
// their inode was registered by the base walk, transferred TWICE into the same destination ----
// input: (view hidden stack)  hidden = non-directory paths to hide; stack 0: a MapFunc answers Exclude
//        for them; stack 1: ExcludePatterns (the literal paths) of an OUTER filter over an inner
//        pass-through NewFilterFS(&FilterOpt{}) that stats every entry (as in TestHardlinkFilter)
// output: (src_snapshot calls (se1 re1 hung1) dest_snapshot1 #reqs1 (se2 re2 hung2) dest_snapshot2 #reqs2)
//   src_snapshot / dest_snapshot = independent lstat records (harness/disk.go), calls = stats announced
//   by WithHardlinkReset(stack(NewFS(src))).Walk, reqs = content requests the receiver sent
func c11DiskStack(src string, hidden map[string]bool, stack int) (fsutil.FS, error) {
	base, err := fsutil.NewFS(src)
	if err != nil {
		return nil, err
	}
	if stack == 0 {
		return fsutil.NewFilterFS(base, &fsutil.FilterOpt{Map: func(p string, st *types.Stat) fsutil.MapResult {
			if hidden[p] {
				return fsutil.MapResultExclude
			}
			return fsutil.MapResultKeep
		}})
	}
	inner, err := fsutil.NewFilterFS(base, &fsutil.FilterOpt{})
	if err != nil {
		return nil, err
	}
	var exc []string
	for p := range hidden {
		exc = append(exc, p)
	}
	sort.Strings(exc)
	return fsutil.NewFilterFS(inner, &fsutil.FilterOpt{ExcludePatterns: exc})
}

// c11GroupXattrs gives regular-file link groups user.* xattrs: they belong to the inode, so every
// name of the group carries the same set (as llistxattr / lgetxattr report for each name).
// Returns the number of groups that got xattrs.
func c11GroupXattrs(r *Rng, v []*MNode, pct int) int {
	byPath := map[string]*MNode{}
	var order []*MNode
	var walk func(dir string, ns []*MNode)
	walk = func(dir string, ns []*MNode) {
		for _, k := range ns {
			p := k.Name
			if dir != "" {
				p = dir + "/" + k.Name
			}
			byPath[p] = k
			order = append(order, k)
			walk(p, k.Kids)
		}
	}
	walk("", v)
	n := 0
	done := map[*MNode]bool{}
	for _, k := range order {
		if k.Stat.Linkname == "" || os.FileMode(k.Stat.Mode)&os.ModeType != 0 {
			continue
		}
		src := byPath[k.Stat.Linkname]
		if src == nil {
			continue
		}
		if !done[src] {
			done[src] = true
			if r.Chance(pct) {
				src.Stat.Xattrs = map[string][]byte{"user.k" + string(rune('a'+r.Intn(3))): fillContent(r, 1+r.Intn(6))}
				if r.Chance(30) {
					src.Stat.Xattrs["user.z"] = []byte{0, 1, 2}
				}
				n++
			} else {
				src.Stat.Xattrs = nil
			}
		}
		k.Stat.Xattrs = nil
		if src.Stat.Xattrs != nil {
			k.Stat.Xattrs = map[string][]byte{}
			for a, b := range src.Stat.Xattrs {
				k.Stat.Xattrs[a] = b
			}
		}
	}
	return n
}

// Materialize creates every FIFO / device name as a node of its own; make the further names of such
// a link group real hard links
func c11LinkSpecials(view []*MNode, dir string) error {
	for _, st := range WalkEntries(view) {
		if st.Linkname != "" && c11Plain(st.Mode) && os.FileMode(st.Mode)&os.ModeType != 0 {
			p := filepath.Join(dir, st.Path)
			if err := os.Remove(p); err != nil {
				return err
			}
			if err := os.Link(filepath.Join(dir, st.Linkname), p); err != nil {
				return err
			}
		}
	}
	return nil
}

func c11Errs(res TransferResult) Sx {
	return L(errClass(res.SendErr), errClass(res.RecvErr), Bool(res.Hung))
}

func c11Reqs(res TransferResult) int {
	n := 0
	for _, lp := range res.Log {
		if lp.From == "r" && lp.P.Type == types.PACKET_REQ {
			n++
		}
	}
	return n
}

func run1105(in Sx) Sx {
	view := SxView(in.L[0])
	hidden := map[string]bool{}
	for _, h := range in.L[1].L {
		hidden[h.Str()] = true
	}
	stack := in.L[2].Int()
	fail := func(code int) Sx { return L(N(uint64(code))) }
	work := WorkDir("c11d-")
	defer os.RemoveAll(work)
	src, dest := filepath.Join(work, "src"), filepath.Join(work, "dest")
	if err := os.Mkdir(src, 0755); err != nil {
		return fail(0xfff0)
	}
	if err := os.Mkdir(dest, 0755); err != nil {
		return fail(0xfff0)
	}
	if err := Materialize(view, src); err != nil {
		return fail(0xfff1)
	}
	if err := c11LinkSpecials(view, src); err != nil {
		return fail(0xfff1)
	}
	ssnap, err := SnapshotRaw(src, true)
	if err != nil {
		return fail(0xfff2)
	}
	fs0, err := c11DiskStack(src, hidden, stack)
	if err != nil {
		return fail(0xfff3)
	}
	var calls []Sx
	err = fsutil.WithHardlinkReset(fs0).Walk(context.Background(), "/", func(p string, d gofs.DirEntry, err error) error {
		if err != nil {
			return err
		}
		fi, err := d.Info()
		if err != nil {
			return err
		}
		calls = append(calls, StatSx(fi.Sys().(*types.Stat).CloneVT()))
		return nil
	})
	if err != nil {
		return fail(0xfff4)
	}
	var parts []Sx
	for round := 0; round < 2; round++ {
		fsr, err := c11DiskStack(src, hidden, stack)
		if err != nil {
			return fail(0xfff3)
		}
		res := RunTransfer(TransferCfg{Src: fsr, Dest: dest, StreamCap: 16})
		snap, err := SnapshotRaw(dest, true)
		if err != nil {
			return fail(0xfff5)
		}
		parts = append(parts, c11Errs(res), RawListSx(snap), NI(c11Reqs(res)))
	}
	return L(append([]Sx{RawListSx(ssnap), L(calls...)}, parts...)...)
}

// c11NearPrefixList: a pattern list on the boundary of filter.go's "prefix-only" classification
// (NewFilterFS onlyPrefixIncludes / onlyPrefixExcludeExceptions, which arm the SkipDir shortcuts of
// filterFS.Walk): wildcard-free prefixes (literal, L/*, L/**) plus ONE pattern whose tail is a stack
// of two or more trailing globs below a directory of the view (L/*/**, L/**/*, L/*/*, L/**/**,
// L/*/**/*, also with empty L): patternWithoutTrailingGlob must strip exactly one of them.
// side 'i': include list, the stacked pattern is an inclusion; side 'e': exclude list = something
// covering L plus the stacked pattern as an exception ('!').
func c11NearPrefixList(r *Rng, paths []string, side byte) []string {
	base := ""
	if len(paths) > 0 {
		cs := splitPath(Pick(r, paths))
		for try := 0; try < 4 && len(cs) < 3; try++ { // prefer paths with something two levels below L
			cs = splitPath(Pick(r, paths))
		}
		k := 1
		if len(cs) > 2 {
			k = 1 + r.Intn(len(cs)-2)
		}
		if len(cs) > 1 || r.Chance(70) {
			base = strings.Join(cs[:k], "/") + "/"
		}
	}
	stacked := base + Pick(r, []string{"*/**", "*/**", "*/**", "**/*", "*/*", "**/**", "*/**/*"})
	var out []string
	if side == 'e' {
		cover := strings.TrimSuffix(base, "/")
		if cover == "" || r.Chance(30) {
			cover = Pick(r, []string{"*", "**"})
			if len(paths) > 0 && r.Bool() {
				cover = splitPath(Pick(r, paths))[0]
			}
		}
		out = append(out, cover, "!"+stacked)
	} else {
		out = append(out, stacked)
	}
	for n := r.Intn(3); n > 0; n-- {
		q, _ := genPrefixPattern(r, paths)
		if side == 'e' && r.Bool() {
			q = "!" + q
		}
		if validPattern(q) {
			if r.Bool() {
				out = append(out, q)
			} else {
				out = append([]string{q}, out...)
			}
		}
	}
	return out
}


// ---- FilterOpt with FollowPaths: the include list NewFilterFS assembles is order-sensitive ----

// c11FollowView: a view with hard-link groups in which some entries are symlinks to entries that
// exist (files and directories, relative and absolute targets)
func c11FollowView(r *Rng, names []string) []*MNode {
	v := GenView(r, TreeOpts{MaxEntries: 6 + r.Intn(10), MaxDepth: 3, Names: names, Types: r.Chance(30), HardLinks: true})
	if r.Chance(40) {
		c11LinkGroups(r, v, 30)
	}
	type ent struct {
		n    *MNode
		path string
	}
	var all []ent
	named := map[string]bool{}
	var walk func(dir string, ns []*MNode)
	walk = func(dir string, ns []*MNode) {
		for _, k := range ns {
			p := k.Name
			if dir != "" {
				p = dir + "/" + k.Name
			}
			all = append(all, ent{k, p})
			if k.Stat.Linkname != "" && c11Plain(k.Stat.Mode) {
				named[k.Stat.Linkname] = true
			}
			walk(p, k.Kids)
		}
	}
	walk("", v)
	want := 1 + r.Intn(3)
	for try := 0; try < 12 && want > 0 && len(all) > 1; try++ {
		e := Pick(r, all)
		if e.n.IsDir() || e.n.Stat.Linkname != "" || named[e.path] {
			continue
		}
		t := Pick(r, all)
		if t.path == e.path {
			continue
		}
		target := "/" + t.path
		if r.Chance(60) {
			target = c18Rel(c18Parent(e.path), t.path)
		}
		e.n.Stat = &types.Stat{Mode: uint32(os.ModeSymlink | 0777), Linkname: target, Size: int64(len(target)), ModTime: e.n.Stat.ModTime}
		e.n.Content = nil
		want--
	}
	return v
}

// c11FollowCase: (include, exclude, follow) for a view: include lists with '!' exceptions AFTER
// positive patterns (order-sensitive), FollowPaths naming links, paths through links, plain paths
func c11FollowCase(r *Rng, v []*MNode, classes map[string]int) (inc, exc, follow []string) {
	paths := viewPaths(v)
	var links, dirs []string
	for _, st := range WalkEntries(v) {
		if os.FileMode(st.Mode)&os.ModeSymlink != 0 {
			links = append(links, st.Path)
		}
		if os.FileMode(st.Mode).IsDir() {
			dirs = append(dirs, st.Path)
		}
	}
	if len(paths) == 0 {
		return nil, nil, nil
	}
	below := func(d string) []string {
		var out []string
		for _, p := range paths {
			if strings.HasPrefix(p, d+"/") {
				out = append(out, p)
			}
		}
		return out
	}
	switch r.Intn(10) {
	case 0: // FollowPaths only
	case 1, 2, 3, 4, 5: // positive, exception below it, possibly a re-inclusion below the exception / elsewhere
		pos := Pick(r, paths)
		if len(dirs) > 0 && r.Chance(80) {
			pos = Pick(r, dirs)
		}
		if r.Chance(25) {
			pos = Pick(r, []string{"*", "**", splitPath(pos)[0] + "/**", splitPath(pos)[0]})
		}
		inc = append(inc, pos)
		cands := below(strings.TrimSuffix(strings.TrimSuffix(pos, "/**"), "*"))
		if len(cands) == 0 {
			cands = paths
		}
		ex := Pick(r, cands)
		inc = append(inc, "!"+ex)
		if r.Chance(50) {
			re := below(ex)
			if len(re) > 0 && r.Chance(70) {
				inc = append(inc, Pick(r, re))
			} else {
				q, _ := genPrefixPattern(r, paths)
				inc = append(inc, q)
			}
		}
		if r.Chance(30) {
			inc = append(inc, "!"+Pick(r, paths))
		}
		classes["positive-then-exception"]++
	default:
		inc = genPatternList(r, paths, v, classes, 0)
	}
	if r.Chance(30) {
		exc = genPatternList(r, paths, v, classes, 2)
	}
	// two requested entries (or an entry and a link to the other) whose resolved paths are
	// prefix-related as strings but not as paths ("lib" / "lib64"): both must stay in the target set
	var pairs [][2]string
	for _, a := range paths {
		for _, b := range paths {
			if len(b) > len(a) && strings.HasPrefix(b, a) && b[len(a)] != '/' {
				pairs = append(pairs, [2]string{a, b})
			}
		}
	}
	if len(pairs) > 0 && r.Chance(50) {
		pr := Pick(r, pairs)
		follow = append(follow, pr[0], pr[1])
		classes["follow-prefix-named-pair"]++
	}
	for n := 1 + r.Intn(3); n > 0; n-- {
		switch x := r.Intn(10); {
		case x < 6 && len(links) > 0:
			l := Pick(r, links)
			if r.Chance(25) { // a path through the link
				l = l + "/" + Pick(r, []string{"a", "b", "c", "d"})
			}
			follow = append(follow, l)
		case x < 9:
			follow = append(follow, Pick(r, paths))
		default:
			follow = append(follow, Pick(r, []string{"zz", "a/zz", "./a", "a/../b", "/a"}))
		}
	}
	return inc, exc, follow
}

// c11FollowInDomain: false = late-shadow domain (K1) of the list handed to the matcher
// (user patterns in order, then the targets the real FollowLinks returns) or of the exclude list
func c11FollowInDomain(v []*MNode, inc, exc, follow []string) bool {
	paths := viewPaths(v)
	fl := c18Follow(&c18FS{m: &MemFS{Roots: v}}, follow)
	stated := inc
	if len(fl.L) == 3 && fl.L[0].U64() == 0 && !fl.L[1].IsTrue() {
		stated = append(append([]string{}, inc...), c11Targets(fl)...)
	}
	return c11ModesAgree(stated, paths) && c11ModesAgree(exc, paths)
}

// c11Plain: the entries hardlinkFilter.Walk and the Hardlinks validator look at: everything that is
// neither a directory nor a symlink (regular files, FIFOs, devices, sockets). mkstat gives a Linkname
// to every such entry with Nlink > 1 whose inode was seen before.
func c11Plain(m uint32) bool {
	return os.FileMode(m)&(os.ModeDir|os.ModeSymlink) == 0
}

// number of link members that are not regular files (FIFO / device names of one inode)
func c11SpecialLinks(v []*MNode) int {
	n := 0
	for _, st := range WalkEntries(v) {
		if st.Linkname != "" && c11Plain(st.Mode) && os.FileMode(st.Mode)&os.ModeType != 0 {
			n++
		}
	}
	return n
}

// c11LinkGroups turns plain entries into further names of EARLIER plain entries (in walk order), as
// the disk walker reports several names of one inode: same Stat (type, device numbers, metadata),
// same content, Linkname = path of the first name. Sources are preferably non-regular inodes (FIFO,
// char/block device). A link never names a link, an entry that is named stays a source
// (Hardlinks.wf_links). Some symlinks get a target that is literally the path of a plain entry:
// symlinks carry their target in Linkname and must pass through untouched.
func c11LinkGroups(r *Rng, v []*MNode, pct int) {
	var plain, syms []*MNode
	paths := map[*MNode]string{}
	var walk func(dir string, ns []*MNode)
	walk = func(dir string, ns []*MNode) {
		for _, k := range ns {
			p := k.Name
			if dir != "" {
				p = dir + "/" + k.Name
			}
			paths[k] = p
			if c11Plain(k.Stat.Mode) {
				plain = append(plain, k)
			} else if os.FileMode(k.Stat.Mode)&os.ModeSymlink != 0 {
				syms = append(syms, k)
			}
			walk(p, k.Kids)
		}
	}
	walk("", v)
	named := map[string]bool{}
	for _, k := range plain {
		if k.Stat.Linkname != "" {
			named[k.Stat.Linkname] = true
		}
	}
	// make sure non-regular inodes exist: turn an unlinked regular file into a FIFO / device
	if len(plain) >= 2 && r.Chance(60) {
		k := plain[r.Intn(len(plain)-1)]
		if k.Stat.Linkname == "" && !named[paths[k]] && os.FileMode(k.Stat.Mode)&os.ModeType == 0 {
			k.Content, k.Stat.Size, k.Stat.Xattrs = nil, 0, nil
			switch r.Intn(3) {
			case 0:
				k.Stat.Mode = uint32(os.ModeNamedPipe | 0644)
			case 1:
				k.Stat.Mode = uint32(os.ModeDevice|os.ModeCharDevice) | 0600
				k.Stat.Devmajor, k.Stat.Devminor = int64(1+r.Intn(5)), int64(r.Intn(300))
			default:
				k.Stat.Mode = uint32(os.ModeDevice) | 0660
				k.Stat.Devmajor, k.Stat.Devminor = int64(7+r.Intn(3)), int64(r.Intn(5))
			}
		}
	}
	for j := 1; j < len(plain); j++ {
		if plain[j].Stat.Linkname != "" || named[paths[plain[j]]] || !r.Chance(pct) {
			continue
		}
		var srcs, special []*MNode
		for _, s := range plain[:j] {
			if s.Stat.Linkname == "" {
				srcs = append(srcs, s)
				if os.FileMode(s.Stat.Mode)&os.ModeType != 0 {
					special = append(special, s)
				}
			}
		}
		if len(srcs) == 0 {
			continue
		}
		src := Pick(r, srcs)
		if len(special) > 0 && r.Chance(70) {
			src = Pick(r, special)
		}
		plain[j].Stat = src.Stat.CloneVT()
		plain[j].Content = src.Content
		plain[j].Stat.Linkname = paths[src]
		named[paths[src]] = true
	}
	for _, k := range syms {
		if len(plain) > 0 && r.Chance(25) {
			k.Stat.Linkname = paths[Pick(r, plain)]
			k.Stat.Size = int64(len(k.Stat.Linkname))
		}
	}
}

// dropNodes removes random nodes (files, and whole directories) from a view: what filters do.
func dropNodes(r *Rng, ns []*MNode, pct int) ([]*MNode, int) {
	var out []*MNode
	dropped := 0
	for _, n := range ns {
		if r.Chance(pct) {
			dropped++
			continue
		}
		c := &MNode{Name: n.Name, Stat: n.Stat.CloneVT(), Content: n.Content}
		if n.IsDir() {
			var d int
			c.Kids, d = dropNodes(r, n.Kids, pct)
			dropped += d
		}
		out = append(out, c)
	}
	return out, dropped
}

func genC11(g *Gen) {
	n := g.Vol(3000, 60000)
	small := []string{"a", "b", "ab", "a-b", "c", "d", "e"}
	for i := 0; i < n; i++ {
		r := g.Rng
		o := TreeOpts{MaxEntries: 4 + r.Intn(12), MaxDepth: 3, Names: small, Types: r.Chance(50), HardLinks: true}
		v := GenView(r, o)
		if r.Chance(60) { // more link groups, of every inode type that can have several names
			c11LinkGroups(r, v, 40)
		}
		links := 0
		for _, st := range WalkEntries(v) {
			if st.Linkname != "" && os.FileMode(st.Mode)&os.ModeSymlink == 0 {
				links++
			}
		}
		filtered, dropped := dropNodes(r, v, 25)
		cls := "no-links"
		if links > 0 {
			cls = "links"
			if dropped > 0 {
				cls = "links+dropped"
			}
		}
		if c11SpecialLinks(v) > 0 {
			cls += "+nonregular-group"
		}
		g.Emit(0x1101, L(ViewSx(filtered)), links > 0 && dropped > 0, cls)
	}

	// end-to-end: filtered views (no '!' patterns here: the late-shadow behaviour of the incremental
	// matcher (known finding K1) is judged by C10; with it walk and Open may legitimately differ)
	pats := []string{"a", "b", "ab", "a-b", "c", "d", "e", "a/*", "a/**", "*", "**/a", "?", "a*", "*/b", "d/e", "[a-c]", "a/b"}
	m := g.Vol(600, 8000)
	for i := 0; i < m; i++ {
		r := g.Rng
		o := TreeOpts{MaxEntries: 4 + r.Intn(12), MaxDepth: 3, Names: small, Types: r.Chance(40), HardLinks: true, Owners: true}
		v := GenView(r, o)
		if r.Chance(50) {
			c11LinkGroups(r, v, 35)
		}
		var inc, exc []Sx
		near := i%5 == 4
		if near { // stacked trailing globs next to wildcard-free prefixes, on a deep view
			if r.Bool() {
				v = c10DeepView(r, []string{"a", "b", "ab", "c", "d"})
				c11LinkGroups(r, v, 35)
			}
			ps := viewPaths(v)
			var raw []string
			for try := 0; try < 5; try++ {
				raw = c11NearPrefixList(r, ps, "ie"[i/5%2])
				if c11ModesAgree(raw, ps) { // otherwise: late-shadow domain (known finding K1)
					break
				}
				raw = nil
			}
			for _, q := range raw {
				if i/5%2 == 0 {
					inc = append(inc, S(q))
				} else {
					exc = append(exc, S(q))
				}
			}
		} else {
			for k := r.Intn(3); k > 0; k-- {
				inc = append(inc, S(Pick(r, pats)))
			}
			for k := r.Intn(3); k > 0; k-- {
				exc = append(exc, S(Pick(r, pats)))
			}
		}
		cls := "e2e-unfiltered"
		if len(inc)+len(exc) > 0 {
			cls = "e2e-filtered"
		}
		if near {
			cls += "+stacked-trailing-globs"
		}
		links := 0
		for _, st := range WalkEntries(v) {
			if st.Linkname != "" && os.FileMode(st.Mode)&os.ModeSymlink == 0 {
				links++
			}
		}
		if c11SpecialLinks(v) > 0 {
			cls += "+nonregular-group"
		}
		g.Emit(0x1102, L(ViewSx(v), L(inc...), L(exc...)), links > 0 && len(inc)+len(exc) > 0, cls)
	}

	// what the sender announces for a filtered source with hard links, and Open on every file:
	// pattern lists and map tables as in C10, views with link groups spread over the tree.
	// '!' patterns are allowed: cases in the late-shadow domain of the incremental matcher (K1)
	// and with unsafe L/* literals are recognised by the glue and judged by C10, not here.
	defer quietStderr()()
	classes := map[string]int{}
	skippedK1 := 0
	k := g.Vol(1500, 30000)
	for i := 0; i < k; i++ {
		r := g.Rng
		names := small
		if i%3 == 0 {
			names = []string{"a", "b", "ab", "c", "a.b"}
		}
		unsafeNames := i%20 == 19 // L/* literals the library reads as a regular expression (C10 unsafe-star-literal):
		if unsafeNames {         // pruning is observable there, the stream must stay valid all the same
			names = append(append([]string{}, small[:4]...), c10UnsafeNames...)
		}
		v := GenView(r, TreeOpts{MaxEntries: 5 + r.Intn(12), MaxDepth: 4, Names: names, Types: r.Chance(45), HardLinks: true, Owners: r.Chance(30)})
		if i%6 == 5 && r.Bool() { // deep bushy views for the stacked-trailing-glob class
			v = c10DeepView(r, names)
		}
		escaped := i%12 == 10 // names with literal metacharacters, addressed by backslash-escaped patterns
		if escaped {
			v = c10DeepView(r, append([]string{"a", "b", "app", "c"}, c10MetaNames...))
		}
		if r.Chance(50) {
			c11LinkGroups(r, v, 35)
		}
		paths := viewPaths(v)
		isDir := map[string]bool{}
		links := 0
		for _, st := range WalkEntries(v) {
			isDir[st.Path] = os.FileMode(st.Mode).IsDir()
			if st.Linkname != "" && os.FileMode(st.Mode)&os.ModeSymlink == 0 {
				links++
			}
		}
		var inc, exc []string
		near := i%6 == 5
		var escl []string
		var escSide byte
		if escaped {
			escl, escSide = c10EscapedList(r, paths, classes)
		}
		switch {
		case escl != nil && escSide == 'i':
			inc = escl
		case escl != nil:
			exc = escl
		case escaped: // never build unescaped patterns from names with metacharacters
			if len(paths) > 0 {
				inc = []string{c10Escape(Pick(r, paths))}
			}
		case near && i/6%2 == 0:
			inc = c11NearPrefixList(r, paths, 'i')
			classes["stacked-trailing-globs"]++
		case near:
			exc = c11NearPrefixList(r, paths, 'e')
			classes["!stacked-trailing-globs"]++
		case i%4 == 0:
			inc = genPatternList(r, paths, v, classes, 1)
		case i%4 == 1:
			exc = genPatternList(r, paths, v, classes, 2)
		default:
			inc = genPatternList(r, paths, v, classes, 0)
			exc = genPatternList(r, paths, v, classes, 0)
		}
		// exclude the source of a link group: the reset has to act
		if links > 0 && r.Chance(35) {
			var srcs []string
			for _, st := range WalkEntries(v) {
				if st.Linkname != "" && os.FileMode(st.Mode)&os.ModeSymlink == 0 {
					srcs = append(srcs, st.Linkname)
				}
			}
			if q := c10Escape(Pick(r, srcs)); validPattern(q) { // the pattern that matches exactly that path
				exc = append(exc, q)
			}
		}
		mt := L()
		cls := "wire"
		if near {
			cls += "+stacked-trailing-globs"
		}
		if escl != nil {
			cls += "+escaped-metachars"
		}
		if unsafeNames {
			cls += "+unsafe-names"
		}
		if i%5 == 4 {
			mt = genMapTable(r, paths, isDir)
			if len(mt.L) > 0 {
				cls += "+map"
			}
		}
		if links > 0 {
			cls += "+links"
		}
		if c11SpecialLinks(v) > 0 {
			cls += "+nonregular-group"
		}
		if len(inc)+len(exc) == 0 {
			cls += "+nopatterns"
		}
		if !c11ModesAgree(inc, paths) || !c11ModesAgree(exc, paths) {
			// the library's incremental and one-shot evaluation disagree on a path of this view:
			// known finding K1 (late-shadow), registered for and judged by C10 (kinds 1001/1002)
			skippedK1++
			continue
		}
		in := L(ViewSx(v), stringsSx(inc), stringsSx(exc), mt)
		out := run1103(in)
		// non-trivial: the reset acted (an announced link name differs from the source's: a link
		// source was filtered out)
		reset := false
		if len(out.L) == 8 {
			orig := map[string]string{}
			for _, st := range WalkEntries(v) {
				orig[st.Path] = st.Linkname
			}
			for _, c := range out.L[4].L {
				st := SxStat(c)
				if orig[st.Path] != st.Linkname {
					reset = true
				}
			}
			if reset {
				cls += "+reset"
			}
		}
		g.EmitWith(0x1103, in, out, reset, cls)
	}
	// FilterOpt combining IncludePatterns (with '!' exceptions after positive patterns), ExcludePatterns
	// and FollowPaths: Walk + Open + validators (kind 1104) and the transfer (kind 1102 with follow)
	nf := g.Vol(900, 16000)
	for i := 0; i < nf; i++ {
		r := g.Rng
		names := small
		if i%3 == 0 {
			names = []string{"a", "b", "ab", "c", "l"}
		}
		if i%3 == 1 { // names one of which is a byte prefix of another WITHOUT a separator at the boundary
			names = []string{"a", "a.", "a-", "a b", "ab", "lib", "lib64", "l"}
		}
		v := c11FollowView(r, names)
		inc, exc, follow := c11FollowCase(r, v, classes)
		if len(follow) == 0 {
			continue
		}
		if !c11FollowInDomain(v, inc, exc, follow) {
			skippedK1++
			continue
		}
		exception := false
		for j, q := range inc {
			if j > 0 && strings.HasPrefix(strings.TrimSpace(q), "!") && !strings.HasPrefix(strings.TrimSpace(inc[0]), "!") {
				exception = true
			}
		}
		resolved := len(c11Targets(c18Follow(&c18FS{m: &MemFS{Roots: v}}, follow))) > 0
		cls := "follow"
		if exception {
			cls += "+exception-after-positive"
		}
		if resolved {
			cls += "+targets"
		}
		if len(exc) > 0 {
			cls += "+exc"
		}
		if i%6 == 5 {
			g.Emit(0x1102, L(ViewSx(v), stringsSx(inc), stringsSx(exc), stringsSx(follow)), exception && resolved, "e2e-"+cls)
		} else {
			g.Emit(0x1104, L(ViewSx(v), stringsSx(inc), stringsSx(exc), stringsSx(follow)), exception && resolved, cls)
		}
	}
	// on-disk sources (real NewFS): hide first names of link groups after the base walk registered
	// their inode, announce, transfer twice
	nd := g.Vol(250, 4000)
	for i := 0; i < nd; i++ {
		r := g.Rng
		v := GenView(r, TreeOpts{MaxEntries: 5 + r.Intn(10), MaxDepth: 3, Names: small, Types: r.Chance(35), HardLinks: true, Owners: r.Chance(40)})
		c11LinkGroups(r, v, 45)
		xg := c11GroupXattrs(r, v, 70)
		// members per link source
		members := map[string]int{}
		var files []string
		for _, st := range WalkEntries(v) {
			if os.FileMode(st.Mode).IsDir() {
				continue
			}
			files = append(files, st.Path)
			if st.Linkname != "" && c11Plain(st.Mode) {
				members[st.Linkname]++
			}
		}
		var hid []Sx
		srcHidden, multi := false, false
		for _, p := range files {
			switch {
			case members[p] > 0 && r.Chance(65):
				hid = append(hid, S(p))
				srcHidden = true
				if members[p] >= 2 {
					multi = true
				}
			case r.Chance(10):
				hid = append(hid, S(p))
			}
		}
		stack := r.Intn(2)
		cls := "disk"
		if stack == 1 {
			cls += "+nested-filters"
		} else {
			cls += "+map-exclude"
		}
		if srcHidden {
			cls += "+first-name-hidden"
		}
		if multi {
			cls += "+two-survivors"
		}
		if c11SpecialLinks(v) > 0 {
			cls += "+nonregular-group"
		}
		if xg > 0 {
			cls += "+group-xattrs"
		}
		g.Emit(0x1105, L(ViewSx(v), L(hid...), NI(stack)), srcHidden, cls)
	}
	g.Note("c11_pattern_classes", classes)
	g.Note("c11_skipped_late_shadow_configurations", skippedK1)
}

// c11ModesAgree: on every path, patternmatcher's MatchesUsingParentResults handed down from the
// root gives the verdict of MatchesOrParentMatches (false only in the K1 / late-shadow situation)
func c11ModesAgree(raws []string, paths []string) bool {
	if len(raws) == 0 {
		return true
	}
	pm, err := patternmatcher.New(raws)
	if err != nil {
		return true
	}
	for _, p := range paths {
		naive, err := pm.MatchesOrParentMatches(p)
		if err != nil {
			return true
		}
		info := patternmatcher.MatchInfo{}
		m := false
		for _, pre := range relPrefixes(p) {
			var ni patternmatcher.MatchInfo
			m, ni, err = pm.MatchesUsingParentResults(pre, info)
			if err != nil {
				return true
			}
			info = ni
		}
		if m != naive {
			return false
		}
	}
	return true
}
