package main

// C06 (kind 0601): real fsutil.Send over a MemFS view against the reference receiver.
// C07 (kind 0701): real fsutil.Receive into a scratch directory against the reference sender.
// The observable is the event trace at the boundary of the real endpoint (see c0607_tap.go),
// which the extracted acceptors (FS.Model.SenderAcc / ReceiverAcc) and the extracted clause
// checkers (FS.Glue.C06G / C07G) judge.  Goroutine scheduling makes traces differ from run
// to run; the verdict only depends on "accepted + clauses hold".

import (
	"context"
	"fmt"
	"os"
	"path"
	"path/filepath"
	"sort"
	"strings"
	"syscall"
	"time"

	"github.com/pkg/errors"
	"github.com/tonistiigi/fsutil"
	"github.com/tonistiigi/fsutil/types"
)

func init() {
	kinds[0x0601] = run0601
	kinds[0x0701] = run0701
	props["C06"] = genC06
	props["C07"] = genC07
}

const (
	c0607Watchdog     = 10 * time.Second // total running time of the call under test
	c0607IdleWatchdog = 4 * time.Second  // time without any event at its boundary
	// A hung call is a violation on its own.  Once this many generated cases have hung the
	// generator stops (and says so in the evidence): a tree that deadlocks on a whole class of
	// inputs must be reported quickly instead of spending a watchdog period on every member.
	c0607HangBudget = 3
)

// ---------------------------------------------------------------- C06 runner

// input: (view (openfail-path ...) ((( when id ) ...) ending) capacity chunklen walkfail [transport [holds [subdirs]]])
//
//	walkfail: 0 = none, j+1 = the walk fails before reporting entry j (j = #entries: after the last)
//	transport: see c0607_transport.go (absent = 0)
//	holds: ((kind n) ...) sends of Send that are kept in flight, see c0607Hold in c0607_tap.go
//	subdirs: (name ...): the source is fsutil.SubDirFS over the top-level directories of the view
//	(each a MemFS of its own), listed in this order; () or absent = one MemFS over the whole view
//
// output: (trace hang late (sendoverlaps recvoverlaps))
//
//	hang: 0 returned, 1 returned only after tear-down, 2 never returned; late = stream calls
//	attempted after Send had returned; overlaps = SendMsg (RecvMsg) calls of Send on the
//	caller's stream that began while another SendMsg (RecvMsg) was still in flight
func run0601(in Sx) (out Sx) {
	defer func() {
		if r := recover(); r != nil {
			out = L(L(), N(3), N(0), L(N(0), N(0)), S(fmt.Sprint(r)))
		}
	}()
	view := SxView(in.L[0])
	openfail := map[string]bool{}
	for _, p := range in.L[1].L {
		openfail[p.Str()] = true
	}
	var script refRecvScript
	for _, op := range in.L[2].L[0].L {
		script.Ops = append(script.Ops, refReqOp{When: op.L[0].Int(), ID: uint32(op.L[1].U64())})
	}
	script.Ending = in.L[2].L[1].Int()
	capacity := in.L[3].Int()
	chunk := in.L[4].Int()
	walkfail := in.L[5].Int()
	transport := 0
	if len(in.L) > 6 {
		transport = in.L[6].Int()
	}

	ctx, cancel := context.WithCancel(context.Background())
	defer cancel()
	var holds []c0607Hold
	if len(in.L) > 7 {
		holds = c0607SxHolds(in.L[7])
	}
	sp := c0607NewWire(ctx, transport, capacity)
	tap := &Tap{}
	conn := c0607TapOn(sp, tap, holds)
	defer conn.Stop()
	mfs := &MemFS{Roots: view, ChunkLen: chunk}
	mfs.OpenHook = func(p string) error {
		if openfail[p] {
			return errors.WithStack(&os.PathError{Op: "open", Path: p, Err: syscall.EACCES})
		}
		return nil
	}
	total := len(WalkEntries(view))
	if walkfail > 0 {
		j := walkfail - 1
		if j < total {
			mfs.WalkHook = func(idx int, p string) error {
				if idx == j {
					tap.Fault()
					return errors.Errorf("injected walk failure at %d", idx)
				}
				return nil
			}
		}
	}
	// the source as a composite: every top-level directory of the view is its own FS, handed to
	// fsutil.SubDirFS in the order given by the case (any order: SubDirFS has to sort)
	var src fsutil.FS = mfs
	if len(in.L) > 8 && len(in.L[8].L) > 0 {
		byName := map[string]*MNode{}
		for _, n := range view {
			byName[n.Name] = n
		}
		var dirs []fsutil.Dir
		for _, x := range in.L[8].L {
			n := byName[x.Str()]
			if n == nil || !n.IsDir() {
				return L(L(), N(4), N(0), L(N(0), N(0)), S("subdirs: not a top-level directory of the view"))
			}
			name := n.Name
			sub := &MemFS{Roots: c06SubForest(n.Kids, name), ChunkLen: chunk}
			sub.OpenHook = func(p string) error { return mfs.OpenHook(name + "/" + p) }
			st := n.Stat.CloneVT()
			st.Path = name
			dirs = append(dirs, fsutil.Dir{Stat: st, FS: sub})
		}
		var err error
		if src, err = fsutil.SubDirFS(dirs); err != nil {
			return L(L(), N(4), N(0), L(N(0), N(0)), S(err.Error()))
		}
	}
	done := make(chan struct{})
	go func() {
		defer close(done)
		defer func() {
			if r := recover(); r != nil {
				tap.Fault()
				tap.Return(false)
			}
		}()
		err := fsutil.Send(ctx, conn, src, tap.Progress)
		tap.Return(err == nil)
	}()
	rr := startRefReceiver(sp.Peer, script, sp.TearDown)
	hang := 0
	if !c0607Await(done, tap) {
		hang = 1
		tap.Fault()
		sp.TearDown()
		cancel()
		select {
		case <-done:
		case <-time.After(3 * time.Second):
			hang = 2
		}
	}
	evs := tap.Events()
	sp.TearDown()
	cancel()
	select {
	case <-rr.done:
	case <-time.After(3 * time.Second):
	}
	conn.Stop()
	tr, late := traceSx(evs)
	so, ro := conn.Overlaps()
	return L(tr, NI(hang), NI(late), L(NI(so), NI(ro)))
}

// ---------------------------------------------------------------- C07 runner

// the receive filter of the C07 cases: a path is rejected when it is listed or lies below a listed path
func c0607Rejected(rejects []string, p string) bool {
	p = filepath.ToSlash(p)
	for _, q := range rejects {
		if p == q || strings.HasPrefix(p, q+"/") {
			return true
		}
	}
	return false
}

func c0607SxHolds(x Sx) []c0607Hold {
	var hs []c0607Hold
	for _, h := range x.L {
		hs = append(hs, c0607Hold{Kind: h.L[0].Int(), N: h.L[1].Int()})
	}
	return hs
}

func c0607HoldsSx(hs []c0607Hold) Sx {
	xs := make([]Sx, len(hs))
	for i, h := range hs {
		xs[i] = L(NI(h.Kind), NI(h.N))
	}
	return L(xs...)
}

func flattenViewAcc(roots []*MNode) []refEntry {
	var out []refEntry
	var rec func(dir string, n *MNode)
	rec = func(dir string, n *MNode) {
		p := n.Name
		if dir != "" {
			p = dir + "/" + n.Name
		}
		st := n.Stat.CloneVT()
		st.Path = p
		out = append(out, refEntry{Stat: st, Content: n.Content})
		for _, k := range n.Kids {
			rec(p, k)
		}
	}
	for _, n := range roots {
		rec("", n)
	}
	return out
}

func diskFilesSx(dir string) Sx {
	// a broken receiver can replace the destination itself (by a FIFO: opening it would block for ever)
	if fi, err := os.Lstat(dir); err != nil || !fi.IsDir() {
		return L(N(0), L(), S("destination is not a directory any more"))
	}
	snap, err := SnapshotRaw(dir, true)
	if err != nil {
		return L(N(0), L(), S(err.Error()))
	}
	var fs []Sx
	for _, e := range snap {
		if e.Mode&syscall.S_IFMT == syscall.S_IFREG {
			fs = append(fs, L(S(e.Path), B(e.Content)))
		}
	}
	return L(N(1), L(fs...))
}

// input: (view prior (unchanged-path ...) (merge differ) (chunkmode chunk statweight pick ending closeafter seed) capacity progress [transport [rejects [holds]]])
//
//	view: what the reference sender announces (walk order) and serves; prior: what the
//	destination holds before the transfer; unchanged: paths whose prior entry equals the
//	announced one (the diff does not report them).
//	rejects: (path ...): ReceiveOpt.Filter answers false for these paths and everything below
//	them (and true, without touching the stat, otherwise); () = no Filter
//	holds: sends of Receive kept in flight (c0607Hold)
//
// output: (trace hang (taken ((path content) ...)) (taken ((path content) ...)) late (sendoverlaps recvoverlaps))
//
//	  late = stream calls the receiver still attempted after Receive had returned
//
//		first listing: regular files of the destination at the moment the reference sender
//		received FIN (taken = 0 when it never did); second: after Receive returned.
func run0701(in Sx) (out Sx) {
	defer func() {
		if r := recover(); r != nil {
			out = L(L(), N(3), L(N(0), L()), L(N(0), L(), S(fmt.Sprint(r))), N(0), L(N(0), N(0)))
		}
	}()
	view := SxView(in.L[0])
	prior := SxView(in.L[1])
	merge := in.L[3].L[0].IsTrue()
	differ := fsutil.DiffType(in.L[3].L[1].Int())
	sc := in.L[4].L
	script := refSendScript{ChunkMode: sc[0].Int(), Chunk: sc[1].Int(), StatWeight: sc[2].Int(), Pick: sc[3].Int(),
		Ending: sc[4].Int(), CloseAfter: sc[5].Int(), Seed: sc[6].U64()}
	capacity := in.L[5].Int()
	withProgress := in.L[6].IsTrue()
	transport := 0
	if len(in.L) > 7 {
		transport = in.L[7].Int()
	}

	dest := WorkDir("c07-")
	defer os.RemoveAll(dest)
	if err := Materialize(prior, dest); err != nil {
		return L(L(), N(4), L(N(0), L()), L(N(0), L(), S(err.Error())), N(0), L(N(0), N(0)))
	}
	entries := flattenViewAcc(view)

	ctx, cancel := context.WithCancel(context.Background())
	defer cancel()
	var rejects []string
	if len(in.L) > 8 {
		for _, q := range in.L[8].L {
			rejects = append(rejects, q.Str())
		}
	}
	var holds []c0607Hold
	if len(in.L) > 9 {
		holds = c0607SxHolds(in.L[9])
	}
	sp := c0607NewWire(ctx, transport, capacity)
	tap := &Tap{}
	conn := c0607TapOn(sp, tap, holds)
	defer conn.Stop()
	opt := fsutil.ReceiveOpt{Merge: merge, Differ: differ}
	if len(rejects) > 0 {
		opt.Filter = func(p string, st *types.Stat) bool { return !c0607Rejected(rejects, p) }
	}
	if withProgress {
		opt.ProgressCb = func(int, bool) {}
	}
	done := make(chan struct{})
	go func() {
		defer close(done)
		defer func() {
			if r := recover(); r != nil {
				tap.Fault()
				tap.Return(false)
			}
		}()
		err := fsutil.Receive(ctx, conn, dest, opt)
		tap.Return(err == nil)
	}()
	atFin := L(N(0), L())
	rs := startRefSender(sp.Peer, entries, script, func() { atFin = diskFilesSx(dest) }, sp.TearDown)
	hang := 0
	if !c0607Await(done, tap) {
		hang = 1
		tap.Fault()
		sp.TearDown()
		cancel()
		select {
		case <-done:
		case <-time.After(3 * time.Second):
			hang = 2
		}
	}
	evs := tap.Events()
	sp.TearDown()
	cancel()
	select {
	case <-rs.done:
	case <-time.After(3 * time.Second):
	}
	after := diskFilesSx(dest)
	// let leaked goroutines of the real code show themselves (they stop at the torn-down stream)
	evs = tap.Events()
	conn.Stop()
	tr, late := traceSx(evs)
	so, ro := conn.Overlaps()
	return L(tr, NI(hang), atFin, after, NI(late), L(NI(so), NI(ro)))
}

// ---------------------------------------------------------------- generators

// a wide view for request bursts: nfiles small regular files spread over a few directories,
// with some symlinks / fifos in between (ids that cannot be requested)
func genBigView(r *Rng, nfiles int) []*MNode {
	root := &MNode{Name: "", Stat: &types.Stat{Mode: uint32(os.ModeDir | 0755)}}
	ndirs := 1 + r.Intn(8)
	dirs := []*MNode{root}
	for i := 0; i < ndirs; i++ {
		d := &MNode{Name: fmt.Sprintf("d%d", i), Stat: &types.Stat{Mode: uint32(os.ModeDir | 0755), ModTime: 1600000000e9}}
		parent := Pick(r, dirs)
		if parent != root && r.Chance(50) {
			parent = root
		}
		parent.Kids = append(parent.Kids, d)
		dirs = append(dirs, d)
	}
	for i := 0; i < nfiles; i++ {
		d := Pick(r, dirs)
		st := &types.Stat{Mode: 0644, ModTime: int64(1600000000+r.Intn(1000000)) * 1e9}
		n := &MNode{Name: fmt.Sprintf("f%03d", i), Stat: st}
		switch k := r.Intn(100); {
		case k < 4:
			st.Mode = uint32(os.ModeSymlink | 0777)
			st.Linkname = "f000"
			st.Size = 4
		case k < 6:
			st.Mode = uint32(os.ModeNamedPipe | 0644)
		default:
			sz := r.Intn(40)
			if r.Chance(2) {
				sz = 32768 + r.Intn(3) - 1
			}
			n.Content = fillContent(r, sz)
			st.Size = int64(sz)
		}
		d.Kids = append(d.Kids, n)
	}
	sortKids(root)
	return root.Kids
}

// removes the node at path; true when found
func removePath(roots *[]*MNode, path string) bool {
	var rec func(dir string, kids *[]*MNode) bool
	rec = func(dir string, kids *[]*MNode) bool {
		for i, k := range *kids {
			p := k.Name
			if dir != "" {
				p = dir + "/" + k.Name
			}
			if p == path {
				*kids = append((*kids)[:i:i], (*kids)[i+1:]...)
				return true
			}
			if k.IsDir() && rec(p, &k.Kids) {
				return true
			}
		}
		return false
	}
	return rec("", roots)
}

// GenView can make the first member of one link group a later member of another group
// (a link whose target is itself a link).  The receiver's Hardlinks validator rejects such
// streams, and a real walker never produces them: point every member at the final target.
func fixLinkChains(roots []*MNode) {
	byPath := map[string]*MNode{}
	var rec func(dir string, kids []*MNode)
	rec = func(dir string, kids []*MNode) {
		for _, k := range kids {
			p := k.Name
			if dir != "" {
				p = dir + "/" + k.Name
			}
			byPath[p] = k
			rec(p, k.Kids)
		}
	}
	rec("", roots)
	for _, n := range byPath {
		if !isReg(n.Stat) || n.Stat.Linkname == "" {
			continue
		}
		for i := 0; i < 16; i++ {
			t, ok := byPath[n.Stat.Linkname]
			if !ok || !isReg(t.Stat) || t.Stat.Linkname == "" {
				break
			}
			n.Stat.Linkname = t.Stat.Linkname
		}
	}
}

// the transport of one case (c0607_transport.go): the buffer-reusing ones and the library's
// own protostream together get most of the volume
func c0607PickTransport(r *Rng) int {
	switch k := r.Intn(100); {
	case k < 25:
		return 0
	case k < 40:
		return 1
	case k < 60:
		return 2
	case k < 75:
		return 3
	default:
		return 4
	}
}

// the same case over another transport
func c0607Over(in Sx, transport int) Sx {
	return L(append(append([]Sx{}, in.L...), NI(transport))...)
}

// a C06 case (without options) over a transport with sends kept in flight
func c06Held(in Sx, transport int, holds ...c0607Hold) Sx {
	return L(append(append([]Sx{}, in.L...), NI(transport), c0607HoldsSx(holds))...)
}

// a C06 case (without options) whose source is fsutil.SubDirFS over the view's top-level directories in the given order
func c06Sub(in Sx, transport int, subdirs ...string) Sx {
	ds := make([]Sx, len(subdirs))
	for k, d := range subdirs {
		ds[k] = S(d)
	}
	return L(append(append([]Sx{}, in.L...), NI(transport), L(), L(ds...))...)
}

// a C07 case (without options) over a transport with a rejecting receive filter and held sends
func c07Ext(in Sx, transport int, rejects []string, holds ...c0607Hold) Sx {
	rj := make([]Sx, len(rejects))
	for k, q := range rejects {
		rj[k] = S(q)
	}
	return L(append(append([]Sx{}, in.L...), NI(transport), L(rj...), c0607HoldsSx(holds))...)
}

func isReg(st *types.Stat) bool { return os.FileMode(st.Mode)&os.ModeType == 0 }

func shuffle[T any](r *Rng, xs []T) {
	for i := len(xs) - 1; i > 0; i-- {
		j := r.Intn(i + 1)
		xs[i], xs[j] = xs[j], xs[i]
	}
}

// SubDirFS prefixes what a sub-FS reports with the directory's name: paths, hard-link targets,
// absolute symlink targets.  The view of a composite case holds the FINAL values; c06SubForest
// gives the forest the sub-FS serves (prefix removed), c06Prefixed is its inverse.
func c06SubForest(kids []*MNode, dir string) []*MNode {
	var out []*MNode
	for _, k := range kids {
		c := &MNode{Name: k.Name, Stat: k.Stat.CloneVT(), Content: k.Content, Kids: c06SubForest(k.Kids, dir)}
		switch m := os.FileMode(c.Stat.Mode); {
		case m&os.ModeSymlink != 0:
			if strings.HasPrefix(c.Stat.Linkname, "/"+dir+"/") {
				c.Stat.Linkname = strings.TrimPrefix(c.Stat.Linkname, "/"+dir)
			}
		case c.Stat.Linkname != "":
			c.Stat.Linkname = strings.TrimPrefix(c.Stat.Linkname, dir+"/")
		}
		out = append(out, c)
	}
	return out
}

func c06Prefixed(kids []*MNode, dir string) {
	for _, k := range kids {
		switch m := os.FileMode(k.Stat.Mode); {
		case m&os.ModeSymlink != 0:
			if strings.HasPrefix(k.Stat.Linkname, "/") {
				k.Stat.Linkname = path.Join("/"+dir, k.Stat.Linkname)
			}
		case k.Stat.Linkname != "":
			k.Stat.Linkname = path.Join(dir, k.Stat.Linkname)
		}
		c06Prefixed(k.Kids, dir)
	}
}

// a view made of 2-6 top-level directories, each generated on its own
func genCompositeView(r *Rng) []*MNode {
	names := append([]string{}, "a", "b", "ab", "a-b", "a b", "a.b", "a0", "a!", "c", "~", "\x7f", "\x80", "é", "A", "0", "...", ".a", "foo", "zeta", "mid", "alpha")
	shuffle(r, names)
	names = names[:2+r.Intn(5)]
	var view []*MNode
	for _, d := range names {
		kids := GenView(r, TreeOpts{MaxEntries: 8, Types: r.Chance(60), HardLinks: r.Chance(30), Xattrs: r.Chance(20), Owners: r.Chance(20)})
		c06Prefixed(kids, d)
		view = append(view, &MNode{Name: d, Stat: &types.Stat{Mode: uint32(os.ModeDir | 0755), ModTime: int64(1600000000+r.Intn(1000)) * 1e9}, Kids: kids})
	}
	sort.Slice(view, func(a, b int) bool { return view[a].Name < view[b].Name })
	return view
}

func genC06View(r *Rng) ([]*MNode, string) {
	switch k := r.Intn(100); {
	case k < 45:
		return GenView(r, TreeOpts{MaxEntries: 12, Types: r.Chance(60), HardLinks: r.Chance(40), Xattrs: r.Chance(30),
			BigFiles: r.Chance(12), Owners: r.Chance(30)}), "small"
	case k < 80:
		return GenView(r, TreeOpts{MaxEntries: 60, MaxDepth: 5, Types: r.Chance(70), HardLinks: r.Chance(50), Xattrs: r.Chance(30),
			BigFiles: r.Chance(10), Owners: r.Chance(30), LongNames: r.Chance(10)}), "medium"
	default:
		return genBigView(r, 150+r.Intn(300)), "wide"
	}
}

func genC06(g *Gen) {
	for _, in := range directedC06() {
		g.Emit(0x0601, in, true, "directed")
	}
	n := g.Vol(500, 6000)
	misuse, succeeded, hangs, overlapping := 0, 0, 0, 0
	for i := 0; i < n; i++ {
		r := g.Rng
		view, cls := genC06View(r)
		// the source is a composite (fsutil.SubDirFS) whose directories are listed in any order
		var subdirs []Sx
		composite := r.Chance(15)
		if composite {
			view, cls = genCompositeView(r), "composite"
			var names []string
			for _, n := range view {
				names = append(names, n.Name)
			}
			switch r.Intn(4) {
			case 0: // as sorted
			case 1: // reverse
				for a, b := 0, len(names)-1; a < b; a, b = a+1, b-1 {
					names[a], names[b] = names[b], names[a]
				}
			default:
				shuffle(r, names)
			}
			for _, n := range names {
				subdirs = append(subdirs, S(n))
			}
		}
		// id 0 requestable: a regular file at the root that sorts before (almost) everything else
		if !composite && r.Chance(20) {
			sz := r.Intn(40)
			view = append(view, &MNode{Name: "!" + Pick(r, []string{"a", "first", "0"}), Stat: &types.Stat{Mode: 0644, Size: int64(sz), ModTime: 1600000000e9}, Content: fillContent(r, sz)})
			sort.SliceStable(view, func(a, b int) bool { return view[a].Name < view[b].Name })
			cls += "+file0"
		}
		entries := WalkEntries(view)
		// exercise the hard-link reset: drop the first member of a link group
		if !composite && r.Chance(25) {
			for _, e := range entries {
				if isReg(e) && e.Linkname != "" {
					if removePath(&view, e.Linkname) {
						cls += "+hlreset"
					}
					break
				}
			}
			entries = WalkEntries(view)
		}
		total := len(entries)
		var regs, nonregs []int
		bytesTotal := 0
		for id, e := range entries {
			if isReg(e) {
				regs = append(regs, id)
				bytesTotal += int(e.Size)
			} else {
				nonregs = append(nonregs, id)
			}
		}
		var openfail []Sx
		if r.Chance(20) {
			for _, id := range regs {
				if r.Chance(15) {
					openfail = append(openfail, S(entries[id].Path))
				}
			}
			if len(openfail) > 0 {
				cls += "+openfail"
			}
		}
		// request script
		var ops []refReqOp
		style := r.Intn(5)
		chosen := append([]int{}, regs...)
		if style != 0 && r.Chance(50) && len(chosen) > 0 {
			shuffle(r, chosen)
			chosen = chosen[:1+r.Intn(len(chosen))]
			sort.Ints(chosen)
		}
		switch style {
		case 0: // every file, the moment its STAT has arrived
			for _, id := range chosen {
				ops = append(ops, refReqOp{When: id + 1, ID: uint32(id)})
			}
		case 1: // any order, each as early as the order allows
			shuffle(r, chosen)
			for _, id := range chosen {
				ops = append(ops, refReqOp{When: id + 1, ID: uint32(id)})
			}
		case 2: // burst after the end marker, any order
			shuffle(r, chosen)
			for _, id := range chosen {
				ops = append(ops, refReqOp{When: total + 1, ID: uint32(id)})
			}
		case 3: // burst in the middle of the STAT stream: as soon as the largest chosen id is announced
			shuffle(r, chosen)
			mx := 0
			for _, id := range chosen {
				if id+1 > mx {
					mx = id + 1
				}
			}
			for _, id := range chosen {
				ops = append(ops, refReqOp{When: mx, ID: uint32(id)})
			}
		case 4: // random delays
			shuffle(r, chosen)
			for _, id := range chosen {
				ops = append(ops, refReqOp{When: id + 1 + r.Intn(total-id+1), ID: uint32(id)})
			}
		}
		bad := ""
		if r.Chance(30) {
			pos := 0
			if len(ops) > 0 {
				pos = r.Intn(len(ops) + 1)
			}
			var op refReqOp
			switch b := r.Intn(5); {
			case b == 0 && pos > 0: // duplicate of an earlier request
				op = ops[r.Intn(pos)]
				op.When = op.When + r.Intn(3)
				bad = "dup"
			case b == 1 && len(nonregs) > 0: // directory / link / special file
				id := Pick(r, nonregs)
				op = refReqOp{When: id + 1 + r.Intn(2), ID: uint32(id)}
				bad = "nonfile"
			case b == 2: // never announced
				op = refReqOp{When: r.Intn(total + 2), ID: Pick(r, []uint32{uint32(total), uint32(total + 1), uint32(total + 7), 1 << 31, 0xffffffff})}
				bad = "unknown"
			case b == 3 && len(regs) > 0: // guessed before its STAT can have arrived (at least two ahead)
				id := Pick(r, regs)
				if id >= 2 {
					op = refReqOp{When: r.Intn(id - 1), ID: uint32(id)}
					bad = "premature"
				}
			case b == 4 && len(regs) > 0: // guessed: races its own STAT
				id := Pick(r, regs)
				op = refReqOp{When: id, ID: uint32(id)}
				bad = "racing"
				// the same id must not be requested again later: that would be a duplicate
				for k := 0; k < len(ops); k++ {
					if ops[k].ID == op.ID {
						ops = append(ops[:k:k], ops[k+1:]...)
						k--
					}
				}
				if pos > len(ops) {
					pos = len(ops)
				}
			}
			if bad != "" {
				ops = append(ops[:pos:pos], append([]refReqOp{op}, ops[pos:]...)...)
				cls += "+" + bad
			}
		}
		ending := 0
		if r.Chance(20) {
			ending = 1 + r.Intn(4)
			cls += fmt.Sprintf("+end%d", ending)
		}
		capacity := Pick(r, []int{0, 0, 1, 2, 8, 64, r.Intn(65)})
		chunk := Pick(r, []int{0, 0, 1, 7, 1000, 40000})
		if bytesTotal > 20000 && chunk > 0 && chunk < 1000 {
			chunk = 1000
		}
		walkfail := 0
		if r.Chance(5) && !composite {
			walkfail = 1 + r.Intn(total+1)
			cls += "+walkfail"
		}
		opsSx := make([]Sx, len(ops))
		distinct := map[uint32]bool{}
		for k, op := range ops {
			opsSx[k] = L(NI(op.When), N(uint64(op.ID)))
			distinct[op.ID] = true
		}
		transport := c0607PickTransport(r)
		cls += fmt.Sprintf("/t%d", transport)
		// sends kept in flight while other goroutines of Send have something to write
		var holds []c0607Hold
		if len(ops) > 0 && r.Chance(30) {
			op := Pick(r, ops)
			if op.When <= total && r.Chance(70) {
				// STAT number When is in flight when the REQ scripted for "When STATs seen" arrives
				holds = append(holds, c0607Hold{Kind: 0, N: op.When})
			}
			if len(ops) >= 2 && r.Chance(60) {
				// the first DATA of one requested file is in flight while other requests are served
				holds = append(holds, c0607Hold{Kind: 1, N: int(Pick(r, ops).ID & 0x7fffffff)})
			}
			if r.Chance(15) {
				holds = append(holds, c0607Hold{Kind: 2})
			}
			if len(holds) > 0 {
				cls += "+hold"
			}
		}
		if composite {
			walkfail = 0
		}
		in := L(ViewSx(view), L(openfail...), L(L(opsSx...), NI(ending)), NI(capacity), NI(chunk), NI(walkfail), NI(transport), c0607HoldsSx(holds), L(subdirs...))
		out := g.Emit(0x0601, in, len(distinct) >= 2 || bad != "", cls)
		if len(out.L) >= 4 && out.L[3].Kind == 'l' && len(out.L[3].L) == 2 && out.L[3].L[0].Int()+out.L[3].L[1].Int() > 0 {
			overlapping++
		}
		if len(out.L) >= 4 && out.L[1].Kind == 'n' && out.L[1].Int() != 0 {
			if hangs++; hangs >= c0607HangBudget {
				g.Note("generator_stopped_after_hung_runs", hangs)
				break
			}
		}
		if len(out.L) >= 4 && out.L[2].Kind == 'n' && out.L[2].Int() > 0 {
			misuse++
		}
		if len(out.L) >= 4 && len(out.L[0].L) > 0 {
			last := out.L[0].L[len(out.L[0].L)-1]
			if len(last.L) == 2 && last.L[0].Int() == 5 && last.L[1].IsTrue() {
				succeeded++
			}
		}
	}
	g.Note("runs_returning_success", succeeded)
	g.Note("runs_with_late_stream_calls", misuse)
	g.Note("runs_with_overlapping_stream_calls", overlapping)
}

// prior destination derived from the view: each node absent / identical / modified; a few
// extra entries.  Returns the prior forest and the paths of regular files left identical.
func derivePrior(r *Rng, view []*MNode) ([]*MNode, []string) {
	var unchanged []string
	var rec func(dir string, kids []*MNode) []*MNode
	rec = func(dir string, kids []*MNode) []*MNode {
		var out []*MNode
		for _, k := range kids {
			p := k.Name
			if dir != "" {
				p = dir + "/" + k.Name
			}
			if r.Chance(25) {
				continue // absent (with everything below it)
			}
			c := &MNode{Name: k.Name, Stat: k.Stat.CloneVT(), Content: append([]byte{}, k.Content...)}
			if isReg(k.Stat) && k.Stat.Linkname == "" && int64(len(c.Content)) != k.Stat.Size && k.Stat.Size < 1<<21 {
				// the copy on disk has the ANNOUNCED size (that is what the diff compares), whatever the sender will serve
				for int64(len(c.Content)) < k.Stat.Size {
					c.Content = append(c.Content, 'p')
				}
				c.Content = c.Content[:k.Stat.Size]
			}
			c.Stat.Xattrs = nil // not compared by the diff; user.* xattrs cannot be set on special files
			m := os.FileMode(k.Stat.Mode)
			switch {
			case m.IsDir():
				if r.Chance(20) {
					c.Stat.Mode ^= 0011
				}
				c.Kids = rec(p, k.Kids)
			case m&os.ModeType == 0 && k.Stat.Linkname == "":
				switch r.Intn(6) {
				case 0: // different mtime
					c.Stat.ModTime += 1e9
				case 1: // different size
					c.Content = append(c.Content, 'x')
					c.Stat.Size++
				case 2: // different mode
					c.Stat.Mode ^= 0100
				case 3: // different owner
					c.Stat.Uid += 7
				default:
					unchanged = append(unchanged, p)
				}
			case m&os.ModeType == 0:
				// hard link member: materialise as an independent file (never requested anyway)
				c.Stat.Linkname = ""
			}
			out = append(out, c)
		}
		if r.Chance(15) {
			out = append(out, &MNode{Name: "zz-extra", Stat: &types.Stat{Mode: 0644, Size: 3, ModTime: 1600000000e9}, Content: []byte("old")})
		}
		sort.Slice(out, func(a, b int) bool { return out[a].Name < out[b].Name })
		return out
	}
	prior := rec("", view)
	return prior, unchanged
}

func genC07(g *Gen) {
	for _, in := range directedC07() {
		g.Emit(0x0701, in, true, "directed")
	}
	n := g.Vol(500, 6000)
	late, succeeded, hangs := 0, 0, 0
	nHuge := g.Vol(2, 12)
	for i := 0; i < n; i++ {
		r := g.Rng
		var view []*MNode
		cls := ""
		huge := i < nHuge
		switch k := r.Intn(100); {
		case huge:
			view = GenView(r, TreeOpts{MaxEntries: 6})
			sz := Pick(r, []int{1 << 20, 1<<20 + 3, 1<<20 - 1, 300000})
			view = append(view, &MNode{Name: "zzhuge", Stat: &types.Stat{Mode: 0644, Size: int64(sz), ModTime: 1600000000e9}, Content: fillContent(r, sz)})
			sort.Slice(view, func(a, b int) bool { return view[a].Name < view[b].Name })
			cls = "huge"
		case k < 50:
			view = GenView(r, TreeOpts{MaxEntries: 12, Types: r.Chance(60), HardLinks: r.Chance(40), Xattrs: r.Chance(20),
				BigFiles: r.Chance(12), Owners: r.Chance(30)})
			cls = "small"
		case k < 88:
			view = GenView(r, TreeOpts{MaxEntries: 60, MaxDepth: 5, Types: r.Chance(70), HardLinks: r.Chance(50), Xattrs: r.Chance(20),
				BigFiles: r.Chance(10), Owners: r.Chance(30)})
			cls = "medium"
		default:
			view = genBigView(r, 150+r.Intn(200))
			cls = "wide"
		}
		fixLinkChains(view)
		// a file of a few full packets, so that short and full payloads can mix
		if !huge && r.Chance(12) {
			sz := 33000 + r.Intn(40000)
			view = append(view, &MNode{Name: "zmid", Stat: &types.Stat{Mode: 0644, Size: int64(sz), ModTime: 1600000000e9}, Content: fillContent(r, sz)})
			sort.SliceStable(view, func(a, b int) bool { return view[a].Name < view[b].Name })
			cls += "+mid"
		}
		// the bytes the sender serves for an id need not have the length announced in its STAT
		// (the file changed between the walk and the read; the protocol does not tie them)
		if !huge && r.Chance(35) {
			if len(c07ResizeServed(r, view, "")) > 0 {
				cls += "+resized"
			}
		}
		var prior []*MNode
		var unchanged []string
		if !huge && r.Chance(45) {
			prior, unchanged = derivePrior(r, view)
			cls += "+prior"
		}
		// entries whose base name is at the NAME_MAX boundary and which the destination already holds in
		// another version: they have to be fetched again and replace what is there
		if !huge && r.Chance(15) {
			for k := 1 + r.Intn(3); k > 0; k-- {
				name := c07LongName(r, Pick(r, []int{240, 241, 242, 250, 254, 255}))
				content := fillContent(r, 1+r.Intn(30))
				n := &MNode{Name: name, Stat: &types.Stat{Mode: 0644, Size: int64(len(content)), ModTime: 1600000100e9}, Content: content}
				old := &MNode{Name: name, Stat: &types.Stat{Mode: 0644, Size: 3, ModTime: 1500000000e9}, Content: []byte("old")}
				if r.Chance(25) { // the old entry is a directory with something in it
					old = &MNode{Name: name, Stat: &types.Stat{Mode: uint32(os.ModeDir | 0755), ModTime: 1500000000e9}, Kids: []*MNode{fileNode("x", "y")}}
				}
				dup := false
				for _, v := range view {
					dup = dup || v.Name == name
				}
				if dup {
					continue
				}
				view = append(view, n)
				prior = append(prior, old)
			}
			sort.SliceStable(view, func(a, b int) bool { return view[a].Name < view[b].Name })
			sort.SliceStable(prior, func(a, b int) bool { return prior[a].Name < prior[b].Name })
			cls += "+longnames"
		}
		merge, differ := false, 0
		if r.Chance(10) {
			merge = true
			cls += "+merge"
		}
		if r.Chance(10) {
			differ = 1 // DiffNone
			cls += "+diffnone"
		}
		entries := flattenViewAcc(view)
		bytesTotal, nreg := 0, 0
		for _, e := range entries {
			if isReg(e.Stat) && e.Stat.Linkname == "" {
				bytesTotal += len(e.Content)
				nreg++
			}
		}
		sc := refSendScript{ChunkMode: r.Intn(4), StatWeight: Pick(r, []int{0, 10, 50, 90, 100}), Pick: r.Intn(4), Seed: r.U64()}
		sc.Chunk = Pick(r, []int{1, 2, 7, 100, 4096, 32768, 65536, 1 << 20})
		if huge {
			sc.Chunk = Pick(r, []int{1 << 20, 1 << 20, 65536, 300000})
		} else if bytesTotal > 20000 && sc.Chunk < 100 {
			sc.Chunk = 4096
		}
		if sc.ChunkMode >= 2 && sc.Chunk > 4096 {
			sc.Chunk = Pick(r, []int{1, 8, 100, 4096})
		}
		if r.Chance(15) && !huge {
			sc.Ending = 1 + r.Intn(3)
			sc.CloseAfter = r.Intn(len(entries) + 2 + nreg)
			if sc.Ending >= 2 && r.Chance(50) {
				// the stream ends in the DATA phase: all STATs and the end marker have been consumed,
				// some requested ids have not been terminated yet
				sc.StatWeight = 100
				sc.CloseAfter = len(entries) + 1 + r.Intn(2*nreg+1)
				cls += "+indata"
			}
			cls += fmt.Sprintf("+end%d", sc.Ending)
		}
		capacity := Pick(r, []int{0, 0, 1, 2, 8, 64, r.Intn(65)})
		us := make([]Sx, len(unchanged))
		for k, p := range unchanged {
			us[k] = S(p)
		}
		progress := r.Chance(30)
		transport := c0607PickTransport(r)
		cls += fmt.Sprintf("/t%d", transport)
		// ReceiveOpt.Filter rejecting entries (single files, links, special files, whole subtrees)
		var rejects []string
		if len(entries) > 0 && !huge && r.Chance(30) {
			for k := 1 + r.Intn(3); k > 0; k-- {
				rejects = append(rejects, Pick(r, entries).Stat.Path)
			}
			// a kept hard link needs its target: reject the members of a rejected target as well
			for _, e := range entries {
				if isReg(e.Stat) && e.Stat.Linkname != "" && !c0607Rejected(rejects, e.Stat.Path) && c0607Rejected(rejects, e.Stat.Linkname) {
					rejects = append(rejects, e.Stat.Path)
				}
			}
			cls += "+filter"
		}
		rj := make([]Sx, len(rejects))
		for k, q := range rejects {
			rj[k] = S(q)
		}
		// one REQ kept in flight while the other writer goroutines have their own REQ to send
		var holds []c0607Hold
		if nreg >= 2 && r.Chance(15) {
			holds = append(holds, c0607Hold{Kind: 3, N: r.Intn(nreg)})
			cls += "+hold"
		}
		in := L(ViewSx(view), ViewSx(prior), L(us...), L(Bool(merge), NI(differ)),
			L(NI(sc.ChunkMode), NI(sc.Chunk), NI(sc.StatWeight), NI(sc.Pick), NI(sc.Ending), NI(sc.CloseAfter), N(sc.Seed)),
			NI(capacity), Bool(progress), NI(transport), L(rj...), c0607HoldsSx(holds))
		out := g.Emit(0x0701, in, nreg >= 2, cls)
		if len(out.L) >= 6 && out.L[1].Kind == 'n' && out.L[1].Int() != 0 {
			if hangs++; hangs >= c0607HangBudget {
				g.Note("generator_stopped_after_hung_runs", hangs)
				break
			}
		}
		if len(out.L) >= 6 && out.L[4].Kind == 'n' && out.L[4].Int() > 0 {
			late++
		}
		if len(out.L) >= 6 && len(out.L[0].L) > 0 {
			last := out.L[0].L[len(out.L[0].L)-1]
			if len(last.L) == 2 && last.L[0].Int() == 5 && last.L[1].IsTrue() {
				succeeded++
			}
		}
	}
	g.Note("runs_returning_success", succeeded)
	g.Note("runs_where_receive_used_the_stream_after_returning", late)
}

// ---------------------------------------------------------------- directed cases (also kept in corpus/)

func dirNode(name string, kids ...*MNode) *MNode {
	return &MNode{Name: name, Stat: &types.Stat{Mode: uint32(os.ModeDir | 0755), ModTime: 1600000000e9}, Kids: kids}
}

// c07ResizeServed makes, for some regular files of the announced view, the announced Size differ
// from the length of the content the reference sender serves: shorter content (at least one
// byte kept when there was one), longer content, no content at all although Size > 0.
// Returns the paths changed (value: whether the announced Size changed).
func c07ResizeServed(r *Rng, nodes []*MNode, dir string) map[string]bool {
	out := map[string]bool{}
	for _, n := range nodes {
		p := n.Name
		if dir != "" {
			p = dir + "/" + n.Name
		}
		if n.IsDir() {
			for q, v := range c07ResizeServed(r, n.Kids, p) {
				out[q] = v
			}
			continue
		}
		if !isReg(n.Stat) || n.Stat.Linkname != "" || len(n.Content) > 100000 || !r.Chance(30) {
			continue
		}
		k := int64(1 + r.Intn(20))
		if r.Chance(10) {
			k = int64(4096 + r.Intn(40000))
		}
		size0 := n.Stat.Size
		switch r.Intn(4) {
		case 0: // announced larger than served
			n.Stat.Size = int64(len(n.Content)) + k
		case 1: // served shorter than announced, something is served
			if len(n.Content) >= 2 {
				n.Content = append([]byte{}, n.Content[:1+r.Intn(len(n.Content)-1)]...)
			} else {
				n.Stat.Size = int64(len(n.Content)) + k
			}
		case 2: // served longer than announced
			n.Content = append(append([]byte{}, n.Content...), fillContent(r, int(k))...)
		case 3: // nothing served although Size > 0
			n.Content = nil
			if n.Stat.Size == 0 {
				n.Stat.Size = k
			}
		}
		out[p] = n.Stat.Size != size0
	}
	return out
}

// a base name of exactly n bytes (first letter drawn, so that several can coexist)
func c07LongName(r *Rng, n int) string {
	b := make([]byte, n)
	for i := range b {
		b[i] = "nopqrstu"[r.Intn(8)]
	}
	b[0] = 'L'
	return string(b)
}

// a regular file whose announced size is not the length of what is served
func sizedNode(name, content string, size int64) *MNode {
	n := fileNode(name, content)
	n.Stat.Size = size
	return n
}

func fileNode(name string, content string) *MNode {
	return &MNode{Name: name, Stat: &types.Stat{Mode: 0644, Size: int64(len(content)), ModTime: 1600000001e9}, Content: []byte(content)}
}

func linkNode(name, target, content string) *MNode {
	n := fileNode(name, content)
	n.Stat.Linkname = target
	return n
}

func symNode(name, target string) *MNode {
	return &MNode{Name: name, Stat: &types.Stat{Mode: uint32(os.ModeSymlink | 0777), Linkname: target, Size: int64(len(target)), ModTime: 1600000002e9}}
}

// d/ d/a("abc") d/b("") d/h(link d/a) l(symlink) z("zz"): ids 0..5, files 1 2 3 5
func directedView() []*MNode {
	return []*MNode{dirNode("d", fileNode("a", "abc"), fileNode("b", ""), linkNode("h", "d/a", "abc")), symNode("l", "d"), fileNode("z", "zz")}
}

func c06Input(view []*MNode, openfail []string, ops [][2]int, ending, capacity, chunk, walkfail int) Sx {
	of := make([]Sx, len(openfail))
	for i, p := range openfail {
		of[i] = S(p)
	}
	os_ := make([]Sx, len(ops))
	for i, op := range ops {
		os_[i] = L(NI(op[0]), N(uint64(uint32(op[1]))))
	}
	return L(ViewSx(view), L(of...), L(L(os_...), NI(ending)), NI(capacity), NI(chunk), NI(walkfail))
}

func directedC06() []Sx {
	v := directedView
	all := [][2]int{{2, 1}, {3, 2}, {4, 3}, {6, 5}}
	noFirst := []*MNode{dirNode("d", fileNode("b", ""), linkNode("h", "d/a", "abc"), linkNode("i", "d/a", "abc")), fileNode("z", "zz")}
	var over []Sx
	for t := 1; t < c0607Transports; t++ {
		over = append(over,
			c0607Over(c06Input(v(), nil, all, 0, 0, 0, 0), t),                                      // every file as its STAT arrives
			c0607Over(c06Input(v(), nil, [][2]int{{7, 5}, {7, 3}, {7, 1}, {7, 2}}, 0, 8, 1, 0), t), // burst after the end marker
			c0607Over(c06Input(v(), nil, all, 2, 0, 0, 0), t),                                      // receiver sends ERR (its text is quoted by Send)
		)
	}
	// ids requested in descending / arbitrary order, id 0 (a regular file: first entry of the walk) last or in the middle
	flat := func() []*MNode {
		return []*MNode{fileNode("a", "first"), fileNode("b", "second"), dirNode("c", fileNode("x", "deep")), fileNode("e", "")}
	} // ids: a0 b1 c2 c/x3 e4
	for t := 0; t < c0607Transports; t++ {
		over = append(over,
			c0607Over(c06Input(flat(), nil, [][2]int{{6, 4}, {6, 3}, {6, 1}, {6, 0}}, 0, 1, 0, 0), t), // descending after the end marker
			c0607Over(c06Input(flat(), nil, [][2]int{{2, 1}, {2, 0}, {5, 4}, {5, 3}}, 0, 0, 2, 0), t), // 1 then 0 while the STATs are still coming
			c0607Over(c06Input(flat(), nil, [][2]int{{5, 3}, {5, 0}, {5, 0}}, 0, 2, 0, 0), t),         // id 0 twice after a non-zero id: the second is a duplicate
		)
	}
	// the source is a SubDirFS composite whose directories are not listed in path order
	comp := func() []*MNode {
		return []*MNode{dirNode("alpha", fileNode("a.txt", "A"), dirNode("sub", fileNode("b.txt", "BB"))), dirNode("mid", fileNode("m.txt", "MMM"), linkNode("n", "mid/m.txt", "MMM")),
			dirNode("zeta", symNode("l", "/zeta/z1.txt"), fileNode("z1.txt", "Z"), fileNode("z2.bin", ""))}
	} // ids: alpha0 alpha/a.txt1 alpha/sub2 alpha/sub/b.txt3 mid4 mid/m.txt5 mid/n6 zeta7 zeta/l8 zeta/z1.txt9 zeta/z2.bin10
	compAll := [][2]int{{2, 1}, {4, 3}, {6, 5}, {12, 9}, {12, 10}}
	over = append(over,
		c06Sub(c06Input(comp(), nil, compAll, 0, 1, 0, 0), 0, "zeta", "mid", "alpha"),
		c06Sub(c06Input(comp(), nil, compAll, 0, 0, 2, 0), 2, "mid", "zeta", "alpha"),
		c06Sub(c06Input(comp(), nil, compAll, 0, 8, 0, 0), 4, "alpha", "mid", "zeta"),
	)
	// sends kept in flight while another goroutine of Send has something to write
	for t := 0; t < c0607Transports; t++ {
		over = append(over,
			c06Held(c06Input(flat(), nil, [][2]int{{2, 0}, {2, 1}}, 0, 0, 1, 0), t, c0607Hold{Kind: 0, N: 2}),                     // STAT 2 in flight, REQ 0 and 1 arrive
			c06Held(c06Input(flat(), nil, [][2]int{{6, 0}, {6, 1}, {6, 3}}, 0, 4, 1, 0), t, c0607Hold{Kind: 1, N: 0}),             // first DATA of id 0 in flight, two more files requested
			c06Held(c06Input(flat(), nil, [][2]int{{1, 0}, {6, 1}}, 3, 4, 1, 0), t, c0607Hold{Kind: 0, N: 5}, c0607Hold{Kind: 2}), // end marker and FIN echo in flight
		)
	}
	return append([]Sx{
		c06Input(v(), nil, all, 0, 0, 0, 0),                                          // every file as its STAT arrives, unbuffered stream
		c06Input(v(), nil, [][2]int{{7, 5}, {7, 3}, {7, 1}, {7, 2}}, 0, 8, 1, 0),     // after the end marker, reverse order, 1-byte reads
		c06Input(v(), nil, [][2]int{{2, 1}, {2, 1}}, 0, 1, 0, 0),                     // duplicate id
		c06Input(v(), nil, [][2]int{{2, 1}, {7, 6}}, 0, 1, 0, 0),                     // id = number of entries: never announced
		c06Input(v(), nil, [][2]int{{7, -1}}, 0, 1, 0, 0),                            // id 0xffffffff
		c06Input(v(), nil, [][2]int{{1, 0}}, 0, 1, 0, 0),                             // directory id
		c06Input(v(), nil, [][2]int{{5, 4}}, 0, 1, 0, 0),                             // symlink id
		c06Input(v(), nil, [][2]int{{0, 5}}, 0, 0, 0, 0),                             // guessed long before its STAT
		c06Input(v(), []string{"d/a"}, all, 0, 2, 0, 0),                              // K3: Open fails, empty DATA, success
		c06Input(noFirst, nil, [][2]int{{2, 1}, {3, 2}, {4, 3}, {5, 4}}, 0, 0, 2, 0), // hard-link reset: first member filtered out
		c06Input(v(), nil, all, 0, 0, 0, 3),                                          // walk fails before entry 2: ERR packet
		c06Input(v(), nil, all, 1, 0, 0, 0),                                          // receiver closes without FIN
		c06Input(v(), nil, all, 2, 0, 0, 0),                                          // receiver sends ERR
		c06Input(v(), nil, all, 3, 0, 0, 0),                                          // FIN before the data has arrived
		c06Input(v(), nil, all, 4, 0, 0, 0),                                          // receiver closes right after its requests
		c06Input(nil, nil, nil, 0, 0, 0, 0),                                          // empty view
	}, over...)
}

func c07Input(view, prior []*MNode, unchanged []string, merge bool, differ int, sc refSendScript, capacity int, progress bool) Sx {
	us := make([]Sx, len(unchanged))
	for k, p := range unchanged {
		us[k] = S(p)
	}
	return L(ViewSx(view), ViewSx(prior), L(us...), L(Bool(merge), NI(differ)),
		L(NI(sc.ChunkMode), NI(sc.Chunk), NI(sc.StatWeight), NI(sc.Pick), NI(sc.Ending), NI(sc.CloseAfter), N(sc.Seed)),
		NI(capacity), Bool(progress))
}

func directedC07() []Sx {
	v := directedView
	prior := []*MNode{dirNode("d", fileNode("a", "abc"), fileNode("b", "x")), fileNode("old", "gone")}
	many := []*MNode{}
	for i := 0; i < 12; i++ {
		many = append(many, fileNode(fmt.Sprintf("f%02d", i), fmt.Sprintf("content-%d", i)))
	}
	var over []Sx
	for t := 1; t < c0607Transports; t++ {
		over = append(over,
			c0607Over(c07Input(v(), nil, nil, false, 0, refSendScript{Chunk: 1, StatWeight: 100, Seed: 1}, 0, false), t),                         // all STATs first: every path is retained across many frames
			c0607Over(c07Input(v(), nil, nil, false, 0, refSendScript{Chunk: 2, StatWeight: 0, Pick: 2, Seed: 2}, 0, true), t),                   // DATA frames between the STATs
			c0607Over(c07Input(many, nil, nil, false, 0, refSendScript{Chunk: 4, StatWeight: 50, Pick: 3, Seed: 12}, 2, false), t),               // 12 files, round robin
			c0607Over(c07Input(v(), prior, []string{"d/a"}, false, 0, refSendScript{Chunk: 100, StatWeight: 50, Pick: 3, Seed: 4}, 1, false), t), // with a prior destination
		)
	}
	// ReceiveOpt.Filter rejects entries that precede wanted regular files in the STAT sequence
	// (ids stay positions in the STAT sequence: d0 d/a1 d/b2 d/h3 l4 z5; src0 src/cache1 src/cache/o2 src/m3 top4)
	nested := func() []*MNode {
		return []*MNode{dirNode("src", dirNode("cache", fileNode("o", "obj")), fileNode("m", "main")), fileNode("top", "module")}
	}
	sc := refSendScript{Chunk: 3, StatWeight: 60, Pick: 3, Seed: 21}
	for t := 0; t < c0607Transports; t++ {
		over = append(over,
			c07Ext(c07Input(v(), nil, nil, false, 0, sc, 1, false), t, []string{"d"}),                // a whole subtree before z
			c07Ext(c07Input(v(), nil, nil, false, 0, sc, 0, false), t, []string{"d/a", "d/h"}),       // a file (and its link) before d/b and z
			c07Ext(c07Input(v(), nil, nil, false, 0, sc, 2, false), t, []string{"l"}),                // a symlink before z
			c07Ext(c07Input(nested(), nil, nil, false, 0, sc, 1, false), t, []string{"src/cache"}),   // a directory with a file, before src/m and top
			c07Ext(c07Input(v(), prior, []string{"d/a"}, true, 0, sc, 1, false), t, []string{"d/b"}), // Merge, prior destination, one file rejected
		)
	}
	// the served bytes are shorter / longer than the announced Size, or absent: what is stored is what was sent
	resized := func() []*MNode {
		return []*MNode{dirNode("d", sizedNode("gone", "", 7), sizedNode("grown", "0123456789", 3), fileNode("same", "exact"), sizedNode("shrunk", "abcde", 10)),
			sizedNode("e-big", string(fillContent(NewRng(5), 300)), 70000)}
	}
	rprior := []*MNode{dirNode("d", fileNode("gone", "old"), fileNode("shrunk", "an older, longer content"))}
	for t := 0; t < c0607Transports; t++ {
		over = append(over,
			c07Ext(c07Input(resized(), nil, nil, false, 0, refSendScript{Chunk: 2, StatWeight: 50, Pick: 3, Seed: 31}, 1, false), t, nil),
			c07Ext(c07Input(resized(), rprior, nil, false, 0, refSendScript{Chunk: 100, StatWeight: 100, Pick: 1, Seed: 32}, 0, false), t, nil),
		)
	}
	// names at the NAME_MAX boundary that already exist in the destination in an older version (second transfer / Merge)
	ln := func(c byte, n int) string { return "L" + strings.Repeat(string(c), n-1) }
	longv := []*MNode{fileNode(ln('p', 240), "pp"), fileNode(ln('q', 250), ""), dirNode("dir", fileNode(ln('n', 255), "new content"), fileNode(ln('o', 241), "x"))}
	longp := []*MNode{fileNode(ln('p', 240), "p"), dirNode(ln('q', 250), fileNode("in", "side")), dirNode("dir", fileNode(ln('n', 255), "old"), fileNode(ln('o', 241), "older"))}
	over = append(over,
		c07Ext(c07Input(longv, longp, nil, false, 0, refSendScript{Chunk: 4, StatWeight: 50, Pick: 3, Seed: 51}, 1, false), 0, nil),
		c07Ext(c07Input(longv, longp, nil, true, 0, refSendScript{Chunk: 100, StatWeight: 100, Pick: 1, Seed: 52}, 0, false), 4, nil),
	)
	// short payloads before / between full ones for the same id (two ids interleaved)
	mixed := []*MNode{fileNode("d-shortfirst", string(fillContent(NewRng(6), 32776))), fileNode("e-mixed", string(fillContent(NewRng(7), 65546)))}
	over = append(over,
		c07Ext(c07Input(mixed, nil, nil, false, 0, refSendScript{ChunkMode: 2, Chunk: 8, StatWeight: 50, Pick: 3, Seed: 41}, 1, false), 0, nil),
		c07Ext(c07Input(mixed, nil, nil, false, 0, refSendScript{ChunkMode: 3, Chunk: 100, StatWeight: 100, Pick: 0, Seed: 42}, 0, false), 4, nil),
	)
	// the stream ends (EOF / ERR) in the DATA phase: end marker consumed, requests outstanding
	for t := 0; t < c0607Transports; t++ {
		over = append(over,
			c07Ext(c07Input(many, nil, nil, false, 0, refSendScript{Chunk: 1, StatWeight: 100, Pick: 1, Ending: 2, CloseAfter: 13 + 30, Seed: 43}, 0, false), t, nil),
			c07Ext(c07Input(many, nil, nil, false, 0, refSendScript{Chunk: 1, StatWeight: 100, Pick: 3, Ending: 3, CloseAfter: 13 + 40, Seed: 44}, 2, false), t, nil),
		)
	}
	// one REQ kept in flight while the other writers have theirs to send
	for t := 0; t < c0607Transports; t++ {
		over = append(over,
			c07Ext(c07Input(many, nil, nil, false, 0, refSendScript{Chunk: 4, StatWeight: 100, Pick: 3, Seed: 22}, 2, false), t, nil, c0607Hold{Kind: 3, N: 0}),
			c07Ext(c07Input(many, nil, nil, false, 0, refSendScript{Chunk: 100, StatWeight: 50, Pick: 0, Seed: 23}, 0, false), t, nil, c0607Hold{Kind: 3, N: 3}, c0607Hold{Kind: 2}),
		)
	}
	return append([]Sx{
		c07Input(v(), nil, nil, false, 0, refSendScript{Chunk: 1, StatWeight: 100, Seed: 1}, 0, false),       // all STATs first, 1-byte chunks
		c07Input(v(), nil, nil, false, 0, refSendScript{Chunk: 2, StatWeight: 0, Pick: 2, Seed: 2}, 0, true), // DATA preferred over STAT, newest id first
		c07Input(v(), nil, nil, false, 0, refSendScript{ChunkMode: 1, Chunk: 3, StatWeight: 50, Pick: 0, Seed: 3}, 64, false),
		c07Input(v(), prior, []string{"d/a"}, false, 0, refSendScript{Chunk: 100, StatWeight: 50, Pick: 3, Seed: 4}, 1, false),       // d/a unchanged: not requested
		c07Input(v(), prior, []string{"d/a"}, true, 0, refSendScript{Chunk: 100, StatWeight: 50, Pick: 1, Seed: 5}, 1, false),        // Merge: everything requested
		c07Input(v(), prior, []string{"d/a"}, false, 1, refSendScript{Chunk: 100, StatWeight: 50, Pick: 1, Seed: 6}, 1, false),       // DiffNone: everything requested
		c07Input(v(), nil, nil, false, 0, refSendScript{Chunk: 100, StatWeight: 100, Ending: 2, CloseAfter: 3, Seed: 7}, 0, false),   // EOF in the middle of the STATs
		c07Input(v(), nil, nil, false, 0, refSendScript{Chunk: 100, StatWeight: 100, Ending: 2, CloseAfter: 7, Seed: 8}, 0, false),   // EOF right after the end marker
		c07Input(v(), nil, nil, false, 0, refSendScript{Chunk: 100, StatWeight: 50, Ending: 1, Seed: 9}, 0, false),                   // FIN not echoed: EOF instead
		c07Input(many, nil, nil, false, 0, refSendScript{Chunk: 100, StatWeight: 100, Ending: 3, CloseAfter: 6, Seed: 10}, 2, false), // ERR while requests are outstanding
		c07Input(nil, nil, nil, false, 0, refSendScript{Chunk: 1, StatWeight: 50, Seed: 11}, 0, false),                               // empty transfer
	}, over...)
}
