package main

import (
	"context"
	"encoding/hex"
	"fmt"
	"hash"
	"os"
	"sort"
	"strings"
	"sync"
	"time"

	"github.com/tonistiigi/fsutil"
	"github.com/tonistiigi/fsutil/types"
)

// recHash is an "identity hash": Sum returns everything written, so the digest handed to
// the notify callback is the hex of (header ++ content) and can be checked exactly.
type recHash struct{ b []byte }

func (h *recHash) Write(p []byte) (int, error) { h.b = append(h.b, p...); return len(p), nil }
func (h *recHash) Sum(b []byte) []byte         { return append(b, h.b...) }
func (h *recHash) Reset()                      { h.b = nil }
func (h *recHash) Size() int                   { return len(h.b) }
func (h *recHash) BlockSize() int              { return 1 }

var _ hash.Hash = &recHash{}

// hdrFor is the caller's header for an entry: "H" path NUL mode(decimal) NUL.
func hdrFor(s *types.Stat) []byte {
	return []byte(fmt.Sprintf("H%s\x00%d\x00", s.Path, s.Mode))
}

type Notif struct {
	Kind   int
	Path   string
	Stat   *types.Stat // nil for deletes
	Digest []byte      // raw bytes hashed (header ++ content); nil for deletes
}

type TransferCfg struct {
	Src          fsutil.FS
	Dest         string
	Merge        bool
	Differ       fsutil.DiffType
	StreamCap    int
	Notify       bool
	MetadataOnly fsutil.FilterFunc
	Filter       fsutil.FilterFunc
	Timeout      time.Duration
}

type TransferResult struct {
	SendErr, RecvErr error
	Hung             bool
	Log              []LoggedPacket
	Notifs           []Notif
	Overlaps         int32
}

// RunTransfer runs the real fsutil.Send and fsutil.Receive against each other over an
// in-memory stream pair, tearing the stream down when either call returns with an error
// (or after the time-out), and waits for both.
func RunTransfer(cfg TransferCfg) TransferResult {
	ctx, cancel := context.WithCancel(context.Background())
	defer cancel()
	sp := NewStreamPair(ctx, cfg.StreamCap)
	var res TransferResult
	var mu sync.Mutex
	opt := fsutil.ReceiveOpt{Merge: cfg.Merge, Differ: cfg.Differ, MetadataOnly: cfg.MetadataOnly, Filter: cfg.Filter}
	if cfg.Notify {
		opt.ContentHasher = func(s *types.Stat) (hash.Hash, error) {
			h := &recHash{}
			h.Write(hdrFor(s))
			return h, nil
		}
		opt.NotifyHashed = func(kind fsutil.ChangeKind, p string, fi os.FileInfo, err error) error {
			n := Notif{Kind: int(kind), Path: p}
			if fi != nil {
				if st, ok := fi.Sys().(*types.Stat); ok {
					n.Stat = st.CloneVT()
				}
				n.Digest = digestBytes(fi)
			}
			mu.Lock()
			res.Notifs = append(res.Notifs, n)
			mu.Unlock()
			return nil
		}
	}
	sdone := make(chan error, 1)
	rdone := make(chan error, 1)
	go func() {
		err := fsutil.Send(ctx, sp.A, cfg.Src, nil)
		sp.A.CloseSend()
		sdone <- err
	}()
	go func() { rdone <- fsutil.Receive(ctx, sp.B, cfg.Dest, opt) }()
	timeout := cfg.Timeout
	if timeout == 0 {
		timeout = 20 * time.Second
	}
	timer := time.After(timeout)
	var sOK, rOK bool
	for !(sOK && rOK) {
		select {
		case err := <-sdone:
			res.SendErr, sOK = err, true
			if err != nil {
				sp.TearDown(nil)
			}
		case err := <-rdone:
			res.RecvErr, rOK = err, true
			if err != nil {
				sp.TearDown(nil)
			}
		case <-timer:
			res.Hung = true
			sp.TearDown(nil)
			cancel()
			// give them a moment to return after tear-down
			t2 := time.After(5 * time.Second)
			for !(sOK && rOK) {
				select {
				case err := <-sdone:
					res.SendErr, sOK = err, true
				case err := <-rdone:
					res.RecvErr, rOK = err, true
				case <-t2:
					sOK, rOK = true, true
				}
			}
		}
	}
	res.Log = sp.Log()
	res.Overlaps = sp.Overlaps
	sort.SliceStable(res.Notifs, func(a, b int) bool { return res.Notifs[a].Path < res.Notifs[b].Path })
	return res
}

// digestBytes recovers the bytes fed to the identity hash from the FileInfo handed to the
// notify callback (its Digest() is "sha256:" + hex(Sum)).
func digestBytes(fi os.FileInfo) []byte {
	// the concrete type is *fsutil.hashedWriter whose Digest() returns digest.Digest (a string type)
	v := fmt.Sprintf("%v", callDigest(fi))
	v = strings.TrimPrefix(v, "sha256:")
	b, err := hex.DecodeString(v)
	if err != nil {
		return []byte("undecodable:" + v)
	}
	return b
}

func errClass(err error) Sx {
	if err == nil {
		return N(0)
	}
	return N(1)
}

// ReqIDs lists the ids requested by the receiver, in stream order.
func ReqIDs(log []LoggedPacket) []Sx {
	var out []Sx
	for _, lp := range log {
		if lp.From == "r" && lp.P.Type == types.PACKET_REQ {
			out = append(out, N(uint64(lp.P.ID)))
		}
	}
	return out
}

func NotifsSx(ns []Notif) Sx {
	out := make([]Sx, len(ns))
	for i, n := range ns {
		st := L()
		if n.Stat != nil {
			st = StatSx(n.Stat)
		}
		out[i] = L(NI(n.Kind), S(n.Path), st, B(n.Digest))
	}
	return L(out...)
}

func RawListSx(es []RawEntry) Sx {
	out := make([]Sx, len(es))
	for i, e := range es {
		out[i] = e.Sx()
	}
	return L(out...)
}
