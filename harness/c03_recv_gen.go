package main

// Generator for kind 0302 (see c03_recv.go).  Jail layout built by the setup ops:
//
//	/out/{f,d/g,s->f}   /secret   /w/sib        sentinel tree (contents tagged "O:")
//	/w/dest/...                                 destination, pre-populated at random with files,
//	                                            directories, fifos, device nodes, hard links and
//	                                            symlinks pointing out of it (absolute, ../-laden,
//	                                            dangling, loops)
//	/lnk -> w/dest                              so that dest can be given through a symlink
//
// The stream is a walk of a mutated copy of the destination (so that unchanged entries, type
// changes and deletions all occur) played as packets, with corruptions from a hostile grammar.

import (
	"fmt"
	"os"
	"sort"
	"strings"

	"github.com/tonistiigi/fsutil/types"
)

type c03N struct {
	name   string
	typ    int // 0 file, 1 dir, 2 symlink, 3 fifo, 4 char device, 5 hard link (target = source)
	ltyp   int // typ 5: type of the link source (0 file, 3 fifo, 4 char device)
	perm   uint32
	uid    uint32
	gid    uint32
	mtime  int64
	data   []byte
	target string
	rdev   uint32
	xattrs [][2]string
	kids   []*c03N
	same   bool // stream side: identical to what the destination holds (no data will be requested)
}

var (
	c03Pool    = []string{"a", "b", "c", "d", "l", "m", "g", "f"} // d, f, g also name entries of the sentinel tree
	c03OutLink = []string{"/out", "/out/f", "/out/d", "/out/d/g", "../../out/f", "../../out/d", "../sib", "..", "../..", "/",
		"/secret", "../../secret", "/out/new", "../new", "/w/sib", "/out/s"}
	c03InLink = []string{"a", "b", "b/c", ".", "l", "m", "nonexistent", "/w/dest/a", "../dest/a", "a/../b"}
	c03Ids    = []uint32{0, 0, 0, 1000, 65534}
	c03Perms  = []uint32{0644, 0600, 0755, 0700, 0777, 0444, 04755, 02755, 01777, 0}
)

// suffixes whose first byte is below '/': a sibling "x<suffix>" sorts between "x" and "x/..." bytewise,
// but after every "x/..." in the order of the protocol (ComparePath: the separator sorts first)
var c03LowSuffix = []string{" ", "!", "-", ".", ".b", "-1", "+", ",x", "."}

func c03Mtime(r *Rng) int64 { return int64(1e18) + int64(r.Intn(1000000))*1000003 }

func c03GenNode(r *Rng, name string, depth int, budget *int, stream bool) *c03N {
	*budget--
	n := &c03N{name: name, perm: Pick(r, c03Perms), uid: Pick(r, c03Ids), gid: Pick(r, c03Ids), mtime: c03Mtime(r)}
	k := r.Intn(100)
	switch {
	case k < 35:
		n.typ = 0
		n.data = []byte(fmt.Sprintf("%s:%x", map[bool]string{false: "D", true: "S"}[stream], r.U64()&0xffff))[:1+r.Intn(6)]
		if r.Chance(15) {
			n.data = nil
		}
	case k < 60 && depth < 3:
		n.typ = 1
		if n.perm&0700 != 0700 {
			n.perm |= 0700
		}
		n.kids = c03GenKids(r, depth+1, budget, stream)
	case k < 90:
		n.typ = 2
		n.perm = 0777
		if r.Chance(70) {
			n.target = Pick(r, c03OutLink)
		} else {
			n.target = Pick(r, c03InLink)
		}
	case k < 95:
		n.typ = 3
	default:
		n.typ = 4
		n.rdev = uint32(1<<8 | 3 + r.Intn(3)) // 1:3 null, 1:4, 1:5 zero
	}
	if n.typ != 2 && r.Chance(12) {
		n.xattrs = append(n.xattrs, [2]string{Pick(r, []string{"user.a", "trusted.t"}), string(fillContent(r, 1+r.Intn(3)))})
		if n.typ >= 3 {
			n.xattrs[0][0] = "trusted.t" // user.* is refused on special files
		}
	}
	return n
}

func c03GenKids(r *Rng, depth int, budget *int, stream bool) []*c03N {
	var kids []*c03N
	used := map[string]bool{}
	n := r.Intn(4)
	if depth == 0 {
		n = 1 + r.Intn(5)
	}
	for i := 0; i < n && *budget > 0; i++ {
		name := Pick(r, c03Pool)
		if used[name] {
			continue
		}
		used[name] = true
		kids = append(kids, c03GenNode(r, name, depth, budget, stream))
		if d := name + Pick(r, c03LowSuffix); r.Chance(12) && !used[d] && *budget > 0 {
			used[d] = true
			kids = append(kids, c03GenNode(r, d, depth, budget, stream))
		}
	}
	sort.Slice(kids, func(i, j int) bool { return kids[i].name < kids[j].name })
	return kids
}

func c03Join(d, n string) string {
	if d == "" {
		return n
	}
	return d + "/" + n
}

type c03Flat struct {
	path string
	n    *c03N
}

func c03Walk(kids []*c03N, dir string, out *[]c03Flat) {
	for _, k := range kids {
		p := c03Join(dir, k.name)
		*out = append(*out, c03Flat{p, k})
		if k.typ == 1 {
			c03Walk(k.kids, p, out)
		}
	}
}

// hard links are added after the tree exists: a later name (walk order) for an earlier file
func c03AddHardlinks(r *Rng, root *[]*c03N) {
	var flat []c03Flat
	c03Walk(*root, "", &flat)
	for _, f := range flat {
		if (f.n.typ != 0 && f.n.typ != 3 && f.n.typ != 4) || !r.Chance(20) {
			continue
		}
		// sibling-level name that sorts after the source and is free
		dir := ""
		if i := strings.LastIndexByte(f.path, '/'); i >= 0 {
			dir = f.path[:i]
		}
		kids := root
		if dir != "" {
			for _, g := range flat {
				if g.path == dir {
					kids = &g.n.kids
				}
			}
		}
		name := f.n.name + "h"
		dup := false
		for _, k := range *kids {
			if k.name == name {
				dup = true
			}
		}
		if dup {
			continue
		}
		h := &c03N{name: name, typ: 5, ltyp: f.n.typ, rdev: f.n.rdev, target: f.path, perm: f.n.perm, uid: f.n.uid, gid: f.n.gid, mtime: f.n.mtime, data: f.n.data, xattrs: f.n.xattrs}
		*kids = append(*kids, h)
		sort.Slice(*kids, func(i, j int) bool { return (*kids)[i].name < (*kids)[j].name })
	}
}

func c03GoMode(n *c03N) uint32 {
	m := os.FileMode(n.perm & 0777)
	if n.perm&04000 != 0 {
		m |= os.ModeSetuid
	}
	if n.perm&02000 != 0 {
		m |= os.ModeSetgid
	}
	if n.perm&01000 != 0 {
		m |= os.ModeSticky
	}
	typ := n.typ
	if typ == 5 {
		typ = n.ltyp // a further name of a fifo / device carries the type bits and the Linkname
	}
	switch typ {
	case 1:
		m |= os.ModeDir
	case 2:
		m |= os.ModeSymlink
	case 3:
		m |= os.ModeNamedPipe
	case 4:
		m |= os.ModeDevice | os.ModeCharDevice
	}
	return uint32(m)
}

// the stat the real walker reports for the node (what an honest sender would send)
func c03StatOf(path string, n *c03N) *types.Stat {
	st := &types.Stat{Path: path, Mode: c03GoMode(n), Uid: n.uid, Gid: n.gid, ModTime: n.mtime}
	switch n.typ {
	case 0:
		st.Size = int64(len(n.data))
	case 2:
		st.Size = int64(len(n.target))
		st.Linkname = n.target
	case 4:
		st.Devmajor, st.Devminor = int64(n.rdev>>8&0xfff), int64(n.rdev&0xff)
	case 5:
		st.Size = int64(len(n.data))
		st.Linkname = n.target
		if n.ltyp == 4 {
			st.Devmajor, st.Devminor = int64(n.rdev>>8&0xfff), int64(n.rdev&0xff)
		}
	}
	if len(n.xattrs) > 0 {
		st.Xattrs = map[string][]byte{}
		for _, kv := range n.xattrs {
			st.Xattrs[kv[0]] = []byte(kv[1])
		}
	}
	return st
}

// ---- setup ops (kind 0301 encoding) ----
type c03Setup struct {
	ops   []Sx
	times []Sx
}

func (s *c03Setup) file(p string, perm uint32, data []byte) {
	s.ops = append(s.ops, L(N(9), S(p), Bool(true), N(uint64(perm)), N(0), B(data)))
}
func (s *c03Setup) mtime(p string, t int64) { s.times = append(s.times, L(N(16), S(p), I64(t))) }

func (s *c03Setup) node(abs string, n *c03N, destAbs string) {
	switch n.typ {
	case 0:
		s.file(abs, 0600, n.data)
	case 1:
		s.ops = append(s.ops, L(N(5), S(abs), N(0700)))
	case 2:
		s.ops = append(s.ops, L(N(7), S(n.target), S(abs)))
	case 3:
		s.ops = append(s.ops, L(N(6), S(abs), N(0010000), N(0600), N(0)))
	case 4:
		s.ops = append(s.ops, L(N(6), S(abs), N(0020000), N(0600), N(uint64(n.rdev))))
	case 5:
		src := n.target
		if !strings.HasPrefix(src, "/") {
			src = destAbs + "/" + src
		}
		s.ops = append(s.ops, L(N(8), S(src), S(abs)))
		return // shares the inode: metadata is the source's
	}
	s.ops = append(s.ops, L(N(15), S(abs), N(uint64(n.uid)), N(uint64(n.gid))))
	if n.typ != 2 {
		s.ops = append(s.ops, L(N(14), S(abs), N(uint64(n.perm))))
	}
	for _, kv := range n.xattrs {
		s.ops = append(s.ops, L(N(17), S(abs), S(kv[0]), S(kv[1])))
	}
	s.mtime(abs, n.mtime)
	for _, k := range n.kids {
		s.node(abs+"/"+k.name, k, destAbs)
	}
}

const c03DestAbs = "/w/dest"

func c03SetupOps(dest []*c03N, outsideHardlink string) Sx {
	s := &c03Setup{}
	mk := func(p string) {
		s.ops = append(s.ops, L(N(5), S(p), N(0755)))
		s.mtime(p, int64(1e18)+7)
	}
	f := func(p string, perm uint32, data string) {
		s.file(p, perm, []byte(data))
		s.mtime(p, int64(1e18)+11)
	}
	mk("/out")
	f("/out/f", 0644, "O:f")
	mk("/out/d")
	f("/out/d/g", 0644, "O:g")
	s.ops = append(s.ops, L(N(7), S("f"), S("/out/s")))
	s.mtime("/out/s", int64(1e18)+13)
	f("/secret", 0600, "O:secret")
	mk("/w")
	f("/w/sib", 0644, "O:sib")
	mk(c03DestAbs)
	s.ops = append(s.ops, L(N(7), S("w/dest"), S("/lnk")))
	s.mtime("/lnk", int64(1e18)+17)
	for _, k := range dest {
		s.node(c03DestAbs+"/"+k.name, k, c03DestAbs)
	}
	if outsideHardlink != "" {
		// the destination holds a second name of the sentinel file /out/f
		s.ops = append(s.ops, L(N(8), S("/out/f"), S(c03DestAbs+"/"+outsideHardlink)))
	}
	s.mtime("/", int64(1e18)+19)
	return L(append(s.ops, s.times...)...)
}

// ---- the stream ----
type c03Item struct {
	st   *types.Stat
	data []byte
	want bool // an honest sender would be asked for the content
}

func c03Clone(n *c03N) *c03N {
	c := *n
	c.kids = nil
	for _, k := range n.kids {
		c.kids = append(c.kids, c03Clone(k))
	}
	return &c
}

// mutated copy of the destination: what the "source" looks like
func c03Mutate(r *Rng, kids []*c03N, depth int) []*c03N {
	var out []*c03N
	used := map[string]bool{}
	for _, k := range kids {
		used[k.name] = true
	}
	for _, k := range kids {
		x := r.Intn(100)
		switch {
		case x < 40: // unchanged (its subtree is mutated further)
			c := c03Clone(k)
			c.same = true
			if c.typ == 1 {
				c.kids = c03Mutate(r, k.kids, depth+1)
			}
			out = append(out, c)
		case x < 55: // gone
		case x < 75: // metadata / content change, same type
			c := c03Clone(k)
			switch r.Intn(4) {
			case 0:
				c.perm = Pick(r, c03Perms)
				if c.typ == 1 {
					c.perm |= 0700
				}
				if c.typ == 2 {
					c.uid = 4242
				}
			case 1:
				c.uid = 777
			case 2:
				c.mtime++
			default:
				if c.typ == 0 || c.typ == 5 {
					c.data = append([]byte("S:"), c.data...)
				} else if c.typ == 2 {
					c.target = Pick(r, c03OutLink)
				} else {
					c.gid = 778
				}
			}
			if c.typ == 5 {
				c.typ = c.ltyp
			}
			if c.typ == 1 {
				c.kids = c03Mutate(r, k.kids, depth+1)
			}
			out = append(out, c)
		default: // another type under the same name
			b := 6
			c := c03GenNode(r, k.name, depth, &b, true)
			if c.typ == k.typ && c.typ != 1 {
				c.typ = 1
				c.perm |= 0700
				c.kids = c03GenKids(r, depth+1, &b, true)
			}
			out = append(out, c)
			if d := k.name + Pick(r, c03LowSuffix); k.typ == 1 && c.typ != 1 && r.Chance(40) && !used[d] {
				// next to a directory that stops being one: a new sibling that sorts between its name and its old children
				used[d] = true
				b2 := 3
				out = append(out, c03GenNode(r, d, depth, &b2, true))
			}
		}
	}
	for i := r.Intn(3); i > 0; i-- {
		name := Pick(r, c03Pool)
		if len(kids) > 0 && r.Chance(20) {
			name = Pick(r, kids).name + Pick(r, c03LowSuffix)
		}
		if used[name] {
			continue
		}
		used[name] = true
		b := 5
		out = append(out, c03GenNode(r, name, depth, &b, true))
	}
	sort.Slice(out, func(i, j int) bool { return out[i].name < out[j].name })
	return out
}

// wanted(path, same): would an honest sender be asked for the content of this regular file
func c03Items(src []*c03N, wanted func(string, bool) bool) []c03Item {
	var flat []c03Flat
	c03Walk(src, "", &flat)
	present := map[string]*c03N{}
	var items []c03Item
	for _, f := range flat {
		n := f.n
		if n.typ == 5 {
			// an honest walker names the first member of the group; if that one is gone the link is the file
			if s, ok := present[n.target]; !ok || s.typ != n.ltyp {
				n = c03Clone(n)
				n.typ = n.ltyp
				n.same = false
			}
		}
		present[f.path] = n
		it := c03Item{st: c03StatOf(f.path, n)}
		if n.typ == 0 {
			it.data = n.data
			it.want = wanted(f.path, n.same)
		}
		items = append(items, it)
	}
	return items
}

type c03Stream struct {
	pk    []Sx
	class string
}

func c03StatPk(st *types.Stat) Sx { return L(N(0), StatSx(st)) }

func c03Play(r *Rng, items []c03Item) []Sx {
	var pk []Sx
	var pos []int
	for _, it := range items {
		pos = append(pos, len(pk))
		pk = append(pk, c03StatPk(it.st))
	}
	pk = append(pk, L(N(0)))
	// content: after the STAT of the file, anywhere up to the end
	for id := len(items) - 1; id >= 0; id-- {
		it := items[id]
		if !it.want {
			continue
		}
		var chunks []Sx
		d := it.data
		for len(d) > 0 {
			k := 1 + r.Intn(len(d))
			chunks = append(chunks, L(N(1), NI(id), B(d[:k])))
			d = d[k:]
		}
		chunks = append(chunks, L(N(1), NI(id), B(nil)))
		at := len(pk)
		if r.Chance(50) {
			at = pos[id] + 1 + r.Intn(len(pk)-pos[id])
		}
		pk = append(pk[:at:at], append(chunks, pk[at:]...)...)
		for j := range pos {
			if pos[j] >= at {
				pos[j] += len(chunks)
			}
		}
	}
	return append(pk, L(N(2)))
}

var c03BadPaths = []string{".", "..", "../x", "/abs", "a/../..", "a/./b", "a//b", "", "a/", "../dest/a", "../sib", "../../out/f",
	"..//", "a/..", "./a", "/w/dest/a", "../../secret", "l/../../sib", "../dest", "a/../../sib", "\x00", "a\\b", "../", "/", "./"}

func c03RandStat(r *Rng, path string) *types.Stat {
	b := 1
	n := c03GenNode(r, "x", 3, &b, true)
	return c03StatOf(path, n)
}

func c03Insert(pk []Sx, at int, x ...Sx) []Sx {
	if at > len(pk) {
		at = len(pk)
	}
	return append(pk[:at:at], append(x, pk[at:]...)...)
}

func c03StatIdx(pk []Sx) []int {
	var idx []int
	for i, p := range pk {
		if p.L[0].Int() == 0 && len(p.L) == 2 {
			idx = append(idx, i)
		}
	}
	return idx
}

// one corruption of a played stream; returns the class name
func c03Corrupt(r *Rng, pk []Sx, dest []*c03N) ([]Sx, string) {
	stats := c03StatIdx(pk)
	pickStat := func() (int, *types.Stat) {
		if len(stats) == 0 {
			return -1, nil
		}
		i := Pick(r, stats)
		return i, SxStat(pk[i].L[1])
	}
	switch k := r.Intn(100); {
	case k < 22: // path alphabet
		i, st := pickStat()
		var p string
		switch r.Intn(3) {
		case 0:
			p = Pick(r, c03BadPaths)
		case 1:
			if st != nil {
				p = Pick(r, []string{"../", "./", "/", "../../", "a/../", "l/"}) + st.Path
			} else {
				p = ".."
			}
		default:
			if st != nil {
				p = st.Path + Pick(r, []string{"/", "/..", "/.", "/../../sib", "//x", "/../.."})
			} else {
				p = "."
			}
		}
		if st != nil && r.Chance(60) {
			st.Path = p
			pk[i] = c03StatPk(st)
		} else {
			at := 0
			if len(pk) > 0 {
				at = r.Intn(len(pk))
			}
			pk = c03Insert(pk, at, c03StatPk(c03RandStat(r, p)))
		}
		return pk, "bad-path"
	case k < 36: // child of something that is not a directory of this stream
		var cand []string // stream entries that are no directories
		where := map[string]int{}
		for _, i := range stats {
			st := SxStat(pk[i].L[1])
			if !os.FileMode(st.Mode).IsDir() {
				cand = append(cand, st.Path)
				where[st.Path] = i + 1
			}
		}
		var flat []c03Flat
		c03Walk(dest, "", &flat)
		for _, f := range flat { // destination entries the stream does not mention
			if _, ok := where[f.path]; !ok && f.n.typ != 1 {
				cand = append(cand, f.path)
			}
		}
		if len(cand) == 0 {
			cand = []string{"l"}
		}
		par := Pick(r, cand)
		child := c03RandStat(r, par+"/"+Pick(r, []string{"g", "f", "x", "a", "new"}))
		at, ok := where[par]
		if !ok { // sorted position among the STATs
			at = len(pk)
			for _, i := range stats {
				if fsutilCompare(SxStat(pk[i].L[1]).Path, child.Path) > 0 {
					at = i
					break
				}
			}
			if at == len(pk) && len(stats) > 0 {
				at = stats[len(stats)-1] + 1
			}
		}
		return c03Insert(pk, at, c03StatPk(child)), "child-of-nondir"
	case k < 46: // order
		if len(stats) >= 2 {
			i, j := Pick(r, stats), Pick(r, stats)
			switch r.Intn(3) {
			case 0:
				pk[i], pk[j] = pk[j], pk[i]
			case 1:
				pk = c03Insert(pk, j+1, pk[i])
			default:
				x := pk[i]
				pk = append(pk[:i:i], pk[i+1:]...)
				pk = c03Insert(pk, stats[len(stats)-1], x)
			}
		}
		return pk, "order"
	case k < 60: // hard links
		i, st := pickStat()
		if st == nil {
			return pk, "hardlink"
		}
		var names []string
		for _, j := range stats {
			names = append(names, SxStat(pk[j].L[1]).Path)
		}
		link := Pick(r, []string{"zz", "../sib", "/out/f", "../../out/f", "l/f", "./a", "a/../a", "l", "/w/sib", ".."})
		if r.Chance(55) {
			link = Pick(r, names)
		}
		h := &types.Stat{Path: st.Path, Mode: uint32(Pick(r, c03Perms) & 0777), Uid: Pick(r, c03Ids), Gid: Pick(r, c03Ids),
			ModTime: c03Mtime(r), Linkname: link}
		if r.Chance(20) {
			h.Mode |= uint32(os.ModeSetuid)
		}
		if r.Chance(20) {
			h.Xattrs = map[string][]byte{"user.h": []byte("1")}
		}
		if r.Chance(30) { // a further name of a fifo / device; type bits that contradict each other
			h.Mode |= Pick(r, []uint32{uint32(os.ModeNamedPipe), uint32(os.ModeDevice | os.ModeCharDevice), uint32(os.ModeDevice),
				uint32(os.ModeDevice | os.ModeSymlink), uint32(os.ModeNamedPipe | os.ModeSymlink), uint32(os.ModeSocket)})
			if os.FileMode(h.Mode)&os.ModeDevice != 0 {
				h.Devmajor, h.Devminor = 1, 3
			}
		}
		if r.Chance(50) {
			pk[i] = c03StatPk(h)
		} else {
			h.Path = st.Path + "z"
			pk = c03Insert(pk, i+1, c03StatPk(h))
		}
		return pk, "hardlink"
	case k < 70: // xattrs on a symlink that points out
		i, st := pickStat()
		if st == nil {
			return pk, "symlink-xattr"
		}
		s := &types.Stat{Path: st.Path, Mode: uint32(os.ModeSymlink | 0777), Linkname: Pick(r, c03OutLink),
			Uid: Pick(r, c03Ids), Gid: Pick(r, c03Ids), ModTime: c03Mtime(r),
			Xattrs: map[string][]byte{Pick(r, []string{"user.x", "trusted.x", "other.x"}): []byte("X")}}
		if os.FileMode(st.Mode).IsDir() { // keep the children valid: add a sibling instead
			s.Path = st.Path + "-"
			pk = c03Insert(pk, i, c03StatPk(s))
		} else {
			pk[i] = c03StatPk(s)
		}
		return pk, "symlink-xattr"
	case k >= 76 && k < 84: // content for an id whose transfer has ended: after its terminator, often after everything else
		type term struct {
			at, id int
			empty  bool // the id was served without a single byte
		}
		var terms []term
		seen := map[int]bool{}
		for i, x := range pk {
			if x.L[0].Int() == 1 {
				id := int(x.L[1].U64())
				if len(x.L[2].B) == 0 {
					terms = append(terms, term{i, id, !seen[id]})
				}
				seen[id] = true
			}
		}
		if len(terms) == 0 {
			return pk, "late-data"
		}
		t := Pick(r, terms)
		if r.Chance(50) { // prefer the ones served empty
			for _, u := range terms {
				if u.empty {
					t = u
					break
				}
			}
		}
		at := t.at + 1 + r.Intn(len(pk)-t.at)
		if r.Chance(50) && len(pk) > 0 && pk[len(pk)-1].L[0].Int() == 2 {
			at = len(pk) - 1 // when the receiver has sent its FIN, just before ours
		}
		var d []byte
		if r.Chance(75) {
			d = []byte("L:" + fmt.Sprint(t.id))
		}
		pk = c03Insert(pk, at, L(N(1), NI(t.id), B(d)))
		if r.Chance(25) {
			pk = c03Insert(pk, at+1, L(N(1), NI(t.id), B(nil)))
		}
		return pk, "late-data"
	case k < 76: // content for ids nobody asked for
		at := 0
		if len(pk) > 0 {
			at = r.Intn(len(pk) + 1)
		}
		id := r.Intn(len(stats) + 3)
		var d []byte
		if r.Chance(70) {
			d = []byte("H:" + fmt.Sprint(id))
		}
		return c03Insert(pk, at, L(N(1), NI(id), B(d))), "data-bad"
	case k < 94: // terminators, FIN / ERR anywhere, truncation, foreign packets
		at := 0
		if len(pk) > 0 {
			at = r.Intn(len(pk) + 1)
		}
		switch r.Intn(7) {
		case 0:
			return c03Insert(pk, at, L(N(0))), "extra-terminator"
		case 1:
			if len(pk) == 0 {
				return []Sx{L(N(0)), c03StatPk(c03RandStat(r, "zzz"))}, "stat-after-end"
			}
			return append(pk[:len(pk)-1:len(pk)-1], c03StatPk(c03RandStat(r, "zzz")), pk[len(pk)-1]), "stat-after-end"
		case 2:
			return c03Insert(pk, at, L(N(2))), "fin-anywhere"
		case 3:
			return c03Insert(pk, at, L(N(3), S("boom"))), "err-anywhere"
		case 4:
			return pk[:at], "truncated"
		case 5:
			return c03Insert(pk, at, L(N(4), NI(r.Intn(4)))), "foreign-packet"
		default:
			return c03Insert(pk, at, L(N(5), N(7))), "foreign-packet"
		}
	default: // mode bits that make no consistent type
		i, st := pickStat()
		if st == nil {
			return pk, "odd-mode"
		}
		st.Mode = Pick(r, []uint32{uint32(os.ModeSocket | 0644), uint32(os.ModeIrregular | 0644), uint32(os.ModeCharDevice | 0644),
			uint32(os.ModeDir | os.ModeSymlink | 0755), uint32(os.ModeDevice | 0600), uint32(os.ModeNamedPipe | os.ModeSymlink | 0644),
			uint32(os.ModeAppend | 0644), uint32(os.ModeSetuid | os.ModeSetgid | 0755), uint32(os.ModeDir | os.ModeSetgid | os.ModeSticky | 0777),
			uint32(os.ModeDir | os.ModeNamedPipe | 0700)})
		if os.FileMode(st.Mode)&os.ModeDevice != 0 {
			st.Devmajor, st.Devminor = 1, 3
		}
		if r.Chance(35) { // ... together with a Linkname: an earlier entry of the stream, or somewhere else
			var names []string
			for _, j := range stats {
				if j < i {
					names = append(names, SxStat(pk[j].L[1]).Path)
				}
			}
			names = append(names, Pick(r, c03OutLink))
			st.Linkname = Pick(r, names)
		}
		pk[i] = c03StatPk(st)
		return pk, "odd-mode"
	}
}

func fsutilCompare(a, b string) int {
	n := len(a)
	if len(b) < n {
		n = len(b)
	}
	for i := 0; i < n; i++ {
		switch {
		case a[i] == b[i]:
			continue
		case b[i] != '/' && a[i] < b[i] || a[i] == '/':
			return -1
		default:
			return 1
		}
	}
	return len(a) - len(b)
}

var c03DestStrings = []string{"/w/dest", "/w/dest", "/w/dest", "w/dest", "/lnk", "lnk", "/w/dest/", "/out/../w/dest", "/w/./dest"}

const c03ListingName = ".fsutil-metadata" // receive.go metadataPath: the one name the epilogue of a metadata transfer touches

// a callback of ReceiveOpt in the form (default (path ...)), see c03_recv.go
type c03Pred struct {
	set   bool
	def   bool
	paths map[string]bool
}

func (p c03Pred) ok(path string) bool { return !p.set || p.def != p.paths[path] }

// force makes the callback answer val for path
func (p *c03Pred) force(path string, val bool) {
	if p.set {
		if p.def == val {
			delete(p.paths, path)
		} else {
			p.paths[path] = true
		}
	}
}
func (p c03Pred) sx() Sx {
	if !p.set {
		return L()
	}
	var ps []string
	for k := range p.paths {
		ps = append(ps, k)
	}
	sort.Strings(ps)
	var xs []Sx
	for _, k := range ps {
		xs = append(xs, S(k))
	}
	return L(Bool(p.def), L(xs...))
}

// MetadataOnly selector: all (everything transferred in full) / none / some
func c03GenPred(r *Rng, paths []string) c03Pred {
	p := c03Pred{set: true, def: r.Chance(50), paths: map[string]bool{}}
	if r.Chance(35) {
		return p // all or none
	}
	for _, q := range paths {
		if r.Chance(40) {
			p.paths[q] = true
		}
	}
	if r.Chance(20) {
		p.paths[Pick(r, c03BadPaths)] = true
	}
	return p
}

func c03Case(r *Rng) (Sx, string, bool) {
	budget := 3 + r.Intn(9)
	dest := c03GenKids(r, 0, &budget, false)
	merge := r.Chance(25)
	metaMode := r.Chance(35)
	if metaMode {
		merge = r.Chance(50)
	}
	if r.Chance(map[bool]int{false: 4, true: 45}[metaMode]) {
		// the destination already holds something under the listing name
		b := 4
		n := c03GenNode(r, c03ListingName, 2, &b, false)
		dest = append([]*c03N{n}, dest...)
		sort.Slice(dest, func(i, j int) bool { return dest[i].name < dest[j].name })
	}
	c03AddHardlinks(r, &dest)
	outsideHL := ""
	if r.Chance(6) {
		outsideHL = "oh"
	}
	src := c03Mutate(r, dest, 0)
	var srcFlat []c03Flat
	c03Walk(src, "", &srcFlat)
	var srcPaths []string
	for _, f := range srcFlat {
		srcPaths = append(srcPaths, f.path)
	}
	var mo c03Pred
	if metaMode {
		mo = c03GenPred(r, srcPaths)
	}
	// ReceiveOpt.Filter: rejects a few subtrees and / or shifts the ids (an id-mapping filter)
	fltSx := L()
	var rej []string
	idShift := false
	if r.Chance(22) {
		var destFlat []c03Flat
		c03Walk(dest, "", &destFlat)
		pool := append([]string{}, srcPaths...)
		for _, f := range destFlat {
			pool = append(pool, f.path)
		}
		if len(pool) > 0 && r.Chance(70) {
			for i := 1 + r.Intn(2); i > 0; i-- {
				rej = append(rej, Pick(r, pool))
			}
		}
		var ua, ga uint64
		if r.Chance(50) {
			ua, ga = Pick(r, []uint64{0, 100000}), Pick(r, []uint64{100000, 7})
			idShift = true
		}
		var rs []Sx
		for _, q := range rej {
			rs = append(rs, S(q))
		}
		fltSx = L(L(rs...), N(ua), N(ga))
	}
	rejected := func(p string) bool {
		for _, q := range rej {
			if p == q || strings.HasPrefix(p, q+"/") {
				return true
			}
		}
		return false
	}
	items := c03Items(src, func(p string, same bool) bool {
		if metaMode && (p == c03ListingName || !mo.ok(p)) {
			return false
		}
		if rejected(p) {
			return false
		}
		return merge || !same || idShift
	})
	if outsideHL != "" && r.Chance(70) { // the stream agrees with the second name of /out/f ...
		st := &types.Stat{Path: outsideHL, Mode: 0644, Size: 3, ModTime: int64(1e18) + 11}
		items = append(items, c03Item{st: st})
		sort.Slice(items, func(i, j int) bool { return fsutilCompare(items[i].st.Path, items[j].st.Path) < 0 })
	}
	linkThrough := false
	fltThrough := !metaMode && len(rej) > 0 && r.Chance(30) // the same shape with a rejecting Filter instead of the selector
	if (metaMode && r.Chance(18)) || fltThrough {
		// a name that the destination holds as a symlink to a directory outside is announced as a
		// directory with a child the outside directory really has, both only recorded; then a
		// hard link to that child which is transferred
		type cand struct{ name, child string }
		var cands []cand
		for _, k := range dest {
			if k.typ == 2 {
				switch k.target {
				case "/out", "../../out":
					cands = append(cands, cand{k.name, "f"})
				case "/out/d", "../../out/d":
					cands = append(cands, cand{k.name, "g"})
				case "..":
					cands = append(cands, cand{k.name, "sib"})
				case "/", "../..":
					cands = append(cands, cand{k.name, "secret"})
				}
			}
		}
		if len(cands) > 0 {
			cd := Pick(r, cands)
			var keep []c03Item
			for _, it := range items { // the stream's own version of that name goes
				if it.st.Path != cd.name && !strings.HasPrefix(it.st.Path, cd.name+"/") {
					keep = append(keep, it)
				}
			}
			hl := cd.name + "~h"
			keep = append(keep,
				c03Item{st: &types.Stat{Path: cd.name, Mode: uint32(os.ModeDir | 0755), ModTime: c03Mtime(r)}},
				c03Item{st: &types.Stat{Path: cd.name + "/" + cd.child, Mode: 0644, ModTime: c03Mtime(r)}},
				c03Item{st: &types.Stat{Path: hl, Mode: 0644, ModTime: c03Mtime(r), Linkname: cd.name + "/" + cd.child}})
			sort.Slice(keep, func(i, j int) bool { return fsutilCompare(keep[i].st.Path, keep[j].st.Path) < 0 })
			items = keep
			if fltThrough {
				rej = []string{cd.name}
				fltSx = L(L(S(cd.name)), fltSx.L[1], fltSx.L[2])
				merge = r.Chance(50)
			} else {
				mo.set = true
				mo.force(cd.name, false)
				mo.force(cd.name+"/"+cd.child, false)
				mo.force(hl, true)
				merge = r.Chance(80)
			}
			linkThrough = true
		}
	}
	pk := c03Play(r, items)
	class := "valid"
	if linkThrough {
		class = "link-through"
	}
	if outsideHL != "" && r.Chance(60) {
		// ... and then names it as the source of a hard link that carries other metadata
		h := &types.Stat{Path: outsideHL + "z", Mode: uint32(Pick(r, c03Perms) & 0777), Uid: Pick(r, c03Ids), Gid: Pick(r, c03Ids),
			ModTime: c03Mtime(r), Size: 3, Linkname: outsideHL}
		if r.Chance(30) {
			h.Xattrs = map[string][]byte{"user.h": []byte("1")}
		}
		for i, x := range pk {
			if x.L[0].Int() == 0 && len(x.L) == 2 && SxStat(x.L[1]).Path == outsideHL {
				pk = c03Insert(pk, i+1, c03StatPk(h))
				break
			}
		}
		class = "shared-inode-link"
	}
	if (class == "valid" || (linkThrough && r.Chance(25))) && r.Chance(map[bool]int{false: 72, true: 55}[metaMode]) {
		pk, class = c03Corrupt(r, pk, dest)
		if r.Chance(12) {
			pk, _ = c03Corrupt(r, pk, dest)
			class = "two-corruptions"
		}
	}
	if metaMode {
		class = "meta-" + class
		if r.Chance(40) {
			// forward the hard links of the stream but not what they name (nor the directories above it)
			for _, i := range c03StatIdx(pk) {
				st := SxStat(pk[i].L[1])
				m := os.FileMode(st.Mode)
				if st.Linkname == "" || m.IsDir() || m&os.ModeSymlink != 0 {
					continue
				}
				mo.force(st.Path, true)
				for q := st.Linkname; q != "" && q != "."; {
					mo.force(q, false)
					if j := strings.LastIndexByte(q, '/'); j >= 0 {
						q = q[:j]
					} else {
						q = ""
					}
				}
			}
			class += "+link-sel"
		}
	}
	outLinks := 0
	var flat []c03Flat
	c03Walk(dest, "", &flat)
	for _, f := range flat {
		if f.n.typ == 2 && (strings.HasPrefix(f.n.target, "/") || strings.HasPrefix(f.n.target, "..")) {
			outLinks++
		}
	}
	if len(fltSx.L) > 0 {
		class = "flt-" + class
	}
	in := L(c03SetupOps(dest, outsideHL), S(Pick(r, c03DestStrings)), L(pk...), Bool(merge), L(mo.sx(), fltSx))
	return in, class, outLinks >= 1 && len(pk) >= 3
}

// directed cases: the three historical witnesses (also in corpus/C03) and a few shapes the
// random grammar reaches rarely
func c03Directed() []Sx {
	sym := func(name, target string) *c03N {
		return &c03N{name: name, typ: 2, perm: 0777, target: target, mtime: int64(1e18) + 5}
	}
	file := func(name, data string) *c03N {
		return &c03N{name: name, typ: 0, perm: 0644, data: []byte(data), mtime: int64(1e18) + 5}
	}
	dir := func(name string, kids ...*c03N) *c03N {
		return &c03N{name: name, typ: 1, perm: 0755, kids: kids, mtime: int64(1e18) + 5}
	}
	dest := []*c03N{file("a", "D:a"), dir("b", file("c", "D:c")), sym("l", "/out/d"), sym("m", "../sib")}
	setup := c03SetupOps(dest, "")
	fin := L(N(2))
	end := L(N(0))
	dstat := func(p string) Sx {
		return c03StatPk(&types.Stat{Path: p, Mode: uint32(os.ModeDir | 0755), ModTime: 1e18})
	}
	fstat := func(p string) Sx { return c03StatPk(&types.Stat{Path: p, Mode: 0644, ModTime: 1e18}) }
	lstat := func(p, t string, xa map[string][]byte) Sx {
		return c03StatPk(&types.Stat{Path: p, Mode: uint32(os.ModeSymlink | 0777), Linkname: t, ModTime: 1e18, Xattrs: xa})
	}
	mk := func(d string, pk ...Sx) Sx { return L(setup, S(d), L(pk...), Bool(false)) }
	return []Sx{
		// F1: STAT ".." (a directory) / STAT "." (a symlink) were accepted: dest's parent / dest itself replaced
		mk("/w/dest", dstat(".."), end, fin),
		mk("/w/dest", lstat(".", "/out", nil), end, fin),
		mk("/w/dest", fstat("../sib"), end, fin),
		// F2: Setxattr followed the symlink it had just created
		mk("/w/dest", lstat("s", "/out/f", map[string][]byte{"user.x": []byte("X")}), end, fin),
		mk("/lnk", lstat("l", "../sib", map[string][]byte{"trusted.x": []byte("X")}), end, fin),
		// children of what the destination holds as a symlink to an outside directory
		mk("/w/dest", fstat("l/g"), end, fin),
		mk("/w/dest", dstat("l"), fstat("l/g"), end, L(N(1), N(1), S("new")), L(N(1), N(1), B(nil)), fin),
		mk("/w/dest", lstat("l", "/out/d", nil), fstat("l/g"), end, fin),
		// terminator twice / STAT after the terminator
		mk("/w/dest", fstat("a"), end, end, fin),
		mk("/w/dest", end, fstat("a"), fin),
		// FIN before the listing ended, then end of stream
		mk("/w/dest", fstat("a"), fin),
		// the destination holds a second name ("oh") of the sentinel file /out/f; the stream
		// leaves it as it is and then sends a hard link to it with other metadata
		L(c03SetupOps(dest, "oh"), S("/w/dest"), L(
			c03StatPk(&types.Stat{Path: "oh", Mode: 0644, Size: 3, ModTime: int64(1e18) + 11}),
			c03StatPk(&types.Stat{Path: "oi", Mode: 0777, Uid: 1000, Gid: 1000, Size: 3, ModTime: int64(1e18) + 99, Linkname: "oh",
				Xattrs: map[string][]byte{"user.x": []byte("X")}}),
			end, fin), Bool(false)),
		// the same shapes with ReceiveOpt.Merge
		L(setup, S("/w/dest"), L(dstat(".."), end, fin), Bool(true)),
		L(setup, S("/w/dest"), L(dstat("l"), fstat("l/g"), end, L(N(1), N(1), S("new")), L(N(1), N(1), B(nil)), fin), Bool(true)),
		L(setup, S("/w/dest"), L(fstat("l/g"), end, fin), Bool(true)),
	}
}

func genC03Streams(g *Gen) {
	for _, in := range c03Directed() {
		g.Emit(0x0302, in, true, "directed")
	}
	n := g.Vol(1500, 40000)
	for i := 0; i < n; i++ {
		in, class, nt := c03Case(g.Rng)
		out := g.Emit(0x0302, in, nt, "stream:"+class)
		if len(out.L) > 0 && out.L[0].Kind == 'n' {
			g.classes[fmt.Sprintf("receive-class-%d", out.L[0].Int())]++
		}
	}
}
