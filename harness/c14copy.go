package main

// C14, kind 1404: the real copy.Copy inside the jail vs the syscall-level model Model/CopyFs.v.
//
// input : (ops srcRoot src dstRoot dst (follow wildcards alwaysReplace dirContents chown utime mode))
//         ops build the whole jail (source root, destination root, an outside area) in the
//         encoding of kind 0301; chown = () | (uid gid); utime = () | (ns); mode = () | (bits)
// output: (op-results snapshot-before matches err snapshot-after (dstRoot-ino-before dstRoot-ino-after))
//         matches = () without wildcards, (0 (m ...)) | (1) = what the real ResolveWildcards returned
//         (wildcard expansion is an input of the model); err = 0 | 1 | 2 (panic)
// Snapshots cover the WHOLE jail: every path, hard-link class, type, mode, owner, mtime ("now" mark),
// rdev, link target, xattrs, content.

import (
	"context"
	"fmt"
	"os"
	"strings"
	"time"

	fscopy "github.com/tonistiigi/fsutil/copy"
	"golang.org/x/sys/unix"
)

func init() {
	kinds[0x1404] = func(in Sx) Sx { return c14Call("1404", in) }
	c14ChildKinds["1404"] = c14copyChild
}

func c14Ino(p string) uint64 {
	var st unix.Stat_t
	if err := unix.Lstat(p, &st); err != nil {
		return 0
	}
	return st.Ino
}

func c14copyChild(in Sx) Sx {
	t0 := time.Now().UnixNano() - 2e9
	built := child0301(in.L[0])
	srcRoot, src, dstRoot, dst := in.L[1].Str(), in.L[2].Str(), in.L[3].Str(), in.L[4].Str()
	o := in.L[5].L
	ci := fscopy.CopyInfo{FollowLinks: o[0].IsTrue(), AllowWildcards: o[1].IsTrue(),
		AlwaysReplaceExistingDestPaths: o[2].IsTrue(), CopyDirContents: o[3].IsTrue()}
	if len(o[4].L) == 2 {
		uid, gid := int(o[4].L[0].U64()), int(o[4].L[1].U64())
		ci.Chown = func(*fscopy.User) (*fscopy.User, error) { return &fscopy.User{UID: uid, GID: gid}, nil }
	}
	if len(o[5].L) == 1 {
		tm := time.Unix(0, int64(o[5].L[0].U64()))
		ci.Utime = &tm
	}
	if len(o[6].L) == 1 {
		m := int(o[6].L[0].U64())
		ci.Mode = &m
	}
	matches := L()
	if ci.AllowWildcards {
		ms, err := fscopy.ResolveWildcards(srcRoot, src, ci.FollowLinks)
		if err != nil {
			matches = L(N(1))
		} else {
			xs := make([]Sx, len(ms))
			for i, m := range ms {
				xs[i] = S(m)
			}
			matches = L(N(0), L(xs...))
		}
	}
	dinoBefore := c14Ino(dstRoot)
	res := N(0)
	func() {
		defer func() {
			if r := recover(); r != nil {
				res = N(2)
			}
		}()
		if err := fscopy.Copy(context.Background(), srcRoot, src, dstRoot, dst, fscopy.WithCopyInfo(ci)); err != nil {
			res = N(1)
			if os.Getenv("C14_DEBUG") != "" {
				fmt.Fprintln(os.Stderr, "copy error:", err)
			}
		}
	}()
	unix.Chdir("/")
	return L(built.L[0], built.L[1], matches, res, c03Snapshot("/", t0), L(N(dinoBefore), N(c14Ino(dstRoot))))
}

// ---------------------------------------------------------------- generator
var c14cNames = []string{"a", "b", "c", "d", "f", "l"}

var c14cTargets = []string{
	"/o", "/o/f", "/o/d", "../o", "../o/f", "../../o/d", "../../../o/f",
	"a", "/a", "b/c", "..", "/", ".", "l", "nonexistent", "/nonexistent/x", "a/../../o/f", "d/../../o",
	"/o/new", "../o/new2", "/o/d/new3", "../../o/d/new4", "/new5", "../new6", "/dst", "/src/a", "b", "d", "/d", "f",
}

const c14OldTime = uint64(0x1634000000000000)

// ops populating root with n random entries; returns the regular files created
func c14cPopulate(r *Rng, ops *[]Sx, root, tag string, n int) (files []string, links int) {
	add := func(x Sx) { *ops = append(*ops, x) }
	dirs := []string{root}
	used := map[string]bool{}
	for i := 0; i < n; i++ {
		d := Pick(r, dirs)
		p := d + "/" + Pick(r, c14cNames)
		if used[p] {
			continue
		}
		used[p] = true
		meta := true
		switch x := r.Intn(100); {
		case x < 30:
			add(L(N(5), S(p), N(uint64(Pick(r, []int{0755, 0755, 0700, 0775, 01777})))))
			if r.Chance(10) {
				add(L(N(14), S(p), N(02755)))
			}
			dirs = append(dirs, p)
		case x < 58:
			add(L(N(9), S(p), Bool(true), N(uint64(Pick(r, []int{0644, 0644, 0600, 0755}))), N(0), S(fmt.Sprintf("%s:%s:%x", tag, p, r.U64()&0xffff))))
			if r.Chance(10) {
				add(L(N(14), S(p), N(uint64(Pick(r, []int{04755, 02755, 06711})))))
			}
			files = append(files, p)
		case x < 86:
			add(L(N(7), S(Pick(r, c14cTargets)), S(p)))
			links++
		case x < 90:
			add(L(N(6), S(p), N(unix.S_IFIFO), N(0644), N(0)))
		default:
			if len(files) > 0 {
				add(L(N(8), S(Pick(r, files)), S(p)))
				meta = false
			} else {
				add(L(N(9), S(p), Bool(true), N(0644), N(0), S(tag+":"+p)))
				files = append(files, p)
			}
		}
		if meta && r.Chance(30) {
			add(L(N(15), S(p), N(uint64(Pick(r, []int{0, 1000, 12}))), N(uint64(Pick(r, []int{0, 1000, 34})))))
		}
		if meta && r.Chance(50) {
			add(L(N(16), S(p), N(c14OldTime+uint64(r.Intn(1000))*1000000007)))
		}
		if meta && r.Chance(20) {
			add(L(N(17), S(p), S(Pick(r, []string{"user.k", "trusted.t", "user.zz"})), S(fmt.Sprintf("v%d", r.Intn(9)))))
		}
	}
	return
}

func c14GenCopy(g *Gen) {
	n := g.Vol(1200, 25000)
	srcArgs := []string{"/", ".", "a", "b", "d", "l", "f", "a/b", "a/..", "../o", "/../o/f", "l/f", "d/f", "*", "?/*", "a/", "../../o/d", "a/*", "[ab]"}
	dstArgs := []string{"/", ".", "a", "b", "d", "l", "f", "a/b", "a/..", "../o", "/../o/f", "l/f", "d/f", "a/", "../../o/d", "new", "new/sub", "a/new/", "l/new", "./", ""}
	for i := 0; i < n; i++ {
		r := g.Rng
		var ops []Sx
		add := func(x Sx) { ops = append(ops, x) }
		add(L(N(5), S("/o"), N(0755)))
		add(L(N(5), S("/o/d"), N(0755)))
		add(L(N(9), S("/o/f"), Bool(true), N(0644), N(0), S("O:f")))
		add(L(N(9), S("/o/d/a"), Bool(true), N(0644), N(0), S("O:da")))
		add(L(N(7), S("d"), S("/o/l")))
		add(L(N(16), S("/o/f"), N(c14OldTime)))
		add(L(N(16), S("/o/d"), N(c14OldTime)))
		add(L(N(5), S("/src"), N(0755)))
		add(L(N(5), S("/dst"), N(uint64(Pick(r, []int{0755, 0755, 0700})))))
		if r.Chance(15) {
			add(L(N(14), S("/dst"), N(02775)))
			add(L(N(15), S("/dst"), N(0), N(34)))
		}
		_, l1 := c14cPopulate(r, &ops, "/src", "S", 3+r.Intn(9))
		dfiles, l2 := []string(nil), 0
		if !r.Chance(20) {
			dfiles, l2 = c14cPopulate(r, &ops, "/dst", "D", r.Intn(9))
		}
		if len(dfiles) > 0 && r.Chance(30) {
			add(L(N(8), S(Pick(r, dfiles)), S("/o/h"))) // an inode of the destination also linked from outside
		}
		if r.Chance(20) {
			add(L(N(16), S("/dst"), N(c14OldTime+77)))
		}
		srcArg, dstArg := Pick(r, srcArgs), Pick(r, dstArgs)
		wild := strings.ContainsAny(srcArg, "*?[") || r.Chance(10)
		opt := func(p int, x Sx) Sx {
			if r.Chance(p) {
				return x
			}
			return L()
		}
		o := L(Bool(r.Chance(50)), Bool(wild), Bool(r.Chance(30)), Bool(r.Chance(30)),
			opt(25, L(N(uint64(Pick(r, []int{0, 1000, 7}))), N(uint64(Pick(r, []int{0, 1000, 9}))))),
			opt(25, L(N(c14OldTime+5000000000))),
			opt(20, L(N(uint64(Pick(r, []int{0700, 0751, 0644, 02750}))))))
		in := L(L(ops...), S("/src"), S(srcArg), S("/dst"), S(dstArg), o)
		out := g.Emit(0x1404, in, l1+l2 >= 2, fmt.Sprintf("copyfs follow=%v wild=%v", o.L[0].IsTrue(), wild))
		if len(out.L) == 6 && out.L[3].Kind == 'n' {
			switch out.L[3].Int() {
			case 0:
				g.classes["copyfs-ok"]++
			case 1:
				g.classes["copyfs-error"]++
			default:
				g.classes["copyfs-panic"]++
			}
		}
	}
}
