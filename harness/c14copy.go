package main

// C14, kind 1404: the real copy.Copy inside the jail vs the syscall-level model Model/CopyFs.v.
//
// input : (ops srcRoot src dstRoot dst (follow wildcards alwaysReplace dirContents chown utime mode [include exclude]))
//         include / exclude = lists of pattern strings (absent in old corpus cases)
//         ops build the whole jail (source root, destination root, an outside area) in the
//         encoding of kind 0301; chown = () | (uid gid); utime = () | (ns); mode = () | (bits)
// output: (op-results snapshot-before matches err snapshot-after (dstRoot-ino-before dstRoot-ino-after) pmatch-table)
//         pmatch-table = ((cleanedPattern path bool) ...): the real single-pattern results of moby/patternmatcher
//         for every relative path below srcRoot (the matcher is an input of the model)
//         matches = () without wildcards, (0 (m ...)) | (1) = what the real ResolveWildcards returned
//         (wildcard expansion is an input of the model); err = 0 | 1 | 2 (panic)
// Snapshots cover the WHOLE jail: every path, hard-link class, type, mode, owner, mtime ("now" mark),
// rdev, link target, xattrs, content.

import (
	"context"
	"fmt"
	"os"
	"strings"
	"time"

	fscopy "github.com/tonistiigi/fsutil/copy"
	"golang.org/x/sys/unix"
)

func init() {
	kinds[0x1404] = func(in Sx) Sx { return c14Call("1404", in) }
	c14ChildKinds["1404"] = c14copyChild
}

func c14Ino(p string) uint64 {
	var st unix.Stat_t
	if err := unix.Lstat(p, &st); err != nil {
		return 0
	}
	return st.Ino
}

func c14copyChild(in Sx) Sx {
	t0 := time.Now().UnixNano() - 2e9
	built := child0301(in.L[0])
	srcRoot, src, dstRoot, dst := in.L[1].Str(), in.L[2].Str(), in.L[3].Str(), in.L[4].Str()
	o := in.L[5].L
	ci := fscopy.CopyInfo{FollowLinks: o[0].IsTrue(), AllowWildcards: o[1].IsTrue(),
		AlwaysReplaceExistingDestPaths: o[2].IsTrue(), CopyDirContents: o[3].IsTrue()}
	if len(o[4].L) == 2 {
		uid, gid := int(o[4].L[0].U64()), int(o[4].L[1].U64())
		ci.Chown = func(*fscopy.User) (*fscopy.User, error) { return &fscopy.User{UID: uid, GID: gid}, nil }
	}
	if len(o[5].L) == 1 {
		tm := time.Unix(0, int64(o[5].L[0].U64()))
		ci.Utime = &tm
	}
	if len(o[6].L) == 1 {
		m := int(o[6].L[0].U64())
		ci.Mode = &m
	}
	var pats []string
	if len(o) >= 9 {
		for _, x := range o[7].L {
			ci.IncludePatterns = append(ci.IncludePatterns, x.Str())
		}
		for _, x := range o[8].L {
			ci.ExcludePatterns = append(ci.ExcludePatterns, x.Str())
		}
		pats = append(append(pats, ci.IncludePatterns...), ci.ExcludePatterns...)
	}
	table := L()
	if len(pats) > 0 {
		table = L(pmatchTable(pats, withPrefixes(c14RelPaths(srcRoot)))...)
	}
	matches := L()
	if ci.AllowWildcards {
		ms, err := fscopy.ResolveWildcards(srcRoot, src, ci.FollowLinks)
		if err != nil {
			matches = L(N(1))
		} else {
			xs := make([]Sx, len(ms))
			for i, m := range ms {
				xs[i] = S(m)
			}
			matches = L(N(0), L(xs...))
		}
	}
	dinoBefore := c14Ino(dstRoot)
	res := N(0)
	func() {
		defer func() {
			if r := recover(); r != nil {
				res = N(2)
			}
		}()
		unix.Access(c14MarkBegin, 0) // markers for kind 1405 (the run under strace)
		defer unix.Access(c14MarkEnd, 0)
		if err := fscopy.Copy(context.Background(), srcRoot, src, dstRoot, dst, fscopy.WithCopyInfo(ci)); err != nil {
			res = N(1)
			if os.Getenv("C14_DEBUG") != "" {
				fmt.Fprintln(os.Stderr, "copy error:", err)
			}
		}
	}()
	unix.Chdir("/")
	return L(built.L[0], built.L[1], matches, res, c03Snapshot("/", t0), L(N(dinoBefore), N(c14Ino(dstRoot))), table)
}

// every path below root relative to each of its ancestors at or below root ("a/b/c", "b/c", "c"):
// the srcComponents copier.copy can see, whatever directory the top-level source is
func c14RelPaths(root string) []string {
	seen := map[string]bool{}
	var out []string
	var rec func(abs string, rel []string)
	rec = func(abs string, rel []string) {
		es, err := os.ReadDir(abs)
		if err != nil {
			return
		}
		for _, e := range es {
			r := append(append([]string{}, rel...), e.Name())
			for i := range r {
				p := strings.Join(r[i:], "/")
				if !seen[p] {
					seen[p] = true
					out = append(out, p)
				}
			}
			if e.IsDir() {
				rec(abs+"/"+e.Name(), r)
			}
		}
	}
	rec(root, nil)
	return out
}

// ---------------------------------------------------------------- generator
var c14cNames = []string{"a", "b", "c", "d", "f", "l"}

var c14cTargets = []string{
	"/o", "/o/f", "/o/d", "../o", "../o/f", "../../o/d", "../../../o/f",
	"a", "/a", "b/c", "..", "/", ".", "l", "nonexistent", "/nonexistent/x", "a/../../o/f", "d/../../o",
	"/o/new", "../o/new2", "/o/d/new3", "../../o/d/new4", "/new5", "../new6", "/dst", "/src/a", "b", "d", "/d", "f",
}

const c14OldTime = uint64(0x1634000000000000)

// ops populating root with n random entries; returns the regular files created
func c14cPopulate(r *Rng, ops *[]Sx, root, tag string, n int) (files []string, links int) {
	add := func(x Sx) { *ops = append(*ops, x) }
	dirs := []string{root}
	used := map[string]bool{}
	for i := 0; i < n; i++ {
		d := Pick(r, dirs)
		p := d + "/" + Pick(r, c14cNames)
		if used[p] {
			continue
		}
		used[p] = true
		meta := true
		switch x := r.Intn(100); {
		case x < 30:
			add(L(N(5), S(p), N(uint64(Pick(r, []int{0755, 0755, 0700, 0775, 01777})))))
			if r.Chance(10) {
				add(L(N(14), S(p), N(02755)))
			}
			dirs = append(dirs, p)
		case x < 58:
			add(L(N(9), S(p), Bool(true), N(uint64(Pick(r, []int{0644, 0644, 0600, 0755}))), N(0), S(fmt.Sprintf("%s:%s:%x", tag, p, r.U64()&0xffff))))
			if r.Chance(10) {
				add(L(N(14), S(p), N(uint64(Pick(r, []int{04755, 02755, 06711})))))
			}
			files = append(files, p)
		case x < 86:
			add(L(N(7), S(Pick(r, c14cTargets)), S(p)))
			links++
		case x < 90:
			add(L(N(6), S(p), N(unix.S_IFIFO), N(0644), N(0)))
		default:
			if len(files) > 0 {
				add(L(N(8), S(Pick(r, files)), S(p)))
				meta = false
			} else {
				add(L(N(9), S(p), Bool(true), N(0644), N(0), S(tag+":"+p)))
				files = append(files, p)
			}
		}
		if meta && r.Chance(30) {
			add(L(N(15), S(p), N(uint64(Pick(r, []int{0, 1000, 12}))), N(uint64(Pick(r, []int{0, 1000, 34})))))
		}
		if meta && r.Chance(50) {
			add(L(N(16), S(p), N(c14OldTime+uint64(r.Intn(1000))*1000000007)))
		}
		if meta && r.Chance(20) {
			add(L(N(17), S(p), S(Pick(r, []string{"user.k", "trusted.t", "user.zz"})), S(fmt.Sprintf("v%d", r.Intn(9)))))
		}
	}
	return
}

// include / exclude patterns over the name universe: deep names (so that parents are deferred),
// globs, "**", exclusions
func c14cPattern(r *Rng) string {
	n := Pick(r, c14cNames)
	m := Pick(r, c14cNames)
	k := Pick(r, c14cNames)
	return Pick(r, []string{n + "/" + m, n + "/" + m, n + "/" + m + "/" + k, "*/" + m, "**/" + m, n + "/*", n, "!" + n + "/" + m, n + "/**", "?/" + m + "/*"})
}

// the "relink" flavour (see c14GenCopy): returns the source argument, the destination argument and
// CopyDirContents.  Sources are the top-level directories T of /src (wildcard matches come in
// lexical order); with the argument "*/X" every T/X is merged into one destination directory.
func c14cRelink(r *Rng, add func(Sx)) (srcArg, dstArg string, dirContents bool) {
	made := map[string]bool{"/src": true, "/o": true, "/o/d": true}
	mkdirP := func(p string) {
		parts := strings.Split(strings.TrimPrefix(p, "/"), "/")
		cur := ""
		for _, c := range parts {
			cur += "/" + c
			if !made[cur] {
				made[cur] = true
				add(L(N(5), S(cur), N(0755)))
			}
		}
	}
	dirOf := func(p string) string { return p[:strings.LastIndex(p, "/")] }
	rel := func(n int) string {
		var cs []string
		for k := 0; k < n; k++ {
			cs = append(cs, Pick(r, []string{"a", "b", "c", "d", "f", "l", "sub", "deep"}))
		}
		return strings.Join(cs, "/")
	}
	// the sources, in the order in which they are copied
	tops := []string{"a", "b", "c", "d", "f", "l"}[:3+r.Intn(3)]
	var base []string
	if r.Chance(65) {
		x := Pick(r, []string{"x", "a", "d"})
		for _, t := range tops {
			base = append(base, "/src/"+t+"/"+x)
		}
		srcArg, dirContents = Pick(r, []string{"*/", "?/", "[a-z]/"})+x, r.Chance(40)
	} else {
		for _, t := range tops {
			base = append(base, "/src/"+t)
		}
		srcArg, dirContents = Pick(r, []string{"*", "?"}), true
	}
	for _, b := range base {
		mkdirP(b)
	}
	dstArg = Pick(r, []string{"/", "/", ".", "new", "a"})
	// the recorded path Q/rest and the position that is replaced: Q itself, or a prefix of Q, or Q/rest
	q, rest := rel(1+r.Intn(2)), rel(1+r.Intn(3))
	p1 := q + "/" + rest
	i := r.Intn(len(base) - 1)
	m := i + 1 + r.Intn(len(base)-1-i)
	if r.Chance(10) {
		m = r.Intn(len(base))
	}
	first := base[i] + "/" + p1
	mkdirP(dirOf(first))
	add(L(N(9), S(first), Bool(true), N(uint64(Pick(r, []int{0644, 0600, 0755}))), N(0), S("S:grp:"+p1)))
	if r.Chance(30) {
		add(L(N(15), S(first), N(1000), N(1000)))
	}
	// the outside directory with the same relative name below it
	out := Pick(r, []string{"/o/r", "/o/r", "/o/d", "/o"})
	pos, below := q, rest
	switch x := r.Intn(10); {
	case x < 6:
	case x < 8 && strings.Contains(q, "/"):
		pos, below = dirOf(q), q[strings.LastIndex(q, "/")+1:]+"/"+rest
	case x < 9:
		pos, below = p1, ""
	}
	if below != "" {
		mkdirP(dirOf(out + "/" + below))
		add(L(N(9), S(out+"/"+below), Bool(true), N(0600), N(0), S("O:relink")))
		add(L(N(16), S(out+"/"+below), N(c14OldTime)))
	} else {
		mkdirP(out)
	}
	add(L(N(16), S(out), N(c14OldTime)))
	// what the later source has there
	at := base[m] + "/" + pos
	mkdirP(dirOf(at))
	switch x := r.Intn(20); {
	case x < 10:
		add(L(N(7), S(out), S(at)))
	case x < 15:
		add(L(N(7), S(strings.Repeat("../", 4+strings.Count(pos, "/"))+strings.TrimPrefix(out, "/")), S(at)))
	case x < 17:
		add(L(N(9), S(at), Bool(true), N(0644), N(0), S("S:blocker")))
	case x < 19:
		mkdirP(at)
	default:
		add(L(N(7), S(Pick(r, c14cTargets)), S(at)))
	}
	// the other members of the group
	for k := 0; k < 1+r.Intn(2); k++ {
		j := m + r.Intn(len(base)-m)
		if r.Chance(15) {
			j = r.Intn(len(base))
		}
		other := base[j] + "/" + rel(1+r.Intn(2))
		if r.Chance(25) {
			other = base[j] + "/" + p1
		}
		mkdirP(dirOf(other))
		add(L(N(8), S(first), S(other)))
	}
	return
}

// the "created chain" flavour: the destination argument n1/../nk names 2..5 levels that do not exist,
// so that Copy creates the chain n1..n(k-1) for the first wildcard match and records it for the
// deferred fixCreatedParentDirs.  The first match is a symlink made of j ".." which is planted at
// nk: for the later matches the destination resolves to the directory j levels up the chain, and a
// match named like the chain component just below it replaces THAT created directory — at the top,
// in the middle or at the end of the chain — by a symlink to an outside directory that holds the
// rest of the chain (absolute or ".."-laden), by a file, or merges a directory into it.
func c14cChain(r *Rng, add func(Sx)) (srcArg, dstArg string) {
	pool := []string{"t", "s", "u", "v", "w", "a", "b", "c"}
	for i := len(pool) - 1; i > 0; i-- {
		j := r.Intn(i + 1)
		pool[i], pool[j] = pool[j], pool[i]
	}
	k := 3 + r.Intn(4) // names in the argument; k-1 created directories
	if r.Chance(15) {
		k = 2
	}
	ns := pool[:k]
	// the link is planted in the directory at depth k-1: with j ".." the destination of the later
	// matches is the directory at depth k-1-j (the root when j >= k-1)
	j := 1 + r.Intn(k)
	pos := k - j // 1-based position in the chain of the created directory just below it
	if pos < 1 {
		pos = 1
	}
	add(L(N(7), S(strings.TrimSuffix(strings.Repeat("../", j), "/")), S("/src/0")))
	// the outside directory with the rest of the chain below it
	out := "/o/r"
	add(L(N(5), S(out), N(0755)))
	cur := out
	rest := ns[pos : k-1]
	for _, n := range rest {
		cur += "/" + n
		add(L(N(5), S(cur), N(0755)))
	}
	for c := cur; c != "/o"; c = c[:strings.LastIndex(c, "/")] {
		add(L(N(16), S(c), N(c14OldTime)))
	}
	add(L(N(16), S("/o"), N(c14OldTime)))
	name := ns[pos-1]
	if r.Chance(10) {
		name = Pick(r, ns)
	}
	at := "/src/" + name
	switch x := r.Intn(20); {
	case x < 9:
		add(L(N(7), S(out), S(at)))
	case x < 14:
		add(L(N(7), S(strings.Repeat("../", k+1)+"o/r"), S(at)))
	case x < 17:
		add(L(N(9), S(at), Bool(true), N(0644), N(0), S("S:blocker")))
	case x < 19:
		add(L(N(5), S(at), N(0750)))
		add(L(N(9), S(at+"/z"), Bool(true), N(0644), N(0), S("S:z")))
	default:
		add(L(N(7), S(Pick(r, c14cTargets)), S(at)))
	}
	if r.Chance(30) {
		add(L(N(9), S("/src/zz"), Bool(true), N(0644), N(0), S("S:zz")))
	}
	return Pick(r, []string{"*", "*", "?", "[0-9a-z]*"}), strings.Join(ns, "/") + Pick(r, []string{"", "", "", "/"})
}

func c14GenCopy(g *Gen) {
	n := g.Vol(1200, 25000)
	srcArgs := []string{"/", ".", "a", "b", "d", "l", "f", "a/b", "a/..", "../o", "/../o/f", "l/f", "d/f", "*", "?/*", "a/", "../../o/d", "a/*", "[ab]"}
	dstArgs := []string{"/", ".", "a", "b", "d", "l", "f", "a/b", "a/..", "../o", "/../o/f", "l/f", "d/f", "a/", "../../o/d", "new", "new/sub", "a/new/", "l/new", "./", ""}
	for i := 0; i < n; i++ {
		r := g.Rng
		var ops []Sx
		add := func(x Sx) { ops = append(ops, x) }
		add(L(N(5), S("/o"), N(0755)))
		add(L(N(5), S("/o/d"), N(0755)))
		add(L(N(9), S("/o/f"), Bool(true), N(0644), N(0), S("O:f")))
		add(L(N(9), S("/o/d/a"), Bool(true), N(0644), N(0), S("O:da")))
		add(L(N(7), S("d"), S("/o/l")))
		add(L(N(16), S("/o/f"), N(c14OldTime)))
		add(L(N(16), S("/o/d"), N(c14OldTime)))
		add(L(N(5), S("/src"), N(0755)))
		add(L(N(5), S("/dst"), N(uint64(Pick(r, []int{0755, 0755, 0700})))))
		if r.Chance(15) {
			add(L(N(14), S("/dst"), N(02775)))
			add(L(N(15), S("/dst"), N(0), N(34)))
		}
		// flavour "created chain" (see c14cChain): decided first, the random trees stay small
		chain := r.Chance(9)
		nsrc := 3 + r.Intn(9)
		if chain {
			nsrc = r.Intn(3)
		}
		_, l1 := c14cPopulate(r, &ops, "/src", "S", nsrc)
		dfiles, l2 := []string(nil), 0
		if !chain && !r.Chance(20) {
			dfiles, l2 = c14cPopulate(r, &ops, "/dst", "D", r.Intn(9))
		}
		if r.Chance(30) {
			// a destination symlink (or file) where a source DIRECTORY name is: the position of a deferred parent
			nm := Pick(r, c14cNames)
			if r.Chance(75) {
				add(L(N(7), S(Pick(r, []string{"/o", "/o/d", "../o", "../o/d"})), S("/dst/"+nm)))
			} else {
				add(L(N(9), S("/dst/"+nm), Bool(true), N(0644), N(0), S("D:blocker")))
			}
		}
		if len(dfiles) > 0 && r.Chance(30) {
			add(L(N(8), S(Pick(r, dfiles)), S("/o/h"))) // an inode of the destination also linked from outside
		}
		if r.Chance(20) {
			add(L(N(16), S("/dst"), N(c14OldTime+77)))
		}
		srcArg, dstArg := Pick(r, srcArgs), Pick(r, dstArgs)
		// flavour "deferred parent": a selected entry D/N below an unselected directory D whose place in
		// the destination is taken by a symlink to an outside directory that has an entry N (or by a
		// real directory / a file, for contrast)
		deferred := r.Chance(12)
		var dD, dN string
		if deferred {
			dD = Pick(r, c14cNames)
			out := Pick(r, []string{"/o", "/o", "/o/d", "../o", "../o/d"})
			if strings.HasSuffix(out, "/d") {
				dN = "a"
			} else {
				dN = Pick(r, []string{"f", "d", "l"})
			}
			add(L(N(5), S("/src/"+dD), N(0755)))
			if r.Chance(70) {
				add(L(N(9), S("/src/"+dD+"/"+dN), Bool(true), N(0644), N(0), S("S:sel")))
			} else {
				add(L(N(5), S("/src/"+dD+"/"+dN), N(0755)))
			}
			switch x := r.Intn(10); {
			case x < 7:
				add(L(N(7), S(out), S("/dst/"+dD)))
			case x < 9:
				add(L(N(5), S("/dst/"+dD), N(0755)))
			default:
				add(L(N(9), S("/dst/"+dD), Bool(true), N(0644), N(0), S("D:blocker")))
			}
			srcArg, dstArg = Pick(r, []string{"/", ".", "/"}), Pick(r, []string{"/", ".", ""})
		}
		// flavour "relink": several wildcard sources merged into one destination directory; a
		// hard-link group whose first member is copied to Q/rest (rest = 1..3 names), a later
		// source that has something else at Q or at an ancestor-or-descendant position of the
		// recorded path (a symlink to an outside directory in which the same relative name
		// exists, a symlink to it written with "..", a file, a real directory), and further
		// members of the group in later (or the same, or earlier) sources
		if chain {
			deferred = false
		}
		relink := !deferred && !chain && r.Chance(12)
		relinkDC := false
		if relink {
			srcArg, dstArg, relinkDC = c14cRelink(r, add)
		}
		if chain {
			srcArg, dstArg = c14cChain(r, add)
		}
		// flavour "overlapping roots": srcRoot = dstRoot, dstRoot below srcRoot, srcRoot below dstRoot
		// (arguments chosen so that the copy does not nest into itself without end)
		sRoot, dRoot := "/src", "/dst"
		overlap := !deferred && !chain && !relink && r.Chance(10)
		if overlap {
			switch r.Intn(4) {
			case 0:
				sRoot, dRoot = "/src", "/src"
				if r.Chance(50) {
					srcArg, dstArg = Pick(r, []string{"a", "b", "d", "a/b", "l"}), Pick(r, []string{"c", "f", "new", "new/sub", "c/new", "f/"})
				} else {
					srcArg, dstArg = Pick(r, []string{"a", "b", "?", "*", "a/*", "d"}), Pick(r, []string{"/", ".", ""})
				}
			case 1:
				sRoot, dRoot = "/dst", "/dst"
				// (Copy expands the wildcards after it has created the destination path: with one root a
				// created top-level directory would be a match the harness has not seen)
				srcArg = Pick(r, []string{"a", "b", "?", "*", "a/*", "d", "l"})
				if strings.ContainsAny(srcArg, "*?") {
					dstArg = Pick(r, []string{"/", "."})
				} else {
					dstArg = Pick(r, []string{"/", ".", "new", "zz/y"})
				}
			case 2:
				sRoot, dRoot = "/src", "/src/sub"
				add(L(N(5), S("/src/sub"), N(0755)))
				c14cPopulate(r, &ops, "/src/sub", "T", r.Intn(5))
				srcArg, dstArg = Pick(r, []string{"a", "b", "d", "l", "f", "a/b", "?", "[a-f]", "a/*", "l/f"}), Pick(r, dstArgs)
			default:
				sRoot, dRoot = "/src/sub", "/src"
				add(L(N(5), S("/src/sub"), N(0755)))
				c14cPopulate(r, &ops, "/src/sub", "T", 2+r.Intn(6))
				srcArg, dstArg = Pick(r, []string{"/", ".", "a", "*", "?/*", "b", "d"}), Pick(r, []string{"c", "new", "a", "/", "l", "new/sub", "."})
			}
		}
		wild := strings.ContainsAny(srcArg, "*?[") || r.Chance(10)
		opt := func(p int, x Sx) Sx {
			if r.Chance(p) {
				return x
			}
			return L()
		}
		var inc, exc []Sx
		if !overlap && r.Chance(35) {
			for k := 0; k < 1+r.Intn(2); k++ {
				inc = append(inc, S(c14cPattern(r)))
			}
		}
		if !overlap && r.Chance(20) {
			for k := 0; k < 1+r.Intn(2); k++ {
				exc = append(exc, S(c14cPattern(r)))
			}
		}
		always := r.Chance(30)
		if len(inc) > 0 {
			always = r.Chance(60) // deferred parents x always-replace: removal must not go through a symlinked parent
		}
		if deferred {
			inc = []Sx{S(dD + "/" + dN)}
			if r.Chance(30) {
				inc = append(inc, S(c14cPattern(r)))
			}
			always = r.Chance(85)
		}
		dirContents := r.Chance(30)
		if relink {
			always = r.Chance(85)
			dirContents = relinkDC
		}
		if chain {
			always = r.Chance(85)
		}
		if overlap {
			always = r.Chance(50)
		}
		o := L(Bool(r.Chance(50)), Bool(wild), Bool(always), Bool(dirContents),
			opt(25, L(N(uint64(Pick(r, []int{0, 1000, 7}))), N(uint64(Pick(r, []int{0, 1000, 9}))))),
			opt(map[bool]int{false: 25, true: 90}[chain], L(N(c14OldTime+5000000000))),
			opt(20, L(N(uint64(Pick(r, []int{0700, 0751, 0644, 02750}))))),
			L(inc...), L(exc...))
		in := L(L(ops...), S(sRoot), S(srcArg), S(dRoot), S(dstArg), o)
		out := g.Emit(0x1404, in, l1+l2 >= 2, fmt.Sprintf("copyfs follow=%v wild=%v", o.L[0].IsTrue(), wild))
		if g.Thorough() && i%20 == 7 {
			// the same input once more under strace: the flavours of the metadata calls (kind 1405)
			g.Emit(0x1405, in, l1+l2 >= 2, "copyfs-strace")
		}
		if len(inc)+len(exc) > 0 {
			g.classes["copyfs-patterns"]++
		}
		if deferred {
			g.classes["copyfs-deferred-parent"]++
		}
		if relink {
			g.classes["copyfs-relink"]++
		}
		if chain {
			g.classes["copyfs-created-chain"]++
		}
		if overlap {
			g.classes["copyfs-overlapping-roots"]++
		}
		if len(out.L) == 7 && out.L[3].Kind == 'n' {
			switch out.L[3].Int() {
			case 0:
				g.classes["copyfs-ok"]++
			case 1:
				g.classes["copyfs-error"]++
			default:
				g.classes["copyfs-panic"]++
			}
		}
	}
}
