package main

// C05 / C02 at the abstract ("Level A") layer against the REAL DiskWriter: a flat listing A is
// materialised in a scratch directory, listed by the real walker, then the real
// doubleWalkDiff (hook) feeds the real DiskWriter.HandleChange with listing B; contents are
// served by an AsyncDataCb written here, notifications are recorded from NotifyCb with a
// transparent ContentHasher (the "hash" is the byte stream itself), completion order of the
// file contents is chosen by the case. Observables: the destination listing as walked,
// content requests, notifications (observed order), independent snapshot of the result.

import (
	"context"
	"encoding/hex"
	"fmt"
	"hash"
	"io"
	"os"
	"path/filepath"
	"sort"
	"strings"
	"sync"
	"syscall"
	"time"

	digest "github.com/opencontainers/go-digest"
	"github.com/tonistiigi/fsutil"
	"github.com/tonistiigi/fsutil/types"
	"golang.org/x/sys/unix"
)

func init() {
	kinds[0x0203] = runRecvAbs
	kinds[0x0204] = runResync
	kinds[0x0501] = runRecvAbs
	kinds[0x0502] = runRecvAbs
	props["C05"] = genC05
}

type flatEntry struct {
	St      *types.Stat
	Content []byte
}

func sxEntries(x Sx) []flatEntry {
	out := make([]flatEntry, len(x.L))
	for i, e := range x.L {
		out[i] = flatEntry{SxStat(e.L[0]), append([]byte{}, e.L[1].B...)}
	}
	return out
}

func entriesSx(es []flatEntry) Sx {
	out := make([]Sx, len(es))
	for i, e := range es {
		out[i] = L(StatSx(e.St), B(e.Content))
	}
	return L(out...)
}

func flattenView(roots []*MNode) []flatEntry {
	var out []flatEntry
	var rec func(dir string, ns []*MNode)
	rec = func(dir string, ns []*MNode) {
		for _, n := range ns {
			p := n.Name
			if dir != "" {
				p = dir + "/" + n.Name
			}
			st := n.Stat.CloneVT()
			st.Path = p
			out = append(out, flatEntry{st, n.Content})
			rec(p, n.Kids)
		}
	}
	rec("", roots)
	return out
}

// materializeFlat writes a listing (path order: parents first) below dir.
func materializeFlat(es []flatEntry, dir string) error {
	for _, e := range es {
		p := filepath.Join(dir, e.St.Path)
		m := os.FileMode(e.St.Mode)
		um := unixMode(m)
		switch {
		case m.IsDir():
			if err := os.Mkdir(p, 0700); err != nil {
				return err
			}
		case m&os.ModeSymlink != 0:
			if err := os.Symlink(e.St.Linkname, p); err != nil {
				return err
			}
		case e.St.Linkname != "":
			// a further name of an inode — regular file, device or fifo alike
			if err := os.Link(filepath.Join(dir, e.St.Linkname), p); err != nil {
				return err
			}
			continue
		case m&os.ModeNamedPipe != 0, m&os.ModeDevice != 0, m&os.ModeSocket != 0:
			if err := unix.Mknod(p, um, int(unix.Mkdev(uint32(e.St.Devmajor), uint32(e.St.Devminor)))); err != nil {
				return err
			}
		default:
			if err := os.WriteFile(p, e.Content, 0600); err != nil {
				return err
			}
		}
		if err := os.Lchown(p, int(e.St.Uid), int(e.St.Gid)); err != nil {
			return err
		}
		if m&os.ModeSymlink == 0 {
			if err := unix.Chmod(p, um&07777); err != nil {
				return err
			}
		}
	}
	for i := len(es) - 1; i >= 0; i-- {
		e := es[i]
		if m := os.FileMode(e.St.Mode); !m.IsDir() && m&os.ModeSymlink == 0 && e.St.Linkname != "" {
			continue
		}
		if err := lutimes(filepath.Join(dir, e.St.Path), e.St.ModTime); err != nil {
			return err
		}
	}
	return nil
}

func goModeOfUnix(m uint32) uint32 {
	g := m & 0777
	if m&syscall.S_ISUID != 0 {
		g |= uint32(os.ModeSetuid)
	}
	if m&syscall.S_ISGID != 0 {
		g |= uint32(os.ModeSetgid)
	}
	if m&syscall.S_ISVTX != 0 {
		g |= uint32(os.ModeSticky)
	}
	switch m & syscall.S_IFMT {
	case syscall.S_IFDIR:
		g |= uint32(os.ModeDir)
	case syscall.S_IFLNK:
		g |= uint32(os.ModeSymlink)
	case syscall.S_IFIFO:
		g |= uint32(os.ModeNamedPipe)
	case syscall.S_IFCHR:
		g |= uint32(os.ModeDevice | os.ModeCharDevice)
	case syscall.S_IFBLK:
		g |= uint32(os.ModeDevice)
	}
	return g
}

// transparent "hash": the digest is the byte stream that was hashed
type idHash struct{ b []byte }

func (h *idHash) Write(p []byte) (int, error) { h.b = append(h.b, p...); return len(p), nil }
func (h *idHash) Sum(b []byte) []byte         { return append(b, h.b...) }
func (h *idHash) Reset()                      { h.b = nil }
func (h *idHash) Size() int                   { return len(h.b) }
func (h *idHash) BlockSize() int              { return 1 }

func le64(v uint64) []byte {
	b := make([]byte, 8)
	for i := 0; i < 8; i++ {
		b[i] = byte(v >> (8 * uint(i)))
	}
	return b
}

// header of the harness' ContentHasher (mirrors Glue.C05G.hdr)
func c05Header(st *types.Stat) []byte {
	var b []byte
	b = append(b, le64(uint64(st.Mode))...)
	b = append(b, le64(uint64(st.Uid))...)
	b = append(b, le64(uint64(st.Gid))...)
	b = append(b, le64(uint64(st.Size))...)
	b = append(b, le64(uint64(st.ModTime))...)
	b = append(b, le64(uint64(st.Devmajor))...)
	b = append(b, le64(uint64(st.Devminor))...)
	b = append(b, []byte(st.Path)...)
	b = append(b, 0)
	b = append(b, []byte(st.Linkname)...)
	b = append(b, 0)
	// the xattrs, in key order: key NUL length value
	keys := make([]string, 0, len(st.Xattrs))
	for k := range st.Xattrs {
		keys = append(keys, k)
	}
	sort.Strings(keys)
	for _, k := range keys {
		b = append(b, []byte(k)...)
		b = append(b, 0)
		b = append(b, le64(uint64(len(st.Xattrs[k])))...)
		b = append(b, st.Xattrs[k]...)
	}
	return b
}

type digester interface{ Digest() digest.Digest }

// c05Filter: the receiver's Filter (ReceiveOpt.Filter: handed to the differ AND to the
// DiskWriter), selectable by code (mirrors Glue.RecvG.wf_of): 0 none; 1 umask 022; 2 ownership
// reset to 7:8; 3 umask 027 + mtime truncated to whole seconds; 4 reject the subtree "b" (the
// entry and everything below it); 5 every xattr VALUE patched IN PLACE in the copy the filter is
// given (first byte xor 0xff); 6 the xattr MAP of the copy edited (user.z deleted, user.a added)
// and uid set to 7.
func c05Filter(code int) fsutil.FilterFunc {
	switch code {
	case 4:
		return func(p string, s *types.Stat) bool { return !(p == "b" || strings.HasPrefix(p, "b/")) }
	case 5:
		return func(p string, s *types.Stat) bool {
			for _, v := range s.Xattrs {
				if len(v) > 0 {
					v[0] ^= 0xff
				}
			}
			return true
		}
	case 6:
		return func(p string, s *types.Stat) bool {
			delete(s.Xattrs, "user.z")
			if s.Xattrs == nil {
				s.Xattrs = map[string][]byte{}
			}
			s.Xattrs["user.a"] = []byte{1}
			s.Uid = 7
			return true
		}
	case 1:
		return func(p string, s *types.Stat) bool {
			if os.FileMode(s.Mode)&os.ModeSymlink == 0 { // a symbolic link has no permission bits of its own on Linux
				s.Mode &^= 0022
			}
			return true
		}
	case 2:
		return func(p string, s *types.Stat) bool { s.Uid, s.Gid = 7, 8; return true }
	case 3:
		return func(p string, s *types.Stat) bool {
			if os.FileMode(s.Mode)&os.ModeSymlink == 0 {
				s.Mode &^= 0027
			}
			s.ModTime -= s.ModTime % 1e9
			return true
		}
	}
	return nil
}

// input: (differ mode order ((stat content)...)A ((stat content)...)B [filter])
//
//	mode 0 = fresh (destination walked), 1 = merge (empty destination walker)
//	order 0 = contents served as soon as requested; k>0 = all contents held back until the
//	diff is done, then completed one by one in the k-th pseudo-random order
//
// output: (walkedA reqs notifs final err)
// kind 0502 = kind 0501 through the REAL fsutil.Send / fsutil.Receive: same input, same output;
// the source listing B is served by a synthetic fsutil.FS (MemFS: the stats exactly as given),
// the receiver runs with NotifyHashed and a ContentHasher over the same header whose Sum is
// SLOW (the digest of a file must be final when its notification is delivered, however long the
// caller's hash takes).  An input is marked as 0502 by a seventh element (#1).
func c05IsE2E(in Sx) bool { return len(in.L) > 6 && in.L[6].IsTrue() }

func runRecvAbs(in Sx) (out Sx) {
	type res struct{ v Sx }
	done := make(chan res, 1)
	ctx, cancel := context.WithCancel(context.Background())
	defer cancel()
	go func() {
		var r Sx
		defer func() {
			if p := recover(); p != nil {
				r = L(N(0xffff), S(fmt.Sprint("panic: ", p)))
			}
			done <- res{r}
		}()
		r = recvAbs(ctx, in)
	}()
	select {
	case r := <-done:
		return r.v
	case <-time.After(20 * time.Second):
		cancel()
		return L(N(0xffff), S("hang"))
	}
}

func recvAbs(ctx context.Context, in Sx) Sx {
	differ, mode, order := in.L[0].Int(), in.L[1].Int(), in.L[2].U64()
	A, Bl := sxEntries(in.L[3]), sxEntries(in.L[4])
	filter := 0
	if len(in.L) > 5 {
		filter = in.L[5].Int()
	}
	work := WorkDir("c05-")
	defer os.RemoveAll(work)
	dest := filepath.Join(work, "d")
	if err := os.Mkdir(dest, 0755); err != nil {
		return L(N(0xffff), S("mkdir"))
	}
	if err := materializeFlat(A, dest); err != nil {
		return L(N(0xfffe), S("materialize: "+err.Error()))
	}
	// the destination as the real walker lists it
	var walked []*types.Stat
	if err := fsutil.Walk(ctx, dest, nil, func(p string, fi os.FileInfo, err error) error {
		if err != nil {
			return err
		}
		walked = append(walked, fi.Sys().(*types.Stat).CloneVT())
		return nil
	}); err != nil {
		return L(N(0xffff), S("walk: "+err.Error()))
	}
	before, err := SnapshotRaw(dest, false)
	if err != nil {
		return L(N(0xffff), S("snapshot"))
	}
	inoBefore := map[string]uint64{}
	for _, e := range before {
		inoBefore[e.Path] = e.Ino
	}
	contentB := map[string][]byte{}
	var listB []*types.Stat
	for _, e := range Bl {
		contentB[e.St.Path] = e.Content
		listB = append(listB, e.St)
	}
	var lower []*types.Stat
	if mode == 0 {
		lower = walked
	}
	var reqs []string
	var notifs []Sx
	var failed bool
	var hang string
	if c05IsE2E(in) {
		reqs, notifs, failed, hang = c05SyncE2E(ctx, dest, Bl, differ, mode == 1, c05Filter(filter))
	} else {
		reqs, notifs, failed, hang = c05Sync(ctx, dest, lower, listB, contentB, differ, order, c05Filter(filter))
	}
	if hang != "" {
		return L(N(0xffff), S(hang))
	}
	after, err := SnapshotRaw(dest, true)
	if err != nil {
		return L(N(0xffff), S("snapshot after"))
	}
	firstIno := map[uint64]int{}
	var final []Sx
	for i, e := range after {
		if _, ok := firstIno[e.Ino]; !ok {
			firstIno[e.Ino] = i
		}
		gm := goModeOfUnix(e.Mode)
		mt := e.MtimeNs
		if e.Mode&syscall.S_IFMT == syscall.S_IFDIR {
			mt = 0
		}
		var maj, min uint64
		if t := e.Mode & syscall.S_IFMT; t == syscall.S_IFCHR || t == syscall.S_IFBLK {
			maj = (e.Rdev >> 8) & 0xfff
			min = (e.Rdev & 0xff) | ((e.Rdev >> 12) & 0xfff00)
		}
		ib, had := inoBefore[e.Path]
		final = append(final, L(S(e.Path), N(uint64(gm)), N(uint64(e.Uid)), N(uint64(e.Gid)), I64(mt), S(e.Target),
			N(maj), N(min), B(e.Content), NI(firstIno[e.Ino]), Bool(had && ib == e.Ino)))
	}
	rs := make([]Sx, len(reqs))
	for i, p := range reqs {
		rs[i] = S(p)
	}
	return L(statsSx(walked), L(rs...), L(notifs...), L(final...), Bool(failed))
}

// c05Sync: ONE synchronisation of the listing listB into dest — the real doubleWalkDiff (hook)
// over the destination listing lower feeds a fresh real DiskWriter; contents are served from
// contentB at once (order 0) or held back and completed in the order-th pseudo-random order.
// Returns the content requests (path order), the notifications in the order observed, whether
// the transfer failed, and a non-empty string when the real code hung.
func c05Sync(ctx context.Context, dest string, lower, listB []*types.Stat, contentB map[string][]byte, differ int, order uint64, filter fsutil.FilterFunc) (reqs []string, notifs []Sx, failed bool, hang string) {
	var mu sync.Mutex
	gated := order > 0
	gates := map[string]chan struct{}{}
	arrived := make(chan string, 4096)
	notified := make(chan string, 8192)

	dctx, dcancel := context.WithCancel(ctx)
	defer dcancel()
	dw, err := fsutil.NewDiskWriter(dctx, dest, fsutil.DiskWriterOpt{
		Filter: filter,
		AsyncDataCb: func(ctx context.Context, p string, wc io.WriteCloser) error {
			mu.Lock()
			reqs = append(reqs, p)
			var g chan struct{}
			if gated {
				g = make(chan struct{})
				gates[p] = g
			}
			mu.Unlock()
			arrived <- p
			if g != nil {
				select {
				case <-g:
				case <-ctx.Done():
					return ctx.Err()
				}
			}
			data := contentB[p]
			h := len(data) / 2
			if h > 0 {
				if _, err := wc.Write(data[:h]); err != nil {
					return err
				}
			}
			if len(data)-h > 0 {
				if _, err := wc.Write(data[h:]); err != nil {
					return err
				}
			}
			return wc.Close()
		},
		NotifyCb: func(k fsutil.ChangeKind, p string, fi os.FileInfo, err error) error {
			var rec Sx
			if fi == nil {
				rec = L(NI(int(k)), S(p))
			} else {
				st, _ := fi.Sys().(*types.Stat)
				dg := []byte{}
				if d, ok := fi.(digester); ok {
					s := string(d.Digest())
					if i := strings.IndexByte(s, ':'); i >= 0 {
						s = s[i+1:]
					}
					dg, _ = hex.DecodeString(s)
				}
				rec = L(NI(int(k)), S(p), StatSx(st), B(dg))
			}
			mu.Lock()
			notifs = append(notifs, rec)
			mu.Unlock()
			notified <- p
			return nil
		},
		ContentHasher: func(st *types.Stat) (hash.Hash, error) {
			h := &idHash{}
			h.Write(c05Header(st))
			return h, nil
		},
	})
	if err != nil {
		return nil, nil, true, "diskwriter"
	}
	expected := 0
	derr := fsutil.VerifDoubleWalkDiff(dctx, lower, listB, filter, fsutil.DiffType(differ),
		func(k fsutil.ChangeKind, p string, fi os.FileInfo, err error) error {
			e := dw.HandleChange(k, p, fi, err)
			if e == nil && k != fsutil.ChangeKindDelete {
				m := fi.Mode()
				st := fi.Sys().(*types.Stat)
				if !m.IsDir() && m&os.ModeDevice == 0 && m&os.ModeNamedPipe == 0 && m&os.ModeSymlink == 0 && st.Linkname == "" {
					// (a change the filter rejects is dropped without a request)
					if filter == nil || filter(p, st.CloneVT()) {
						expected++
					}
				}
			}
			return e
		})
	if derr != nil {
		failed = true
		dcancel()
	}
	if !failed && gated {
		var ps []string
		for i := 0; i < expected; i++ {
			select {
			case p := <-arrived:
				ps = append(ps, p)
			case <-time.After(2 * time.Second):
				// every content request is issued by a goroutine that HandleChange has already
				// started: one that has not arrived after 2 s of silence was never made
				return nil, nil, true, "hang waiting for requests"
			case <-ctx.Done():
				return nil, nil, true, "hang waiting for requests"
			}
		}
		sort.Strings(ps)
		r := NewRng(order)
		for i := len(ps) - 1; i > 0; i-- {
			j := r.Intn(i + 1)
			ps[i], ps[j] = ps[j], ps[i]
		}
		for _, p := range ps {
			mu.Lock()
			g := gates[p]
			mu.Unlock()
			close(g)
			for {
				var q string
				select {
				case q = <-notified:
				case <-ctx.Done():
					return nil, nil, true, "hang waiting for notification"
				}
				if q == p {
					break
				}
			}
		}
	}
	if werr := dw.Wait(ctx); werr != nil {
		failed = true
	}
	mu.Lock()
	defer mu.Unlock()
	sort.Slice(reqs, func(a, b int) bool { return fsutil.ComparePath(reqs[a], reqs[b]) < 0 })
	return reqs, notifs, failed, ""
}

// slowHash: the transparent hash with a Sum that takes its time
type slowHash struct{ idHash }

func (h *slowHash) Sum(b []byte) []byte {
	time.Sleep(2 * time.Millisecond)
	return h.idHash.Sum(b)
}

// c05TreeOf builds the tree value of a flat listing (path order, ancestor-closed).
func c05TreeOf(es []flatEntry) []*MNode {
	root := &MNode{}
	byPath := map[string]*MNode{"": root}
	for _, e := range es {
		dir, name := "", e.St.Path
		if i := strings.LastIndexByte(e.St.Path, '/'); i >= 0 {
			dir, name = e.St.Path[:i], e.St.Path[i+1:]
		}
		parent := byPath[dir]
		if parent == nil {
			parent = root // malformed listing: keep the entry at the top (the receiver will reject the stream)
			name = e.St.Path
		}
		n := &MNode{Name: name, Stat: e.St.CloneVT(), Content: e.Content}
		parent.Kids = append(parent.Kids, n)
		byPath[e.St.Path] = n
	}
	return root.Kids
}

// c05SyncE2E: ONE synchronisation of the listing Bl into dest through the real Send and Receive
// over an in-memory stream.
func c05SyncE2E(ctx context.Context, dest string, Bl []flatEntry, differ int, merge bool, filter fsutil.FilterFunc) (reqs []string, notifs []Sx, failed bool, hang string) {
	tctx, cancel := context.WithCancel(ctx)
	defer cancel()
	sp := NewStreamPair(tctx, 16)
	var mu sync.Mutex
	opt := fsutil.ReceiveOpt{Merge: merge, Differ: fsutil.DiffType(differ), Filter: filter,
		ContentHasher: func(st *types.Stat) (hash.Hash, error) {
			h := &slowHash{}
			h.Write(c05Header(st))
			return h, nil
		},
		NotifyHashed: func(k fsutil.ChangeKind, p string, fi os.FileInfo, err error) error {
			var rec Sx
			if fi == nil {
				rec = L(NI(int(k)), S(p))
			} else {
				st, _ := fi.Sys().(*types.Stat)
				dg := []byte{}
				if d, ok := fi.(digester); ok {
					s := string(d.Digest())
					if i := strings.IndexByte(s, ':'); i >= 0 {
						s = s[i+1:]
					}
					dg, _ = hex.DecodeString(s)
				}
				rec = L(NI(int(k)), S(p), StatSx(st), B(dg))
			}
			mu.Lock()
			notifs = append(notifs, rec)
			mu.Unlock()
			return nil
		},
	}
	src := &MemFS{Roots: c05TreeOf(Bl)}
	sdone := make(chan error, 1)
	rdone := make(chan error, 1)
	go func() {
		err := fsutil.Send(tctx, sp.A, src, nil)
		sp.A.CloseSend()
		sdone <- err
	}()
	go func() { rdone <- fsutil.Receive(tctx, sp.B, dest, opt) }()
	timer := time.After(12 * time.Second)
	var sOK, rOK bool
	for !(sOK && rOK) {
		select {
		case err := <-sdone:
			sOK = true
			if err != nil {
				failed = true
				sp.TearDown(nil)
			}
		case err := <-rdone:
			rOK = true
			if err != nil {
				failed = true
				sp.TearDown(nil)
			}
		case <-timer:
			sp.TearDown(nil)
			cancel()
			return nil, nil, true, "hang in Send/Receive"
		}
	}
	for _, lp := range sp.Log() {
		if lp.From == "r" && lp.P.Type == types.PACKET_REQ {
			if int(lp.P.ID) < len(Bl) {
				reqs = append(reqs, Bl[lp.P.ID].St.Path)
			} else {
				reqs = append(reqs, "?")
			}
		}
	}
	mu.Lock()
	defer mu.Unlock()
	sort.Slice(reqs, func(a, b int) bool { return fsutil.ComparePath(reqs[a], reqs[b]) < 0 })
	return reqs, notifs, failed, ""
}

// kind 0204 (C02): TWO synchronisations of the same source listing B into a destination that
// starts as A.  input (differ order A B); the first uses the case's differ, the second
// DiffMetadata.  output (walked1 failed1 walked2 reqs2 notifs2 failed2): the destination as
// the real walker lists it before each synchronisation, and what the second one requested and
// notified.  Specification (C02 resync_after_transfer_noop): nothing.
func runResync(in Sx) (out Sx) {
	type res struct{ v Sx }
	done := make(chan res, 1)
	ctx, cancel := context.WithCancel(context.Background())
	defer cancel()
	go func() {
		var r Sx
		defer func() {
			if p := recover(); p != nil {
				r = L(N(0xffff), S(fmt.Sprint("panic: ", p)))
			}
			done <- res{r}
		}()
		r = c02Resync(ctx, in)
	}()
	select {
	case r := <-done:
		return r.v
	case <-time.After(30 * time.Second):
		cancel()
		return L(N(0xffff), S("hang"))
	}
}

func c02Resync(ctx context.Context, in Sx) Sx {
	differ, order := in.L[0].Int(), in.L[1].U64()
	A, Bl := sxEntries(in.L[2]), sxEntries(in.L[3])
	filter := 0
	if len(in.L) > 4 {
		filter = in.L[4].Int()
	}
	work := WorkDir("c02r-")
	defer os.RemoveAll(work)
	dest := filepath.Join(work, "d")
	if err := os.Mkdir(dest, 0755); err != nil {
		return L(N(0xffff), S("mkdir"))
	}
	if err := materializeFlat(A, dest); err != nil {
		return L(N(0xfffe), S("materialize: "+err.Error()))
	}
	contentB := map[string][]byte{}
	var listB []*types.Stat
	for _, e := range Bl {
		contentB[e.St.Path] = e.Content
		listB = append(listB, e.St)
	}
	walk := func() ([]*types.Stat, error) {
		var walked []*types.Stat
		err := fsutil.Walk(ctx, dest, nil, func(p string, fi os.FileInfo, err error) error {
			if err != nil {
				return err
			}
			walked = append(walked, fi.Sys().(*types.Stat).CloneVT())
			return nil
		})
		return walked, err
	}
	w1, err := walk()
	if err != nil {
		return L(N(0xffff), S("walk: "+err.Error()))
	}
	_, _, failed1, hang := c05Sync(ctx, dest, w1, listB, contentB, differ, order, c05Filter(filter))
	if hang != "" {
		return L(N(0xffff), S(hang))
	}
	if failed1 {
		return L(statsSx(w1), Bool(true), L(), L(), L(), Bool(false))
	}
	w2, err := walk()
	if err != nil {
		return L(N(0xffff), S("walk 2: "+err.Error()))
	}
	reqs2, notifs2, failed2, hang := c05Sync(ctx, dest, w2, listB, contentB, 0, order, c05Filter(filter))
	if hang != "" {
		return L(N(0xffff), S(hang))
	}
	rs := make([]Sx, len(reqs2))
	for i, p := range reqs2 {
		rs[i] = S(p)
	}
	return L(statsSx(w1), Bool(false), statsSx(w2), L(rs...), L(notifs2...), Bool(failed2))
}

// ---- generator ----------------------------------------------------------------------------
func fixSizes(es []flatEntry) {
	for _, e := range es {
		m := os.FileMode(e.St.Mode)
		switch {
		case m.IsDir():
			e.St.Size = 0
		case m&os.ModeSymlink != 0:
			e.St.Size = int64(len(e.St.Linkname))
		case m&os.ModeType == 0 && e.St.Linkname == "":
			e.St.Size = int64(len(e.Content))
		case m&os.ModeType == 0:
			e.St.Size = int64(len(e.Content)) // later member of a link group: full size, as the real walker reports it
		default:
			e.St.Size = 0
		}
	}
}

func c05StripX(ns []*MNode) {
	for _, n := range ns {
		n.Stat.Xattrs = nil
		c05StripX(n.Kids)
	}
}

// c05FixLinks: a hard-link entry (regular file, device or fifo with a Linkname) must name an
// earlier non-link entry of that kind that still exists, and carries its metadata and content
// (one inode)
func c05FixLinks(es []flatEntry) {
	ok := map[string]*flatEntry{}
	for i := range es {
		e := &es[i]
		if m := os.FileMode(e.St.Mode); m.IsDir() || m&os.ModeSymlink != 0 {
			continue
		}
		if e.St.Linkname == "" {
			ok[e.St.Path] = e
			continue
		}
		if t, found := ok[e.St.Linkname]; found {
			p := e.St.Path
			ln := e.St.Linkname
			e.St = t.St.CloneVT()
			e.St.Path, e.St.Linkname = p, ln
			e.Content = t.Content
		} else {
			e.St.Linkname = ""
			ok[e.St.Path] = e
		}
	}
}

func genRecvCases(g *Gen, kind uint64, n int, directedRelink bool) {
	r := g.Rng
	names := []string{"a", "b", "a-b", "a b", "ab", "c", "d", "~", "é"}
	skipped := 0
	defer func() { g.Note("unmaterialisable_cases_skipped", skipped) }()
	for i := 0; i < n; i++ {
		o := TreeOpts{MaxEntries: 3 + r.Intn(12), MaxDepth: 1 + r.Intn(3), Types: r.Chance(60), HardLinks: r.Chance(35),
			Owners: r.Chance(50), Names: names, BigFiles: r.Chance(5)}
		xattrs := (kind == 0x0501 || kind == 0x0502) && r.Chance(40)
		o.Xattrs = xattrs
		va := GenView(r, o)
		var vb []*MNode
		cls := "edited"
		switch c := r.Intn(100); {
		case c < 65:
			vb = cloneView(va)
			mutateViewC02(r, &vb, 1+r.Intn(6))
		case c < 75:
			vb = cloneView(va)
			cls = "unchanged"
		case c < 90:
			vb = GenView(r, o)
			cls = "unrelated"
		case c < 95:
			vb = nil
			cls = "to-empty"
		default:
			vb = va
			va = nil
			cls = "from-empty"
		}
		c05StripX(va)
		if !xattrs {
			c05StripX(vb) // kind 0501: the source entries may carry xattrs (the header hashed covers them)
		}
		A, Bl := flattenView(va), flattenView(vb)
		c05FixLinks(A)
		c05FixLinks(Bl)
		fixSizes(A)
		fixSizes(Bl)
		if directedRelink && r.Chance(6) {
			// directed: a link member alone differs from the destination (a peer whose walker
			// reports Size 0 for link members): the entry is re-linked although the destination
			// already holds the same group (regression of the fixed defect "temporary link left
			// behind", /repo 19c7373)
			for _, e := range Bl {
				if os.FileMode(e.St.Mode)&os.ModeType == 0 && e.St.Linkname != "" {
					// (only the size: members of one group cannot differ in inode metadata)
					e.St.Size = 0
					cls = "directed-link-member-differs"
					break
				}
			}
		}
		if r.Chance(5) {
			// directed: a hard-link entry announced with other metadata than the entry it names (a
			// dishonest sender, or a MapFunc that treats the names of one inode differently): the
			// new name shows the metadata of the inode it joins (os.Link, no rewriteMetadata), the
			// notification still carries the stat as sent (model: AbsDest.link_stat)
			for _, e := range Bl {
				if os.FileMode(e.St.Mode)&os.ModeType == 0 && e.St.Linkname != "" {
					switch r.Intn(4) {
					case 0:
						e.St.Mode ^= uint32(1 << uint(r.Intn(9)))
					case 1:
						e.St.Uid += uint32(1 + r.Intn(3))
					case 2:
						e.St.Gid += uint32(1 + r.Intn(3))
					case 3:
						e.St.ModTime += int64(1+r.Intn(5)) * 1e9
					}
					cls = "directed-link-meta-differs"
					if r.Bool() {
						break
					}
				}
			}
		}
		if r.Chance(3) {
			// directed: a hard-link entry naming a missing path or a directory: os.Link fails,
			// HandleChange returns an error (model: apply_map = None)
			// (not a path that holds a symbolic link, device or fifo in the old destination: os.Link
			// would succeed on those and give that special inode a second name — outside the model,
			// see Model/AbsDest.v)
			special := map[string]bool{}
			for _, e := range A {
				if m := os.FileMode(e.St.Mode); m&(os.ModeSymlink|os.ModeDevice|os.ModeNamedPipe|os.ModeSocket) != 0 {
					special[e.St.Path] = true
				}
			}
			var dirs []string
			for _, e := range Bl {
				if os.FileMode(e.St.Mode).IsDir() && !special[e.St.Path] {
					dirs = append(dirs, e.St.Path)
				}
			}
			for _, e := range Bl {
				if os.FileMode(e.St.Mode)&os.ModeType == 0 && e.St.Linkname == "" && r.Chance(50) {
					e.St.Linkname = "nonexistent"
					if len(dirs) > 0 && r.Bool() {
						e.St.Linkname = Pick(r, dirs)
					}
					cls = "directed-bad-link-target"
					break
				}
			}
		}
		differ, mode, order := 0, 0, uint64(0)
		if r.Chance(10) {
			differ = 1
		}
		if r.Chance(12) && kind != 0x0204 {
			mode = 1
			cls += "-merge"
		}
		if r.Chance(50) {
			order = 1 + uint64(r.Intn(1000))
		}
		if kind == 0x0204 {
			filter := 0
			if r.Chance(35) {
				filter = 1 + r.Intn(4)
				cls += "+filter"
			}
			if !c02EmitResyncF(g, differ, order, filter, A, Bl, cls) {
				skipped++
			}
			continue
		}
		in := L(NI(differ), NI(mode), N(order), entriesSx(A), entriesSx(Bl))
		if (kind == 0x0501 || kind == 0x0502) && r.Chance(25) {
			// the receiver's Filter (differ + DiskWriter): the disk gets the rewritten stat, the
			// notification and the hashed header keep the stat as sent
			in = L(NI(differ), NI(mode), N(order), entriesSx(A), entriesSx(Bl), NI(1+r.Intn(6)))
			cls += "+filter"
		}
		if kind == 0x0502 {
			f := 0
			if len(in.L) > 5 {
				f = in.L[5].Int()
			}
			in = L(NI(differ), NI(mode), N(0), entriesSx(A), entriesSx(Bl), NI(f), Bool(true))
		}
		out := runRecvAbs(in)
		if len(out.L) == 2 && out.L[0].Kind == 'n' && out.L[0].U64() == 0xfffe {
			skipped++ // the listing could not be materialised (generator artefact)
			continue
		}
		nontriv := false
		if len(out.L) == 5 {
			nn := len(out.L[2].L)
			nontriv = nn >= 1 && len(out.L[3].L) > nn
		}
		g.EmitWith(kind, in, out, nontriv, cls)
	}
}

// c05EmitCase runs one explicit case and emits it (same nontriviality rule as genRecvCases).
func c05EmitCase(g *Gen, kind uint64, differ, mode int, order uint64, A, Bl []flatEntry, cls string) bool {
	return c05EmitCaseF(g, kind, differ, mode, order, 0, A, Bl, cls)
}

func c05EmitCaseF(g *Gen, kind uint64, differ, mode int, order uint64, filter int, A, Bl []flatEntry, cls string) bool {
	fixSizes(A)
	fixSizes(Bl)
	in := L(NI(differ), NI(mode), N(order), entriesSx(A), entriesSx(Bl))
	if filter != 0 {
		in = L(NI(differ), NI(mode), N(order), entriesSx(A), entriesSx(Bl), NI(filter))
	}
	if kind == 0x0502 {
		in = L(NI(differ), NI(mode), N(0), entriesSx(A), entriesSx(Bl), NI(filter), Bool(true))
	}
	out := runRecvAbs(in)
	if len(out.L) == 2 && out.L[0].Kind == 'n' && out.L[0].U64() == 0xfffe {
		return false
	}
	nontriv := false
	if len(out.L) == 5 {
		nn := len(out.L[2].L)
		nontriv = nn >= 1 && len(out.L[3].L) > nn
	}
	g.EmitWith(kind, in, out, nontriv, cls)
	return true
}

// c05DirReplaced: directed histories "a directory WITH CHILDREN is replaced by a non-directory
// of every type": symbolic link to a sibling directory that holds the same child names (a
// delete of a child issued after the replacement would go THROUGH the link and hit the
// sibling), fifo, character and block device, regular file, hard link.  The specification
// asks for ONE notification at the directory's path and none below it (the writer removes the
// old subtree with the directory); replay of the events must give the snapshot, the sibling
// untouched.
func c05DirReplaced(g *Gen) {
	r := g.Rng
	file := func(p string, content string, mt int64) flatEntry {
		return flatEntry{&types.Stat{Path: p, Mode: 0644, ModTime: mt * 1e9}, []byte(content)}
	}
	dir := func(p string, perm uint32) flatEntry {
		return flatEntry{&types.Stat{Path: p, Mode: uint32(os.ModeDir) | perm, ModTime: 1700000000e9}, nil}
	}
	type repl struct {
		cls string
		mk  func(p, sibling string) flatEntry
	}
	repls := []repl{
		{"symlink", func(p, sib string) flatEntry {
			return flatEntry{&types.Stat{Path: p, Mode: uint32(os.ModeSymlink | 0777), Linkname: sib, ModTime: 1600000005e9}, nil}
		}},
		{"fifo", func(p, sib string) flatEntry {
			return flatEntry{&types.Stat{Path: p, Mode: uint32(os.ModeNamedPipe | 0644), ModTime: 1600000005e9}, nil}
		}},
		{"chardev", func(p, sib string) flatEntry {
			return flatEntry{&types.Stat{Path: p, Mode: uint32(os.ModeDevice|os.ModeCharDevice) | 0600, Devmajor: 1, Devminor: 3, ModTime: 1600000005e9}, nil}
		}},
		{"blockdev", func(p, sib string) flatEntry {
			return flatEntry{&types.Stat{Path: p, Mode: uint32(os.ModeDevice) | 0600, Devmajor: 7, Devminor: 1, ModTime: 1600000005e9}, nil}
		}},
		{"file", func(p, sib string) flatEntry {
			return flatEntry{&types.Stat{Path: p, Mode: 0600, ModTime: 1600000005e9}, []byte("new")}
		}},
		{"hardlink", func(p, sib string) flatEntry {
			// a new name of the sibling's first child (listed before p: the sibling sorts first)
			return flatEntry{&types.Stat{Path: p, Mode: 0644, Linkname: sib + "/x", ModTime: 1600000001e9}, []byte("sx")}
		}},
	}
	// the replaced directory d and its sibling s hold the same child names; s sorts before d in
	// one shape and after it in the other
	shapes := []struct{ d, s string }{{"d", "b"}, {"d", "e"}, {"a/d", "a/b"}, {"a/d", "a/e"}}
	n := 0
	for _, sh := range shapes {
		for _, rp := range repls {
			if rp.cls == "hardlink" && fsutil.ComparePath(sh.s, sh.d) > 0 {
				continue // a hard link must name an earlier entry
			}
			for deep := 0; deep < 2; deep++ {
				var A, Bl []flatEntry
				add := func(both bool, e flatEntry) {
					A = append(A, flatEntry{e.St.CloneVT(), e.Content})
					if both {
						Bl = append(Bl, flatEntry{e.St.CloneVT(), e.Content})
					}
				}
				tree := func(root string, both bool, tag string) {
					add(both, dir(root, 0755))
					if deep == 1 {
						add(both, dir(root+"/sub", 0700))
						add(both, file(root+"/sub/z", tag+"z", 1600000003))
					}
					add(both, file(root+"/x", tag+"x", 1600000001))
					add(both, file(root+"/y", tag+"y", 1600000002))
				}
				if strings.HasPrefix(sh.d, "a/") {
					add(true, dir("a", 0755))
				}
				first, second := sh.s, sh.d
				if fsutil.ComparePath(sh.s, sh.d) > 0 {
					first, second = sh.d, sh.s
				}
				for _, root := range []string{first, second} {
					if root == sh.d {
						tree(root, false, "d")
						Bl = append(Bl, rp.mk(sh.d, filepath.Base(sh.s)))
						if rp.cls == "hardlink" {
							Bl[len(Bl)-1] = rp.mk(sh.d, sh.s)
						}
					} else {
						tree(root, true, "s")
					}
				}
				add(true, file("zz", "keep", 1600000009))
				sort.SliceStable(A, func(i, j int) bool { return fsutil.ComparePath(A[i].St.Path, A[j].St.Path) < 0 })
				sort.SliceStable(Bl, func(i, j int) bool { return fsutil.ComparePath(Bl[i].St.Path, Bl[j].St.Path) < 0 })
				orders := []uint64{0, 1 + uint64(r.Intn(1000))}
				for _, order := range orders {
					if c05EmitCase(g, 0x0501, 0, 0, order, A, Bl, "directed-dir-with-children-replaced-by-"+rp.cls) {
						n++
					}
				}
			}
		}
	}
	g.Note("directed_dir_replaced_cases", n)
}

// c05LinkMeta: directed histories around ONE hard-link pair t <- u (plus a second link v): the
// target is unchanged / touched / new, the link is new / already a link / a file of its own in
// the old destination, and the link entry is announced honestly or with ONE metadata field
// differing from its target (mode, uid, gid, mtime).  What the destination must show for u is
// the metadata of the inode it joins (the target's, as it is when u is linked), whatever was
// announced; the notification carries the stat as sent.
func c05LinkMeta(g *Gen, kind uint64) {
	r := g.Rng
	n := 0
	for tgt := 0; tgt < 3; tgt++ { // 0 unchanged, 1 touched (re-created), 2 absent from A
		for old := 0; old < 3; old++ { // 0 absent, 1 link to t, 2 file of its own
			if tgt == 2 && old == 1 {
				continue
			}
			for field := 0; field < 5; field++ { // 0 honest
				t := &types.Stat{Path: "t", Mode: 0640, Uid: 3, Gid: 4, ModTime: 1600000000e9}
				var A, Bl []flatEntry
				A = append(A, flatEntry{&types.Stat{Path: "k", Mode: 0644, ModTime: 1600000007e9}, []byte("keep")})
				Bl = append(Bl, flatEntry{A[0].St.CloneVT(), A[0].Content})
				if tgt != 2 {
					A = append(A, flatEntry{t.CloneVT(), []byte("tt")})
				}
				tb := t.CloneVT()
				if tgt == 1 {
					tb.ModTime += 5e9
				}
				Bl = append(Bl, flatEntry{tb, []byte("tt")})
				switch old {
				case 1:
					u := t.CloneVT()
					u.Path, u.Linkname = "u", "t"
					A = append(A, flatEntry{u, []byte("tt")})
				case 2:
					A = append(A, flatEntry{&types.Stat{Path: "u", Mode: 0600, Uid: 9, ModTime: 1600000001e9}, []byte("own")})
				}
				for _, name := range []string{"u", "v"} {
					u := tb.CloneVT()
					u.Path, u.Linkname = name, "t"
					if name == "u" {
						switch field {
						case 1:
							u.Mode ^= 0111
						case 2:
							u.Uid += 2
						case 3:
							u.Gid += 2
						case 4:
							u.ModTime += 3e9
						}
					}
					Bl = append(Bl, flatEntry{u, []byte("tt")})
				}
				cls := "directed-link-honest"
				if field != 0 {
					cls = "directed-link-meta-differs"
				}
				order := uint64(0)
				if r.Bool() {
					order = 1 + uint64(r.Intn(1000))
				}
				for _, mode := range []int{0, 1} {
					c := cls
					if mode == 1 {
						if field%2 == 1 {
							continue
						}
						c += "-merge"
					}
					if c05EmitCase(g, kind, 0, mode, order, A, Bl, c) {
						n++
					}
				}
			}
		}
	}
	g.Note("directed_link_meta_cases", n)
}

// c02EmitResync runs one two-synchronisation case (kind 0204) and emits it.  Non-trivial: the
// first synchronisation succeeded, changed the destination listing, and left at least two entries.
func c02EmitResync(g *Gen, differ int, order uint64, A, Bl []flatEntry, cls string) bool {
	return c02EmitResyncF(g, differ, order, 0, A, Bl, cls)
}

func c02EmitResyncF(g *Gen, differ int, order uint64, filter int, A, Bl []flatEntry, cls string) bool {
	fixSizes(A)
	fixSizes(Bl)
	in := L(NI(differ), N(order), entriesSx(A), entriesSx(Bl))
	if filter != 0 {
		in = L(NI(differ), N(order), entriesSx(A), entriesSx(Bl), NI(filter))
	}
	out := runResync(in)
	if len(out.L) == 2 && out.L[0].Kind == 'n' && out.L[0].U64() == 0xfffe {
		return false
	}
	nontriv := false
	if len(out.L) == 6 && !out.L[1].IsTrue() {
		nontriv = len(out.L[2].L) >= 2 && out.L[0].String() != out.L[2].String()
	}
	g.EmitWith(0x0204, in, out, nontriv, cls)
	return true
}

// c02ResyncDirected: entries of every type carrying setuid / setgid / sticky, created by the
// first synchronisation (absent before, or present without the bits, or present as another
// type), with and without entries below the directories: the second synchronisation of the
// unchanged source must find nothing to do.
func c02ResyncDirected(g *Gen) {
	r := g.Rng
	bits := []struct {
		name string
		m    os.FileMode
	}{{"sticky", os.ModeSticky}, {"setgid", os.ModeSetgid}, {"setuid", os.ModeSetuid}, {"setgid+sticky", os.ModeSetgid | os.ModeSticky}, {"plain", 0}}
	types_ := []struct {
		name string
		mk   func(p string, extra os.FileMode) flatEntry
	}{
		{"dir", func(p string, x os.FileMode) flatEntry {
			return flatEntry{&types.Stat{Path: p, Mode: uint32(os.ModeDir | 0775 | x), ModTime: 1700000000e9}, nil}
		}},
		{"file", func(p string, x os.FileMode) flatEntry {
			return flatEntry{&types.Stat{Path: p, Mode: uint32(0755 | x), Uid: 1, Gid: 2, ModTime: 1600000001e9}, []byte("#!")}
		}},
		{"fifo", func(p string, x os.FileMode) flatEntry {
			return flatEntry{&types.Stat{Path: p, Mode: uint32(os.ModeNamedPipe | 0660 | x), ModTime: 1600000002e9}, nil}
		}},
		{"chardev", func(p string, x os.FileMode) flatEntry {
			return flatEntry{&types.Stat{Path: p, Mode: uint32(os.ModeDevice | os.ModeCharDevice | 0620 | x), Devmajor: 1, Devminor: 3, ModTime: 1600000003e9}, nil}
		}},
	}
	n := 0
	for _, ty := range types_ {
		for _, b := range bits {
			for prior := 0; prior < 3; prior++ { // 0 absent, 1 same type without the bits, 2 another type
				for below := 0; below < 2; below++ {
					if below == 1 && ty.name != "dir" {
						continue
					}
					var A, Bl []flatEntry
					keep := flatEntry{&types.Stat{Path: "a", Mode: 0644, ModTime: 1600000009e9}, []byte("keep")}
					A = append(A, flatEntry{keep.St.CloneVT(), keep.Content})
					Bl = append(Bl, flatEntry{keep.St.CloneVT(), keep.Content})
					e := ty.mk("t", b.m)
					Bl = append(Bl, e)
					if below == 1 {
						Bl = append(Bl, flatEntry{&types.Stat{Path: "t/f", Mode: 0644, ModTime: 1600000004e9}, []byte("f")})
						Bl = append(Bl, flatEntry{&types.Stat{Path: "t/s", Mode: uint32(os.ModeDir | 0700 | os.ModeSticky), ModTime: 1600000005e9}, nil})
					}
					switch prior {
					case 1:
						A = append(A, ty.mk("t", 0))
					case 2:
						if ty.name == "dir" {
							A = append(A, flatEntry{&types.Stat{Path: "t", Mode: 0600, ModTime: 1600000006e9}, []byte("was a file")})
						} else {
							A = append(A, flatEntry{&types.Stat{Path: "t", Mode: uint32(os.ModeDir | 0700), ModTime: 1600000006e9}, nil})
							A = append(A, flatEntry{&types.Stat{Path: "t/old", Mode: 0600, ModTime: 1600000006e9}, []byte("old")})
						}
					}
					order := uint64(0)
					if r.Bool() {
						order = 1 + uint64(r.Intn(1000))
					}
					if c02EmitResync(g, 0, order, A, Bl, "resync-directed-"+ty.name+"-"+b.name) {
						n++
					}
				}
			}
		}
	}
	g.Note("resync_directed_cases", n)
}

// c05Filtered: directed histories for the receiver's Filter: the destination already holds the
// directories (and files) of the source, whose metadata was edited at the source (a pure
// metadata change of a kept directory: the in-place branch of HandleChange), or the transfer
// runs in merge mode (every entry an add over what is there), with every filter.  The
// notification and its digest must carry the stat AS SENT, the disk the filtered one.
func c05Filtered(g *Gen) {
	r := g.Rng
	n := 0
	base := func() []flatEntry {
		return []flatEntry{
			{&types.Stat{Path: "d", Mode: uint32(os.ModeDir | 0777), Uid: 1, Gid: 2, ModTime: 1700000000e9}, nil},
			{&types.Stat{Path: "d/f", Mode: 0666, Uid: 1, Gid: 2, ModTime: 1600000001_500000000}, []byte("ff")},
			{&types.Stat{Path: "d/s", Mode: uint32(os.ModeDir | 0775), Uid: 3, ModTime: 1700000001e9}, nil},
			{&types.Stat{Path: "d/s/g", Mode: 0664, ModTime: 1600000002_250000000}, []byte("g")},
			{&types.Stat{Path: "e", Mode: uint32(os.ModeDir | 0755), ModTime: 1700000002e9}, nil},
			{&types.Stat{Path: "k", Mode: 0644, ModTime: 1600000003e9}, []byte("keep")},
		}
	}
	clone := func(es []flatEntry) []flatEntry {
		out := make([]flatEntry, len(es))
		for i, e := range es {
			out[i] = flatEntry{e.St.CloneVT(), e.Content}
		}
		return out
	}
	for filter := 0; filter <= 6; filter++ {
		for edit := 0; edit < 5; edit++ {
			for mode := 0; mode < 2; mode++ {
				A, Bl := base(), clone(base())
				if filter >= 5 || edit%2 == 1 {
					// the source entries carry xattrs (the hashed header covers them): a filter that edits
					// the values or the map of ITS COPY must not reach what is hashed and notified
					Bl[0].St.Xattrs = map[string][]byte{"user.kb": {1, 2, 3}, "user.z": {0, 1, 2}}
					Bl[1].St.Xattrs = map[string][]byte{"user.ka": {9}}
					Bl[2].St.Xattrs = map[string][]byte{"user.z": {7, 7}}
					Bl[3].St.Xattrs = map[string][]byte{"user.kc": {}, "user.z": {5}}
				}
				switch edit {
				case 0: // directory mode edited at the source
					Bl[0].St.Mode ^= 0050
				case 1: // directory owner
					Bl[2].St.Uid += 4
					Bl[2].St.Gid += 5
				case 2: // both directories and a file
					Bl[0].St.Gid += 1
					Bl[4].St.Mode ^= 0700
					Bl[1].St.ModTime += 7_000000001
				case 3: // nothing edited (merge: every entry is an add over what is there)
				case 4: // the destination lacks one of the directories
					A = append(A[:2:2], A[4:]...)
				}
				order := uint64(0)
				if r.Bool() {
					order = 1 + uint64(r.Intn(1000))
				}
				cls := fmt.Sprintf("directed-filter%d-kept-dirs", filter)
				if mode == 1 {
					cls += "-merge"
				}
				if c05EmitCaseF(g, 0x0501, 0, mode, order, filter, A, Bl, cls) {
					n++
				}
			}
		}
	}
	g.Note("directed_filter_cases", n)
}

// c05SpecialLinks: LINK GROUPS OF SPECIAL FILES — a fifo, a character device and a block device
// with two or three names across directories, next to a regular link group — as the source,
// over a destination that lacks them / holds them / holds every name as an inode of its own /
// holds some names / holds a name as a regular file.  A further name of a device or fifo is a
// hard link like any other (os.Link): one inode at the destination.  emit(A, B, class).
func c05SpecialLinks(g *Gen, emit func(A, Bl []flatEntry, cls string)) {
	r := g.Rng
	mk := func(p string, mode os.FileMode, maj, min int64, mt int64) flatEntry {
		return flatEntry{&types.Stat{Path: p, Mode: uint32(mode), Uid: 1, Devmajor: maj, Devminor: min, ModTime: mt * 1e9}, nil}
	}
	link := func(p string, to flatEntry) flatEntry {
		st := to.St.CloneVT()
		st.Path, st.Linkname = p, to.St.Path
		return flatEntry{st, to.Content}
	}
	for variant := 0; variant < 6; variant++ {
		for three := 0; three < 2; three++ {
			d1 := flatEntry{&types.Stat{Path: "d1", Mode: uint32(os.ModeDir | 0755), ModTime: 1700000000e9}, nil}
			d2 := flatEntry{&types.Stat{Path: "d2", Mode: uint32(os.ModeDir | 0750), ModTime: 1700000001e9}, nil}
			b := mk("d1/b", os.ModeDevice|0600, 7, int64(variant), 1600000001)
			f := flatEntry{&types.Stat{Path: "d1/f", Mode: 0644, ModTime: 1600000002e9}, []byte("shared")}
			p := mk("d1/p", os.ModeNamedPipe|0640, 0, 0, 1600000003)
			q := mk("d1/q", os.ModeDevice|os.ModeCharDevice|0620, 1, 3, 1600000004)
			Bl := []flatEntry{d1, b, f, p, q, d2, link("d2/b2", b), link("d2/p2", p)}
			if three == 1 {
				Bl = append(Bl, link("d2/q2", q))
			}
			Bl = append(Bl, mk("lone", os.ModeNamedPipe|0600, 0, 0, 1600000005), link("zf", f), link("zq", q))
			if three == 1 {
				Bl = append(Bl, link("zp", p))
			}
			var A []flatEntry
			cls := "directed-special-link-groups-"
			switch variant {
			case 0:
				cls += "fresh"
			case 1:
				A = c02CloneEntries(Bl)
				cls += "same"
			case 2:
				A = c02CloneEntries(Bl)
				for _, e := range A {
					if os.FileMode(e.St.Mode)&os.ModeSymlink == 0 {
						e.St.Linkname = ""
					}
				}
				cls += "split"
			case 3:
				for _, e := range c02CloneEntries(Bl) {
					if os.FileMode(e.St.Mode).IsDir() || r.Chance(60) {
						A = append(A, e)
					}
				}
				cls += "names-missing"
			case 4:
				A = c02CloneEntries(Bl)
				for _, e := range A {
					if e.St.Linkname != "" && r.Bool() {
						e.St = &types.Stat{Path: e.St.Path, Mode: 0600, ModTime: 1600000009e9}
						e.Content = []byte("old")
					}
				}
				cls += "name-retyped"
			case 5:
				A = c02CloneEntries(Bl)
				for _, e := range A {
					m := os.FileMode(e.St.Mode)
					if m&os.ModeType != 0 && !m.IsDir() && e.St.Linkname == "" && r.Bool() {
						e.St.Mode ^= 0022
						e.St.Uid += 2
					}
				}
				cls += "group-metadata"
			}
			sortEntries(Bl)
			sortEntries(A)
			c05FixLinks(A)
			emit(A, c02CloneEntries(Bl), cls)
		}
	}
}

// c05TmpNames: destinations (and sources) that already hold entries NAMED LIKE THE WRITER'S
// TEMPORARIES — ".tmp." + a counter, over a dense range of small counters, in both widths (nine
// digits, zero-padded, as nextSuffix formats them, and plain) — as regular files (longer than
// what is about to be written), directories, symbolic links, in the same directory as regular
// files that this synchronisation MODIFIES (the writer then creates a temporary entry next to
// each and renames it over the path).  They are ordinary entries: unchanged ones stay, with
// their bytes; nothing vanishes without a delete notification; the stored bytes of a modified
// file are exactly the new bytes.  MUST RUN FIRST in a generator process: the names cover the
// first temporaries of the process should they ever be handed out in sequence.
func c05TmpNames(g *Gen, kind uint64) {
	n := 0
	const dense = 160
	for variant := 0; variant < 5; variant++ {
		for _, dir := range []string{"", "w/"} {
			for rep := 0; rep < 3; rep++ {
				var A, Bl []flatEntry
				both := func(e flatEntry) {
					A = append(A, flatEntry{e.St.CloneVT(), e.Content})
					Bl = append(Bl, flatEntry{e.St.CloneVT(), e.Content})
				}
				if dir != "" {
					both(flatEntry{&types.Stat{Path: "w", Mode: uint32(os.ModeDir | 0755), ModTime: 1700000000e9}, nil})
				}
				for i := 0; i < dense; i++ {
					for _, name := range []string{fmt.Sprintf(".tmp.%09d", i), fmt.Sprintf(".tmp.%d", i)} {
						if name == ".tmp.0" && i != 0 {
							continue
						}
						p := dir + name
						switch {
						case variant == 3 && i%3 == 1:
							both(flatEntry{&types.Stat{Path: p, Mode: uint32(os.ModeDir | 0700), ModTime: 1700000001e9}, nil})
						case variant == 4 && i%3 == 2:
							both(flatEntry{&types.Stat{Path: p, Mode: uint32(os.ModeSymlink | 0777), Linkname: "f0", ModTime: 1600000001e9}, nil})
						default:
							both(flatEntry{&types.Stat{Path: p, Mode: 0600, Uid: 3, ModTime: 1600000002e9}, []byte("stale temporary " + name + " with a long tail")})
						}
					}
				}
				// the files this synchronisation modifies (content and mtime, or only the mode), adds, deletes
				for j := 0; j < 2+variant%2; j++ {
					p := fmt.Sprintf("%sf%d", dir, j)
					A = append(A, flatEntry{&types.Stat{Path: p, Mode: 0644, ModTime: 1600000003e9}, []byte("old content of " + p)})
					nb := flatEntry{&types.Stat{Path: p, Mode: 0644, ModTime: 1600000004e9 + int64(rep)}, []byte("new")}
					if variant == 2 && j == 0 {
						nb = flatEntry{&types.Stat{Path: p, Mode: 0600, ModTime: 1600000003e9}, []byte("old content of " + p)}
					}
					Bl = append(Bl, nb)
				}
				if variant == 1 {
					A = append(A, flatEntry{&types.Stat{Path: dir + "gone", Mode: 0644, ModTime: 1600000005e9}, []byte("x")})
					Bl = append(Bl, flatEntry{&types.Stat{Path: dir + "new", Mode: 0644, ModTime: 1600000005e9}, []byte("y")})
				}
				sortEntries(A)
				sortEntries(Bl)
				if c05EmitCase(g, kind, 0, 0, uint64(rep%2), A, Bl, "directed-tmp-like-names-next-to-modified-files") {
					n++
				}
			}
		}
	}
	g.Note("directed_tmp_name_cases", n)
}

func genC05(g *Gen) {
	c05TmpNames(g, 0x0501)
	c05SpecialLinks(g, func(A, Bl []flatEntry, cls string) {
		for _, mode := range []int{0, 1} {
			c := cls
			if mode == 1 {
				c += "-merge"
			}
			c05EmitCase(g, 0x0501, 0, mode, uint64(g.Rng.Intn(3)), c02CloneEntries(A), c02CloneEntries(Bl), c)
		}
	})
	c05Filtered(g)
	c05DirReplaced(g)
	c05LinkMeta(g, 0x0501)
	genRecvCases(g, 0x0501, g.Vol(700, 12000), true)
	// the same through the real Send/Receive (kind 0502)
	c05SpecialLinks(g, func(A, Bl []flatEntry, cls string) {
		c05EmitCase(g, 0x0502, 0, 0, 0, c02CloneEntries(A), c02CloneEntries(Bl), cls)
	})
	genRecvCases(g, 0x0502, g.Vol(300, 5000), false)
}
