package main

import (
	"io"
	"os"
	"os/exec"
	"path/filepath"
	"sync"
	"syscall"

	"github.com/tonistiigi/fsutil"
	"github.com/tonistiigi/fsutil/types"
)

func init() {
	kinds[0x0101] = run0101
	props["C01"] = genC01
}

// input: (srcView priorView merge srcKind cap differ notify unpriv [collision])
//
//	srcKind 0 = synthetic in-memory FS, 1 = on-disk source through fsutil.NewFS; either a number or a
//	        list (kind readerMode k): how the readers returned by the source's Open deliver the bytes
//	        (c01ReaderFS) — 0 as the underlying reader, 1 at most k bytes per Read, 2 half of the
//	        buffer per Read, 3 the last piece together with io.EOF, 4 = 1 and 3 combined.  The
//	        specification does not depend on it: any io.Reader behaviour is legal for an fsutil.FS.
//	differ  0 = DiffMetadata, 1 = DiffNone
//
// output: (send_err recv_err hung dest_raw reqs notifs)
func run0101(in Sx) (out Sx) {
	unpriv := len(in.L) > 7 && in.L[7].IsTrue() && os.Getuid() == 0
	work := WorkDir("c01-")
	defer os.RemoveAll(work)
	var part Sx
	if unpriv {
		part = runUnprivileged("c01-unpriv", in, work)
	} else {
		part = transfer0101(in, work)
	}
	if len(part.L) != 5 { // set-up failure
		return part
	}
	// the snapshot is always taken by the (privileged) parent, after the transfer
	snap, err := SnapshotRaw(filepath.Join(work, "dest"), true)
	if err != nil {
		return L(part.L[0], part.L[1], part.L[2], L(), L(), S("snapshot: "+err.Error()))
	}
	return L(part.L[0], part.L[1], part.L[2], RawListSx(snap), part.L[3], part.L[4])
}

const unprivID = 1000

// runUnprivileged re-executes the harness as uid/gid 1000 for the transfer phase of one case.
func runUnprivileged(entry string, in Sx, work string) Sx {
	if err := os.Chown(work, unprivID, unprivID); err != nil {
		panic(err)
	}
	// every ancestor of work must be searchable by the unprivileged user
	for d := filepath.Dir(work); d != "/" && d != "."; d = filepath.Dir(d) {
		if fi, err := os.Stat(d); err == nil && fi.Mode().Perm()&0005 != 0005 {
			os.Chmod(d, fi.Mode().Perm()|0055)
		}
	}
	inf := filepath.Join(work, "in.sx")
	outf := filepath.Join(work, "out.sx")
	if err := os.WriteFile(inf, []byte(in.String()), 0644); err != nil {
		panic(err)
	}
	exe := c01ChildExe()
	cmd := exec.Command(exe, "internal", entry, inf, outf, work)
	cmd.SysProcAttr = &syscall.SysProcAttr{Credential: &syscall.Credential{Uid: unprivID, Gid: unprivID}}
	if b, err := cmd.CombinedOutput(); err != nil {
		return L(N(9), N(9), N(0), L(), L(), S("child failed: "+err.Error()+": "+string(b)))
	}
	data, err := os.ReadFile(outf)
	if err != nil {
		return L(N(9), N(9), N(0), L(), L(), S("no child output"))
	}
	o, err := ParseSx(string(data))
	if err != nil {
		panic(err)
	}
	return o
}

var (
	c01ExeOnce sync.Once
	c01ExePath string
)

// c01ChildExe returns a path of this executable that the unprivileged user can execute: the
// executable itself when every ancestor directory is searchable by others, else a copy in a
// world-searchable scratch directory (made once per process).
func c01ChildExe() string {
	c01ExeOnce.Do(func() {
		exe, _ := os.Executable()
		c01ExePath = exe
		ok := true
		for d := filepath.Dir(exe); d != "/" && d != "."; d = filepath.Dir(d) {
			if fi, err := os.Stat(d); err != nil || fi.Mode().Perm()&0001 == 0 {
				ok = false
			}
		}
		if ok {
			return
		}
		dir := WorkDir("c01-exe-")
		if err := os.Chmod(dir, 0755); err != nil {
			return
		}
		data, err := os.ReadFile(exe)
		if err != nil {
			return
		}
		cp := filepath.Join(dir, "vh")
		if err := os.WriteFile(cp, data, 0755); err != nil {
			return
		}
		c01ExePath = cp
	})
	return c01ExePath
}

func init() {
	internals["c01-unpriv"] = func(args []string) {
		data, err := os.ReadFile(args[0])
		if err != nil {
			panic(err)
		}
		in, err := ParseSx(string(data))
		if err != nil {
			panic(err)
		}
		out := transfer0101(in, args[2])
		if err := os.WriteFile(args[1], []byte(out.String()), 0644); err != nil {
			panic(err)
		}
	}
}

// transfer0101 materialises the prior destination (and an on-disk source), runs the real
// transfer and returns (send_err recv_err hung reqs notifs); 6 elements on a set-up failure.
func transfer0101(in Sx, work string) (out Sx) {
	unpriv := len(in.L) > 7 && in.L[7].IsTrue()
	src := SxView(in.L[0])
	prior := SxView(in.L[1])
	merge := in.L[2].IsTrue()
	srcKind, rdMode, rdK := 0, 0, 0
	if in.L[3].Kind == 'l' {
		srcKind, rdMode, rdK = in.L[3].L[0].Int(), in.L[3].L[1].Int(), in.L[3].L[2].Int()
	} else {
		srcKind = in.L[3].Int()
	}
	capacity := in.L[4].Int()
	differ := fsutil.DiffType(in.L[5].Int())
	notify := in.L[6].IsTrue()

	dest := filepath.Join(work, "dest")
	if err := os.Mkdir(dest, 0755); err != nil {
		panic(err)
	}
	if err := Materialize(prior, dest); err != nil {
		return L(N(9), N(9), N(0), L(), L(), S("materialize prior: "+err.Error()))
	}
	if err := c01RelinkSpecial(prior, dest); err != nil {
		return L(N(9), N(9), N(0), L(), L(), S("materialize prior links: "+err.Error()))
	}
	var fs fsutil.FS
	if srcKind == 1 {
		sdir := filepath.Join(work, "src")
		if err := os.Mkdir(sdir, 0755); err != nil {
			panic(err)
		}
		if err := Materialize(src, sdir); err != nil {
			return L(N(9), N(9), N(0), L(), L(), S("materialize src: "+err.Error()))
		}
		if err := c01RelinkSpecial(src, sdir); err != nil {
			return L(N(9), N(9), N(0), L(), L(), S("materialize src links: "+err.Error()))
		}
		var err error
		fs, err = fsutil.NewFS(sdir)
		if err != nil {
			panic(err)
		}
	} else {
		fs = &MemFS{Roots: src}
	}
	if rdMode != 0 {
		fs = &c01ReaderFS{FS: fs, mode: rdMode, k: rdK}
	}
	cfg := TransferCfg{Src: fs, Dest: dest, Merge: merge, Differ: differ, StreamCap: capacity, Notify: notify}
	if unpriv {
		// an unprivileged receiver cannot chown: rewrite owners to its own id, as callers of Receive do
		cfg.Filter = func(p string, st *types.Stat) bool {
			st.Uid, st.Gid = unprivID, unprivID
			return true
		}
	}
	res := RunTransfer(cfg)
	return L(errClass(res.SendErr), errClass(res.RecvErr), Bool(res.Hung), L(ReqIDs(res.Log)...), NotifsSx(res.Notifs))
}

// c01RelinkSpecial: Materialize gives every device / fifo entry an inode of its own; an entry of
// that kind that carries a Linkname is a FURTHER NAME of the inode at that path (a link group of
// a device or fifo): replace the separate node by a hard link, keeping the directory times.
func c01RelinkSpecial(view []*MNode, root string) error {
	var rec func(dir string, ns []*MNode) error
	rec = func(dir string, ns []*MNode) error {
		for _, n := range ns {
			p := n.Name
			if dir != "" {
				p = dir + "/" + n.Name
			}
			m := os.FileMode(n.Stat.Mode)
			if !m.IsDir() && m&os.ModeSymlink == 0 && m&os.ModeType != 0 && n.Stat.Linkname != "" {
				abs := filepath.Join(root, p)
				parent := filepath.Dir(abs)
				var pst syscall.Stat_t
				if err := syscall.Lstat(parent, &pst); err != nil {
					return err
				}
				if err := os.Remove(abs); err != nil {
					return err
				}
				if err := os.Link(filepath.Join(root, n.Stat.Linkname), abs); err != nil {
					return err
				}
				ts := []syscall.Timespec{pst.Atim, pst.Mtim}
				if err := syscall.UtimesNano(parent, ts); err != nil {
					return err
				}
			}
			if n.IsDir() {
				if err := rec(p, n.Kids); err != nil {
					return err
				}
			}
		}
		return nil
	}
	return rec("", view)
}

// c01ReaderFS wraps a source FS: Walk is the underlying one, the readers returned by Open deliver
// the same bytes with another (legal) io.Reader behaviour.
type c01ReaderFS struct {
	fsutil.FS
	mode, k int
}

func (f *c01ReaderFS) Open(p string) (io.ReadCloser, error) {
	rc, err := f.FS.Open(p)
	if err != nil {
		return nil, err
	}
	return &c01Reader{rc: rc, mode: f.mode, k: f.k}, nil
}

type c01Reader struct {
	rc      io.ReadCloser
	mode, k int
	pend    []byte // one piece read ahead (modes 3, 4: needed to know which piece is the last)
	pendErr error
	primed  bool
}

// piece reads the next piece of at most len(b) bytes according to the size rule of the mode.
func (r *c01Reader) piece(b []byte) (int, error) {
	switch r.mode {
	case 1, 4:
		if r.k > 0 && len(b) > r.k {
			b = b[:r.k]
		}
	case 2:
		b = b[:(len(b)+1)/2]
	}
	// fill the piece completely unless the data ends (so that the piece size is exactly the rule's)
	n := 0
	for n < len(b) {
		m, err := r.rc.Read(b[n:])
		n += m
		if err != nil {
			return n, err
		}
		if m == 0 {
			break
		}
	}
	return n, nil
}

func (r *c01Reader) Read(b []byte) (int, error) {
	if len(b) == 0 {
		return 0, nil
	}
	if r.mode != 3 && r.mode != 4 {
		n, err := r.piece(b)
		if n > 0 && err == io.EOF {
			return n, nil // EOF alone on the next call
		}
		return n, err
	}
	// data together with io.EOF on the last piece: keep one piece ahead
	if !r.primed {
		tmp := make([]byte, len(b))
		n, err := r.piece(tmp)
		r.pend, r.pendErr, r.primed = tmp[:n], err, true
	}
	if len(r.pend) == 0 {
		return 0, r.pendErr
	}
	n := copy(b, r.pend)
	if n < len(r.pend) {
		r.pend = r.pend[n:]
		return n, nil
	}
	if r.pendErr != nil {
		r.pend = nil
		return n, r.pendErr
	}
	tmp := make([]byte, len(b))
	m, err := r.piece(tmp)
	r.pend, r.pendErr = tmp[:m], err
	if m == 0 && err != nil {
		return n, err // the piece just returned was the last one
	}
	return n, nil
}

func (r *c01Reader) Close() error { return r.rc.Close() }

// mutateView derives a "dirty destination" from a source view: drop, retouch, rewrite,
// retype entries, add strangers — over the same name universe so that every type pair collides.
func mutateView(r *Rng, v []*MNode, o TreeOpts) []*MNode {
	var cp func(ns []*MNode) []*MNode
	cp = func(ns []*MNode) []*MNode {
		var out []*MNode
		for _, n := range ns {
			if r.Chance(12) {
				continue // stale entry missing
			}
			c := &MNode{Name: n.Name, Stat: n.Stat.CloneVT(), Content: append([]byte{}, n.Content...)}
			c.Stat.Linkname = n.Stat.Linkname
			switch x := r.Intn(12); {
			case x == 0 && !n.IsDir() && os.FileMode(n.Stat.Mode)&os.ModeType == 0: // same size+mtime, other bytes: identity collision
				if len(c.Content) > 0 {
					c.Content[0] ^= 0xff
				}
			case x == 1:
				c.Stat.ModTime += 1
			case x == 2:
				c.Stat.Mode = (c.Stat.Mode &^ 0777) | 0700
			case x == 3:
				c.Stat.Uid = 7
			case x == 4 && os.FileMode(n.Stat.Mode)&os.ModeType == 0:
				c.Content = append(c.Content, 'x')
				c.Stat.Size = int64(len(c.Content))
			case x == 5: // retype: dir <-> file <-> symlink
				if n.IsDir() {
					c.Stat.Mode = 0644
					c.Content = []byte("was a dir")
					c.Stat.Size = int64(len(c.Content))
					c.Stat.Linkname = ""
				} else {
					c.Stat.Mode = uint32(os.ModeDir | 0755)
					c.Content = nil
					c.Stat.Size = 0
					c.Stat.Linkname = ""
					c.Stat.Devmajor, c.Stat.Devminor = 0, 0
					c.Kids = GenView(r, TreeOpts{MaxEntries: 3, MaxDepth: 1, Names: o.Names})
				}
			case x == 7 && (n.IsDir() || os.FileMode(n.Stat.Mode)&os.ModeType == 0):
				// other xattrs, same identity key: a directory keeps them under the new ones
				// (rewriteMetadata removes nothing), an unchanged file keeps exactly them
				c.Stat.Xattrs = map[string][]byte{"user.old": []byte("o")}
				if r.Bool() {
					for k, v := range n.Stat.Xattrs {
						c.Stat.Xattrs[k] = append([]byte("x"), v...)
					}
				}
			case x == 6 && !n.IsDir():
				c.Stat.Mode = uint32(os.ModeSymlink | 0777)
				c.Stat.Linkname = "../outside"
				c.Stat.Xattrs = nil
				c.Content = nil
				c.Stat.Devmajor, c.Stat.Devminor = 0, 0
			}
			if n.IsDir() && c.IsDir() && c.Kids == nil {
				c.Kids = cp(n.Kids)
			}
			out = append(out, c)
		}
		if r.Chance(30) { // stranger
			extra := GenView(r, TreeOpts{MaxEntries: 2, MaxDepth: 1, Names: o.Names, Types: o.Types})
			for _, e := range extra {
				dup := false
				for _, x := range out {
					if x.Name == e.Name {
						dup = true
					}
				}
				if !dup {
					out = append(out, e)
				}
			}
		}
		return out
	}
	out := cp(v)
	root := &MNode{Kids: out}
	sortKids(root)
	fixLinks(root.Kids)
	return root.Kids
}

// fixLinks makes hard-link names consistent after mutation: a non-directory, non-symlink entry
// (regular file, device, fifo) whose Linkname does not name an earlier non-link entry of that
// kind becomes an inode of its own; a further name carries the stat of the inode it names.
func fixLinks(roots []*MNode) {
	seen := map[string]*MNode{}
	var rec func(dir string, ns []*MNode)
	rec = func(dir string, ns []*MNode) {
		for _, n := range ns {
			p := n.Name
			if dir != "" {
				p = dir + "/" + n.Name
			}
			m := os.FileMode(n.Stat.Mode)
			if !m.IsDir() && m&os.ModeSymlink == 0 { // regular file, device, fifo: an inode that may have several names
				if n.Stat.Linkname != "" {
					if f, ok := seen[n.Stat.Linkname]; ok {
						n.Stat = f.Stat.CloneVT()
						n.Stat.Linkname = pathOf[f]
						n.Content = f.Content
					} else {
						n.Stat.Linkname = ""
						seen[p] = n
						pathOf[n] = p
					}
				} else {
					seen[p] = n
					pathOf[n] = p
				}
			} else if m&os.ModeSymlink == 0 {
				n.Stat.Linkname = ""
			}
			if n.IsDir() {
				rec(p, n.Kids)
			}
		}
	}
	pathOf = map[*MNode]string{}
	rec("", roots)
}

var pathOf map[*MNode]string

// directed class: a destination directory replaced by a source non-directory (or deleted), with
// stale destination siblings whose names merely start with the same string (foo vs foo.txt, foo2/..)
// and bytes on both sides of '/': exercises the removed-directory filter of the diff.
func genSwapPrefix(r *Rng) (src, prior []*MNode) {
	mkf := func(name, content string) *MNode {
		return &MNode{Name: name, Stat: &types.Stat{Mode: 0644, Size: int64(len(content)), ModTime: int64(1600000000+r.Intn(1000)) * 1e9}, Content: []byte(content)}
	}
	mkd := func(name string, kids ...*MNode) *MNode {
		return &MNode{Name: name, Stat: &types.Stat{Mode: uint32(os.ModeDir | 0755), ModTime: int64(1600000000+r.Intn(1000)) * 1e9}, Kids: kids}
	}
	x := Pick(r, []string{"a", "foo", "d"})
	switch r.Intn(3) {
	case 0:
		src = append(src, mkf(x, "now a file"))
	case 1:
		src = append(src, &MNode{Name: x, Stat: &types.Stat{Mode: uint32(os.ModeSymlink | 0777), Linkname: "t", Size: 1, ModTime: 1600000000e9}})
	}
	prior = append(prior, mkd(x, mkf("k", "1"), mkd("sub", mkf("y", "2"))))
	for _, suf := range []string{".txt", "2", "-b", " b", "!", "0", "~"} {
		if r.Chance(45) {
			if r.Bool() {
				prior = append(prior, mkf(x+suf, "stale"))
			} else {
				prior = append(prior, mkd(x+suf, mkd("sub", mkf("x", "stale"))))
			}
		}
	}
	if r.Chance(40) {
		src = append(src, mkf("zz", "later"))
	}
	if r.Chance(30) {
		prior = append(prior, mkf("zz", "later"))
	}
	sr, pr := &MNode{Kids: src}, &MNode{Kids: prior}
	sortKids(sr)
	sortKids(pr)
	return sr.Kids, pr.Kids
}

// directed class: LINK GROUPS OF SPECIAL FILES in the source — a fifo, a character device and a
// block device with two or three names each, across directories (the walker reports a Linkname
// for every non-directory with more than one name), next to a regular link group and a lone
// fifo — against a prior destination that lacks them, holds them, holds them as separate
// inodes, holds some names only, holds a name as another type, or groups the names differently.
func genSpecialLinks(r *Rng) (src, prior []*MNode, cls string) {
	mt := func() int64 { return int64(1600000000+r.Intn(1000)) * 1e9 }
	fifo := func(name string) *MNode {
		return &MNode{Name: name, Stat: &types.Stat{Mode: uint32(os.ModeNamedPipe | 0640), Uid: 1, ModTime: mt()}}
	}
	dev := func(name string, char bool, maj, min int64) *MNode {
		m := uint32(os.ModeDevice | 0600)
		if char {
			m |= uint32(os.ModeCharDevice)
		}
		return &MNode{Name: name, Stat: &types.Stat{Mode: m, Devmajor: maj, Devminor: min, ModTime: mt()}}
	}
	file := func(name, content string) *MNode {
		return &MNode{Name: name, Stat: &types.Stat{Mode: 0644, Size: int64(len(content)), ModTime: mt()}, Content: []byte(content)}
	}
	dir := func(name string, kids ...*MNode) *MNode {
		return &MNode{Name: name, Stat: &types.Stat{Mode: uint32(os.ModeDir | 0755), ModTime: mt()}, Kids: kids}
	}
	link := func(name string, to *MNode, path string) *MNode {
		st := to.Stat.CloneVT()
		st.Linkname = path
		return &MNode{Name: name, Stat: st, Content: to.Content}
	}
	p, q, b, f := fifo("p"), dev("q", true, 1, 3), dev("b", false, 7, int64(r.Intn(4))), file("f", "shared")
	three := r.Bool()
	d1 := dir("d1", b, f, p, q)
	d2kids := []*MNode{link("b2", b, "d1/b"), link("p2", p, "d1/p")}
	if three {
		d2kids = append(d2kids, link("q2", q, "d1/q"))
	}
	d2 := dir("d2", d2kids...)
	src = []*MNode{d1, d2, fifo("lone"), link("zf", f, "d1/f"), link("zq", q, "d1/q")}
	if three {
		src = append(src, link("zp", p, "d1/p"))
	}
	clone := func(v []*MNode) []*MNode { return cloneView(v) }
	each := func(v *[]*MNode, fn func(path string, n *MNode, holder *[]*MNode, i int) bool) {
		var rec func(dirp string, ns *[]*MNode)
		rec = func(dirp string, ns *[]*MNode) {
			for i := 0; i < len(*ns); i++ {
				n := (*ns)[i]
				pp := n.Name
				if dirp != "" {
					pp = dirp + "/" + n.Name
				}
				if fn(pp, n, ns, i) {
					*ns = append((*ns)[:i:i], (*ns)[i+1:]...)
					i--
					continue
				}
				if n.IsDir() {
					rec(pp, &n.Kids)
				}
			}
		}
		rec("", v)
	}
	switch r.Intn(7) {
	case 0:
		cls = "fresh"
	case 1: // the destination already holds everything
		prior = clone(src)
		cls = "dirty-same"
	case 2: // every name an inode of its own
		prior = clone(src)
		each(&prior, func(_ string, n *MNode, _ *[]*MNode, _ int) bool {
			if os.FileMode(n.Stat.Mode)&os.ModeSymlink == 0 {
				n.Stat.Linkname = ""
			}
			return false
		})
		cls = "dirty-groups-split"
	case 3: // some names missing (first names too)
		prior = clone(src)
		each(&prior, func(_ string, n *MNode, _ *[]*MNode, _ int) bool { return !n.IsDir() && r.Chance(40) })
		cls = "dirty-names-missing"
	case 4: // a name of a group is a regular file / a directory in the destination
		prior = clone(src)
		each(&prior, func(_ string, n *MNode, _ *[]*MNode, _ int) bool {
			if !n.IsDir() && n.Stat.Linkname != "" && r.Chance(50) {
				if r.Bool() {
					n.Stat = &types.Stat{Mode: 0600, Size: 3, ModTime: mt()}
					n.Content = []byte("old")
				} else {
					n.Stat = &types.Stat{Mode: uint32(os.ModeDir | 0700), ModTime: mt()}
					n.Content = nil
				}
			}
			return false
		})
		cls = "dirty-name-retyped"
	case 5: // the names are grouped differently: zp is a name of the lone fifo, zq and d2/b2 inodes of their own
		prior = clone(src)
		var lone *MNode
		each(&prior, func(pp string, n *MNode, _ *[]*MNode, _ int) bool {
			switch pp {
			case "lone":
				lone = n
			case "zp":
				n.Stat = lone.Stat.CloneVT()
				n.Stat.Linkname = "lone"
			case "zq", "d2/b2":
				n.Stat.Linkname = ""
			}
			return false
		})
		cls = "dirty-regrouped"
	case 6: // metadata of a group edited (mode / owner / device number)
		prior = clone(src)
		each(&prior, func(_ string, n *MNode, _ *[]*MNode, _ int) bool {
			m := os.FileMode(n.Stat.Mode)
			if !n.IsDir() && m&os.ModeType != 0 && n.Stat.Linkname == "" && r.Bool() {
				switch r.Intn(3) {
				case 0:
					n.Stat.Mode ^= 0022
				case 1:
					n.Stat.Uid += 3
				case 2:
					if m&os.ModeDevice != 0 {
						n.Stat.Devminor += 8
					} else {
						n.Stat.ModTime += 5
					}
				}
			}
			return false
		})
		cls = "dirty-group-metadata"
	}
	pr := &MNode{Kids: prior}
	sortKids(pr)
	fixLinks(pr.Kids)
	sr := &MNode{Kids: src}
	sortKids(sr)
	return sr.Kids, pr.Kids, "directed-special-link-groups-" + cls
}

func genC01(g *Gen) {
	for i := g.Vol(90, 1200); i > 0; i-- {
		r := g.Rng
		src, prior, cls := genSpecialLinks(r)
		merge := r.Chance(25)
		if merge {
			cls += "+merge"
		}
		srcKind := 0
		if r.Chance(50) {
			srcKind = 1
			cls += "+disk"
		}
		coll := c01Collision(src, prior)
		in := L(ViewSx(src), ViewSx(prior), Bool(merge), NI(srcKind), NI(Pick(r, []int{0, 1, 32})), NI(0), Bool(r.Chance(30)), Bool(false), Bool(coll))
		g.Emit(0x0101, in, prior != nil && (merge || !coll), cls)
	}
	for i := g.Vol(120, 1500); i > 0; i-- {
		src, prior := genSwapPrefix(g.Rng)
		in := L(ViewSx(src), ViewSx(prior), Bool(false), NI(0), NI(16), NI(0), Bool(false), Bool(false))
		g.Emit(0x0101, in, true, "directed-swap-prefix-siblings")
	}
	n := g.Vol(700, 8000)
	small := []string{"a", "b", "ab", "a-b", "a b", "c", "d", "\x01", "é", ".fsutil-metadata"}
	for i := 0; i < n; i++ {
		r := g.Rng
		o := TreeOpts{MaxEntries: 3 + r.Intn(14), MaxDepth: 3, Names: small, Types: true, HardLinks: r.Chance(50), Xattrs: r.Chance(40), BigFiles: r.Chance(25), Owners: true}
		if r.Chance(30) {
			o.Names = nil
		}
		src := GenView(r, o)
		wide := o.Types && r.Chance(60)
		if wide {
			c01WidenDevices(r, src) // device numbers over the whole 12-bit major / 20-bit minor range
		}
		var prior []*MNode
		cls := "fresh"
		switch r.Intn(5) {
		case 0:
			cls = "fresh"
		case 1:
			prior = mutateView(r, src, TreeOpts{Names: o.Names})
			cls = "dirty-equalish"
		case 2:
			prior = mutateView(r, src, o)
			cls = "dirty-mutated"
		case 3:
			prior = GenView(r, o)
			cls = "dirty-unrelated"
		case 4:
			prior = mutateView(r, mutateView(r, src, o), o)
			cls = "dirty-mutated2"
		}
		merge := r.Chance(25)
		if merge {
			cls += "+merge"
		}
		srcKind := 0
		if r.Chance(35) {
			srcKind = 1
			cls += "+disk"
		}
		unpriv := r.Chance(20)
		if unpriv {
			// sender and receiver run in the same unprivileged child: keep the source in memory so that
			// unreadable source files (mode 000) are not an Open error on the sending side (that is K3, C04)
			srcKind = 0
			// no devices (mknod needs privileges), owners = the unprivileged id, some read-only files
			o.Types = false
			src = GenView(r, o)
			if prior != nil {
				prior = mutateView(r, src, TreeOpts{Names: o.Names})
			}
			setOwner(src, unprivID)
			setOwner(prior, unprivID)
			cls += "+unpriv"
		}
		if wide {
			cls += "+widedev"
		}
		if wide {
			cls += "+widedev"
		}
		coll := c01Collision(src, prior)
		if coll && !merge {
			cls = "excluded-identity-collision(" + cls + ")"
		}
		// reader behaviour of the source (any io.Reader is legal for an fsutil.FS)
		sk := NI(srcKind)
		if r.Chance(50) {
			mode := 1 + r.Intn(4)
			k := Pick(r, []int{1, 7, 4096, 32767})
			sk = L(NI(srcKind), NI(mode), NI(k))
			cls += []string{"", "+rd-cap", "+rd-half", "+rd-dataeof", "+rd-cap-dataeof"}[mode]
		}
		in := L(ViewSx(src), ViewSx(prior), Bool(merge), sk, NI(Pick(r, []int{0, 1, 32, 64})), NI(0), Bool(r.Chance(30)), Bool(unpriv), Bool(coll))
		nontriv := prior != nil && len(WalkEntries(prior)) >= 2 && (merge || !coll)
		g.Emit(0x0101, in, nontriv, cls)
	}
	genC01Hist(g)
}

// c01Collision mirrors Converge.identity_faithful (the hypothesis of C01/C02 in dirty mode): true
// iff some regular file of the source has an entry at the same path of the prior destination
// with the same identity key (mode, uid, gid, device numbers, link name, size, mtime) and
// DIFFERENT bytes.  Such cases are excluded by hypothesis: the generator counts them in a class
// of their own and passes the flag to the glue, which cross-checks it against its own decision.
func c01Collision(src, prior []*MNode) bool {
	type ent struct {
		st *types.Stat
		c  []byte
	}
	flat := func(roots []*MNode) map[string]ent {
		out := map[string]ent{}
		var rec func(dir string, ns []*MNode)
		rec = func(dir string, ns []*MNode) {
			for _, n := range ns {
				p := n.Name
				if dir != "" {
					p = dir + "/" + n.Name
				}
				out[p] = ent{n.Stat, n.Content}
				rec(p, n.Kids)
			}
		}
		rec("", roots)
		return out
	}
	pm := flat(prior)
	for p, e := range flat(src) {
		m := os.FileMode(e.st.Mode)
		if m&(os.ModeDir|os.ModeSymlink|os.ModeNamedPipe|os.ModeSocket|os.ModeDevice) != 0 {
			continue
		}
		a, ok := pm[p]
		if !ok {
			continue
		}
		if a.st.Mode == e.st.Mode && a.st.Uid == e.st.Uid && a.st.Gid == e.st.Gid &&
			a.st.Devmajor == e.st.Devmajor && a.st.Devminor == e.st.Devminor && a.st.Linkname == e.st.Linkname &&
			a.st.Size == e.st.Size && a.st.ModTime == e.st.ModTime && string(a.c) != string(e.c) {
			return true
		}
	}
	return false
}

// c01WidenDevices spreads the device numbers of the block/char devices of a view over the whole
// range of a Linux dev_t: major 12 bits, minor 20 bits, with the boundaries of the three bit
// fields of st_rdev (minor bits 0..7, major bits 8..19, minor bits 20..31).
func c01WidenDevices(r *Rng, ns []*MNode) {
	for _, n := range ns {
		if os.FileMode(n.Stat.Mode)&os.ModeDevice != 0 {
			n.Stat.Devmajor = int64(Pick(r, []int{0, 1, 7, 255, 256, 2048, 4095, r.Intn(4096)}))
			n.Stat.Devminor = int64(Pick(r, []int{0, 255, 256, 4095, 4096, 65535, 65536, 70000, 1<<20 - 1, r.Intn(1 << 20), r.Intn(1 << 20)}))
		}
		c01WidenDevices(r, n.Kids)
	}
}

func setOwner(ns []*MNode, id uint32) {
	for _, n := range ns {
		n.Stat.Uid, n.Stat.Gid = id, id
		setOwner(n.Kids, id)
	}
}
