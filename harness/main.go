// vh — verification harness: generates cases, runs the real fsutil code on them and
// prints  <kind-hex> TAB <input-sx> TAB <impl-sx>  lines for the extracted model.
package main

import (
	"bufio"
	"crypto/sha256"
	"encoding/json"
	"flag"
	"fmt"
	"os"
	"sort"
	"strconv"
	"strings"
)

// KindFn runs the real implementation on a serialised input and returns its observables.
type KindFn func(in Sx) Sx

var kinds = map[uint64]KindFn{}

// noteCase records the case about to run in $VERIF_CUR (overwritten in place), so that when the
// implementation takes the whole process down (stack overflow, fatal error, hang killed by the
// caller) the check still knows the failing input.
var curFile *os.File

func noteCase(kind uint64, in Sx) {
	if curFile == nil {
		return
	}
	b := []byte(fmt.Sprintf("%x\t%s\n", kind, in.String()))
	curFile.WriteAt(b, 0)
	curFile.Truncate(int64(len(b)))
}

func wrapKinds() {
	if p := os.Getenv("VERIF_CUR"); p != "" {
		if f, err := os.OpenFile(p, os.O_RDWR|os.O_CREATE|os.O_TRUNC, 0644); err == nil {
			curFile = f
		}
	}
	if curFile == nil {
		return
	}
	for k, fn := range kinds {
		k, fn := k, fn
		kinds[k] = func(in Sx) Sx { noteCase(k, in); return fn(in) }
	}
}

// PropGen generates the cases of one property.
type PropGen func(g *Gen)

var props = map[string]PropGen{}

type Gen struct {
	Rng     *Rng
	Tier    string
	Prop    string
	out     *bufio.Writer
	evals   int
	nontriv map[[32]byte]struct{}
	classes map[string]int
	samples []string
	extra   map[string]interface{}
}

func (g *Gen) Thorough() bool { return g.Tier == "thorough" }

// Pick quick/thorough volume.
func (g *Gen) Vol(quick, thorough int) int {
	if g.Thorough() {
		return thorough
	}
	return quick
}

// Emit runs the implementation on the input and records the case.
func (g *Gen) Emit(kind uint64, in Sx, nontrivial bool, class string) Sx {
	out := kinds[kind](in)
	g.EmitWith(kind, in, out, nontrivial, class)
	return out
}

func (g *Gen) EmitWith(kind uint64, in Sx, out Sx, nontrivial bool, class string) {
	is := in.String()
	fmt.Fprintf(g.out, "%x\t%s\t%s\n", kind, is, out.String())
	g.evals++
	if nontrivial {
		g.nontriv[sha256.Sum256([]byte(strconv.FormatUint(kind, 16)+is))] = struct{}{}
	}
	g.classes[class]++
	if len(g.samples) < 6 && (nontrivial || g.evals < 3) && len(is) < 600 {
		g.samples = append(g.samples, fmt.Sprintf("%x %s => %s", kind, is, out.String()))
	}
}

func (g *Gen) Note(k string, v interface{}) { g.extra[k] = v }

func main() {
	if len(os.Args) < 2 {
		fmt.Fprintln(os.Stderr, "usage: vh gen|run|corpus|internal ...")
		os.Exit(2)
	}
	if os.Args[1] != "internal" {
		wrapKinds()
	}
	switch os.Args[1] {
	case "gen":
		fs := flag.NewFlagSet("gen", flag.ExitOnError)
		seed := fs.Uint64("seed", 1, "")
		tier := fs.String("tier", "quick", "")
		outp := fs.String("out", "", "")
		statsp := fs.String("stats", "", "")
		fs.Parse(os.Args[3:])
		prop := os.Args[2]
		pg, ok := props[prop]
		if !ok {
			fmt.Fprintln(os.Stderr, "unknown property", prop)
			os.Exit(2)
		}
		f, err := os.Create(*outp)
		if err != nil {
			panic(err)
		}
		g := &Gen{Rng: NewRng(*seed), Tier: *tier, Prop: prop, out: bufio.NewWriterSize(f, 1<<20),
			nontriv: map[[32]byte]struct{}{}, classes: map[string]int{}, extra: map[string]interface{}{}}
		pg(g)
		g.out.Flush()
		f.Close()
		st := map[string]interface{}{
			"evaluations":         g.evals,
			"distinct_nontrivial": len(g.nontriv),
			"distribution":        g.classes,
			"samples":             g.samples,
		}
		for k, v := range g.extra {
			st[k] = v
		}
		b, _ := json.MarshalIndent(st, "", " ")
		os.WriteFile(*statsp, b, 0644)
	case "run":
		// vh run <kind-hex> <input-sx>
		k, err := strconv.ParseUint(os.Args[2], 16, 64)
		if err != nil {
			panic(err)
		}
		in, err := ParseSx(os.Args[3])
		if err != nil {
			panic(err)
		}
		fn, ok := kinds[k]
		if !ok {
			fmt.Fprintln(os.Stderr, "unknown kind")
			os.Exit(2)
		}
		fmt.Printf("%x\t%s\t%s\n", k, in.String(), fn(in).String())
	case "corpus":
		// vh corpus <file>...: lines "<kind-hex> TAB <input-sx> [TAB comment]"
		w := bufio.NewWriter(os.Stdout)
		defer w.Flush()
		files := os.Args[2:]
		sort.Strings(files)
		for _, fn := range files {
			data, err := os.ReadFile(fn)
			if err != nil {
				panic(err)
			}
			for _, line := range strings.Split(string(data), "\n") {
				line = strings.TrimRight(line, "\r")
				if line == "" || strings.HasPrefix(line, "//") {
					continue
				}
				parts := strings.Split(line, "\t")
				if len(parts) < 2 {
					continue
				}
				k, err := strconv.ParseUint(parts[0], 16, 64)
				if err != nil {
					panic(err)
				}
				in, err := ParseSx(parts[1])
				if err != nil {
					panic(fmt.Sprintf("%s: %v", fn, err))
				}
				f, ok := kinds[k]
				if !ok {
					panic("unknown kind in corpus")
				}
				fmt.Fprintf(w, "%x\t%s\t%s\n", k, in.String(), f(in).String())
			}
		}
	case "internal":
		internalMain(os.Args[2:])
	default:
		fmt.Fprintln(os.Stderr, "unknown command")
		os.Exit(2)
	}
}

// internalMain dispatches re-exec entry points (chroot children etc.); filled by kinds that need it.
var internals = map[string]func(args []string){}

func internalMain(args []string) {
	if len(args) == 0 {
		os.Exit(2)
	}
	fn, ok := internals[args[0]]
	if !ok {
		os.Exit(2)
	}
	fn(args[1:])
}
