package main

import (
	"encoding/binary"
	"fmt"
	"os"
	"path/filepath"
	"sort"
	"strings"
	"sync"
	"time"

	"github.com/tonistiigi/fsutil"
	"github.com/tonistiigi/fsutil/types"
)

func init() {
	kinds[0x1901] = run1901
	kinds[0x1902] = run1902
	props["C19"] = genC19
}

const c19Listing = fsutil.VerifMetadataPath // ".fsutil-metadata"
const c19Sentinel = "SENTINEL-outside-dest"

// kind 1901 — one metadata-only transfer with the REAL fsutil.Send / fsutil.Receive.
//
// input: (srcView priorView ((path sel)...) selDefault cap merge [rwk])
//
//	the selector is the finite table (exact path -> bool) with a default for every other path;
//	rwk (absent = 0): what the selector WRITES into the live *types.Stat it is handed before it
//	returns (c19Rewrite; the FilterFunc signature invites it): 0 nothing, 1 uid/gid/mtime normalised
//	on every entry, 2 chmod go-rwx on what it selects, 3 normalised on selected entries only,
//	4 on rejected entries only, 5 = 1 + 2, 6 = 1 + the Path field overwritten;
//	priorView is materialised into dest before the transfer (it may hold an entry named
//	.fsutil-metadata: file, directory, or symlink "../sentinel" to a file outside dest).
//
// output: (send_err recv_err hung announced lkind lok listing reclens lsize reqs fwd dest_raw sentinel_ok)
//
//	hung       the real Send/Receive did not both return within the watchdog time (10 s): an output
//	           value, judged specification-false by the glue in every case
//	announced  STAT sequence the sender put on the wire (packet log), in order
//	lkind      what dest/.fsutil-metadata is afterwards: 0 absent, 1 regular, 2 symlink, 3 dir, 4 other
//	lok        the file split exactly into 4-byte-LE-length-prefixed records that all unmarshal
//	listing    the records decoded with the real types.Stat.UnmarshalVT; reclens their lengths; lsize file size
//	reqs       ids of the REQ packets (sorted)
//	fwd        ((path n)...) runs of consecutive non-delete Filter calls = entries handed to the diff/writer
//	dest_raw   independent lstat snapshot of dest without .fsutil-metadata
//	sentinel_ok  the file outside dest still has its bytes and is still a regular file
func run1901(in Sx) (out Sx) {
	fail := func(msg string) Sx {
		return L(N(9), N(9), N(0), L(), N(0), N(0), L(), L(), N(0), L(), L(), L(), N(0), S(msg))
	}
	defer func() {
		if r := recover(); r != nil {
			out = fail(fmt.Sprintf("panic: %v", r))
		}
	}()
	src := SxView(in.L[0])
	prior := SxView(in.L[1])
	table := map[string]bool{}
	for _, e := range in.L[2].L {
		table[e.L[0].Str()] = e.L[1].IsTrue()
	}
	def := in.L[3].IsTrue()
	capacity := in.L[4].Int()
	merge := in.L[5].IsTrue()
	rwk := 0
	if len(in.L) > 6 {
		rwk = in.L[6].Int()
	}

	work := WorkDir("c19-")
	defer os.RemoveAll(work)
	dest := filepath.Join(work, "dest")
	if err := os.Mkdir(dest, 0755); err != nil {
		panic(err)
	}
	sentinel := filepath.Join(work, "sentinel")
	if err := os.WriteFile(sentinel, []byte(c19Sentinel), 0644); err != nil {
		panic(err)
	}
	if err := Materialize(prior, dest); err != nil {
		return fail("materialize prior: " + err.Error())
	}

	var mu sync.Mutex
	type run struct {
		path string
		n    int
	}
	var fwd []run
	filter := func(p string, st *types.Stat) bool {
		if st.Path == "" { // DiskWriter's delete probe (empty stat)
			return true
		}
		mu.Lock()
		if len(fwd) > 0 && fwd[len(fwd)-1].path == p {
			fwd[len(fwd)-1].n++
		} else {
			fwd = append(fwd, run{p, 1})
		}
		mu.Unlock()
		return true
	}
	selector := func(p string, st *types.Stat) bool {
		v, ok := table[p]
		if !ok {
			v = def
		}
		c19Rewrite(rwk, v, st)
		return v
	}
	res := RunTransfer(TransferCfg{Src: &MemFS{Roots: src}, Dest: dest, Merge: merge, StreamCap: capacity,
		MetadataOnly: selector, Filter: filter, Timeout: c19Watchdog})
	if os.Getenv("VERIF_DEBUG") != "" {
		fmt.Fprintf(os.Stderr, "c19: send=%v recv=%v hung=%v\n", res.SendErr, res.RecvErr, res.Hung)
	}

	var announced []Sx
	for _, lp := range res.Log {
		if lp.From == "s" && lp.P.Type == types.PACKET_STAT && lp.P.Stat != nil {
			announced = append(announced, StatSx(lp.P.Stat))
		}
	}

	// the listing file, decoded with the real unmarshaller
	lkind, lok, lsize := 0, false, 0
	var listing, reclens []Sx
	lpath := filepath.Join(dest, c19Listing)
	if fi, err := os.Lstat(lpath); err == nil {
		switch {
		case fi.Mode().IsRegular():
			lkind = 1
			dt, err := os.ReadFile(lpath)
			if err != nil {
				return fail("read listing: " + err.Error())
			}
			lsize = len(dt)
			lok = true
			for len(dt) > 0 {
				if len(dt) < 4 {
					lok = false
					break
				}
				n := int(binary.LittleEndian.Uint32(dt[:4]))
				if len(dt) < 4+n {
					lok = false
					break
				}
				var st types.Stat
				if err := st.UnmarshalVT(dt[4 : 4+n]); err != nil {
					lok = false
					break
				}
				listing = append(listing, StatSx(&st))
				reclens = append(reclens, NI(n))
				dt = dt[4+n:]
			}
		case fi.Mode()&os.ModeSymlink != 0:
			lkind = 2
		case fi.IsDir():
			lkind = 3
		default:
			lkind = 4
		}
	}

	reqs := ReqIDs(res.Log)
	sort.Slice(reqs, func(a, b int) bool { return reqs[a].U64() < reqs[b].U64() })

	fw := make([]Sx, len(fwd))
	for i, f := range fwd {
		fw[i] = L(S(f.path), NI(f.n))
	}

	snap, err := SnapshotRaw(dest, true)
	if err != nil {
		return fail("snapshot: " + err.Error())
	}
	var kept []RawEntry
	for _, e := range snap {
		if e.Path == c19Listing || strings.HasPrefix(e.Path, c19Listing+"/") {
			continue
		}
		kept = append(kept, e)
	}

	sentinelOK := false
	if fi, err := os.Lstat(sentinel); err == nil && fi.Mode().IsRegular() {
		if b, err := os.ReadFile(sentinel); err == nil && string(b) == c19Sentinel {
			sentinelOK = true
		}
	}
	return L(errClass(res.SendErr), errClass(res.RecvErr), Bool(res.Hung), L(announced...), NI(lkind), Bool(lok),
		L(listing...), L(reclens...), NI(lsize), L(reqs...), L(fw...), RawListSx(kept), Bool(sentinelOK))
}

// c19Watchdog bounds one real Send/Receive pair (RunTransfer then tears the stream down and
// reports Hung).
const c19Watchdog = 10 * time.Second

// c19Rewrite is the side effect of the generated selectors on the stat they are handed
// (Model/MetaOnly.v rw_of); dec is the decision they are about to return.
func c19Rewrite(k int, dec bool, st *types.Stat) {
	norm := func() { st.Uid, st.Gid, st.ModTime = 12, 34, 981173106000000000 }
	switch k {
	case 1:
		norm()
	case 2:
		if dec {
			st.Mode &^= 077
		}
	case 3:
		if dec {
			norm()
		}
	case 4:
		if !dec {
			norm()
		}
	case 5:
		norm()
		if dec {
			st.Mode &^= 077
		}
	case 6:
		norm()
		st.Path = "x"
	}
}

// kind 1902 — the unexported chunked buffer (buffer.alloc / WriteTo) through the verif hook:
// input (size...), each record i is filled with the byte pattern (i+j) mod 251;
// output (total_len ok ((len cap)...)) with ok = WriteTo emitted exactly the concatenation.
func run1902(in Sx) (out Sx) {
	defer func() {
		if r := recover(); r != nil {
			out = L(N(0), N(0), L(), S(fmt.Sprintf("panic: %v", r)))
		}
	}()
	sizes := make([]int, len(in.L))
	for i, s := range in.L {
		sizes[i] = s.Int()
	}
	var want []byte
	for i, n := range sizes {
		for j := 0; j < n; j++ {
			want = append(want, byte((i+j)%251))
		}
	}
	got, chunks, err := fsutil.VerifBuffer(sizes, func(i int, b []byte) {
		for j := range b {
			b[j] = byte((i + j) % 251)
		}
	})
	ok := err == nil && string(got) == string(want)
	cs := make([]Sx, len(chunks))
	for i, c := range chunks {
		cs[i] = L(NI(c[0]), NI(c[1]))
	}
	return L(NI(len(got)), Bool(ok), L(cs...))
}

// ---------------------------------------------------------------- generators

type c19Entry struct {
	st      *types.Stat
	content []byte
}

func c19Walk(v []*MNode) []*types.Stat { return WalkEntries(v) }

func c19IsReg(st *types.Stat) bool { return os.FileMode(st.Mode)&os.ModeType == 0 }
func c19IsDir(st *types.Stat) bool { return os.FileMode(st.Mode).IsDir() }

// selector table over the announced paths
type c19Sel struct {
	table map[string]bool
	def   bool
	name  string
}

func (s c19Sel) get(p string) bool {
	if v, ok := s.table[p]; ok {
		return v
	}
	return s.def
}

func (s c19Sel) Sx() Sx {
	keys := make([]string, 0, len(s.table))
	for k := range s.table {
		keys = append(keys, k)
	}
	sort.Strings(keys)
	out := make([]Sx, len(keys))
	for i, k := range keys {
		out[i] = L(S(k), Bool(s.table[k]))
	}
	return L(out...)
}

func c19GenSel(r *Rng, stats []*types.Stat) c19Sel {
	s := c19Sel{table: map[string]bool{}}
	switch r.Intn(9) {
	case 0:
		s.name = "none"
	case 1:
		s.name, s.def = "all", true
	case 2:
		s.name = "files"
		for _, st := range stats {
			if !c19IsDir(st) {
				s.table[st.Path] = true
			}
		}
	case 3:
		s.name = "dirs"
		for _, st := range stats {
			if c19IsDir(st) {
				s.table[st.Path] = true
			}
		}
	case 4:
		s.name = "nested"
		// the deepest entries only
		max := 0
		for _, st := range stats {
			if d := strings.Count(st.Path, "/"); d > max {
				max = d
			}
		}
		for _, st := range stats {
			if strings.Count(st.Path, "/") == max && r.Chance(60) {
				s.table[st.Path] = true
			}
		}
	case 5:
		s.name = "one"
		if len(stats) > 0 {
			s.table[stats[r.Intn(len(stats))].Path] = true
		}
	default:
		s.name = "random"
		pct := Pick(r, []int{15, 30, 50, 80})
		for _, st := range stats {
			s.table[st.Path] = r.Chance(pct)
		}
		s.def = r.Bool()
	}
	return s
}

// c19LinkClosed: every selected hard link has its link source selected.
func c19LinkClosed(s c19Sel, stats []*types.Stat) bool {
	for _, st := range stats {
		m := os.FileMode(st.Mode)
		if st.Path != c19Listing && s.get(st.Path) && !m.IsDir() && m&os.ModeSymlink == 0 && st.Linkname != "" {
			if st.Linkname == c19Listing || !s.get(st.Linkname) {
				return false
			}
		}
	}
	return true
}

func c19CloseLinks(s *c19Sel, stats []*types.Stat) {
	for _, st := range stats {
		m := os.FileMode(st.Mode)
		if s.get(st.Path) && !m.IsDir() && m&os.ModeSymlink == 0 && st.Linkname != "" {
			s.table[st.Linkname] = true
		}
	}
}

func c19Clone(n *MNode) *MNode {
	c := &MNode{Name: n.Name, Stat: n.Stat.CloneVT(), Content: append([]byte{}, n.Content...)}
	for _, k := range n.Kids {
		c.Kids = append(c.Kids, c19Clone(k))
	}
	return c
}

// c19Prior derives a prior destination from the source: exact copies (nothing to do for the
// transfer), retouched / rewritten / retyped entries, missing entries, strangers.  No hard links,
// no xattrs; content never differs without size or mtime differing too (identity_faithful).
func c19Prior(r *Rng, src []*MNode, names []string) []*MNode {
	var cp func(ns []*MNode) []*MNode
	cp = func(ns []*MNode) []*MNode {
		var out []*MNode
		for _, n := range ns {
			if r.Chance(25) {
				continue
			}
			c := &MNode{Name: n.Name, Stat: n.Stat.CloneVT(), Content: append([]byte{}, n.Content...)}
			c.Stat.Xattrs = nil
			if c19IsReg(c.Stat) {
				c.Stat.Linkname = ""
			}
			switch x := r.Intn(10); {
			case x == 0:
				c.Stat.ModTime++
			case x == 1 && c19IsReg(c.Stat):
				c.Content = append(c.Content, 'x')
				c.Stat.Size = int64(len(c.Content))
			case x == 2:
				c.Stat.Mode = (c.Stat.Mode &^ 0777) | 0700
			case x == 3:
				c.Stat.Uid = 7
			case x == 4: // retype
				if n.IsDir() {
					c.Stat = &types.Stat{Mode: 0644, ModTime: n.Stat.ModTime}
					c.Content = []byte("was a dir")
					c.Stat.Size = int64(len(c.Content))
				} else {
					c.Stat = &types.Stat{Mode: uint32(os.ModeDir | 0755), ModTime: n.Stat.ModTime}
					c.Content = nil
					c.Kids = GenView(r, TreeOpts{MaxEntries: 3, MaxDepth: 1, Names: names})
				}
			}
			if n.IsDir() && c.IsDir() && c.Kids == nil {
				c.Kids = cp(n.Kids)
			}
			out = append(out, c)
		}
		if r.Chance(35) {
			for _, e := range GenView(r, TreeOpts{MaxEntries: 3, MaxDepth: 2, Names: names, Types: true}) {
				dup := false
				for _, x := range out {
					if x.Name == e.Name {
						dup = true
					}
				}
				if !dup {
					out = append(out, e)
				}
			}
		}
		return out
	}
	root := &MNode{Kids: cp(src)}
	sortKids(root)
	return root.Kids
}

// c19WithListing replaces/adds a top-level entry named .fsutil-metadata in a prior destination.
func c19WithListing(r *Rng, prior []*MNode, kind int) []*MNode {
	return c19WithNamed(r, prior, c19Listing, kind)
}

// c19DerivedNames: names a writer of the listing file might use next to it (temporary / backup /
// lock names, numbered variants), and prefixes / extensions of the listing name.  None of them is
// reserved by the protocol: as source entries they are ordinary entries.
func c19DerivedNames() []string {
	l := c19Listing
	out := []string{}
	for _, suf := range []string{".tmp", "~", ".new", ".bak", ".old", ".lock", ".swp", ".part", ".0", ".1", ".12345", "-tmp", ".tmp.tmp", "_"} {
		out = append(out, l+suf)
	}
	out = append(out, l[:len(l)-1], l[:8], l[1:], "x"+l, ".tmp"+l, "."+l, l+l, "tmp"+l+".tmp", "#"+l+"#")
	return out
}

// c19WithNamed replaces/adds a top-level entry with the given name in a prior destination.
func c19WithNamed(r *Rng, prior []*MNode, name string, kind int) []*MNode {
	var out []*MNode
	for _, n := range prior {
		if n.Name != name {
			out = append(out, n)
		}
	}
	mt := int64(1600000000) * 1e9
	var n *MNode
	switch kind {
	case 1: // a regular listing file from an earlier run (garbage bytes)
		c := []byte("stale listing\x00\x01\x02")
		n = &MNode{Name: name, Stat: &types.Stat{Mode: 0600, ModTime: mt, Size: int64(len(c))}, Content: c}
	case 2: // a symlink to a file outside dest
		n = &MNode{Name: name, Stat: &types.Stat{Mode: uint32(os.ModeSymlink | 0777), Linkname: "../sentinel", ModTime: mt}}
	case 3: // an empty directory
		n = &MNode{Name: name, Stat: &types.Stat{Mode: uint32(os.ModeDir | 0755), ModTime: mt}}
	case 4: // a directory with a child
		n = &MNode{Name: name, Stat: &types.Stat{Mode: uint32(os.ModeDir | 0755), ModTime: mt},
			Kids: []*MNode{{Name: "x", Stat: &types.Stat{Mode: 0644, ModTime: mt, Size: 1}, Content: []byte("x")}}}
	case 5: // a dangling symlink
		n = &MNode{Name: name, Stat: &types.Stat{Mode: uint32(os.ModeSymlink | 0777), Linkname: "nowhere", ModTime: mt}}
	}
	if n != nil {
		out = append(out, n)
	}
	root := &MNode{Kids: out}
	sortKids(root)
	return root.Kids
}

func c19HasName(v []*MNode, name string) (top, dirWithKids, nested bool) {
	var rec func(ns []*MNode, depth int)
	rec = func(ns []*MNode, depth int) {
		for _, n := range ns {
			if n.Name == name {
				if depth == 0 {
					top = true
					if len(n.Kids) > 0 {
						dirWithKids = true
					}
				} else {
					nested = true
				}
			}
			rec(n.Kids, depth+1)
		}
	}
	rec(v, 0)
	return
}

// c19BigView: a flat-ish view with many entries and/or long names so that the listing spans
// roughly [chunks] 32 KiB buffer chunks.
func c19BigView(r *Rng, chunks int) []*MNode {
	target := chunks*fsutil.VerifChunkSize - 2000 + r.Intn(6000)
	root := &MNode{Stat: &types.Stat{Mode: uint32(os.ModeDir | 0755)}}
	dirs := []*MNode{root}
	total := 0
	mt := int64(1600000000) * 1e9
	for i := 0; total < target; i++ {
		d := Pick(r, dirs)
		nameLen := 3 + r.Intn(10)
		if r.Chance(40) {
			nameLen = 100 + r.Intn(150)
		}
		b := make([]byte, nameLen)
		for k := range b {
			b[k] = "abcdefghijklmnopqrstuvwxyz-_. "[r.Intn(30)]
		}
		if b[0] == '.' || b[0] == ' ' {
			b[0] = 'n'
		}
		name := fmt.Sprintf("%s%03d", string(b), i)
		st := &types.Stat{Mode: 0644, ModTime: mt + int64(i)}
		n := &MNode{Name: name, Stat: st}
		if r.Chance(12) && len(dirs) < 12 {
			st.Mode = uint32(os.ModeDir | 0755)
			dirs = append(dirs, n)
		} else {
			n.Content = fillContent(r, r.Intn(4))
			st.Size = int64(len(n.Content))
		}
		d.Kids = append(d.Kids, n)
		total += 4 + 2*nameLen + 30 // rough: path repeats parent names
	}
	sortKids(root)
	return root.Kids
}

func c19ListingBytes(stats []*types.Stat) int {
	n := 0
	for _, st := range stats {
		if st.Path != c19Listing {
			n += 4 + st.SizeVT()
		}
	}
	return n
}

func c19Emit(g *Gen, src, prior []*MNode, sel c19Sel, capacity int, merge bool, rwk int, cls string) {
	stats := c19Walk(src)
	closed := c19LinkClosed(sel, stats)
	if !closed {
		cls += "+not-link-closed"
		g.extra["not_link_closed_cases"] = g.extraInt("not_link_closed_cases") + 1
	}
	nsel, nunsel := 0, 0
	for _, st := range stats {
		if st.Path == c19Listing {
			continue
		}
		if sel.get(st.Path) {
			nsel++
		} else {
			nunsel++
		}
	}
	in := L(ViewSx(src), ViewSx(prior), sel.Sx(), Bool(sel.def), NI(capacity), Bool(merge), NI(rwk))
	if rwk != 0 {
		cls += fmt.Sprintf("+selector-writes-%d", rwk)
		k := fmt.Sprintf("selector_writes_%d_cases", rwk)
		g.extra[k] = g.extraInt(k) + 1
	}
	nontriv := closed && nsel >= 1 && nunsel >= 1 && len(stats) >= 3
	out := kinds[0x1901](in)
	if merge && len(out.L) >= 13 && out.L[1].IsTrue() && out.L[4].Int() == 3 {
		// observation: merge mode, a directory survives at the listing path, Receive returns an error
		cls += "+observed-merge-listing-dir-error"
		g.extra["observed_merge_listing_dir_errors"] = g.extraInt("observed_merge_listing_dir_errors") + 1
	}
	g.EmitWith(0x1901, in, out, nontriv, cls)
	ch := (c19ListingBytes(stats) + fsutil.VerifChunkSize - 1) / fsutil.VerifChunkSize
	k := fmt.Sprintf("listing_chunks_%d", ch)
	if ch > 6 {
		k = "listing_chunks_7plus"
	}
	g.extra[k] = g.extraInt(k) + 1
}

// c19GenRw: 60 % pure predicates, otherwise one of the writing selector kinds.
func c19GenRw(r *Rng) int {
	if r.Chance(60) {
		return 0
	}
	return 1 + r.Intn(6)
}

func (g *Gen) extraInt(k string) int {
	if v, ok := g.extra[k].(int); ok {
		return v
	}
	return 0
}

func genC19(g *Gen) {
	r := g.Rng
	small := []string{"a", "b", "ab", "a-b", "a b", "c", "d", "\x01", "é", c19Listing}
	caps := []int{0, 1, 32, 64}
	derived := c19DerivedNames()

	// 1. small random trees x selectors x prior destinations
	n := g.Vol(900, 5000)
	for i := 0; i < n; i++ {
		o := TreeOpts{MaxEntries: 3 + r.Intn(16), MaxDepth: 4, Names: small, Types: r.Chance(50), HardLinks: r.Chance(50),
			Xattrs: r.Chance(30), BigFiles: r.Chance(15), Owners: true}
		derivedNames := false
		if r.Chance(25) {
			o.Names = nil
		} else if r.Chance(20) {
			// names derived from the listing name, next to a few plain ones and the listing name itself
			o.Names = append([]string{"a", "b", "c", c19Listing}, derived...)
			derivedNames = true
		}
		src := GenView(r, o)
		stats := c19Walk(src)
		sel := c19GenSel(r, stats)
		if r.Chance(80) {
			c19CloseLinks(&sel, stats)
		}
		var prior []*MNode
		cls := "fresh"
		if derivedNames {
			cls = "derived-names+fresh"
			g.extra["derived_name_cases"] = g.extraInt("derived_name_cases") + 1
		}
		switch r.Intn(4) {
		case 1:
			prior = c19Prior(r, src, o.Names)
			cls = "dirty"
		case 2:
			prior = GenView(r, TreeOpts{MaxEntries: 8, MaxDepth: 3, Names: o.Names, Types: true})
			cls = "dirty-unrelated"
		}
		if lk := r.Intn(10); lk >= 1 && lk <= 5 && r.Chance(60) {
			prior = c19WithListing(r, prior, lk)
			cls += fmt.Sprintf("+prior-listing-%d", lk)
		}
		merge := r.Chance(15)
		if merge {
			cls += "+merge"
		}
		top, dk, nested := c19HasName(src, c19Listing)
		if dk {
			cls += "+src-listing-dir-with-children"
		} else if top {
			cls += "+src-listing-name"
		} else if nested {
			cls += "+src-nested-listing-name"
		}
		c19Emit(g, src, prior, sel, Pick(r, caps), merge, c19GenRw(r), "sel-"+sel.name+"/"+cls)
	}

	// 1b. directed: one entry whose name is derived from the listing name (temporary / backup /
	//     numbered / prefix / extension), of every type, at top level or nested, selected or not,
	//     next to ordinary entries; prior destinations that hold such a name themselves
	//     (file / symlink to the sentinel outside dest / directory), fresh and merge
	n = g.Vol(60, 400)
	mt := int64(1600000000) * 1e9
	for i := 0; i < n; i++ {
		name := derived[i%len(derived)]
		var nd *MNode
		typ := r.Intn(5)
		switch typ {
		case 0, 1:
			c := fillContent(r, 1+r.Intn(40))
			nd = &MNode{Name: name, Stat: &types.Stat{Mode: uint32(Pick(r, []int{0644, 0600, 0755})), ModTime: mt + int64(i), Size: int64(len(c))}, Content: c}
		case 2:
			nd = &MNode{Name: name, Stat: &types.Stat{Mode: uint32(os.ModeDir | 0755), ModTime: mt + int64(i)},
				Kids: []*MNode{{Name: "k", Stat: &types.Stat{Mode: 0644, ModTime: mt, Size: 1}, Content: []byte("k")}}}
		case 3:
			nd = &MNode{Name: name, Stat: &types.Stat{Mode: uint32(os.ModeSymlink | 0777), Linkname: "../sentinel", ModTime: mt}}
		default:
			nd = &MNode{Name: name, Stat: &types.Stat{Mode: uint32(os.ModeSymlink | 0777), Linkname: "nowhere", ModTime: mt}}
		}
		src := GenView(r, TreeOpts{MaxEntries: 5, MaxDepth: 2, Names: small[:8], Owners: true})
		nested := r.Chance(30)
		placed := false
		if nested {
			for _, k := range src {
				if k.IsDir() {
					k.Kids = append(k.Kids, nd)
					sortKids(k)
					placed = true
					break
				}
			}
		}
		if !placed {
			nested = false
			root := &MNode{Kids: append(src, nd)}
			sortKids(root)
			src = root.Kids
		}
		stats := c19Walk(src)
		var sel c19Sel
		switch r.Intn(4) {
		case 0:
			sel = c19Sel{table: map[string]bool{}, def: true, name: "all"}
		case 1:
			sel = c19Sel{table: map[string]bool{}, name: "only-derived"}
			for _, st := range stats {
				if st.Path == name || strings.HasSuffix(st.Path, "/"+name) || strings.Contains(st.Path, name+"/") {
					sel.table[st.Path] = true
				}
			}
		case 2:
			sel = c19Sel{table: map[string]bool{}, def: true, name: "all-but-derived"}
			for _, st := range stats {
				if st.Path == name || strings.HasSuffix(st.Path, "/"+name) {
					sel.table[st.Path] = false
				}
			}
		default:
			sel = c19GenSel(r, stats)
		}
		c19CloseLinks(&sel, stats)
		var prior []*MNode
		cls := fmt.Sprintf("derived-name-entry-type-%d", typ)
		if nested {
			cls += "+nested"
		}
		merge := false
		if pk := r.Intn(8); pk >= 1 && pk <= 5 {
			if r.Chance(50) {
				prior = c19Prior(r, src, small[:8])
			}
			prior = c19WithNamed(r, prior, name, pk)
			cls += fmt.Sprintf("+prior-derived-%d", pk)
			merge = r.Chance(40)
			if merge {
				cls += "+merge"
			}
		}
		g.extra["derived_name_cases"] = g.extraInt("derived_name_cases") + 1
		c19Emit(g, src, prior, sel, Pick(r, caps), merge, c19GenRw(r), cls+"/sel-"+sel.name)
	}

	// 2. listings spanning 1..6 buffer chunks (many entries, long names); few entries selected
	n = g.Vol(12, 90)
	for i := 0; i < n; i++ {
		chunks := 1 + i%6
		src := c19BigView(r, chunks)
		stats := c19Walk(src)
		sel := c19Sel{table: map[string]bool{}, name: "few"}
		for k := 0; k < 6; k++ {
			sel.table[stats[r.Intn(len(stats))].Path] = true
		}
		if i%5 == 4 {
			sel = c19Sel{table: map[string]bool{}, name: "dirs"}
			for _, st := range stats {
				if c19IsDir(st) {
					sel.table[st.Path] = true
				}
			}
		}
		var prior []*MNode
		if i%3 == 1 {
			prior = c19WithListing(r, nil, 1)
		}
		c19Emit(g, src, prior, sel, Pick(r, caps), false, (i%4)%3, fmt.Sprintf("big-listing-%d-chunks/sel-%s", chunks, sel.name))
	}

	// 3. single stats larger than one chunk (long xattr value; the key has no valid namespace,
	//    so that the receiver's LSetxattr fails and is ignored as in the code) next to small ones
	n = g.Vol(10, 80)
	for i := 0; i < n; i++ {
		src := GenView(r, TreeOpts{MaxEntries: 8, MaxDepth: 2, Names: small[:8], Owners: true})
		stats := c19Walk(src)
		if len(stats) == 0 {
			continue
		}
		var all []*MNode
		var rec func(ns []*MNode)
		rec = func(ns []*MNode) {
			for _, k := range ns {
				all = append(all, k)
				rec(k.Kids)
			}
		}
		rec(src)
		for k := 0; k < 1+r.Intn(2); k++ {
			nd := Pick(r, all)
			sz := fsutil.VerifChunkSize + 1 + r.Intn(3000)
			if r.Chance(30) {
				sz = 2*fsutil.VerifChunkSize + r.Intn(100)
			}
			if r.Chance(20) {
				sz = fsutil.VerifChunkSize - 40 + r.Intn(60) // around the boundary
			}
			nd.Stat.Xattrs = map[string][]byte{"verifbig": fillContent(r, sz)}
		}
		stats = c19Walk(src)
		sel := c19GenSel(r, stats)
		c19CloseLinks(&sel, stats)
		c19Emit(g, src, nil, sel, Pick(r, caps), false, c19GenRw(r), "big-stat/sel-"+sel.name)
	}

	// 4. buffer kind: record size sequences around the chunk boundary
	n = g.Vol(300, 3000)
	cs := fsutil.VerifChunkSize
	for i := 0; i < n; i++ {
		k := 1 + r.Intn(12)
		sizes := make([]Sx, k)
		big := false
		for j := range sizes {
			var s int
			switch r.Intn(8) {
			case 0:
				s = cs
			case 1:
				s = cs + 1 + r.Intn(5)
				big = true
			case 2:
				s = cs - 1 - r.Intn(5)
			case 3:
				s = cs/2 + r.Intn(3) - 1
			case 4:
				s = r.Intn(3)
			default:
				s = 4 + r.Intn(9000)
			}
			sizes[j] = NI(s)
		}
		cl := "buffer"
		if big {
			cl = "buffer+oversize-record"
		}
		g.Emit(0x1902, L(sizes...), k >= 2, cl)
	}
}
