package main

// C01, kind 0102: histories.  One on-disk source, one fsutil.FS object reused for several Send
// calls (or re-made: a flag), real edits of the source between the syncs, every sync into the
// persistent destination or into a fresh one.  The specification is evaluated on independent
// snapshots only (source before, destination before, destination after each sync).

import (
	"fmt"
	"os"
	"path/filepath"

	"github.com/tonistiigi/fsutil"
	"github.com/tonistiigi/fsutil/types"
)

func init() {
	kinds[0x0102] = run0102
}

// input: (view0 reuseFS ((ops destSel cap) ...))
//
//	ops     = ((code path arg) ...) applied to the source directory before the sync, best effort:
//	          1 replace by a new inode (write a temporary file next to it, rename over path)
//	          2 remove (RemoveAll)            3 unlink + create again (new inode, same name)
//	          4 hard link: arg = new name     5 overwrite in place (same inode)
//	          6 chmod 0600 <-> 0644           7 rename to arg
//	destSel = 0 the persistent destination, 1 a fresh destination
//
// output: ((send_err recv_err hung src_raw prior_raw dest_raw) ...) one record per sync
func run0102(in Sx) (out Sx) {
	work := WorkDir("c01h-")
	defer os.RemoveAll(work)
	src := filepath.Join(work, "src")
	dest0 := filepath.Join(work, "dest0")
	for _, d := range []string{src, dest0} {
		if err := os.Mkdir(d, 0755); err != nil {
			panic(err)
		}
	}
	if err := Materialize(SxView(in.L[0]), src); err != nil {
		return L(N(9), S("materialize src: "+err.Error()))
	}
	reuse := in.L[1].IsTrue()
	var fs fsutil.FS
	if reuse {
		var err error
		if fs, err = fsutil.NewFS(src); err != nil {
			panic(err)
		}
	}
	tick := int64(0)
	stamp := func(p string) {
		tick++
		lutimes(p, 1700000000e9+tick*1e9+int64(tick%7)*111)
	}
	var recs []Sx
	for i, step := range in.L[2].L {
		for _, op := range step.L[0].L {
			p := filepath.Join(src, op.L[1].Str())
			arg := op.L[2]
			switch op.L[0].Int() {
			case 1:
				tmp := p + ".c01new"
				if fi, err := os.Lstat(p); err == nil && fi.IsDir() {
					break
				}
				if os.WriteFile(tmp, arg.B, 0644) == nil {
					stamp(tmp)
					if os.Rename(tmp, p) != nil {
						os.Remove(tmp)
					}
				}
			case 2:
				os.RemoveAll(p)
			case 3:
				if fi, err := os.Lstat(p); err == nil && !fi.IsDir() {
					os.Remove(p)
					if os.WriteFile(p, arg.B, 0644) == nil {
						stamp(p)
					}
				}
			case 4:
				os.Link(p, filepath.Join(src, arg.Str()))
			case 5:
				if fi, err := os.Lstat(p); err == nil && fi.Mode().IsRegular() {
					if os.WriteFile(p, arg.B, 0644) == nil {
						stamp(p)
					}
				}
			case 6:
				if fi, err := os.Lstat(p); err == nil && fi.Mode().IsRegular() {
					m := os.FileMode(0600)
					if fi.Mode().Perm() == 0600 {
						m = 0644
					}
					os.Chmod(p, m)
				}
			case 7:
				os.Rename(p, filepath.Join(src, arg.Str()))
			}
		}
		dest := dest0
		if step.L[1].IsTrue() {
			dest = filepath.Join(work, fmt.Sprintf("dest%d", i+1))
			if err := os.Mkdir(dest, 0755); err != nil {
				panic(err)
			}
		}
		if !reuse {
			var err error
			if fs, err = fsutil.NewFS(src); err != nil {
				panic(err)
			}
		}
		ssnap, err := SnapshotRaw(src, true)
		if err != nil {
			return L(N(9), S("snapshot src: "+err.Error()))
		}
		psnap, err := SnapshotRaw(dest, true)
		if err != nil {
			return L(N(9), S("snapshot prior: "+err.Error()))
		}
		res := RunTransfer(TransferCfg{Src: fs, Dest: dest, StreamCap: step.L[2].Int()})
		dsnap, err := SnapshotRaw(dest, true)
		if err != nil {
			return L(N(9), S("snapshot dest: "+err.Error()))
		}
		recs = append(recs, L(errClass(res.SendErr), errClass(res.RecvErr), Bool(res.Hung), RawListSx(ssnap), RawListSx(psnap), RawListSx(dsnap)))
	}
	return L(recs...)
}

// c01AddLinkGroup gives the view a link group of n names at the root: a regular file and n-1
// later names (in walk order) that name it.
func c01AddLinkGroup(r *Rng, roots []*MNode, n int) []*MNode {
	base := Pick(r, []string{"f0", "g", "k1"})
	for _, x := range roots {
		if len(x.Name) >= len(base) && x.Name[:len(base)] == base {
			return roots
		}
	}
	content := fillContent(r, 1+r.Intn(9))
	st := &types.Stat{Mode: 0644, Size: int64(len(content)), ModTime: int64(1600000000+r.Intn(1000)) * 1e9}
	roots = append(roots, &MNode{Name: base, Stat: st, Content: content})
	for i := 1; i < n; i++ {
		l := st.CloneVT()
		l.Linkname = base
		roots = append(roots, &MNode{Name: fmt.Sprintf("%s.%d", base, i), Stat: l, Content: content})
	}
	return roots
}

func c01ViewPaths(roots []*MNode) (files, links, firsts, all []string) {
	var rec func(dir string, ns []*MNode)
	isFirst := map[string]bool{}
	rec = func(dir string, ns []*MNode) {
		for _, n := range ns {
			p := n.Name
			if dir != "" {
				p = dir + "/" + n.Name
			}
			all = append(all, p)
			if os.FileMode(n.Stat.Mode)&os.ModeType == 0 {
				if n.Stat.Linkname != "" {
					links = append(links, p)
					if !isFirst[n.Stat.Linkname] {
						isFirst[n.Stat.Linkname] = true
						firsts = append(firsts, n.Stat.Linkname)
					}
				} else {
					files = append(files, p)
				}
			}
			rec(p, n.Kids)
		}
	}
	rec("", roots)
	return
}

func genC01Hist(g *Gen) {
	small := []string{"a", "b", "ab", "a-b", "c", "d", "e"}
	for i := g.Vol(120, 1500); i > 0; i-- {
		r := g.Rng
		o := TreeOpts{MaxEntries: 3 + r.Intn(9), MaxDepth: 2, Names: small, Types: r.Chance(40), HardLinks: r.Chance(60), Xattrs: r.Chance(30), Owners: true}
		view := GenView(r, o)
		cls := "hist"
		if r.Chance(70) {
			view = c01AddLinkGroup(r, view, 2+r.Intn(3))
		}
		root := &MNode{Kids: view}
		sortKids(root)
		fixLinks(root.Kids)
		view = root.Kids
		files, links, firsts, all := c01ViewPaths(view)
		reuse := r.Chance(75)
		if reuse {
			cls += "+reuse"
		} else {
			cls += "+newfs"
		}
		nsync := 2 + r.Intn(3)
		var steps []Sx
		nops := 0
		hitFirst := false
		for s := 0; s < nsync; s++ {
			var ops []Sx
			if s > 0 || r.Chance(20) {
				for k := r.Intn(4); k > 0; k-- {
					pool := all
					switch x := r.Intn(10); {
					case x < 4 && len(firsts) > 0:
						pool = firsts
					case x < 6 && len(links) > 0:
						pool = links
					case x < 8 && len(files) > 0:
						pool = files
					}
					if len(pool) == 0 {
						continue
					}
					p := Pick(r, pool)
					code := Pick(r, []int{1, 1, 1, 2, 3, 3, 4, 5, 6, 7})
					arg := B(fillContent(r, 1+r.Intn(9)))
					if code == 4 || code == 7 {
						arg = S(p + Pick(r, []string{".n", "~", "2"}))
						all = append(all, p+".x")
					}
					for _, f := range firsts {
						if f == p && (code == 1 || code == 3 || code == 7 || code == 2) {
							hitFirst = true
						}
					}
					ops = append(ops, L(NI(code), S(p), arg))
					nops++
				}
			}
			steps = append(steps, L(L(ops...), Bool(r.Chance(35)), NI(Pick(r, []int{0, 1, 32}))))
		}
		if hitFirst {
			cls += "+first-name-replaced"
		}
		in := L(ViewSx(view), Bool(reuse), L(steps...))
		g.Emit(0x0102, in, nops > 0, cls)
	}
}
